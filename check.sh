#!/bin/sh
# usage: ./check.sh <property> <quick|thorough>
# Builds the checker if needed (offline, from files on disk) and evaluates the property's rules
# on /repo's current working tree.
set -u
cd "$(dirname "$0")"
export GOFLAGS=-mod=mod GOPROXY=off GOSUMDB=off GOTOOLCHAIN=local GOWORK=off
unset GOARCH GOOS
if [ ! -x bin/gtverif ] || [ -n "$(find checker -newer bin/gtverif -type f \( -name '*.go' -o -name go.mod \) 2>/dev/null | head -1)" ]; then
  mkdir -p bin
  (cd checker && go build -o ../bin/gtverif .) || { echo "ERROR: checker build failed"; exit 1; }
fi
exec bin/gtverif check -prop "$1" -tier "${2:-quick}"
