package main

import (
	"fmt"
	"go/ast"
	"go/constant"
	"go/token"
	"go/types"
	"math/big"
	"strings"
)

func init() { props["C14"] = checkC14 }

func checkC14(c *Ctx) {
	c.Decides("TABLE: pathLengths, executed symbolically per metric and per presence regime, adds for a branch: its support (1 when absent) under the support metric, 1 under the topological metric, its length (0 when absent) otherwise; the walk passes curlength+that value on and records a tip's distance exactly when it is a tip other than the start")
	c.Decides("ORDER/LF: ToDistanceMatrix sorts tips by name before numbering them and fills row i from tip i starting at 0; AvgDistanceMatrix adds entry (i,j) of each further matrix to entry (i,j), counts every tree once and divides every entry by the count")
	c.Decides("SIBLING/SYM: both flood-fill sites cross a branch under the same relation Length() < threshold; a kept branch is explored from both ends and a removed branch yields a singleton group for each end that is a tip")
	c.DoesNotDecide("the sums along paths as such, symmetry of the matrix, exactness of the connected components (flood-fill reachability)")
	c.Decides("NO-BREAK: no loop of CutEdgesMaxLength (the loop over the branches that start the flood fills) is left by a break: every branch is examined, so every tip ends in a group")
	if fi := c.Func("tree", "Tree", "CutEdgesMaxLength"); fi != nil {
		c.noBreakLoops("NO-BREAK", fi, "partitions the tips exactly into the groups connected by branches shorter than the threshold", "starts a flood fill from every branch")
	}
	c.Floor("NO-BREAK", 1)
	c.Decides("THRESHOLD-AS-GIVEN: the cut functions never assign their threshold parameter: lengths are compared with the value given")
	c.thresholdAsGiven("THRESHOLD-AS-GIVEN", []*FuncInfo{c.Func("tree", "Tree", "CutEdgesMaxLength"), c.Func("tree", "Tree", "cutEdgesMaxLengthRecur")}, "partitions the tips exactly into the groups connected by branches shorter than the threshold")
	c.Floor("THRESHOLD-AS-GIVEN", 2)
	c.pathLengthsTable()
	c.Decides("TABLE: in the matrix command the documented values of -m select the metric they name (brlen, boot, none)")
	c.matrixMetricTable("TABLE", "according to the chosen metric")
	c.distanceMatrixOrder()
	c.avgMatrix()
	c.cutEdges()
	c.avgMetricUnchanged()
	c.cutIdsBeforeFill()
	c.Decides("DUP-NAME: TipBag.AddTip compares the tip already recorded under a name with the tip given and returns an error when they differ (two tips with one name are not merged into one group member)")
	c.tipBagDupName("DUP-NAME", "partitions the tips exactly into the groups connected by branches shorter than the threshold")
	c.Floor("DUP-NAME", 1)
	c.Decides("CMD-REACHES: in the matrix command nothing between the head of the loop over the input trees and the call of ToDistanceMatrix leaves the iteration except under an error test")
	c.cmdReaches("CMD-REACHES", "cmd/matrix.go", []string{"ToDistanceMatrix"}, "the patristic distance matrix of a tree")
	c.cmdReaches("CMD-REACHES", "cmd/brlencut.go", []string{"CutEdgesMaxLength"}, "partitions the tips exactly into the groups connected by branches shorter than the threshold")
	c.Floor("CMD-REACHES", 2)
	c.Floor("TABLE", 5)
	c.Floor("ORDER", 3)
	c.Floor("LF", 3)
	c.Floor("SIBLING", 1)
	c.Floor("SYM", 2)
}

func (c *Ctx) pathLengthsTable() {
	fi := c.Func("tree", "", "pathLengths")
	if fi == nil {
		return
	}
	info := fi.Pkg.TypesInfo
	name := "tree.pathLengths"
	clause := "the sum over the path joining them of branch lengths (or of ones, or of supports, according to the chosen metric)"
	cur, prev, lengths, curlength, metric := paramObj(info, fi.Decl, 0), paramObj(info, fi.Decl, 1), paramObj(info, fi.Decl, 2), paramObj(info, fi.Decl, 3), paramObj(info, fi.Decl, 4)
	// the recursive call and the value it adds
	var rec *ast.CallExpr
	for _, call := range callsIn(fi.Decl.Body, false) {
		if calleeOf(info, call) == fi.Obj {
			rec = call
		}
	}
	if rec == nil || len(rec.Args) != 5 {
		c.Undecided("TABLE", name+"/walk", fi.Decl.Pos(), "recursive call not found")
		return
	}
	// curlength + l
	sum, ok := unparen(rec.Args[3]).(*ast.BinaryExpr)
	var lObj types.Object
	if ok && sum.Op == token.ADD {
		if identObj(info, sum.X) == curlength {
			lObj = identObj(info, sum.Y)
		} else if identObj(info, sum.Y) == curlength {
			lObj = identObj(info, sum.X)
		}
	}
	var hcall *ast.CallExpr
	if lObj == nil && ok && sum.Op == token.ADD {
		other := sum.Y
		if identObj(info, sum.Y) == curlength {
			other = sum.X
		}
		if identObj(info, sum.X) == curlength || identObj(info, sum.Y) == curlength {
			if cl, isCall := unparen(other).(*ast.CallExpr); isCall && inRepo(calleeOf(info, cl)) {
				hcall = cl
			}
		}
	}
	if lObj != nil {
		// `step := helper(branch, metric)`: the local only names the helper's result
		n, def := 0, ast.Expr(nil)
		forAssignsTo(info, fi.Decl.Body, lObj, func(rhs ast.Expr, multi, incdec bool) {
			n++
			def = rhs
		})
		if n == 1 && def != nil {
			if cl, isCall := unparen(def).(*ast.CallExpr); isCall && inRepo(calleeOf(info, cl)) && c.FuncOfObj(calleeOf(info, cl)) != nil {
				if _, isGetter := c.getters[calleeOf(info, cl)]; !isGetter {
					hcall, lObj = cl, nil
				}
			}
		}
	}
	if lObj == nil && hcall == nil {
		c.Violation("TABLE", name+"/accumulate", rec.Pos(), "the walk does not pass on curlength + (value of the branch): got "+c.src(rec.Args[3])).Clause = clause
		return
	}
	c.OK("TABLE", name+"/accumulate", rec.Pos(), "passes on curlength + the branch's contribution")
	// the program that computes the added value: the statements of the enclosing block before the
	// recursive call (value in a local), or the body of the helper called in its place
	var program []ast.Stmt
	var progInfo = info
	var metricObj types.Object = metric
	var resultObj types.Object // local holding the value (nil: the program returns it)
	eName := ""
	edgeType := func(t types.Type) bool { return t != nil && strings.HasSuffix(t.String(), "tree.Edge") }
	if lObj != nil {
		resultObj = lObj
		st := stackTo(fi.Decl.Body, rec)
		var blk []ast.Stmt
		for _, s := range st {
			switch b := s.(type) {
			case *ast.BlockStmt:
				blk = b.List
			case *ast.CaseClause:
				blk = b.Body
			}
		}
		for _, s := range blk {
			if nodeContains(s, rec.Pos()) {
				break
			}
			// a skip guard (`if child == prev { continue }`) selects which neighbours are walked, not
			// what a walked branch contributes: it is not part of the program that computes the value
			if is, ok := s.(*ast.IfStmt); ok && is.Else == nil && is.Init == nil && len(is.Body.List) == 1 && !mentions(info, is.Cond, metric) {
				if br, ok := is.Body.List[0].(*ast.BranchStmt); ok && br.Tok == token.CONTINUE {
					continue
				}
			}
			program = append(program, s)
			if as, ok := s.(*ast.AssignStmt); ok && len(as.Lhs) == 1 && edgeType(info.TypeOf(as.Lhs[0])) {
				eName = identObj(info, as.Lhs[0]).Name()
			}
		}
	} else if hcall != nil {
		h := c.FuncOfObj(calleeOf(info, hcall))
		if h == nil {
			c.Undecided("TABLE", name+"/metric-table", rec.Pos(), "the helper computing the branch's contribution has no body in the repository")
			return
		}
		progInfo = h.Pkg.TypesInfo
		program = h.Decl.Body.List
		metricObj = nil
		for i, a := range hcall.Args {
			p := paramObj(progInfo, h.Decl, i)
			if p == nil {
				continue
			}
			if identObj(info, a) == metric {
				metricObj = p
			}
			if edgeType(p.Type()) {
				eName = p.Name()
			}
		}
	}
	if eName == "" || metricObj == nil || len(program) == 0 {
		c.Undecided("TABLE", name+"/metric-table", rec.Pos(), "cannot identify the branch, the metric and the statements computing the branch's contribution")
		return
	}
	cv := func(n string) *poly {
		if o, ok := fi.Pkg.Types.Scope().Lookup(n).(*types.Const); ok {
			if v, ok := constant.Int64Val(o.Val()); ok {
				return pInt(v)
			}
		}
		return nil
	}
	type want struct{ present, absent string }
	cases := []struct {
		label string
		val   *poly
		w     want
	}{
		{"DISTANCE_METRIC_BOOTS", cv("DISTANCE_METRIC_BOOTS"), want{eName + ".support", "1"}},
		{"DISTANCE_METRIC_NONE", cv("DISTANCE_METRIC_NONE"), want{"1", "1"}},
		{"DISTANCE_METRIC_BRLEN", cv("DISTANCE_METRIC_BRLEN"), want{eName + ".length", "0"}},
		{"any-other-value", pInt(977), want{eName + ".length", "0"}},
	}
	for _, cs := range cases {
		if cs.val == nil {
			c.Undecided("TABLE", name+"/"+cs.label, rec.Pos(), "metric constant not found")
			continue
		}
		for _, regime := range []string{"present", "absent"} {
			rank := map[string]int{eName + ".support": 1, "NIL_SUPPORT": 0, eName + ".length": 3, "NIL_LENGTH": 2, eName + ".pvalue": 5, "NIL_PVALUE": 4}
			if regime == "absent" {
				rank[eName+".support"] = 0
				rank[eName+".length"] = 2
			}
			x := c.newSymExec(progInfo, nil, rank)
			x.env.vals[metricObj] = cs.val
			ret, err := x.run(program)
			key := name + "/" + cs.label + "/" + regime
			if err != nil {
				c.Undecided("TABLE", key, rec.Pos(), "symbolic execution stopped: "+err.Error())
				continue
			}
			got := ret
			if resultObj != nil {
				got = x.env.vals[resultObj]
			}
			exp := cs.w.present
			if regime == "absent" {
				exp = cs.w.absent
			}
			gs := "<unset>"
			if got != nil {
				gs = got.String()
			}
			c.Check(gs == exp, "TABLE", key, rec.Pos(), "adds "+gs, fmt.Sprintf("under metric %s a branch whose value is %s contributes %s to the path, the property requires %s", cs.label, regime, gs, exp)).Clause = clause
		}
	}
	// record: lengths[cur.Id()] = curlength iff cur.Tip() && prev != nil
	for _, n := range fi.Decl.Body.List {
		_ = n
	}
	found := false
	ast.Inspect(fi.Decl.Body, func(n ast.Node) bool {
		as, ok := n.(*ast.AssignStmt)
		if !ok || len(as.Lhs) != 1 || len(as.Rhs) != 1 {
			return true
		}
		ix, ok := unparen(as.Lhs[0]).(*ast.IndexExpr)
		if !ok || identObj(info, ix.X) != lengths {
			return true
		}
		found = true
		good := c.canon(info, ix.Index, nil) == cur.Name()+".id" && identObj(info, as.Rhs[0]) == curlength && as.Tok == token.ASSIGN
		conds, okc := c.pathConds(info, fi.Decl.Body, as, false)
		code := c.condsToBexpr(info, conds, nil)
		spec := bAnd(bAtom(cur.Name()+".Tip()"), bCmp(prev.Name(), token.NEQ, "nil"))
		eq, wit, _, err := gfEquiv(code, spec)
		if !okc || err != nil {
			c.Undecided("TABLE", name+"/record", as.Pos(), "guard shape not understood")
			return true
		}
		c.Check(good && eq, "TABLE", name+"/record", as.Pos(), "distance recorded at the tip's own index iff it is a tip other than the start", "the distance is recorded as "+c.src(as)+" under "+code.String()+"; expected lengths[cur.Id()] = curlength exactly for tips other than the start (zero diagonal): "+wit).Clause = "symmetric with a zero diagonal"
		return true
	})
	if !found {
		c.Violation("TABLE", name+"/record", fi.Decl.Pos(), "no distance is recorded").Clause = clause
	}
	// the walk descends into every neighbour but the one it came from
	conds, okc := c.pathConds(info, fi.Decl.Body, rec, true)
	var rel []cond
	for _, cd := range conds {
		if cd.Expr != nil && mentions(info, cd.Expr, prev) {
			rel = append(rel, cd)
		}
	}
	var rs *ast.RangeStmt
	for _, s := range stackTo(fi.Decl.Body, rec) {
		if r, ok := s.(*ast.RangeStmt); ok {
			rs = r
		}
	}
	if rs != nil && rs.Value != nil && okc {
		code := c.condsToBexpr(info, rel, nil)
		eq, wit, _, err := gfEquiv(code, bCmp(identObj(info, rs.Value).Name(), token.NEQ, prev.Name()))
		if err != nil {
			c.Undecided("TABLE", name+"/descend", rec.Pos(), err.Error())
		} else {
			c.Check(eq && c.canon(info, rs.X, nil) == cur.Name()+".neigh", "TABLE", name+"/descend", rec.Pos(), "descends into every neighbour except the previous node", "the walk descends under "+code.String()+": "+wit).Clause = clause
		}
	} else if child := firstArgObj(info, rec); rs == nil && child != nil && okc {
		// the same walk written as a counting loop: `for i := 0; i < len(cur.neigh); i++ { child := cur.neigh[i] …`
		if container, isElem := c.loopElement(info, fi.Decl.Body, rec, rec.Args[0], nil); isElem {
			code := c.condsToBexpr(info, rel, nil)
			eq, wit, _, err := gfEquiv(code, bCmp(child.Name(), token.NEQ, prev.Name()))
			if err != nil {
				c.Undecided("TABLE", name+"/descend", rec.Pos(), err.Error())
			} else {
				c.Check(eq && container == cur.Name()+".neigh", "TABLE", name+"/descend", rec.Pos(), "descends into every neighbour except the previous node", "the walk descends under "+code.String()+" over "+container+": "+wit).Clause = clause
			}
		}
	}
}

func firstArgObj(info *types.Info, call *ast.CallExpr) types.Object {
	if len(call.Args) == 0 {
		return nil
	}
	return identObj(info, call.Args[0])
}

func constObj(info *types.Info, e ast.Expr) *types.Const {
	switch x := unparen(e).(type) {
	case *ast.Ident:
		cn, _ := info.Uses[x].(*types.Const)
		return cn
	case *ast.SelectorExpr:
		cn, _ := info.Uses[x.Sel].(*types.Const)
		return cn
	}
	return nil
}

func (c *Ctx) distanceMatrixOrder() {
	fi := c.Func("tree", "Tree", "ToDistanceMatrix")
	pl := c.Func("tree", "", "pathLengths")
	if fi == nil || pl == nil {
		return
	}
	info := fi.Pkg.TypesInfo
	name := "tree.Tree.ToDistanceMatrix"
	clause := "rows follow tip-name order"
	var sortCall, plCall *ast.CallExpr
	var setId *ast.CallExpr
	for _, call := range callsIn(fi.Decl.Body, false) {
		fn := calleeOf(info, call)
		switch {
		case isFunc(fn, "sort", "", "Slice") || isFunc(fn, "sort", "", "SliceStable"):
			sortCall = call
		case fn == pl.Obj:
			plCall = call
		case isRepoFunc(fn, "tree", "Node", "SetId"):
			setId = call
		}
	}
	if sortCall == nil || plCall == nil || setId == nil {
		c.Violation("ORDER", name+"/sort-then-number", fi.Decl.Pos(), "expected sort of the tips by name, numbering of the tips and one walk per tip").Clause = clause
		return
	}
	tips := identObj(info, sortCall.Args[0])
	// less: tips[i].Name() < tips[j].Name()
	okLess := false
	if fl, ok := unparen(sortCall.Args[1]).(*ast.FuncLit); ok && len(fl.Body.List) == 1 {
		if ret, ok := fl.Body.List[0].(*ast.ReturnStmt); ok && len(ret.Results) == 1 {
			if be, ok := unparen(ret.Results[0]).(*ast.BinaryExpr); ok && (be.Op == token.LSS || be.Op == token.GTR) {
				i, j := paramOfLit(info, fl, 0), paramOfLit(info, fl, 1)
				l, r := be.X, be.Y
				if be.Op == token.GTR {
					l, r = r, l
				}
				o := &canonOpts{subst: map[types.Object]string{i: "$i", j: "$j"}}
				if tips != nil && c.canon(info, l, o) == tips.Name()+"[$i].name" && c.canon(info, r, o) == tips.Name()+"[$j].name" {
					okLess = true
				}
			}
		}
	}
	c.Check(okLess, "ORDER", name+"/sort-by-name", sortCall.Pos(), "tips sorted by ascending name", "the tips are not sorted by ascending name (less = "+c.src(sortCall.Args[1])+")").Clause = clause
	c.Check(sortCall.Pos() < setId.Pos() && sortCall.Pos() < plCall.Pos(), "ORDER", name+"/sort-then-number", sortCall.Pos(), "sorted before ids are assigned and before the walks", "tips are numbered or walked before they are sorted by name: row order and indexes disagree").Clause = clause
	// element key: a range value over tips stands for tips[key]
	elemKey := func(e ast.Expr, at ast.Node) string {
		if o := identObj(info, e); o != nil {
			for _, s := range stackTo(fi.Decl.Body, at) {
				if rs, ok := s.(*ast.RangeStmt); ok && identObj(info, rs.X) == tips && rs.Value != nil && rs.Key != nil && identObj(info, rs.Value) == o {
					return tips.Name() + "[" + c.canon(info, rs.Key, nil) + "]"
				}
			}
		}
		return c.canon(info, e, nil)
	}
	// tip at rank i gets id i
	okId := false
	if sel, ok := unparen(setId.Fun).(*ast.SelectorExpr); ok && len(setId.Args) == 1 {
		okId = elemKey(sel.X, setId) == tips.Name()+"["+c.canon(info, setId.Args[0], nil)+"]"
	}
	c.Check(okId, "ORDER", name+"/id=rank", setId.Pos(), "tip at rank i gets id i", "tip ids are not the ranks in name order").Clause = clause
	// pathLengths(tips[i], nil, matrix[i], 0, metric)
	okWalk := false
	if len(plCall.Args) == 5 {
		row, isIx := unparen(plCall.Args[2]).(*ast.IndexExpr)
		zero := false
		if tv, ok := info.Types[plCall.Args[3]]; ok && tv.Value != nil && tv.Value.String() == "0" {
			zero = true
		}
		if isIx && zero && isNilIdent(info, plCall.Args[1]) && identObj(info, plCall.Args[4]) == paramObj(info, fi.Decl, 0) {
			okWalk = elemKey(plCall.Args[0], plCall) == tips.Name()+"["+c.canon(info, row.Index, nil)+"]"
		}
	}
	c.Check(okWalk, "ORDER", name+"/row-i-from-tip-i", plCall.Pos(), "row i is filled by the walk from tip i, starting at 0 with the requested metric", "row i is not filled by a walk from tip i starting at distance 0 with the requested metric: "+c.src(plCall)).Clause = clause
}

func paramOfLit(info *types.Info, fl *ast.FuncLit, i int) types.Object {
	k := 0
	for _, f := range fl.Type.Params.List {
		for _, n := range f.Names {
			if k == i {
				return info.Defs[n]
			}
			k++
		}
	}
	return nil
}

func (c *Ctx) avgMatrix() {
	fi := c.Func("tree", "", "AvgDistanceMatrix")
	if fi == nil {
		return
	}
	info := fi.Pkg.TypesInfo
	name := "tree.AvgDistanceMatrix"
	clause := "the average matrix over several trees is the entrywise mean"
	var matrix types.Object
	if fi.Decl.Type.Results != nil && len(fi.Decl.Type.Results.List) > 0 && len(fi.Decl.Type.Results.List[0].Names) > 0 {
		matrix = info.Defs[fi.Decl.Type.Results.List[0].Names[0]]
	}
	var chanLoop *ast.RangeStmt
	ast.Inspect(fi.Decl.Body, func(n ast.Node) bool {
		if rs, ok := n.(*ast.RangeStmt); ok && chanLoop == nil {
			if _, isChan := info.TypeOf(rs.X).Underlying().(*types.Chan); isChan {
				chanLoop = rs
			}
		}
		return true
	})
	if matrix == nil || chanLoop == nil {
		c.Undecided("LF", name, fi.Decl.Pos(), "result matrix / loop over the trees not found")
		return
	}
	// the first tree initialises the accumulator: the matrix is assigned from ToDistanceMatrix inside
	// the loop exactly where it is still nil (anywhere else the first tree is added to a nil matrix, or
	// every tree restarts the sum)
	{
		okInit, nInit := false, 0
		var at token.Pos = chanLoop.Pos()
		ast.Inspect(chanLoop.Body, func(n ast.Node) bool {
			as, ok := n.(*ast.AssignStmt)
			if !ok || len(as.Rhs) != 1 || len(as.Lhs) < 1 || identObj(info, as.Lhs[0]) != matrix {
				return true
			}
			cl, ok := unparen(as.Rhs[0]).(*ast.CallExpr)
			if !ok || !isRepoFunc(calleeOf(info, cl), "tree", "Tree", "ToDistanceMatrix") {
				return true
			}
			nInit++
			at = as.Pos()
			if conds, okc := c.pathConds(info, fi.Decl.Body, as, true); okc {
				for _, cd := range conds {
					if cd.Expr == nil {
						continue
					}
					if o, nonNil, isNil := nilTest(info, cd.Expr); isNil && o == matrix && (nonNil == cd.Neg) {
						okInit = true
					}
				}
			}
			return true
		})
		if nInit > 0 {
			c.Check(okInit && nInit == 1, "LF", name+"/first-tree-initialises", at, "the accumulator is taken from the first tree, where it is still nil", "the accumulated matrix is assigned from a tree's matrix somewhere else than under `matrix == nil`: the first tree is added to a nil matrix, or every tree restarts the sum").Clause = clause
		}
	}
	// stores into matrix[a][b]: one accumulation (+= m2[a][b], or = itself + m2[a][b]) and one division
	env := c.newLFEnv(info, fi.Decl.Body)
	type mst struct {
		as   *ast.AssignStmt
		a, b string
		rhs  *poly
	}
	var adds, divs []mst
	var counter types.Object
	ast.Inspect(fi.Decl.Body, func(n ast.Node) bool {
		as, ok := n.(*ast.AssignStmt)
		if !ok || len(as.Lhs) != 1 || len(as.Rhs) != 1 {
			return true
		}
		o2, ok := unparen(as.Lhs[0]).(*ast.IndexExpr)
		if !ok {
			return true
		}
		o1, ok := unparen(o2.X).(*ast.IndexExpr)
		if !ok || identObj(info, o1.X) != matrix {
			return true
		}
		m := mst{as: as, a: c.canon(info, o1.Index, nil), b: c.canon(info, o2.Index, nil)}
		self := c.canon(info, as.Lhs[0], nil)
		if _, d, ok := c.incrementDelta(env, as); ok {
			m.rhs = d
			adds = append(adds, m)
			return true
		}
		// division: x /= r ; x = x / r
		var r ast.Expr
		switch as.Tok {
		case token.QUO_ASSIGN:
			r = as.Rhs[0]
		case token.ASSIGN:
			if be, ok := unparen(as.Rhs[0]).(*ast.BinaryExpr); ok && be.Op == token.QUO && c.canon(info, be.X, nil) == self {
				r = be.Y
			}
		}
		if r != nil {
			if p, err := env.fold(r); err == nil {
				m.rhs = p
				divs = append(divs, m)
				return true
			}
		}
		c.Violation("LF", name+"/entry-store", as.Pos(), "result entry written by `"+c.src(as.Lhs[0])+" "+as.Tok.String()+" "+c.src(as.Rhs[0])+"`: neither an accumulation nor the final division").Clause = clause
		return true
	})
	if len(adds) != 1 || len(divs) != 1 {
		c.Violation("LF", name+"/mean", fi.Decl.Pos(), fmt.Sprintf("expected one accumulation and one division of the entries, found %d and %d", len(adds), len(divs))).Clause = clause
		return
	}
	// accumulation: the delta is entry (i,j) of the current tree's matrix
	okAdd := false
	if at, q, ok := adds[0].rhs.singleAtom(); ok && q.Cmp(big.NewRat(1, 1)) == 0 && strings.HasSuffix(at, "["+adds[0].a+"]["+adds[0].b+"]") && nodeContains(chanLoop.Body, adds[0].as.Pos()) {
		srcName := strings.TrimSuffix(at, "["+adds[0].a+"]["+adds[0].b+"]")
		if srcName != matrix.Name() {
			ast.Inspect(chanLoop.Body, func(n ast.Node) bool {
				if as, ok := n.(*ast.AssignStmt); ok && len(as.Lhs) >= 1 && len(as.Rhs) == 1 {
					if lo := identObj(info, as.Lhs[0]); lo != nil && lo.Name() == srcName {
						if cl, ok := unparen(as.Rhs[0]).(*ast.CallExpr); ok && isRepoFunc(calleeOf(info, cl), "tree", "Tree", "ToDistanceMatrix") {
							okAdd = true
						}
					}
				}
				return true
			})
		}
	}
	c.Check(okAdd, "LF", name+"/accumulate", adds[0].as.Pos(), "entry (i,j) += entry (i,j) of the current tree's matrix", "the accumulation `"+c.src(adds[0].as.Lhs[0])+" "+adds[0].as.Tok.String()+" "+c.src(adds[0].as.Rhs[0])+"` does not add entry (i,j) of the current tree's matrix to entry (i,j)").Clause = clause
	// division by the tree count, after the loop
	okDiv := false
	if at, q, ok := divs[0].rhs.singleAtom(); ok && q.Cmp(big.NewRat(1, 1)) == 0 && divs[0].as.Pos() > chanLoop.End() {
		ast.Inspect(fi.Decl.Body, func(n ast.Node) bool {
			if id, ok := n.(*ast.Ident); ok && id.Name == at {
				if o := identObj(info, id); o != nil && isInteger(o.Type()) {
					counter = o
				}
			}
			return true
		})
		okDiv = counter != nil
	}
	c.Check(okDiv, "LF", name+"/divide", divs[0].as.Pos(), "every entry divided by the tree count after the loop", "the final division is not `entry / number of trees` after all trees were read").Clause = clause
	if counter != nil {
		// counter + 1 exactly once per tree: a top-level statement of the loop body
		n, other := 0, 0
		for _, s := range chanLoop.Body.List {
			if t, d, ok := c.incrementDelta(env, s); ok && t == counter.Name() && d.String() == "1" {
				n++
			}
		}
		ast.Inspect(fi.Decl.Body, func(m ast.Node) bool {
			switch s := m.(type) {
			case *ast.IncDecStmt:
				if identObj(info, s.X) == counter {
					other++
				}
			case *ast.AssignStmt:
				for _, l := range s.Lhs {
					if identObj(info, l) == counter {
						other++
					}
				}
			}
			return true
		})
		c.Check(n == 1 && other == 1, "LF", name+"/count", chanLoop.Pos(), "the count is incremented once per tree, unconditionally", "the tree count is not incremented exactly once per tree read: the mean is taken over the wrong number").Clause = clause
	}
	// the division covers the same index space as the accumulation
	c.Check(divs[0].a == adds[0].a && divs[0].b == adds[0].b, "LF", name+"/same-entries", divs[0].as.Pos(), "division and accumulation address the same entries", "division and accumulation do not address the same entries").Clause = clause
}

func (c *Ctx) cutEdges() {
	top := c.Func("tree", "Tree", "CutEdgesMaxLength")
	rec := c.Func("tree", "Tree", "cutEdgesMaxLengthRecur")
	if top == nil || rec == nil {
		return
	}
	info := top.Pkg.TypesInfo
	clause := "partitions the tips exactly into the groups connected by branches shorter than the threshold"
	// the threshold relation at both sites
	rel := func(fi *FuncInfo, maxlen types.Object) (string, token.Pos) {
		var out string
		var p token.Pos
		ast.Inspect(fi.Decl.Body, func(n ast.Node) bool {
			be, ok := n.(*ast.BinaryExpr)
			if !ok {
				return true
			}
			switch be.Op {
			case token.LSS, token.LEQ, token.GTR, token.GEQ:
			default:
				return true
			}
			l, r, op := be.X, be.Y, be.Op
			if identObj(info, l) == maxlen {
				l, r = r, l
				op = map[token.Token]token.Token{token.LSS: token.GTR, token.GTR: token.LSS, token.LEQ: token.GEQ, token.GEQ: token.LEQ}[op]
			}
			if identObj(info, r) == maxlen && strings.HasSuffix(c.canon(info, l, nil), ".length") {
				out += op.String()
				p = be.Pos()
			}
			return true
		})
		return out, p
	}
	r1, p1 := rel(top, paramObj(info, top.Decl, 0))
	r2, _ := rel(rec, paramObj(info, rec.Decl, 3))
	c.Check(r1 == "<" && r2 == "<", "SIBLING", "tree.Tree.CutEdgesMaxLength/threshold-relation", p1, "both sites cross a branch iff Length() < threshold", fmt.Sprintf("the two flood-fill sites compare Length() with the threshold using %q and %q; both must be `<` (a branch equal to the threshold is cut at both sites, or groups depend on where the fill starts)", r1, r2)).Clause = clause
	// the fill marks exactly the branches it crosses: a mark on a branch it only examined (a removed
	// one) hides that branch from the outer loop, and the tip behind it then belongs to no group
	{
		rinfo := rec.Pkg.TypesInfo
		var visitedObj types.Object
		for i := 0; i < rec.Obj.Type().(*types.Signature).Params().Len(); i++ {
			if p := paramObj(rinfo, rec.Decl, i); p != nil {
				if sl, ok := p.Type().Underlying().(*types.Slice); ok {
					if b, ok := sl.Elem().Underlying().(*types.Basic); ok && b.Kind() == types.Bool {
						visitedObj = p
					}
				}
			}
		}
		ro := c.localExpansionsWith(rinfo, rec.Decl.Body, &canonOpts{subst: map[types.Object]string{}})
		condOf := func(at ast.Node) *bexpr {
			conds, okc := c.pathConds(rinfo, rec.Decl.Body, at, true)
			if !okc {
				return nil
			}
			return c.condsToBexpr(rinfo, conds, ro)
		}
		var crossing *bexpr
		var crossPos token.Pos
		nRec := 0
		for _, call := range callsIn(rec.Decl.Body, false) {
			if calleeOf(rinfo, call) == rec.Obj {
				nRec++
				crossing = condOf(call)
				crossPos = call.Pos()
			}
		}
		if visitedObj != nil && nRec == 1 && crossing != nil {
			okMark, nMark := true, 0
			var bad token.Pos
			ast.Inspect(rec.Decl.Body, func(n ast.Node) bool {
				as, ok := n.(*ast.AssignStmt)
				if !ok {
					return true
				}
				for _, l := range as.Lhs {
					if ix, ok := unparen(l).(*ast.IndexExpr); ok && identObj(rinfo, ix.X) == visitedObj {
						nMark++
						code := condOf(as)
						if code == nil {
							okMark, bad = false, as.Pos()
							continue
						}
						if eq, _, _, err := gfEquiv(code, crossing); err != nil || !eq {
							okMark, bad = false, as.Pos()
						}
					}
				}
				return true
			})
			if nMark > 0 {
				if bad == token.NoPos {
					bad = crossPos
				}
				c.Check(okMark, "SYM", "tree.Tree.cutEdgesMaxLengthRecur/marks-only-crossed", bad, "the fill marks a branch as visited under exactly the condition under which it crosses it", "the flood fill marks a branch as visited under another condition than the one under which it crosses it: a removed branch marked here is skipped by the outer loop and a tip behind it belongs to no group").Clause = clause
			}
		}
	}
	// kept branch: explored from both ends; removed branch: singleton group for each end that is a tip.
	// The two regions are told apart by the path condition on the branch length, whatever the shape
	// of the if/else.
	maxlen := paramObj(info, top.Decl, 0)
	var eObj types.Object
	var loop *ast.RangeStmt
	ast.Inspect(top.Decl.Body, func(n ast.Node) bool {
		if rs, ok := n.(*ast.RangeStmt); ok && rs.Value != nil {
			for _, call := range callsIn(rs.Body, false) {
				if calleeOf(info, call) == rec.Obj {
					loop = rs
					eObj = identObj(info, rs.Value)
				}
			}
		}
		return true
	})
	if loop == nil || eObj == nil {
		c.Undecided("SYM", "tree.Tree.CutEdgesMaxLength/both-ends", top.Decl.Pos(), "loop over the branches starting the flood fills not found")
		return
	}
	o := &canonOpts{subst: map[types.Object]string{eObj: "$E", maxlen: "$MAX"}}
	for k, v := range c.localExpansionsWith(info, top.Decl.Body, o).subst {
		o.subst[k] = v
	}
	lenConds := func(at ast.Node) *bexpr {
		conds, okc := c.pathConds(info, top.Decl.Body, at, true)
		if !okc {
			return nil
		}
		var rel []cond
		for _, cd := range conds {
			if cd.Expr != nil && strings.Contains(c.canon(info, cd.Expr, o), "$E.length") {
				rel = append(rel, cd)
			}
		}
		return c.condsToBexpr(info, rel, o)
	}
	keptSpec := bCmp("$E.length", token.LSS, "$MAX")
	dirs := map[string]bool{}
	okKept := true
	for _, call := range callsIn(loop.Body, false) {
		if calleeOf(info, call) != rec.Obj || len(call.Args) != 5 {
			continue
		}
		code := lenConds(call)
		if code == nil {
			okKept = false
			continue
		}
		if eq, _, _, err := gfEquiv(code, keptSpec); err != nil || !eq {
			okKept = false
		}
		dirs[c.canon(info, call.Args[1], o)+">"+c.canon(info, call.Args[2], o)] = true
	}
	// a group is reported exactly when the fill found a tip: `bags = append(bags, bag)` under Size() > 0
	for _, call := range callsIn(loop.Body, false) {
		id, ok := unparen(call.Fun).(*ast.Ident)
		if !ok || id.Name != "append" || len(call.Args) != 2 {
			continue
		}
		bagObj := identObj(info, call.Args[1])
		if bagObj == nil {
			continue
		}
		// only the bag handed to the fill (not the singleton groups of the removed branches)
		filled := false
		for _, rc := range callsIn(loop.Body, false) {
			if calleeOf(info, rc) == rec.Obj && len(rc.Args) > 0 {
				for _, a := range rc.Args {
					if identObj(info, a) == bagObj {
						filled = true
					}
				}
			}
		}
		if !filled {
			continue
		}
		conds, okc := c.pathConds(info, top.Decl.Body, call, true)
		if !okc {
			continue
		}
		var rel []cond
		for _, cd := range conds {
			if cd.Expr != nil && mentions(info, cd.Expr, bagObj) {
				rel = append(rel, cd)
			}
		}
		so := &canonOpts{subst: map[types.Object]string{bagObj: "$BAG"}}
		code := c.condsToBexpr(info, rel, so)
		var sizeTerm string
		terms, atoms := map[string]bool{}, map[string]bool{}
		code.collect(terms, atoms)
		for t := range terms {
			if strings.HasPrefix(t, "$BAG") || strings.HasPrefix(t, "len($BAG") {
				sizeTerm = t
			}
		}
		if sizeTerm == "" {
			c.Violation("GF", "tree.Tree.CutEdgesMaxLength/non-empty-groups", call.Pos(), "the group filled by the flood fill is reported without a test that it holds a tip: a component made of inner nodes only yields an empty group").Clause = clause
			continue
		}
		eq, wit, _, err := gfEquiv(code, intCmp(sizeTerm, token.GEQ, 1))
		if err != nil {
			c.Undecided("GF", "tree.Tree.CutEdgesMaxLength/non-empty-groups", call.Pos(), err.Error())
		} else {
			c.Check(eq, "GF", "tree.Tree.CutEdgesMaxLength/non-empty-groups", call.Pos(), "a group is reported iff it holds at least one tip", "the filled group is reported under "+code.String()+", must be reported exactly when it holds at least one tip: "+wit).Clause = clause
		}
	}
	c.Check(okKept && dirs["$E.left>$E.right"] && dirs["$E.right>$E.left"] && len(dirs) == 2, "SYM", "tree.Tree.CutEdgesMaxLength/kept-both-directions", loop.Pos(), "a branch shorter than the threshold is explored from both of its ends", fmt.Sprintf("a kept branch (length < threshold) is not explored from both ends (directions %v): tips on one side are missing from the group", sortedKeys(dirs))).Clause = clause
	ends := map[string]bool{}
	okRemoved := true
	for _, call := range callsIn(loop.Body, false) {
		fn := calleeOf(info, call)
		if fn == nil {
			continue
		}
		var added ast.Expr
		if fn.Name() == "AddTip" && len(call.Args) == 1 {
			added = call.Args[0]
		} else if gi := c.FuncOfObj(fn); gi != nil && fn != rec.Obj && gi.Decl.Body != nil && !fn.Exported() && fn.Pkg() == top.Obj.Pkg() {
			// a helper building the singleton group of its parameter
			ginfo := gi.Pkg.TypesInfo
			for _, hc := range callsIn(gi.Decl.Body, false) {
				if hf := calleeOf(ginfo, hc); hf != nil && hf.Name() == "AddTip" && len(hc.Args) == 1 {
					for j := range call.Args {
						if p := paramObj(ginfo, gi.Decl, j); p != nil && identObj(ginfo, hc.Args[0]) == p {
							added = call.Args[j]
						}
					}
				}
			}
		}
		if added == nil {
			continue
		}
		end := ""
		switch c.canon(info, added, o) {
		case "$E.left":
			end = "left"
		case "$E.right":
			end = "right"
		default:
			continue
		}
		code := lenConds(call)
		if code == nil {
			okRemoved = false
			continue
		}
		if eq, _, _, err := gfEquiv(code, bNot(keptSpec)); err != nil || !eq {
			okRemoved = false
		}
		// under the tip test of that very end
		conds, _ := c.pathConds(info, top.Decl.Body, call, true)
		tipOK := false
		for _, cd := range conds {
			if cd.Expr != nil && !cd.Neg && c.inlineTip(c.toBexpr(info, cd.Expr, o)).String() == "len($E."+end+".neigh) == 1" {
				tipOK = true
			}
		}
		if tipOK {
			ends[end] = true
		}
	}
	c.Check(okRemoved && ends["left"] && ends["right"], "SYM", "tree.Tree.CutEdgesMaxLength/removed-both-ends", loop.Pos(), "a removed branch yields a singleton group for each end that is a tip", fmt.Sprintf("a removed branch (length >= threshold) only yields a singleton group for its %v end: a tip at the other end (a tree rooted on a tip) belongs to no group", sortedKeys(ends))).Clause = clause
}
