package main

import (
	"fmt"
	"go/ast"
	"go/token"
	"go/types"
	"strings"
)

func init() { props["C14"] = checkC14 }

func checkC14(c *Ctx) {
	c.Decides("TABLE: pathLengths, executed symbolically per metric and per presence regime, adds for a branch: its support (1 when absent) under the support metric, 1 under the topological metric, its length (0 when absent) otherwise; the walk passes curlength+that value on and records a tip's distance exactly when it is a tip other than the start")
	c.Decides("ORDER/LF: ToDistanceMatrix sorts tips by name before numbering them and fills row i from tip i starting at 0; AvgDistanceMatrix adds entry (i,j) of each further matrix to entry (i,j), counts every tree once and divides every entry by the count")
	c.Decides("SIBLING/SYM: both flood-fill sites cross a branch under the same relation Length() < threshold; a kept branch is explored from both ends and a removed branch yields a singleton group for each end that is a tip")
	c.DoesNotDecide("the sums along paths as such, symmetry of the matrix, exactness of the connected components (flood-fill reachability)")
	c.pathLengthsTable()
	c.distanceMatrixOrder()
	c.avgMatrix()
	c.cutEdges()
	c.avgMetricUnchanged()
	c.cutIdsBeforeFill()
	c.Floor("TABLE", 5)
	c.Floor("ORDER", 3)
	c.Floor("LF", 3)
	c.Floor("SIBLING", 1)
	c.Floor("SYM", 2)
}

func (c *Ctx) pathLengthsTable() {
	fi := c.Func("tree", "", "pathLengths")
	if fi == nil {
		return
	}
	info := fi.Pkg.TypesInfo
	name := "tree.pathLengths"
	clause := "the sum over the path joining them of branch lengths (or of ones, or of supports, according to the chosen metric)"
	cur, prev, lengths, curlength, metric := paramObj(info, fi.Decl, 0), paramObj(info, fi.Decl, 1), paramObj(info, fi.Decl, 2), paramObj(info, fi.Decl, 3), paramObj(info, fi.Decl, 4)
	// the recursive call and the value it adds
	var rec *ast.CallExpr
	for _, call := range callsIn(fi.Decl.Body, false) {
		if calleeOf(info, call) == fi.Obj {
			rec = call
		}
	}
	if rec == nil || len(rec.Args) != 5 {
		c.Undecided("TABLE", name+"/walk", fi.Decl.Pos(), "recursive call not found")
		return
	}
	// curlength + l
	sum, ok := unparen(rec.Args[3]).(*ast.BinaryExpr)
	var lObj types.Object
	if ok && sum.Op == token.ADD {
		if identObj(info, sum.X) == curlength {
			lObj = identObj(info, sum.Y)
		} else if identObj(info, sum.Y) == curlength {
			lObj = identObj(info, sum.X)
		}
	}
	if lObj == nil {
		c.Violation("TABLE", name+"/accumulate", rec.Pos(), "the walk does not pass on curlength + (value of the branch): got "+c.src(rec.Args[3])).Clause = clause
		return
	}
	c.OK("TABLE", name+"/accumulate", rec.Pos(), "passes on curlength + "+lObj.Name())
	// the enclosing block and the switch on metric
	var sw *ast.SwitchStmt
	var blk *ast.BlockStmt
	st := stackTo(fi.Decl.Body, rec)
	for _, s := range st {
		if b, ok := s.(*ast.BlockStmt); ok {
			for _, x := range b.List {
				if w, ok := x.(*ast.SwitchStmt); ok && identObj(info, w.Tag) == metric {
					sw, blk = w, b
				}
			}
		}
	}
	if sw == nil {
		c.Undecided("TABLE", name+"/metric-switch", fi.Decl.Pos(), "no switch on the metric in the block of the recursive call")
		return
	}
	var pre []ast.Stmt
	for _, s := range blk.List {
		if s == ast.Stmt(sw) {
			break
		}
		pre = append(pre, s)
	}
	// the branch variable: e := cur.br[i]
	type want struct{ present, absent string }
	expect := map[string]want{}
	var eName string
	for _, s := range pre {
		if as, ok := s.(*ast.AssignStmt); ok && len(as.Lhs) == 1 {
			if t := info.TypeOf(as.Lhs[0]); t != nil && strings.HasSuffix(t.String(), "tree.Edge") {
				eName = identObj(info, as.Lhs[0]).Name()
			}
		}
	}
	if eName == "" {
		c.Undecided("TABLE", name+"/branch", fi.Decl.Pos(), "branch variable not found")
		return
	}
	expect["DISTANCE_METRIC_BOOTS"] = want{eName + ".support", "1"}
	expect["DISTANCE_METRIC_NONE"] = want{"1", "1"}
	expect["default"] = want{eName + ".length", "0"}
	seen := map[string]bool{}
	for _, s := range sw.Body.List {
		cc := s.(*ast.CaseClause)
		label := "default"
		if len(cc.List) == 1 {
			if cn := constObj(info, cc.List[0]); cn != nil {
				label = cn.Name()
			}
		} else if len(cc.List) > 1 {
			c.Undecided("TABLE", name+"/case", cc.Pos(), "multi-valued case not understood")
			continue
		}
		w, known := expect[label]
		if !known {
			c.Undecided("TABLE", name+"/"+label, cc.Pos(), "metric "+label+" has no stated meaning in the property")
			continue
		}
		seen[label] = true
		for _, regime := range []string{"present", "absent"} {
			rank := map[string]int{eName + ".support": 1, "NIL_SUPPORT": 0, eName + ".length": 3, "NIL_LENGTH": 2, eName + ".pvalue": 5, "NIL_PVALUE": 4}
			if regime == "absent" {
				rank[eName+".support"] = 0
				rank[eName+".length"] = 2
			}
			x := c.newSymExec(info, fi.Decl.Body, rank)
			body := append(append([]ast.Stmt{}, pre...), cc.Body...)
			_, err := x.run(body)
			key := name + "/" + label + "/" + regime
			if err != nil {
				c.Undecided("TABLE", key, cc.Pos(), "symbolic execution stopped: "+err.Error())
				continue
			}
			got := x.env.vals[lObj]
			exp := w.present
			if regime == "absent" {
				exp = w.absent
			}
			gs := "<unset>"
			if got != nil {
				gs = got.String()
			}
			c.Check(gs == exp, "TABLE", key, cc.Pos(), "adds "+gs, fmt.Sprintf("under metric %s a branch whose value is %s contributes %s to the path, the property requires %s", label, regime, gs, exp)).Clause = clause
		}
	}
	for l := range expect {
		if !seen[l] {
			c.Violation("TABLE", name+"/"+l, sw.Pos(), "the metric switch has no "+l+" case").Clause = clause
		}
	}
	// record: lengths[cur.Id()] = curlength iff cur.Tip() && prev != nil
	for _, n := range fi.Decl.Body.List {
		_ = n
	}
	found := false
	ast.Inspect(fi.Decl.Body, func(n ast.Node) bool {
		as, ok := n.(*ast.AssignStmt)
		if !ok || len(as.Lhs) != 1 || len(as.Rhs) != 1 {
			return true
		}
		ix, ok := unparen(as.Lhs[0]).(*ast.IndexExpr)
		if !ok || identObj(info, ix.X) != lengths {
			return true
		}
		found = true
		good := c.canon(info, ix.Index, nil) == cur.Name()+".id" && identObj(info, as.Rhs[0]) == curlength && as.Tok == token.ASSIGN
		conds, okc := c.pathConds(info, fi.Decl.Body, as, false)
		code := c.condsToBexpr(info, conds, nil)
		spec := bAnd(bAtom(cur.Name()+".Tip()"), bCmp(prev.Name(), token.NEQ, "nil"))
		eq, wit, _, err := gfEquiv(code, spec)
		if !okc || err != nil {
			c.Undecided("TABLE", name+"/record", as.Pos(), "guard shape not understood")
			return true
		}
		c.Check(good && eq, "TABLE", name+"/record", as.Pos(), "distance recorded at the tip's own index iff it is a tip other than the start", "the distance is recorded as "+c.src(as)+" under "+code.String()+"; expected lengths[cur.Id()] = curlength exactly for tips other than the start (zero diagonal): "+wit).Clause = "symmetric with a zero diagonal"
		return true
	})
	if !found {
		c.Violation("TABLE", name+"/record", fi.Decl.Pos(), "no distance is recorded").Clause = clause
	}
	// the walk descends into every neighbour but the one it came from
	conds, okc := c.pathConds(info, fi.Decl.Body, rec, true)
	var rel []cond
	for _, cd := range conds {
		if cd.Expr != nil && mentions(info, cd.Expr, prev) {
			rel = append(rel, cd)
		}
	}
	var rs *ast.RangeStmt
	for _, s := range st {
		if r, ok := s.(*ast.RangeStmt); ok {
			rs = r
		}
	}
	if rs != nil && rs.Value != nil && okc {
		code := c.condsToBexpr(info, rel, nil)
		eq, wit, _, err := gfEquiv(code, bCmp(identObj(info, rs.Value).Name(), token.NEQ, prev.Name()))
		if err != nil {
			c.Undecided("TABLE", name+"/descend", rec.Pos(), err.Error())
		} else {
			c.Check(eq && c.canon(info, rs.X, nil) == cur.Name()+".neigh", "TABLE", name+"/descend", rec.Pos(), "descends into every neighbour except the previous node", "the walk descends under "+code.String()+": "+wit).Clause = clause
		}
	}
}

func constObj(info *types.Info, e ast.Expr) *types.Const {
	switch x := unparen(e).(type) {
	case *ast.Ident:
		cn, _ := info.Uses[x].(*types.Const)
		return cn
	case *ast.SelectorExpr:
		cn, _ := info.Uses[x.Sel].(*types.Const)
		return cn
	}
	return nil
}

func (c *Ctx) distanceMatrixOrder() {
	fi := c.Func("tree", "Tree", "ToDistanceMatrix")
	pl := c.Func("tree", "", "pathLengths")
	if fi == nil || pl == nil {
		return
	}
	info := fi.Pkg.TypesInfo
	name := "tree.Tree.ToDistanceMatrix"
	clause := "rows follow tip-name order"
	var sortCall, plCall *ast.CallExpr
	var setId *ast.CallExpr
	for _, call := range callsIn(fi.Decl.Body, false) {
		fn := calleeOf(info, call)
		switch {
		case isFunc(fn, "sort", "", "Slice") || isFunc(fn, "sort", "", "SliceStable"):
			sortCall = call
		case fn == pl.Obj:
			plCall = call
		case isRepoFunc(fn, "tree", "Node", "SetId"):
			setId = call
		}
	}
	if sortCall == nil || plCall == nil || setId == nil {
		c.Violation("ORDER", name+"/sort-then-number", fi.Decl.Pos(), "expected sort of the tips by name, numbering of the tips and one walk per tip").Clause = clause
		return
	}
	tips := identObj(info, sortCall.Args[0])
	// less: tips[i].Name() < tips[j].Name()
	okLess := false
	if fl, ok := unparen(sortCall.Args[1]).(*ast.FuncLit); ok && len(fl.Body.List) == 1 {
		if ret, ok := fl.Body.List[0].(*ast.ReturnStmt); ok && len(ret.Results) == 1 {
			if be, ok := unparen(ret.Results[0]).(*ast.BinaryExpr); ok && (be.Op == token.LSS || be.Op == token.GTR) {
				i, j := paramOfLit(info, fl, 0), paramOfLit(info, fl, 1)
				l, r := be.X, be.Y
				if be.Op == token.GTR {
					l, r = r, l
				}
				o := &canonOpts{subst: map[types.Object]string{i: "$i", j: "$j"}}
				if tips != nil && c.canon(info, l, o) == tips.Name()+"[$i].name" && c.canon(info, r, o) == tips.Name()+"[$j].name" {
					okLess = true
				}
			}
		}
	}
	c.Check(okLess, "ORDER", name+"/sort-by-name", sortCall.Pos(), "tips sorted by ascending name", "the tips are not sorted by ascending name (less = "+c.src(sortCall.Args[1])+")").Clause = clause
	c.Check(sortCall.Pos() < setId.Pos() && sortCall.Pos() < plCall.Pos(), "ORDER", name+"/sort-then-number", sortCall.Pos(), "sorted before ids are assigned and before the walks", "tips are numbered or walked before they are sorted by name: row order and indexes disagree").Clause = clause
	// SetId(i) on tips[i] in a range over tips
	okId := false
	for _, s := range stackTo(fi.Decl.Body, setId) {
		if rs, ok := s.(*ast.RangeStmt); ok && identObj(info, rs.X) == tips && rs.Key != nil {
			k := identObj(info, rs.Key)
			if sel, ok := unparen(setId.Fun).(*ast.SelectorExpr); ok {
				o := &canonOpts{subst: map[types.Object]string{k: "$i"}}
				if c.canon(info, sel.X, o) == tips.Name()+"[$i]" && identObj(info, setId.Args[0]) == k {
					okId = true
				}
			}
		}
	}
	c.Check(okId, "ORDER", name+"/id=rank", setId.Pos(), "tip at rank i gets id i", "tip ids are not the ranks in name order").Clause = clause
	// pathLengths(tips[i], nil, matrix[i], 0, metric)
	okWalk := false
	for _, s := range stackTo(fi.Decl.Body, plCall) {
		if rs, ok := s.(*ast.RangeStmt); ok && identObj(info, rs.X) == tips && rs.Key != nil && len(plCall.Args) == 5 {
			k := identObj(info, rs.Key)
			start := identObj(info, plCall.Args[0])
			row, isIx := unparen(plCall.Args[2]).(*ast.IndexExpr)
			zero := false
			if tv, ok := info.Types[plCall.Args[3]]; ok && tv.Value != nil && tv.Value.String() == "0" {
				zero = true
			}
			startOK := rs.Value != nil && start == identObj(info, rs.Value)
			if isIx && identObj(info, row.Index) == k && startOK && zero && isNilIdent(info, plCall.Args[1]) && identObj(info, plCall.Args[4]) == paramObj(info, fi.Decl, 0) {
				okWalk = true
			}
		}
	}
	c.Check(okWalk, "ORDER", name+"/row-i-from-tip-i", plCall.Pos(), "row i is filled by the walk from tip i, starting at 0 with the requested metric", "row i is not filled by a walk from tip i starting at distance 0 with the requested metric: "+c.src(plCall)).Clause = clause
}

func paramOfLit(info *types.Info, fl *ast.FuncLit, i int) types.Object {
	k := 0
	for _, f := range fl.Type.Params.List {
		for _, n := range f.Names {
			if k == i {
				return info.Defs[n]
			}
			k++
		}
	}
	return nil
}

func (c *Ctx) avgMatrix() {
	fi := c.Func("tree", "", "AvgDistanceMatrix")
	if fi == nil {
		return
	}
	info := fi.Pkg.TypesInfo
	name := "tree.AvgDistanceMatrix"
	clause := "the average matrix over several trees is the entrywise mean"
	var matrix types.Object
	if fi.Decl.Type.Results != nil && len(fi.Decl.Type.Results.List) > 0 && len(fi.Decl.Type.Results.List[0].Names) > 0 {
		matrix = info.Defs[fi.Decl.Type.Results.List[0].Names[0]]
	}
	var chanLoop *ast.RangeStmt
	ast.Inspect(fi.Decl.Body, func(n ast.Node) bool {
		if rs, ok := n.(*ast.RangeStmt); ok && chanLoop == nil {
			if _, isChan := info.TypeOf(rs.X).Underlying().(*types.Chan); isChan {
				chanLoop = rs
			}
		}
		return true
	})
	if matrix == nil || chanLoop == nil {
		c.Undecided("LF", name, fi.Decl.Pos(), "result matrix / loop over the trees not found")
		return
	}
	// stores into matrix[a][b]
	type mst struct {
		as   *ast.AssignStmt
		a, b string
	}
	var adds, divs []mst
	var counter types.Object
	ast.Inspect(fi.Decl.Body, func(n ast.Node) bool {
		as, ok := n.(*ast.AssignStmt)
		if !ok || len(as.Lhs) != 1 || len(as.Rhs) != 1 {
			return true
		}
		o2, ok := unparen(as.Lhs[0]).(*ast.IndexExpr)
		if !ok {
			return true
		}
		o1, ok := unparen(o2.X).(*ast.IndexExpr)
		if !ok || identObj(info, o1.X) != matrix {
			return true
		}
		m := mst{as, c.canon(info, o1.Index, nil), c.canon(info, o2.Index, nil)}
		switch as.Tok {
		case token.ADD_ASSIGN:
			adds = append(adds, m)
		case token.QUO_ASSIGN:
			divs = append(divs, m)
		default:
			c.Violation("LF", name+"/entry-store", as.Pos(), "result entry written with "+as.Tok.String()+": not an accumulation or the final division").Clause = clause
		}
		return true
	})
	if len(adds) != 1 || len(divs) != 1 {
		c.Violation("LF", name+"/mean", fi.Decl.Pos(), fmt.Sprintf("expected one accumulation and one division of the entries, found %d and %d", len(adds), len(divs))).Clause = clause
		return
	}
	// accumulation: matrix[i][j] += other[i][j], inside the loop over trees
	r2, ok2 := unparen(adds[0].as.Rhs[0]).(*ast.IndexExpr)
	okAdd := false
	if ok2 {
		if r1, ok := unparen(r2.X).(*ast.IndexExpr); ok {
			src := identObj(info, r1.X)
			okAdd = src != nil && src != matrix && c.canon(info, r1.Index, nil) == adds[0].a && c.canon(info, r2.Index, nil) == adds[0].b && nodeContains(chanLoop.Body, adds[0].as.Pos())
			// the source is the matrix of the current tree
			if okAdd {
				fromTree := false
				ast.Inspect(chanLoop.Body, func(n ast.Node) bool {
					if as, ok := n.(*ast.AssignStmt); ok && len(as.Lhs) >= 1 && identObj(info, as.Lhs[0]) == src && len(as.Rhs) == 1 {
						if cl, ok := unparen(as.Rhs[0]).(*ast.CallExpr); ok && isRepoFunc(calleeOf(info, cl), "tree", "Tree", "ToDistanceMatrix") {
							fromTree = true
						}
					}
					return true
				})
				okAdd = fromTree
			}
		}
	}
	c.Check(okAdd, "LF", name+"/accumulate", adds[0].as.Pos(), "entry (i,j) += entry (i,j) of the current tree's matrix", "the accumulation "+c.src(adds[0].as.Lhs[0])+" += "+c.src(adds[0].as.Rhs[0])+" does not add entry (i,j) of the current tree's matrix to entry (i,j)").Clause = clause
	// division by float64(counter), after the loop
	okDiv := false
	if cv, ok := unparen(divs[0].as.Rhs[0]).(*ast.CallExpr); ok && len(cv.Args) == 1 {
		counter = identObj(info, cv.Args[0])
	} else {
		counter = identObj(info, divs[0].as.Rhs[0])
	}
	okDiv = counter != nil && divs[0].as.Pos() > chanLoop.End()
	c.Check(okDiv, "LF", name+"/divide", divs[0].as.Pos(), "every entry divided by the tree count after the loop", "the final division is not `entry /= number of trees` after all trees were read").Clause = clause
	if counter != nil {
		// counter++ exactly once per tree: a top-level statement of the loop body
		n := 0
		for _, s := range chanLoop.Body.List {
			if inc, ok := s.(*ast.IncDecStmt); ok && inc.Tok == token.INC && identObj(info, inc.X) == counter {
				n++
			}
		}
		other := 0
		ast.Inspect(fi.Decl.Body, func(m ast.Node) bool {
			switch s := m.(type) {
			case *ast.IncDecStmt:
				if identObj(info, s.X) == counter {
					other++
				}
			case *ast.AssignStmt:
				for _, l := range s.Lhs {
					if identObj(info, l) == counter {
						other += 2
					}
				}
			}
			return true
		})
		c.Check(n == 1 && other == 1, "LF", name+"/count", chanLoop.Pos(), "the count is incremented once per tree, unconditionally", "the tree count is not incremented exactly once per tree read: the mean is taken over the wrong number").Clause = clause
	}
	// the division covers the same index space as the accumulation
	c.Check(divs[0].a == adds[0].a && divs[0].b == adds[0].b, "LF", name+"/same-entries", divs[0].as.Pos(), "division and accumulation address the same entries", "division and accumulation do not address the same entries").Clause = clause
}

func (c *Ctx) cutEdges() {
	top := c.Func("tree", "Tree", "CutEdgesMaxLength")
	rec := c.Func("tree", "Tree", "cutEdgesMaxLengthRecur")
	if top == nil || rec == nil {
		return
	}
	info := top.Pkg.TypesInfo
	clause := "partitions the tips exactly into the groups connected by branches shorter than the threshold"
	// the threshold relation at both sites
	rel := func(fi *FuncInfo, maxlen types.Object) (string, token.Pos) {
		var out string
		var p token.Pos
		ast.Inspect(fi.Decl.Body, func(n ast.Node) bool {
			be, ok := n.(*ast.BinaryExpr)
			if !ok {
				return true
			}
			switch be.Op {
			case token.LSS, token.LEQ, token.GTR, token.GEQ:
			default:
				return true
			}
			l, r, op := be.X, be.Y, be.Op
			if identObj(info, l) == maxlen {
				l, r = r, l
				op = map[token.Token]token.Token{token.LSS: token.GTR, token.GTR: token.LSS, token.LEQ: token.GEQ, token.GEQ: token.LEQ}[op]
			}
			if identObj(info, r) == maxlen && strings.HasSuffix(c.canon(info, l, nil), ".length") {
				out += op.String()
				p = be.Pos()
			}
			return true
		})
		return out, p
	}
	r1, p1 := rel(top, paramObj(info, top.Decl, 0))
	r2, _ := rel(rec, paramObj(info, rec.Decl, 3))
	c.Check(r1 == "<" && r2 == "<", "SIBLING", "tree.Tree.CutEdgesMaxLength/threshold-relation", p1, "both sites cross a branch iff Length() < threshold", fmt.Sprintf("the two flood-fill sites compare Length() with the threshold using %q and %q; both must be `<` (a branch equal to the threshold is cut at both sites, or groups depend on where the fill starts)", r1, r2)).Clause = clause
	// kept branch: explored from both ends; removed branch: singleton bag for each tip end
	var loopIf *ast.IfStmt
	ast.Inspect(top.Decl.Body, func(n ast.Node) bool {
		if is, ok := n.(*ast.IfStmt); ok && is.Else != nil && strings.Contains(c.canon(info, is.Cond, nil), ".length") {
			loopIf = is
		}
		return true
	})
	if loopIf == nil {
		c.Undecided("SYM", "tree.Tree.CutEdgesMaxLength/both-ends", top.Decl.Pos(), "if/else on the branch length not found")
		return
	}
	var eObj types.Object
	for _, s := range stackTo(top.Decl.Body, loopIf) {
		if rs, ok := s.(*ast.RangeStmt); ok && rs.Value != nil {
			eObj = identObj(info, rs.Value)
		}
	}
	o := &canonOpts{subst: map[types.Object]string{}}
	if eObj != nil {
		o.subst[eObj] = "$E"
	}
	dirs := map[string]bool{}
	for _, call := range callsIn(loopIf.Body, false) {
		if calleeOf(info, call) == rec.Obj && len(call.Args) == 5 {
			dirs[c.canon(info, call.Args[1], o)+">"+c.canon(info, call.Args[2], o)] = true
		}
	}
	c.Check(dirs["$E.left>$E.right"] && dirs["$E.right>$E.left"] && len(dirs) == 2, "SYM", "tree.Tree.CutEdgesMaxLength/kept-both-directions", loopIf.Pos(), "a kept branch is explored from both of its ends", fmt.Sprintf("a kept branch is not explored from both ends (directions %v): tips on one side are missing from the group", sortedKeys(dirs))).Clause = clause
	ends := map[string]bool{}
	ast.Inspect(loopIf.Else, func(n ast.Node) bool {
		is, ok := n.(*ast.IfStmt)
		if !ok {
			return true
		}
		k := c.inlineTip(c.toBexpr(info, is.Cond, o)).String()
		for _, end := range []string{"left", "right"} {
			if k == "len($E."+end+".neigh) == 1" {
				// AddTip($E.end) and the bag appended
				add, app := false, false
				for _, call := range callsIn(is.Body, false) {
					if fn := calleeOf(info, call); fn != nil && fn.Name() == "AddTip" && len(call.Args) == 1 && c.canon(info, call.Args[0], o) == "$E."+end {
						add = true
					}
					if id, ok := call.Fun.(*ast.Ident); ok && id.Name == "append" {
						app = true
					}
				}
				if add && app {
					ends[end] = true
				}
			}
		}
		return true
	})
	c.Check(ends["left"] && ends["right"], "SYM", "tree.Tree.CutEdgesMaxLength/removed-both-ends", loopIf.Else.Pos(), "a removed branch yields a singleton group for each end that is a tip", fmt.Sprintf("a removed branch only yields a singleton group for its %v end: a tip at the other end (a tree rooted on a tip) belongs to no group", sortedKeys(ends))).Clause = clause
}
