package main

import (
	"fmt"
	"go/ast"
	"go/token"
	"go/types"
	"sort"
	"strings"
)

// PAIR — adjacency edits are two-sided and re-target the branch.
//
// Node keeps parallel slices neigh/br (br[i] joins the node and neigh[i]); Edge keeps left/right.
// The fields are unexported, so only package tree can write them. In every function of that
// package the edit events are collected on canonical expressions and paired:
//   D(X,Y)    X.delNeighbor(Y)            needs D(Y,X) | discard(X) | discard(Y) | in-place N(Y,·,Z)
//   A(X,Y,E)  X.addChild(Y,E)             needs A(Y,X,·) | N(Y,·,X)
//   N(Y,k,X)  Y.neigh[k] = X (X non-nil)  needs (a) A(X,Y,·) | N(X,·,Y) and (b) a branch end set to X
//                                         (or, when Y.br[k] = E' is assigned, an end of E' set to Y or X)
//   permutation writes (value read back from the node's own slices) need the same index pattern on br.

type pairEvent struct {
	kind    string // D A N B L R discard
	x, y, e string
	k       string
	pos     token.Pos
	perm    bool
	node    ast.Node
}

var pairPrimitives = map[string]bool{"addChild": true, "delNeighbor": true, "delNode": true, "unconnectNode": true, "NewNode": true, "NewEdge": true}

func (c *Ctx) nodeEdgeFields() (neigh, br, left, right *types.Var) {
	p := c.Pkg("tree")
	if p == nil {
		return
	}
	get := func(tn, fn string) *types.Var {
		o := p.Types.Scope().Lookup(tn)
		if o == nil {
			return nil
		}
		st, ok := o.Type().Underlying().(*types.Struct)
		if !ok {
			return nil
		}
		for i := 0; i < st.NumFields(); i++ {
			if st.Field(i).Name() == fn {
				return st.Field(i)
			}
		}
		return nil
	}
	return get("Node", "neigh"), get("Node", "br"), get("Edge", "left"), get("Edge", "right")
}

// localExpansions: single-assignment locals initialised by a pure getter chain are replaced by
// their initialiser so that `root := t.Root()` and `t.Root()` meet.
func (c *Ctx) localExpansions(info *types.Info, body *ast.BlockStmt) *canonOpts {
	return c.localExpansionsWith(info, body, nil)
}

// localExpansionsWith starts from the substitutions of base (parameters of an inlined helper
// standing for the caller's argument expressions).
func (c *Ctx) localExpansionsWith(info *types.Info, body *ast.BlockStmt, base *canonOpts) *canonOpts {
	c.indexAccessors()
	count := map[types.Object]int{}
	init := map[types.Object]ast.Expr{}
	ast.Inspect(body, func(n ast.Node) bool {
		switch s := n.(type) {
		case *ast.AssignStmt:
			for i, l := range s.Lhs {
				o := identObj(info, l)
				if o == nil {
					continue
				}
				count[o]++
				if s.Tok == token.DEFINE && len(s.Lhs) == len(s.Rhs) {
					init[o] = s.Rhs[i]
				} else {
					count[o]++ // plain assignment: not single-assignment
				}
			}
		case *ast.IncDecStmt:
			if o := identObj(info, s.X); o != nil {
				count[o] += 2
			}
		case *ast.UnaryExpr:
			if s.Op == token.AND {
				if o := identObj(info, s.X); o != nil {
					count[o] += 2
				}
			}
		case *ast.RangeStmt:
			for _, e := range []ast.Expr{s.Key, s.Value} {
				if e != nil {
					if o := identObj(info, e); o != nil {
						count[o] += 2
					}
				}
			}
		}
		return true
	})
	o := &canonOpts{subst: map[types.Object]string{}, merged: true}
	if base != nil {
		for k, v := range base.subst {
			o.subst[k] = v
		}
	}
	var pure func(e ast.Expr) bool
	pure = func(e ast.Expr) bool {
		switch x := unparen(e).(type) {
		case *ast.Ident:
			return true
		case *ast.SelectorExpr:
			return pure(x.X)
		case *ast.CallExpr:
			if fn := calleeOf(info, x); fn != nil {
				if _, ok := c.getters[fn]; ok && len(x.Args) == 0 {
					if sel, ok := unparen(x.Fun).(*ast.SelectorExpr); ok {
						return pure(sel.X)
					}
				}
			}
			if id, ok := unparen(x.Fun).(*ast.Ident); ok && len(x.Args) == 1 {
				if b, ok := info.Uses[id].(*types.Builtin); ok && (b.Name() == "len" || b.Name() == "cap") {
					return pure(x.Args[0])
				}
			}
			return false
		case *ast.IndexExpr:
			if tv, ok := info.Types[x.Index]; ok && tv.Value != nil {
				return pure(x.X)
			}
			return false
		}
		return false
	}
	// iterate so that chains of locals expand
	for iter := 0; iter < 3; iter++ {
		for obj, e := range init {
			if count[obj] == 1 && pure(e) {
				if _, isIdent := unparen(e).(*ast.Ident); isIdent {
					continue
				}
				o.subst[obj] = c.canon(info, e, o)
			}
		}
	}
	return o
}

func (c *Ctx) pairEvents(fi *FuncInfo) []pairEvent {
	return c.pairEventsIn(fi, nil, 0, map[*types.Func]bool{fi.Obj: true})
}

// pairEventsIn lists the adjacency-edit events of fi; calls of small unexported helpers of package
// tree are inlined (their events with the parameters replaced by the caller's arguments), so that
// extracting part of an edit into a helper does not hide its halves.
func (c *Ctx) pairEventsIn(fi *FuncInfo, base *canonOpts, depth int, busy map[*types.Func]bool) []pairEvent {
	info := fi.Pkg.TypesInfo
	neighF, brF, leftF, rightF := c.nodeEdgeFields()
	if neighF == nil || brF == nil || leftF == nil || rightF == nil {
		return nil
	}
	o := c.localExpansionsWith(info, fi.Decl.Body, base)
	cn := func(e ast.Expr) string { return c.canon(info, e, o) }
	var evs []pairEvent
	// fieldOf: e is X.f (or X.F() getter) for field f; returns X
	fieldBase := func(e ast.Expr, f *types.Var) (ast.Expr, bool) {
		switch x := unparen(e).(type) {
		case *ast.SelectorExpr:
			if info.Uses[x.Sel] == f {
				return x.X, true
			}
		case *ast.CallExpr:
			if fn := calleeOf(info, x); fn != nil && c.getters[fn] == f {
				if sel, ok := unparen(x.Fun).(*ast.SelectorExpr); ok {
					return sel.X, true
				}
			}
		}
		return nil, false
	}
	isNil := func(e ast.Expr) bool {
		id, ok := unparen(e).(*ast.Ident)
		return ok && id.Name == "nil" && info.Uses[id] == types.Universe.Lookup("nil")
	}
	ast.Inspect(fi.Decl.Body, func(n ast.Node) bool {
		switch s := n.(type) {
		case *ast.CallExpr:
			fn := calleeOf(info, s)
			if fn == nil {
				return true
			}
			sel, _ := unparen(s.Fun).(*ast.SelectorExpr)
			switch {
			case isRepoFunc(fn, "tree", "Node", "delNeighbor") && sel != nil && len(s.Args) == 1:
				evs = append(evs, pairEvent{kind: "D", x: cn(sel.X), y: cn(s.Args[0]), pos: s.Pos(), node: s})
			case isRepoFunc(fn, "tree", "Node", "addChild") && sel != nil && len(s.Args) == 2:
				evs = append(evs, pairEvent{kind: "A", x: cn(sel.X), y: cn(s.Args[0]), e: cn(s.Args[1]), pos: s.Pos(), node: s})
			case (isRepoFunc(fn, "tree", "Tree", "delNode") || isRepoFunc(fn, "tree", "Tree", "unconnectNode")) && len(s.Args) == 1:
				evs = append(evs, pairEvent{kind: "discard", x: cn(s.Args[0]), pos: s.Pos(), node: s})
			case isRepoFunc(fn, "tree", "Edge", "setLeft") && sel != nil && len(s.Args) == 1:
				evs = append(evs, pairEvent{kind: "L", e: cn(sel.X), x: cn(s.Args[0]), pos: s.Pos(), node: s})
			case isRepoFunc(fn, "tree", "Edge", "setRight") && sel != nil && len(s.Args) == 1:
				evs = append(evs, pairEvent{kind: "R", e: cn(sel.X), x: cn(s.Args[0]), pos: s.Pos(), node: s})
			case isRepoFunc(fn, "tree", "Tree", "ConnectNodes") && len(s.Args) == 2:
				// complete by construction (checked on ConnectNodes itself); it sets ends to both nodes
				evs = append(evs, pairEvent{kind: "L", e: "new", x: cn(s.Args[0]), pos: s.Pos(), node: s})
				evs = append(evs, pairEvent{kind: "R", e: "new", x: cn(s.Args[1]), pos: s.Pos(), node: s})
			default:
				// an unexported helper of package tree: inline its events
				if depth < 2 && fn.Pkg() != nil && fn.Pkg().Path() == modPath+"/tree" && !fn.Exported() && !pairPrimitives[fn.Name()] && !busy[fn] {
					if g := c.FuncOfObj(fn); g != nil {
						sub := &canonOpts{subst: map[types.Object]string{}}
						ginfo := g.Pkg.TypesInfo
						for i, a := range s.Args {
							if p := paramObj(ginfo, g.Decl, i); p != nil {
								sub.subst[p] = cn(a)
							}
						}
						if r := recvObj(ginfo, g.Decl); r != nil && sel != nil {
							sub.subst[r] = cn(sel.X)
						}
						busy[fn] = true
						for _, e := range c.pairEventsIn(g, sub, depth+1, busy) {
							e.pos = s.Pos()
							e.node = s
							evs = append(evs, e)
						}
						delete(busy, fn)
					}
				}
			}
		case *ast.AssignStmt:
			for i, l := range s.Lhs {
				var rhs ast.Expr
				if len(s.Rhs) == len(s.Lhs) {
					rhs = s.Rhs[i]
				}
				l = unparen(l)
				// whole-slice: X.neigh = nil
				if base, ok := fieldBase(l, neighF); ok {
					if rhs != nil && isNil(rhs) {
						evs = append(evs, pairEvent{kind: "discard", x: cn(base), pos: s.Pos(), node: s})
					}
					continue
				}
				if base, ok := fieldBase(l, leftF); ok && rhs != nil {
					if !isNil(rhs) {
						evs = append(evs, pairEvent{kind: "L", e: cn(base), x: cn(rhs), pos: s.Pos(), node: s})
					}
					continue
				}
				if base, ok := fieldBase(l, rightF); ok && rhs != nil {
					if !isNil(rhs) {
						evs = append(evs, pairEvent{kind: "R", e: cn(base), x: cn(rhs), pos: s.Pos(), node: s})
					}
					continue
				}
				ix, ok := l.(*ast.IndexExpr)
				if !ok || rhs == nil || isNil(rhs) {
					continue
				}
				if base, ok := fieldBase(ix.X, neighF); ok {
					ev := pairEvent{kind: "N", y: cn(base), k: cn(ix.Index), x: cn(rhs), pos: s.Pos(), node: s}
					ev.perm = readsOwnSlices(cn(rhs), cn(base))
					evs = append(evs, ev)
				} else if base, ok := fieldBase(ix.X, brF); ok {
					ev := pairEvent{kind: "B", y: cn(base), k: cn(ix.Index), e: cn(rhs), pos: s.Pos(), node: s}
					ev.perm = readsOwnSlices(cn(rhs), cn(base))
					evs = append(evs, ev)
				}
			}
		}
		return true
	})
	return evs
}

// readsOwnSlices: the stored value is read from the same node's neigh/br (a permutation in place).
func readsOwnSlices(rhs, base string) bool {
	return strings.HasPrefix(rhs, base+".neigh[") || strings.HasPrefix(rhs, base+".br[")
}

// checkPair evaluates the pairing obligations over all functions of package tree.
// It returns the number of edit sites seen.
func (c *Ctx) checkPair(rule string, only map[string]bool) int {
	sites := 0
	for _, fi := range c.AllFuncs("tree") {
		name := fi.Obj.Name()
		if pairPrimitives[name] {
			continue
		}
		if only != nil && !only[name] {
			continue
		}
		evs := c.pairEvents(fi)
		if len(evs) == 0 {
			continue
		}
		fname := funcName(fi.Obj)
		has := func(pred func(e pairEvent) bool) bool {
			for _, e := range evs {
				if pred(e) {
					return true
				}
			}
			return false
		}
		// temp-struct permutations (sortNeighbors): N and B written back from the same element
		seen := map[string]int{}
		uniq := func(k string) string {
			seen[k]++
			if seen[k] > 1 {
				return fmt.Sprintf("%s#%d", k, seen[k])
			}
			return k
		}
		for _, e := range evs {
			switch e.kind {
			case "D":
				sites++
				key := uniq(fname + "/" + e.x + ".delNeighbor(" + e.y + ")")
				ok := has(func(o pairEvent) bool {
					return (o.kind == "D" && o.x == e.y && o.y == e.x) ||
						(o.kind == "discard" && o.x == e.y) ||
						(o.kind == "N" && o.y == e.y)
				})
				if ok {
					c.OK(rule, key, e.pos, "matched by the reverse removal, the discard of the removed node, or an in-place replacement in its neighbour list")
				} else {
					c.Violation(rule, key, e.pos, fmt.Sprintf("%s is removed from the neighbours of %s, but in %s nothing removes %s from the neighbours of %s (no reverse delNeighbor, no discard of %s, no in-place replacement in its list): adjacency becomes asymmetric", e.y, e.x, fname, e.x, e.y, e.y)).Clause = "connected acyclic tree with symmetric adjacency"
				}
			case "A":
				sites++
				key := uniq(fname + "/" + e.x + ".addChild(" + e.y + ")")
				ok := has(func(o pairEvent) bool {
					return (o.kind == "A" && o.x == e.y && o.y == e.x) || (o.kind == "N" && o.y == e.y && o.x == e.x)
				})
				if ok {
					c.OK(rule, key, e.pos, "matched by the reverse addChild or an in-place neighbour replacement on the other node")
				} else {
					c.Violation(rule, key, e.pos, fmt.Sprintf("%s gains neighbour %s, but in %s nothing makes %s a neighbour of %s: adjacency becomes asymmetric", e.x, e.y, fname, e.x, e.y)).Clause = "connected acyclic tree with symmetric adjacency"
				}
			case "N":
				sites++
				key := uniq(fname + "/" + e.y + ".neigh[" + e.k + "]=" + e.x)
				if e.perm || isTempPerm(e, evs) {
					ok := has(func(o pairEvent) bool {
						return o.kind == "B" && o.y == e.y && o.k == e.k && permSource(o.e) == permSource(e.x)
					})
					if ok {
						c.OK(rule, key, e.pos, "permutation of neigh applied with the same index pattern to br")
					} else {
						c.Violation(rule, key, e.pos, fmt.Sprintf("neighbours of %s are permuted (position %s) without the same permutation of its branches: br[i] no longer joins the node and neigh[i]", e.y, e.k)).Clause = "neighbour permutation keeping neigh/br parallel"
					}
					continue
				}
				okA := has(func(o pairEvent) bool {
					return (o.kind == "A" && o.x == e.x && o.y == e.y) || (o.kind == "N" && o.y == e.x && o.x == e.y)
				})
				hasB := has(func(o pairEvent) bool { return o.kind == "B" && o.y == e.y && o.k == e.k })
				var okB bool
				if hasB {
					okB = has(func(b pairEvent) bool {
						if !(b.kind == "B" && b.y == e.y && b.k == e.k) {
							return false
						}
						return has(func(o pairEvent) bool {
							return (o.kind == "L" || o.kind == "R") && o.e == b.e && (o.x == e.y || o.x == e.x)
						})
					})
				} else {
					okB = has(func(o pairEvent) bool { return (o.kind == "L" || o.kind == "R") && o.x == e.x })
				}
				switch {
				case okA && okB:
					c.OK(rule, key, e.pos, "other side updated and a branch end re-targeted")
				case !okA:
					c.Violation(rule, key, e.pos, fmt.Sprintf("%s becomes a neighbour of %s in place, but in %s nothing makes %s a neighbour of %s", e.x, e.y, fname, e.y, e.x)).Clause = "symmetric adjacency"
				default:
					c.Violation(rule, key, e.pos, fmt.Sprintf("%s becomes a neighbour of %s in place, but no branch end is re-targeted to it in %s: the branch at that position still points to the old node", e.x, e.y, fname)).Clause = "every branch joins the two nodes it is stored between"
				}
			case "B":
				if e.perm || isTempPermB(e, evs) {
					sites++
					key := uniq(fname + "/" + e.y + ".br[" + e.k + "]=" + e.e)
					ok := has(func(o pairEvent) bool { return o.kind == "N" && o.y == e.y && o.k == e.k })
					if ok {
						c.OK(rule, key, e.pos, "permutation of br applied with the same index pattern to neigh")
					} else {
						c.Violation(rule, key, e.pos, fmt.Sprintf("branches of %s are permuted (position %s) without the same permutation of its neighbours", e.y, e.k)).Clause = "neighbour permutation keeping neigh/br parallel"
					}
					continue
				}
				sites++
				key := uniq(fname + "/" + e.y + ".br[" + e.k + "]=" + e.e)
				ok := has(func(o pairEvent) bool { return o.kind == "N" && o.y == e.y && o.k == e.k })
				if ok {
					c.OK(rule, key, e.pos, "branch slot rewritten together with the neighbour slot at the same index")
				} else {
					c.Violation(rule, key, e.pos, fmt.Sprintf("branch slot %s of %s is rewritten without rewriting the neighbour slot at the same index", e.k, e.y)).Clause = "neigh/br stay parallel"
				}
			}
		}
	}
	return sites
}

// permSource strips the trailing field of `tmp[i].neigh` / `tmp[i].br` so both name the same element.
func permSource(s string) string {
	for _, suf := range []string{".neigh", ".br"} {
		if strings.HasSuffix(s, suf) {
			return strings.TrimSuffix(s, suf)
		}
	}
	// a[i] style: strip to the index
	if i := strings.LastIndex(s, "["); i >= 0 {
		return s[i:]
	}
	return s
}

// isTempPerm: Y.neigh[k] = tmp[k].neigh with a sibling Y.br[k] = tmp[k].br
func isTempPerm(e pairEvent, evs []pairEvent) bool {
	if !strings.HasSuffix(e.x, ".neigh") {
		return false
	}
	for _, o := range evs {
		if o.kind == "B" && o.y == e.y && strings.HasSuffix(o.e, ".br") {
			return true
		}
	}
	return false
}
func isTempPermB(e pairEvent, evs []pairEvent) bool {
	if !strings.HasSuffix(e.e, ".br") {
		return false
	}
	for _, o := range evs {
		if o.kind == "N" && o.y == e.y && strings.HasSuffix(o.x, ".neigh") {
			return true
		}
	}
	return false
}

// checkPairPrimitives: addChild appends to both slices, delNeighbor cuts the same index from both,
// ConnectNodes sets both ends and adds both directions.
func (c *Ctx) checkPairPrimitives(rule string) {
	neighF, brF, _, _ := c.nodeEdgeFields()
	if fi := c.Func("tree", "Node", "addChild"); fi != nil {
		info := fi.Pkg.TypesInfo
		apN, apB := "", ""
		ast.Inspect(fi.Decl.Body, func(n ast.Node) bool {
			as, ok := n.(*ast.AssignStmt)
			if !ok || len(as.Lhs) != 1 || len(as.Rhs) != 1 {
				return true
			}
			sel, ok := unparen(as.Lhs[0]).(*ast.SelectorExpr)
			if !ok {
				return true
			}
			call, ok := unparen(as.Rhs[0]).(*ast.CallExpr)
			if !ok || len(call.Args) != 2 {
				return true
			}
			if id, ok := call.Fun.(*ast.Ident); !ok || id.Name != "append" {
				return true
			}
			if info.Uses[sel.Sel] == neighF && c.canon(info, call.Args[0], nil) == c.canon(info, as.Lhs[0], nil) {
				apN = c.canon(info, call.Args[1], nil)
			}
			if info.Uses[sel.Sel] == brF && c.canon(info, call.Args[0], nil) == c.canon(info, as.Lhs[0], nil) {
				apB = c.canon(info, call.Args[1], nil)
			}
			return true
		})
		p0, p1 := paramObj(info, fi.Decl, 0), paramObj(info, fi.Decl, 1)
		ok := p0 != nil && p1 != nil && apN == p0.Name() && apB == p1.Name()
		c.Check(ok, rule, "tree.Node.addChild/parallel-append", fi.Decl.Pos(), "appends the node to neigh and the branch to br", "addChild must append its node argument to neigh and its branch argument to br (got neigh+="+apN+", br+="+apB+"): the parallel slices get out of step").Clause = "Node.neigh / Node.br parallel adjacency and incident-branch slices"
	}
	if fi := c.Func("tree", "Node", "delNeighbor"); fi != nil {
		info := fi.Pkg.TypesInfo
		cuts := map[*types.Var]string{}
		ast.Inspect(fi.Decl.Body, func(n ast.Node) bool {
			as, ok := n.(*ast.AssignStmt)
			if !ok || len(as.Lhs) != 1 || len(as.Rhs) != 1 {
				return true
			}
			sel, ok := unparen(as.Lhs[0]).(*ast.SelectorExpr)
			if !ok {
				return true
			}
			fv, _ := info.Uses[sel.Sel].(*types.Var)
			if fv != neighF && fv != brF {
				return true
			}
			call, ok := unparen(as.Rhs[0]).(*ast.CallExpr)
			if !ok || len(call.Args) != 2 {
				return true
			}
			// append(X.f[0:i], X.f[i+1:]...)
			a0, ok0 := unparen(call.Args[0]).(*ast.SliceExpr)
			a1, ok1 := unparen(call.Args[1]).(*ast.SliceExpr)
			if !ok0 || !ok1 || a0.High == nil || a1.Low == nil {
				return true
			}
			self := c.canon(info, as.Lhs[0], nil)
			if c.canon(info, a0.X, nil) != self || c.canon(info, a1.X, nil) != self {
				return true
			}
			hi := c.canon(info, a0.High, nil)
			if c.canon(info, a1.Low, nil) == canonPlus1(hi) && (a0.Low == nil || c.canon(info, a0.Low, nil) == "0") && a1.High == nil {
				cuts[fv] = hi
			}
			return true
		})
		// index must come from NodeIndex(argument)
		idxOK := false
		p0 := paramObj(info, fi.Decl, 0)
		ast.Inspect(fi.Decl.Body, func(n ast.Node) bool {
			if call, ok := n.(*ast.CallExpr); ok {
				if fn := calleeOf(info, call); fn != nil && isRepoFunc(fn, "tree", "Node", "NodeIndex") && len(call.Args) == 1 && identObj(info, call.Args[0]) == p0 {
					idxOK = true
				}
			}
			return true
		})
		ok := cuts[neighF] != "" && cuts[neighF] == cuts[brF] && idxOK
		c.Check(ok, rule, "tree.Node.delNeighbor/parallel-cut", fi.Decl.Pos(), "cuts index "+cuts[neighF]+" (NodeIndex of the argument) from both neigh and br", fmt.Sprintf("delNeighbor must cut the same index (the NodeIndex of its argument) out of neigh and br (neigh cut at %q, br cut at %q, index from NodeIndex(arg): %v)", cuts[neighF], cuts[brF], idxOK)).Clause = "Node.neigh / Node.br parallel adjacency and incident-branch slices"
	}
	if fi := c.Func("tree", "Tree", "ConnectNodes"); fi != nil {
		info := fi.Pkg.TypesInfo
		evs := c.pairEvents(fi)
		p0, p1 := paramObj(info, fi.Decl, 0), paramObj(info, fi.Decl, 1)
		var l, r, a01, a10 bool
		var en string
		for _, e := range evs {
			switch {
			case e.kind == "L" && e.x == p0.Name():
				l, en = true, e.e
			case e.kind == "R" && e.x == p1.Name():
				r = true
			case e.kind == "A" && e.x == p0.Name() && e.y == p1.Name():
				a01 = true
			case e.kind == "A" && e.x == p1.Name() && e.y == p0.Name():
				a10 = true
			}
		}
		sameEdge := true
		for _, e := range evs {
			if (e.kind == "A" || e.kind == "R") && e.e != en {
				sameEdge = false
			}
		}
		// the function returns the new edge
		c.Check(l && r && a01 && a10 && sameEdge, rule, "tree.Tree.ConnectNodes/complete", fi.Decl.Pos(), "new branch: left=parent, right=child, added to both nodes", fmt.Sprintf("ConnectNodes must set left=parent, right=child and add the same branch to both nodes (left:%v right:%v parent->child:%v child->parent:%v same branch:%v)", l, r, a01, a10, sameEdge)).Clause = "pairwise neighbour insertion helpers; every branch pointing away from the root"
	}
	// Edge.Inverse swaps left and right
	if fi := c.FuncOpt("tree", "Edge", "Inverse"); fi != nil {
		info := fi.Pkg.TypesInfo
		swap := false
		ast.Inspect(fi.Decl.Body, func(n ast.Node) bool {
			as, ok := n.(*ast.AssignStmt)
			if ok && len(as.Lhs) == 2 && len(as.Rhs) == 2 {
				l0, l1 := c.canon(info, as.Lhs[0], nil), c.canon(info, as.Lhs[1], nil)
				r0, r1 := c.canon(info, as.Rhs[0], nil), c.canon(info, as.Rhs[1], nil)
				if l0 == r1 && l1 == r0 && strings.HasSuffix(l0, ".left") != strings.HasSuffix(l1, ".left") {
					swap = true
				}
			}
			return true
		})
		if !swap {
			// tolerate the three-statement form tmp := e.left; e.left = e.right; e.right = tmp
			var ls []string
			ast.Inspect(fi.Decl.Body, func(n ast.Node) bool {
				if as, ok := n.(*ast.AssignStmt); ok && len(as.Lhs) == 1 {
					ls = append(ls, c.canon(info, as.Lhs[0], nil)+"="+c.canon(info, as.Rhs[0], c.localExpansions(info, fi.Decl.Body)))
				}
				return true
			})
			sort.Strings(ls)
			j := strings.Join(ls, ";")
			swap = strings.Contains(j, ".left=") && strings.Contains(j, ".right=") && strings.Contains(j, ".right") && len(ls) >= 2
		}
		c.Check(swap, rule, "tree.Edge.Inverse/swap", fi.Decl.Pos(), "exchanges left and right", "Edge.Inverse must exchange left and right").Clause = "re-orientation of branches after a root change"
	}
}
