package main

import (
	"fmt"
	"go/ast"
	"go/constant"
	"go/token"
	"go/types"
	"math"
	"sort"
	"strconv"
	"strings"
)

// GF — guard/formula equivalence by enumeration of weak orderings.
//
// A guard is a boolean combination of comparisons `t1 op t2` between terms (canonical expression
// keys) and of opaque boolean atoms. Comparisons are the only operations applied to the terms, so
// the truth value of a guard depends only on the relative order of its terms: enumerating every
// weak ordering of the terms (with numeric constants pinned to their real order) and every
// valuation of the atoms decides equivalence / implication exactly.

type bexpr struct {
	op   string // and or not cmp atom const
	l, r *bexpr
	cmp  token.Token
	a, b string
	atom string
	val  bool
}

func bAnd(xs ...*bexpr) *bexpr {
	var out *bexpr
	for _, x := range xs {
		if x == nil {
			continue
		}
		if out == nil {
			out = x
		} else {
			out = &bexpr{op: "and", l: out, r: x}
		}
	}
	if out == nil {
		return &bexpr{op: "const", val: true}
	}
	return out
}
func bOr(xs ...*bexpr) *bexpr {
	var out *bexpr
	for _, x := range xs {
		if x == nil {
			continue
		}
		if out == nil {
			out = x
		} else {
			out = &bexpr{op: "or", l: out, r: x}
		}
	}
	if out == nil {
		return &bexpr{op: "const", val: false}
	}
	return out
}
func bNot(x *bexpr) *bexpr                           { return &bexpr{op: "not", l: x} }
func bAtom(k string) *bexpr                          { return &bexpr{op: "atom", atom: k} }
func bCmp(a string, op token.Token, b string) *bexpr { return &bexpr{op: "cmp", cmp: op, a: a, b: b} }
func bConst(v bool) *bexpr                           { return &bexpr{op: "const", val: v} }

func (b *bexpr) String() string {
	switch b.op {
	case "and":
		return "(" + b.l.String() + " && " + b.r.String() + ")"
	case "or":
		return "(" + b.l.String() + " || " + b.r.String() + ")"
	case "not":
		return "!" + b.l.String()
	case "cmp":
		return b.a + " " + b.cmp.String() + " " + b.b
	case "atom":
		return b.atom
	case "const":
		return fmt.Sprint(b.val)
	}
	return "?"
}

func (b *bexpr) collect(terms, atoms map[string]bool) {
	switch b.op {
	case "and", "or":
		b.l.collect(terms, atoms)
		b.r.collect(terms, atoms)
	case "not":
		b.l.collect(terms, atoms)
	case "cmp":
		terms[b.a] = true
		terms[b.b] = true
	case "atom":
		atoms[b.atom] = true
	}
}

func (b *bexpr) eval(rank map[string]int, av map[string]bool) bool {
	switch b.op {
	case "and":
		return b.l.eval(rank, av) && b.r.eval(rank, av)
	case "or":
		return b.l.eval(rank, av) || b.r.eval(rank, av)
	case "not":
		return !b.l.eval(rank, av)
	case "atom":
		return av[b.atom]
	case "const":
		return b.val
	case "cmp":
		x, y := rank[b.a], rank[b.b]
		switch b.cmp {
		case token.EQL:
			return x == y
		case token.NEQ:
			return x != y
		case token.LSS:
			return x < y
		case token.LEQ:
			return x <= y
		case token.GTR:
			return x > y
		case token.GEQ:
			return x >= y
		}
	}
	return false
}

func numConst(s string) (float64, bool) {
	f, err := strconv.ParseFloat(s, 64)
	return f, err == nil
}

// gfCompare enumerates all valuations and calls f(valueA, valueB, description); stops when f returns false.
func gfCompare(a, b *bexpr, f func(va, vb bool, desc func() string) bool) (valuations int, err error) {
	terms, atoms := map[string]bool{}, map[string]bool{}
	a.collect(terms, atoms)
	b.collect(terms, atoms)
	ts, as := sortedKeys(terms), sortedKeys(atoms)
	if len(ts) > 6 || len(as) > 8 {
		return 0, fmt.Errorf("guard has %d terms and %d atoms: beyond the enumeration bound (6, 8)", len(ts), len(as))
	}
	type pin struct {
		t string
		v float64
	}
	var pins []pin
	for _, t := range ts {
		if v, ok := numConst(t); ok {
			pins = append(pins, pin{t, v})
		}
	}
	n := len(ts)
	rank := map[string]int{}
	av := map[string]bool{}
	idx := make([]int, n)
	// any weak ordering of n terms uses at most n levels
	dom := n
	if n == 0 {
		dom = 1
	}
	total := 1
	for i := 0; i < n; i++ {
		total *= dom
	}
	seen := map[string]bool{}
	for it := 0; it < total; it++ {
		x := it
		for i := 0; i < n; i++ {
			idx[i] = x % dom
			x /= dom
			rank[ts[i]] = idx[i]
		}
		okPins := true
		for i := 0; i < len(pins) && okPins; i++ {
			for j := 0; j < len(pins); j++ {
				ri, rj := rank[pins[i].t], rank[pins[j].t]
				if (pins[i].v < pins[j].v) != (ri < rj) || (pins[i].v == pins[j].v) != (ri == rj) {
					okPins = false
					break
				}
			}
		}
		// an integer-valued term never lies strictly between two consecutive integer constants
		for _, t := range ts {
			if !okPins {
				break
			}
			if _, isNum := numConst(t); isNum || !gfIsIntTerm(t) {
				continue
			}
			for i := 0; i < len(pins) && okPins; i++ {
				for j := 0; j < len(pins); j++ {
					if pins[j].v == pins[i].v+1 && pins[i].v == math.Trunc(pins[i].v) && rank[pins[i].t] < rank[t] && rank[t] < rank[pins[j].t] {
						okPins = false
						break
					}
				}
			}
		}
		if !okPins {
			continue
		}
		// canonical form of the weak ordering to skip duplicates
		sig := orderSig(ts, rank)
		if seen[sig] {
			continue
		}
		seen[sig] = true
		for m := 0; m < 1<<uint(len(as)); m++ {
			for k, at := range as {
				av[at] = m&(1<<uint(k)) != 0
			}
			valuations++
			va, vb := a.eval(rank, av), b.eval(rank, av)
			if !f(va, vb, func() string {
				var parts []string
				parts = append(parts, sig)
				for _, at := range as {
					parts = append(parts, fmt.Sprintf("%s=%v", at, av[at]))
				}
				return strings.Join(parts, ", ")
			}) {
				return valuations, nil
			}
		}
	}
	return valuations, nil
}

func orderSig(ts []string, rank map[string]int) string {
	type tr struct {
		t string
		r int
	}
	var xs []tr
	for _, t := range ts {
		xs = append(xs, tr{t, rank[t]})
	}
	sort.Slice(xs, func(i, j int) bool {
		if xs[i].r != xs[j].r {
			return xs[i].r < xs[j].r
		}
		return xs[i].t < xs[j].t
	})
	var sb strings.Builder
	for i, x := range xs {
		if i > 0 {
			if xs[i-1].r == x.r {
				sb.WriteString(" = ")
			} else {
				sb.WriteString(" < ")
			}
		}
		sb.WriteString(x.t)
	}
	return sb.String()
}

// gfEquiv decides a ⇔ b.
func gfEquiv(a, b *bexpr) (ok bool, witness string, valuations int, err error) {
	ok = true
	valuations, err = gfCompare(a, b, func(va, vb bool, desc func() string) bool {
		if va != vb {
			ok = false
			witness = fmt.Sprintf("for [%s] code=%v spec=%v", desc(), va, vb)
			return false
		}
		return true
	})
	if err != nil {
		return false, "", valuations, err
	}
	return
}

// gfImplies decides a ⇒ b.
func gfImplies(a, b *bexpr) (ok bool, witness string, valuations int, err error) {
	ok = true
	valuations, err = gfCompare(a, b, func(va, vb bool, desc func() string) bool {
		if va && !vb {
			ok = false
			witness = fmt.Sprintf("for [%s] code guard holds but required condition does not", desc())
			return false
		}
		return true
	})
	if err != nil {
		return false, "", valuations, err
	}
	return
}

// ---------------------------------------------------------------------------------------
// AST -> bexpr

func isIntType(info *types.Info, e ast.Expr) bool {
	if tv, ok := info.Types[e]; ok && tv.Type != nil {
		if b, ok := tv.Type.Underlying().(*types.Basic); ok {
			return b.Info()&types.IsInteger != 0
		}
	}
	return false
}

func intConstOf(info *types.Info, e ast.Expr) (int64, bool) {
	if tv, ok := info.Types[e]; ok && tv.Value != nil && tv.Value.Kind() == constant.Int {
		if v, ok := constant.Int64Val(tv.Value); ok {
			return v, true
		}
	}
	return 0, false
}

// boolLocalInit: id uses a boolean local that is defined once (`x := <expr>`, never assigned again,
// address not taken) by a boolean expression whose variables are themselves never re-assigned in
// the function: the definition, else nil.
func (c *Ctx) boolLocalInit(info *types.Info, id *ast.Ident) ast.Expr {
	obj, ok := info.Uses[id].(*types.Var)
	if !ok || obj.IsField() {
		return nil
	}
	if b, ok := obj.Type().Underlying().(*types.Basic); !ok || b.Info()&types.IsBoolean == 0 {
		return nil
	}
	c.autoOpts(info, id) // fills declSpans
	var fd *ast.FuncDecl
	for _, d := range c.declSpans {
		if d.Pos() <= id.Pos() && id.Pos() < d.End() {
			fd = d
		}
	}
	if fd == nil {
		return nil
	}
	if c.boolInitCache == nil {
		c.boolInitCache = map[*ast.FuncDecl]map[types.Object]ast.Expr{}
	}
	m, ok := c.boolInitCache[fd]
	if !ok {
		m = map[types.Object]ast.Expr{}
		writes := map[types.Object]int{}
		init := map[types.Object]ast.Expr{}
		ast.Inspect(fd.Body, func(n ast.Node) bool {
			switch s := n.(type) {
			case *ast.AssignStmt:
				for i, l := range s.Lhs {
					if o := identObj(info, l); o != nil {
						writes[o]++
						if s.Tok == token.DEFINE && len(s.Lhs) == len(s.Rhs) {
							init[o] = s.Rhs[i]
						} else {
							writes[o]++
						}
					}
				}
			case *ast.IncDecStmt:
				if o := identObj(info, s.X); o != nil {
					writes[o] += 2
				}
			case *ast.UnaryExpr:
				if s.Op == token.AND {
					if o := identObj(info, s.X); o != nil {
						writes[o] += 2
					}
				}
			case *ast.RangeStmt:
				// loop variables change per iteration, but a local defined in the body from them is
				// defined anew each time: they count as written once
			}
			return true
		})
		for o, e := range init {
			if writes[o] != 1 {
				continue
			}
			if b, ok := o.Type().Underlying().(*types.Basic); !ok || b.Info()&types.IsBoolean == 0 {
				continue
			}
			switch unparen(e).(type) {
			case *ast.BinaryExpr, *ast.UnaryExpr:
			default:
				continue
			}
			stable := true
			ast.Inspect(e, func(n ast.Node) bool {
				switch q := n.(type) {
				case *ast.CallExpr:
					if fn := calleeOf(info, q); fn != nil {
						c.indexAccessors()
						if _, isGetter := c.getters[fn]; isGetter {
							return true
						}
					}
					if fid, ok := unparen(q.Fun).(*ast.Ident); ok {
						if bi, ok := info.Uses[fid].(*types.Builtin); ok && bi.Name() == "len" {
							return true
						}
					}
					stable = false
				case *ast.Ident:
					if v, ok := info.Uses[q].(*types.Var); ok && !v.IsField() && writes[v] > 1 {
						stable = false
					}
				}
				return stable
			})
			if stable {
				m[o] = e
			}
		}
		c.boolInitCache[fd] = m
	}
	return m[obj]
}

// toBexpr converts a Go boolean expression into a bexpr over canonical term keys.
func (c *Ctx) toBexpr(info *types.Info, e ast.Expr, o *canonOpts) *bexpr {
	e = unparen(e)
	if tv, ok := info.Types[e]; ok && tv.Value != nil && tv.Value.Kind() == constant.Bool {
		return bConst(constant.BoolVal(tv.Value))
	}
	switch x := e.(type) {
	case *ast.Ident:
		// an explanatory boolean local (`inRange := lo < v && v <= hi`) stands for its definition
		if init := c.boolLocalInit(info, x); init != nil {
			return c.toBexpr(info, init, o)
		}
	case *ast.UnaryExpr:
		if x.Op == token.NOT {
			return bNot(c.toBexpr(info, x.X, o))
		}
	case *ast.BinaryExpr:
		switch x.Op {
		case token.LAND:
			return bAnd(c.toBexpr(info, x.X, o), c.toBexpr(info, x.Y, o))
		case token.LOR:
			return bOr(c.toBexpr(info, x.X, o), c.toBexpr(info, x.Y, o))
		case token.EQL, token.NEQ, token.LSS, token.LEQ, token.GTR, token.GEQ:
			// boolean == / != : treat as xor of atoms
			if tvx, ok := info.Types[x.X]; ok && tvx.Type != nil {
				if b, ok := tvx.Type.Underlying().(*types.Basic); ok && b.Info()&types.IsBoolean != 0 {
					l, r := c.toBexpr(info, x.X, o), c.toBexpr(info, x.Y, o)
					eq := bOr(bAnd(l, r), bAnd(bNot(l), bNot(r)))
					if x.Op == token.NEQ {
						return bNot(eq)
					}
					return eq
				}
			}
			return c.cmpBexpr(info, x.X, x.Op, x.Y, o)
		}
	}
	if call, ok := e.(*ast.CallExpr); ok {
		if b := c.inlinePredicate(info, call, o, 2); b != nil {
			return b
		}
	}
	return bAtom(c.canon(info, e, o))
}

// inlinePredicate: a call of an unexported function or method of the repository whose body is a
// single `return <boolean expression>` stands for that expression with the arguments in place of
// the parameters (a guard extracted into a named predicate stays the same guard).
func (c *Ctx) inlinePredicate(info *types.Info, call *ast.CallExpr, o *canonOpts, depth int) *bexpr {
	g := calleeOf(info, call)
	if g == nil || depth == 0 || g.Exported() || !inRepo(g) {
		return nil
	}
	c.indexDecls()
	fd, pk := c.declOf[g], c.declPkg[g]
	if fd == nil || fd.Body == nil || len(fd.Body.List) != 1 {
		return nil
	}
	rs, ok := fd.Body.List[0].(*ast.ReturnStmt)
	if !ok || len(rs.Results) != 1 {
		return nil
	}
	ginfo := pk.TypesInfo
	if t := ginfo.TypeOf(rs.Results[0]); t == nil {
		return nil
	} else if b, ok := t.Underlying().(*types.Basic); !ok || b.Info()&types.IsBoolean == 0 {
		return nil
	}
	switch unparen(rs.Results[0]).(type) {
	case *ast.BinaryExpr, *ast.UnaryExpr, *ast.CallExpr:
	default:
		return nil
	}
	o2 := &canonOpts{subst: map[types.Object]string{}, merged: true}
	sig := g.Type().(*types.Signature)
	if sig.Variadic() || sig.Params().Len() != len(call.Args) {
		return nil
	}
	for i := 0; i < sig.Params().Len(); i++ {
		o2.subst[sig.Params().At(i)] = c.canon(info, call.Args[i], o)
	}
	if sig.Recv() != nil {
		sel, ok := unparen(call.Fun).(*ast.SelectorExpr)
		if !ok || fd.Recv == nil || len(fd.Recv.List) != 1 || len(fd.Recv.List[0].Names) != 1 {
			return nil
		}
		o2.subst[ginfo.Defs[fd.Recv.List[0].Names[0]]] = c.canon(info, sel.X, o)
	}
	return c.toBexpr(ginfo, rs.Results[0], o2)
}

// gfIntTerms: canonical texts of comparison operands whose static type is an integer (recorded
// by cmpBexpr and intCmp); len(...) is one by construction.
var gfIntTerms = map[string]bool{}

func gfIsIntTerm(t string) bool { return strings.HasPrefix(t, "len(") || gfIntTerms[t] }

// cmpBexpr normalises integer comparisons with a constant so that `x > 1` and `x >= 2` meet.
func (c *Ctx) cmpBexpr(info *types.Info, l ast.Expr, op token.Token, r ast.Expr, o *canonOpts) *bexpr {
	a, b := c.canon(info, l, o), c.canon(info, r, o)
	if isIntType(info, l) && isIntType(info, r) {
		gfIntTerms[a], gfIntTerms[b] = true, true
	}
	if isIntType(info, l) || isIntType(info, r) {
		if v, ok := intConstOf(info, r); ok {
			switch op {
			case token.GTR:
				return bCmp(a, token.GEQ, strconv.FormatInt(v+1, 10))
			case token.LSS:
				return bCmp(a, token.LEQ, strconv.FormatInt(v-1, 10))
			}
		} else if v, ok := intConstOf(info, l); ok {
			switch op {
			case token.GTR: // c > x  == x <= c-1
				return bCmp(b, token.LEQ, strconv.FormatInt(v-1, 10))
			case token.LSS: // c < x == x >= c+1
				return bCmp(b, token.GEQ, strconv.FormatInt(v+1, 10))
			}
		}
	}
	return bCmp(a, op, b)
}

// intCmp builds a spec-side integer comparison with the same normalisation.
func intCmp(a string, op token.Token, v int64) *bexpr {
	gfIntTerms[a] = true
	switch op {
	case token.GTR:
		return bCmp(a, token.GEQ, strconv.FormatInt(v+1, 10))
	case token.LSS:
		return bCmp(a, token.LEQ, strconv.FormatInt(v-1, 10))
	}
	return bCmp(a, op, strconv.FormatInt(v, 10))
}

// condsToBexpr turns a path condition into a conjunction.
func (c *Ctx) condsToBexpr(info *types.Info, conds []cond, o *canonOpts) *bexpr {
	var xs []*bexpr
	for _, cd := range conds {
		var b *bexpr
		if cd.Tag != nil {
			var alts []*bexpr
			for _, v := range cd.Vals {
				alts = append(alts, c.cmpBexpr(info, cd.Tag, token.EQL, v, o))
			}
			b = bOr(alts...)
		} else {
			b = c.toBexpr(info, cd.Expr, o)
		}
		if cd.Neg {
			b = bNot(b)
		}
		xs = append(xs, b)
	}
	return bAnd(xs...)
}
