package main

import (
	"fmt"
	"go/ast"
	"go/token"
	"go/types"
	"strings"
)

// EOFLOOP — every loop of the reader packages leaves at end of input and consumes input.

var readerPkgs = []string{"io/newick", "io/nexus", "io/fileutils", "io/utils", "io/phyloxml", "io/nextstrain"}

type loopSite struct {
	fi    *FuncInfo
	node  ast.Stmt
	owner string // enclosing function (closures: name#lit)
	ord   int
}

func (c *Ctx) readerLoops() []loopSite {
	var out []loopSite
	for _, fi := range c.AllFuncs(readerPkgs...) {
		n := 0
		ast.Inspect(fi.Decl.Body, func(m ast.Node) bool {
			switch m.(type) {
			case *ast.ForStmt, *ast.RangeStmt:
				n++
				out = append(out, loopSite{fi: fi, node: m.(ast.Stmt), owner: funcName(fi.Obj), ord: n})
			}
			return true
		})
	}
	return out
}

// counterLoop: the condition has a conjunct comparing an int variable with a bound and the variable
// moves towards the bound by a constant in the post statement or unconditionally in the body.
func (c *Ctx) counterLoop(info *types.Info, f *ast.ForStmt) (string, bool) {
	if f.Cond == nil {
		return "", false
	}
	var conj []ast.Expr
	var split func(e ast.Expr)
	split = func(e ast.Expr) {
		if be, ok := unparen(e).(*ast.BinaryExpr); ok && be.Op == token.LAND {
			split(be.X)
			split(be.Y)
			return
		}
		conj = append(conj, unparen(e))
	}
	split(f.Cond)
	dir := func(o types.Object) int { // +1 incremented, -1 decremented each iteration, 0 unknown
		step := func(s ast.Stmt) int {
			switch x := s.(type) {
			case *ast.IncDecStmt:
				if identObj(info, x.X) == o {
					if x.Tok == token.INC {
						return 1
					}
					return -1
				}
			case *ast.AssignStmt:
				if len(x.Lhs) == 1 && identObj(info, x.Lhs[0]) == o {
					if x.Tok == token.ADD_ASSIGN {
						return 1
					}
					if x.Tok == token.SUB_ASSIGN {
						return -1
					}
					return 9
				}
			}
			return 0
		}
		d := 0
		if f.Post != nil {
			d = step(f.Post)
		}
		for _, s := range f.Body.List { // top level only: unconditional
			if k := step(s); k != 0 {
				if d != 0 && d != k {
					return 0
				}
				d = k
			}
		}
		// no other assignment to o nested in the body
		other := 0
		ast.Inspect(f.Body, func(n ast.Node) bool {
			if s, ok := n.(ast.Stmt); ok && step(s) != 0 {
				other++
			}
			return true
		})
		top := 0
		for _, s := range f.Body.List {
			if step(s) != 0 {
				top++
			}
		}
		if other != top || d == 9 {
			return 0
		}
		return d
	}
	for _, e := range conj {
		be, ok := e.(*ast.BinaryExpr)
		if !ok {
			continue
		}
		l, r, op := be.X, be.Y, be.Op
		if identObj(info, l) == nil || !isIntType(info, l) {
			l, r = r, l
			op = map[token.Token]token.Token{token.LSS: token.GTR, token.GTR: token.LSS, token.LEQ: token.GEQ, token.GEQ: token.LEQ}[op]
		}
		o := identObj(info, l)
		if o == nil || !isIntType(info, l) || mentions(info, r, o) {
			continue
		}
		// the bound must not change in the loop
		if bo := identObj(info, r); bo != nil && assignedObjs(info, f.Body)[bo] {
			continue
		}
		d := dir(o)
		if (d == 1 && (op == token.LSS || op == token.LEQ)) || (d == -1 && (op == token.GTR || op == token.GEQ)) {
			return fmt.Sprintf("%s moves by a constant towards the bound in `%s`", o.Name(), c.src(e)), true
		}
	}
	return "", false
}

func varsKey(s *astate) string {
	k := s.key()
	return k[strings.Index(k, "|"):]
}

func (c *Ctx) checkEOFLoops(rule string) {
	clause := "reading terminates ... it never ... loops forever"
	scope := map[string]bool{}
	for _, r := range readerPkgs {
		scope[modPath+"/"+r] = true
	}
	aiEOF := c.newAbsInt()
	aiEOF.eof = true
	aiEOF.scope = scope
	aiAny := c.newAbsInt()
	aiAny.scope = scope
	nsrc := 0
	for _, l := range c.readerLoops() {
		info := l.fi.Pkg.TypesInfo
		key := fmt.Sprintf("%s/loop#%d", l.owner, l.ord)
		switch x := l.node.(type) {
		case *ast.RangeStmt:
			t := info.TypeOf(x.X)
			if _, isChan := t.Underlying().(*types.Chan); isChan {
				c.Trivial(rule, key, x.Pos(), "range over a channel: ends when the producer closes it (GO-CLOSE)")
			} else {
				c.Trivial(rule, key, x.Pos(), "range over a finite "+strings.SplitN(fmt.Sprintf("%T", t.Underlying()), ".", 2)[1]+": terminates")
			}
			continue
		case *ast.ForStmt:
			if why, ok := c.counterLoop(info, x); ok {
				c.OK(rule, key, x.Pos(), "counter loop: "+why)
				continue
			}
			nsrc++
			fresh := declaredIn(info, x.Body)
			aiAny.fresh, aiEOF.fresh = fresh, fresh
			// (1) progress: one iteration with unknown input consumes at least one unit and leaves no token pushed back
			aiAny.gaveUp = ""
			st := newState()
			in := st
			if x.Cond != nil {
				in = aiAny.refine(info, x.Cond, st, true)
			}
			o := aiAny.execList(info, l.fi, x.Body.List, in)
			back := joinStates(o.normal, o.continues)
			if x.Post != nil && back != nil && !back.dead {
				back = aiAny.exec(info, l.fi, x.Post, back).normal
			}
			if aiAny.gaveUp != "" {
				c.Undecided(rule, key+"/progress", x.Pos(), "loop shape outside what the interpreter understands ("+aiAny.gaveUp+"): cannot show that every iteration consumes input")
			} else if back == nil || back.dead {
				c.OK(rule, key+"/progress", x.Pos(), "no path of the body reaches the back edge: at most one iteration")
			} else if back.mc >= 1 && back.buf == bufEmpty {
				c.OK(rule, key+"/progress", x.Pos(), "every path to the back edge consumes input and leaves nothing pushed back")
			} else {
				why := "some path from the loop head to the back edge consumes no input"
				if back.buf != bufEmpty {
					why = "some path reaches the back edge with a token pushed back (the next iteration reads the same token again)"
				}
				c.Violation(rule, key+"/progress", x.Pos(), why+": the loop can spin without advancing in the input").Clause = clause
			}
			// (2) end of input: greatest fixpoint of the back-edge state with every source at end of input
			aiEOF.gaveUp = ""
			S := newState()
			verdict, detail := "", ""
			for iter := 1; iter <= 8; iter++ {
				in := S
				if x.Cond != nil {
					in = aiEOF.refine(info, x.Cond, S, true)
				}
				if in.dead {
					verdict = "ok"
					detail = fmt.Sprintf("after %d all-end-of-input iteration(s) the condition is false", iter-1)
					break
				}
				o := aiEOF.execList(info, l.fi, x.Body.List, in)
				back := joinStates(o.normal, o.continues)
				if x.Post != nil && back != nil && !back.dead {
					back = aiEOF.exec(info, l.fi, x.Post, back).normal
				}
				if aiEOF.gaveUp != "" {
					break
				}
				if back == nil || back.dead {
					verdict = "ok"
					detail = fmt.Sprintf("with every source at end of input no path reaches the back edge (iteration %d)", iter)
					break
				}
				if varsKey(back) == varsKey(S) {
					verdict = "cycle"
					detail = "state at the back edge " + varsKey(back)
					break
				}
				S = back
			}
			switch {
			case aiEOF.gaveUp != "":
				c.Undecided(rule, key+"/eof-exit", x.Pos(), "loop shape outside what the interpreter understands ("+aiEOF.gaveUp+")")
			case verdict == "ok":
				c.OK(rule, key+"/eof-exit", x.Pos(), detail)
			case verdict == "cycle":
				c.Violation(rule, key+"/eof-exit", x.Pos(), "with every input source returning its end-of-input value the loop keeps iterating ("+detail+"): an input that ends here makes the reader hang").Clause = clause
			default:
				c.Undecided(rule, key+"/eof-exit", x.Pos(), "no fixpoint within 8 iterations")
			}
		}
	}
	c.Extra["source_loops"] = nsrc
	c.Extra["primitive_sources"] = sortedKeys(aiEOF.sources)
	c.Extra["callee_summaries"] = len(aiEOF.memo) + len(aiAny.memo)
}
