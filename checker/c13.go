package main

import (
	"fmt"
	"go/ast"
	"go/constant"
	"go/token"
	"go/types"
	"reflect"
	"regexp"
	"sort"
	"strings"
)

func init() { props["C13"] = checkC13 }

func checkC13(c *Ctx) {
	c.Decides("FIRST (SIBLING/NAMEDRES): for PhyloXML and Nextstrain the tree returned by FirstTree is the very object handed to the converter the iterator uses, built from the same source element; for Nexus FirstTree is trees[0] and the iterator ranges over trees in order; ReadTreeReader and ReadMultiTrees use the same parser per format")
	c.Decides("PATH: in ReadMultiTrees every record carries the counter `id`, which starts at 0, is changed only by id++, and is incremented after every delivered tree on every path (consecutive identifiers, all formats)")
	c.Decides("ERRFLOW: every parse/convert error inside the reader goroutine and inside the PhyloXML/Nextstrain iterators reaches a record's Err / the callback (none silently skipped)")
	c.Decides("TABLE/GF: element names written by the PhyloXML writer are names the reader's structs decode, each into the same tree attribute it was written from; support/length are written and read under matching presence guards; the Nexus keywords written are keywords of the Nexus lexer")
	c.DoesNotDecide("equality of trees across conversions (shape, translate-table content), parser correctness (C01/C02)")
	c.firstTreeConv("io/phyloxml", "PhyloXML")
	c.firstTreeConv("io/nextstrain", "Nextstrain")
	c.nexusFirst()
	c.readerSiblings()
	c.multiTreeIds()
	c.multiTreeErrFlow()
	c.phyloxmlTables()
	c.nexusKeywords()
	c.Decides("ALIAS: slices handed out by bufio (ReadLine etc.), valid only until the next read, are copied and never retained by the line readers")
	c.bufioRetain("ALIAS", []string{"io/fileutils", "io/utils", "io/newick", "io/nexus"}, "Every tree of a multi-tree file is delivered in file order ... or an error is reported")
	c.Decides("STORE-OR-ERR: in the Nexus TRANSLATE parser every path that has read a key either stores the (key, value) pair or records an error (no entry is dropped silently, whatever token ends it)")
	c.translateStoreOrErr("STORE-OR-ERR")
	c.Decides("NAME-EXACT: in the tree library and the format readers/writers case folding (ToLower/ToUpper/Title/EqualFold) is only used to recognise constant keywords, never on a text that is then used as a key, stored or written: names are compared byte for byte")
	if sc, _ := c.nameExact("NAME-EXACT", c.AllFuncs("tree", "io/newick", "io/nexus", "io/phyloxml", "io/nextstrain", "io/utils", "io/fileutils"), "names are carried over unchanged between the formats"); sc == 0 {
		c.Undecided("NAME-EXACT", "scan", token.NoPos, "no case-folding call seen in the scanned packages (the Nexus lexer's keyword switch was the instance confirmed by hand)")
	}
	c.Decides("READLINE-PREFIX: every bufio ReadLine call of the line readers binds its isPrefix result to a variable that a condition of the enclosing loop reads (a long line that comes back in pieces is one line); UNREAD-RESCAN: the Nexus lexer puts the rune it has read back before handing over to a helper that reads the token again")
	c.readLinePrefix("READLINE-PREFIX", c.AllFuncs("io/fileutils", "io/utils"), "Every tree of a multi-tree file is delivered in file order ... none is silently skipped")
	c.Floor("READLINE-PREFIX", 2)
	c.unreadBeforeRescan("UNREAD-RESCAN", c.Func("io/nexus", "Scanner", "Scan"), "Converting a tree between Newick, Nexus ... and back gives the same tree")
	c.Floor("UNREAD-RESCAN", 1)
	c.Decides("PARENT-BY-IDENTITY: the recursive writers of the PhyloXML, Nextstrain and Nexus packages that carry the node they came from skip the way back by comparing each neighbour with it, never by position")
	c.parentByIdentity("PARENT-BY-IDENTITY", c.AllFuncs("io/phyloxml", "io/nextstrain", "io/nexus"), "Converting a tree between Newick, Nexus ... and back gives the same tree")
	c.Floor("PARENT-BY-IDENTITY", 1)
	c.Decides("APPEND-ALWAYS (go/cfg): Nexus.AddTree appends to its list of trees and to its list of names on every path: no tree of a file replaces another one")
	c.appendAlways("APPEND-ALWAYS", c.Func("io/nexus", "Nexus", "AddTree"), []string{"trees", "treeNames"}, "Every tree of a multi-tree file is delivered in file order ... none is silently skipped")
	c.Floor("APPEND-ALWAYS", 2)
	c.Decides("CLOSER-NOT-READ (go/cfg): a caller of the Nexus parser's consumeComment does not look at the token it hands back (the closing bracket) before a scan assigns the variable anew - otherwise the command that follows a comment is skipped as unknown")
	if c.closerNotRead("CLOSER-NOT-READ", c.Func("io/nexus", "Parser", "consumeComment"), "Every tree of a multi-tree file is delivered in file order ... none is silently skipped") > 0 {
		c.Floor("CLOSER-NOT-READ", 4)
	}
	c.Decides("FRESH-PER-ITER: the PhyloXML iterator creates the tree it hands to the callback inside its loop over the phylogenies (one object per record)")
	c.freshPerIter("FRESH-PER-ITER", c.Func("io/phyloxml", "PhyloXML", "IterateTrees"), "Every tree of a multi-tree file is delivered in file order")
	c.freshPerIter("FRESH-PER-ITER", c.Func("io/nextstrain", "Nextstrain", "IterateTrees"), "Every tree of a multi-tree file is delivered in file order")
	c.Floor("FRESH-PER-ITER", 1)
	c.Decides("NO-READ-AFTER-EOT: the Newick Parse function reads no token after the test of the token against EOT (it stops at the end of the first tree whatever follows)")
	c.noReadAfterEOT("NO-READ-AFTER-EOT", c.Func("io/newick", "Parser", "Parse"), "reading 'the first tree' of a file gives the same tree as the first one delivered by the multi-tree reader")
	c.Floor("NO-READ-AFTER-EOT", 1)
	c.Decides("RUNE-NARROW: the Nexus lexer and parser never narrow a rune to a byte; ALL-MEMBERS: no gzip reader of the repository has Multistream switched off (every member of a compressed input is read)")
	c.runeNarrow("RUNE-NARROW", c.AllFuncs("io/nexus", "io/newick"), "names are carried over unchanged between the formats")
	c.Trivial("RUNE-NARROW", "scan", 0, "io/nexus and io/newick scanned")
	if sites, _ := c.gzipAllMembers("ALL-MEMBERS", "Every tree of a multi-tree file is delivered in file order ... none is silently skipped"); sites == 0 {
		c.Undecided("ALL-MEMBERS", "scan", 0, "no gzip.NewReader call found (GetReader opened .gz inputs through one)")
	} else {
		c.Trivial("ALL-MEMBERS", "scan", 0, fmt.Sprintf("%d gzip readers, none with Multistream switched off", sites))
	}
	c.Decides("WRITES: reference count of the write calls of the Nexus and PhyloXML writers, per function (a deleted keyword, closing tag or tree line lowers it)")
	{
		var writers []*FuncInfo
		for _, fi := range c.AllFuncs("io/nexus", "io/phyloxml") {
			if strings.HasPrefix(strings.ToLower(fi.Obj.Name()), "write") {
				writers = append(writers, fi)
			}
		}
		c.writerWrites("WRITES", writers, "Converting a tree between Newick, Nexus and PhyloXML and back gives the same tree")
	}
	c.Floor("WRITES", 10)
	c.Decides("BLANKS-AGREE: every in-line white-space character of the Newick lexer (isWhitespace minus the line terminators) is a blank for the multi-tree splitter's end-of-tree test, so that `;` followed by blanks ends a tree for the multi-tree reader exactly where the single-tree reader stops")
	c.blanksAgree("BLANKS-AGREE", c.Func("io/fileutils", "", "ReadUntilSemiColon"), c.Func("io/newick", "", "isWhitespace"), "Every tree of a multi-tree file is delivered in file order ... none is silently skipped")
	c.Floor("BLANKS-AGREE", 1)
	if fx := c.Fixture(); fx != nil {
		sub := c.subCtx(fx)
		_, nv := sub.nameExact("NAME-EXACT", sub.AllFuncs(), "")
		c.Control("NAME-EXACT", nv == 1, "fixture.C13FoldedKey uses a lower-cased label as a map key (and folds a keyword switch, which is accepted)")
	}
	c.Floor("STORE-OR-ERR", 1)
	c.Floor("FLOATFMT", 2)
	c.Floor("ALIAS", 2)
	c.Floor("FIRST", 8)
	c.Floor("PATH", 6)
	c.Floor("ERRFLOW", 8)
	c.Floor("TABLE", 8)
	c.Floor("GF", 4)
}

// treePtr: t is *tree.Tree
func isTreePtr(t types.Type) bool {
	p, ok := t.(*types.Pointer)
	if !ok {
		return false
	}
	n, ok := p.Elem().(*types.Named)
	return ok && n.Obj().Name() == "Tree" && n.Obj().Pkg() != nil && n.Obj().Pkg().Path() == modPath+"/tree"
}

// srcKey describes where a converter's source argument comes from, independent of local names:
// a range value -> "range(<operand>)", otherwise the canonical expression; the receiver is "$R".
func (c *Ctx) srcKey(info *types.Info, fd *ast.FuncDecl, e ast.Expr) string {
	o := c.localExpansions(info, fd.Body)
	if r := recvObj(info, fd); r != nil {
		o.subst[r] = "$R"
	}
	root := e
	for {
		switch x := unparen(root).(type) {
		case *ast.UnaryExpr:
			root = x.X
			continue
		case *ast.SelectorExpr:
			root = x.X
			continue
		case *ast.IndexExpr:
			root = x.X
			continue
		}
		break
	}
	if ro := identObj(info, root); ro != nil {
		var key string
		ast.Inspect(fd.Body, func(n ast.Node) bool {
			if rs, ok := n.(*ast.RangeStmt); ok && rs.Value != nil && identObj(info, rs.Value) == ro {
				key = "range(" + c.canon(info, rs.X, o) + ")"
			}
			return true
		})
		if key != "" {
			return key
		}
		// a local copy of the first element: `x := F[0]` (its address may be taken afterwards)
		ast.Inspect(fd.Body, func(n ast.Node) bool {
			if as, ok := n.(*ast.AssignStmt); ok && as.Tok == token.DEFINE && len(as.Lhs) == 1 && len(as.Rhs) == 1 && identObj(info, as.Lhs[0]) == ro {
				if ix, ok := unparen(as.Rhs[0]).(*ast.IndexExpr); ok {
					if v, ok := intConstOf(info, ix.Index); ok && v == 0 {
						key = "range(" + c.canon(info, ix.X, o) + ")"
					}
				}
			}
			return true
		})
		if key != "" {
			return key
		}
	}
	return c.canon(info, e, o)
}

func (c *Ctx) firstTreeConv(pkgRel, recv string) {
	it := c.Func(pkgRel, recv, "IterateTrees")
	ft := c.Func(pkgRel, recv, "FirstTree")
	if it == nil || ft == nil {
		return
	}
	info := it.Pkg.TypesInfo
	name := pkgRel + "." + recv
	clause := "reading 'the first tree' of a file gives the same tree as the first one delivered by the multi-tree reader, for every format"
	// converter call in a function: repository callee with a *tree.Tree argument
	convIn := func(fi *FuncInfo) (call *ast.CallExpr, treeArg ast.Expr, srcArg ast.Expr) {
		for _, cl := range callsIn(fi.Decl.Body, true) {
			fn := calleeOf(info, cl)
			if fn == nil || !inRepo(fn) || fn.Pkg().Path() != it.Pkg.PkgPath {
				continue
			}
			var ta, sa ast.Expr
			for _, a := range cl.Args {
				if isTreePtr(info.TypeOf(a)) {
					ta = a
				} else if sa == nil {
					sa = a
				}
			}
			if ta != nil && sa != nil {
				return cl, ta, sa
			}
		}
		return nil, nil, nil
	}
	cb := paramObj(info, it.Decl, 0)
	// builder: a function of the package, func(src) (*tree.Tree, error), that holds the converter
	// call on its parameter and returns the tree it filled together with the converter's error.
	// A builder call stands for the converter call; `pass` tells that its two results are handed on
	// as they are (operands of return, or the arguments of the callback).
	type producer struct {
		call    *ast.CallExpr // converter call, or builder call
		conv    *types.Func   // the converter finally applied
		tree    ast.Expr      // variable that holds the converted tree (nil when pass)
		src     ast.Expr
		pass    bool
		builder *FuncInfo
	}
	builderOf := func(g *types.Func) (*FuncInfo, *types.Func) {
		if g == nil || !inRepo(g) || g.Pkg().Path() != it.Pkg.PkgPath {
			return nil, nil
		}
		sig := g.Type().(*types.Signature)
		if sig.Results().Len() != 2 || !isTreePtr(sig.Results().At(0).Type()) || !isErrorType(sig.Results().At(1).Type()) || sig.Params().Len() != 1 {
			return nil, nil
		}
		gi := c.FuncOfObj(g)
		if gi == nil || gi.Decl.Body == nil {
			return nil, nil
		}
		cl, ta, sa := convIn(gi)
		if cl == nil || identObj(info, ta) == nil || identObj(info, sa) != paramObj(info, gi.Decl, 0) {
			return nil, nil
		}
		// every return hands back the tree it filled and the converter's error
		var errObj types.Object
		for _, st := range stackTo(gi.Decl.Body, cl) {
			if as, ok := st.(*ast.AssignStmt); ok && len(as.Lhs) == 1 && len(as.Rhs) == 1 && unparen(as.Rhs[0]) == ast.Expr(cl) {
				errObj = identObj(info, as.Lhs[0])
			}
		}
		good, nret := errObj != nil, 0
		var named []types.Object
		if gi.Decl.Type.Results != nil {
			for _, f := range gi.Decl.Type.Results.List {
				for _, nm := range f.Names {
					named = append(named, info.Defs[nm])
				}
			}
		}
		ast.Inspect(gi.Decl.Body, func(n ast.Node) bool {
			if _, ok := n.(*ast.FuncLit); ok {
				return false
			}
			if r, ok := n.(*ast.ReturnStmt); ok {
				nret++
				switch {
				case len(r.Results) == 2:
					if identObj(info, r.Results[0]) != identObj(info, ta) || identObj(info, r.Results[1]) != errObj {
						good = false
					}
				case len(r.Results) == 0 && len(named) == 2:
					if named[0] != identObj(info, ta) || named[1] != errObj {
						good = false
					}
				default:
					good = false
				}
			}
			return true
		})
		if !good || nret == 0 {
			return nil, nil
		}
		return gi, calleeOf(info, cl)
	}
	prod := func(fi *FuncInfo) *producer {
		if cl, ta, sa := convIn(fi); cl != nil {
			return &producer{call: cl, conv: calleeOf(info, cl), tree: ta, src: sa}
		}
		for _, cl := range callsIn(fi.Decl.Body, true) {
			gi, cv := builderOf(calleeOf(info, cl))
			if gi == nil || len(cl.Args) != 1 {
				continue
			}
			p := &producer{call: cl, conv: cv, src: cl.Args[0], builder: gi}
			st := stackTo(fi.Decl.Body, cl)
			if len(st) >= 2 {
				switch par := st[len(st)-2].(type) {
				case *ast.ReturnStmt:
					p.pass = len(par.Results) == 1
				case *ast.CallExpr:
					if id, ok := unparen(par.Fun).(*ast.Ident); ok && info.Uses[id] == cb && len(par.Args) == 1 {
						p.pass = true
					}
				case *ast.AssignStmt:
					if len(par.Lhs) == 2 && len(par.Rhs) == 1 {
						p.tree = par.Lhs[0]
					}
				}
			}
			if p.pass || p.tree != nil {
				return p
			}
		}
		return nil
	}
	// delegation: the iterator hands FirstTree's two results to the callback as they are
	for _, cl := range callsIn(it.Decl.Body, true) {
		if id, ok := unparen(cl.Fun).(*ast.Ident); ok && info.Uses[id] == cb && len(cl.Args) == 1 {
			if inner, ok := unparen(cl.Args[0]).(*ast.CallExpr); ok && calleeOf(info, inner) == ft.Obj {
				if conds, okc := c.pathConds(info, it.Decl.Body, cl, false); okc && len(conds) == 0 && len(callsIn(it.Decl.Body, true)) == 2 {
					c.OK("FIRST", name+"/same-converter", cl.Pos(), "the iterator delivers exactly what FirstTree returns (tree and error)").Clause = clause
					c.OK("FIRST", name+".IterateTrees/delivers-converted", cl.Pos(), "the iterator delivers exactly what FirstTree returns").Clause = clause
					c.OK("FIRST", name+"/same-source", cl.Pos(), "the iterator delivers exactly what FirstTree returns").Clause = clause
					c.OK("ERRFLOW", funcName(it.Obj)+"/FirstTree", cl.Pos(), "both results of FirstTree are the arguments of the callback").Clause = "or an error is reported, none is silently skipped"
					fp := prod(ft)
					if fp == nil {
						c.Undecided("FIRST", name+"/converter", ft.Decl.Pos(), "converter call (a repository function taking the source element and a *tree.Tree) not found in FirstTree")
						return
					}
					c.firstTreeSelf(name, clause, ft, fp.call, fp.tree, fp.pass, fp.builder != nil)
					return
				}
			}
		}
	}
	ip, fp := prod(it), prod(ft)
	if ip == nil || fp == nil {
		c.Undecided("FIRST", name+"/converter", ft.Decl.Pos(), "converter call (a repository function taking the source element and a *tree.Tree) not found in IterateTrees/FirstTree")
		return
	}
	icall, itree, isrc := ip.call, ip.tree, ip.src
	fcall, ftree, fsrc := fp.call, fp.tree, fp.src
	c.Check(ip.conv == fp.conv, "FIRST", name+"/same-converter", fcall.Pos(),
		"FirstTree and IterateTrees convert with the same function "+ip.conv.Name(),
		"FirstTree converts with "+fp.conv.Name()+" but the iterator with "+ip.conv.Name()).Clause = clause
	// iterator: the callback receives the converted tree
	okCb := ip.pass
	for _, cl := range callsIn(it.Decl.Body, true) {
		if id, ok := unparen(cl.Fun).(*ast.Ident); ok && info.Uses[id] == cb && len(cl.Args) >= 1 && itree != nil {
			if identObj(info, cl.Args[0]) == identObj(info, itree) && identObj(info, itree) != nil {
				okCb = true
			}
		}
	}
	c.Check(okCb, "FIRST", name+".IterateTrees/delivers-converted", icall.Pos(), "the callback receives the tree the converter filled", "the iterator's callback does not receive the tree object that the converter filled").Clause = clause
	// same source element
	ik, fk := c.srcKey(info, it.Decl, isrc), c.srcKey(info, ft.Decl, fsrc)
	// `X[0]` (taken directly) is the first element of `range X`
	firstOf := func(k string) string {
		k = strings.TrimPrefix(k, "&")
		if strings.HasSuffix(k, "[0]") {
			return "range(" + strings.TrimSuffix(k, "[0]") + ")"
		}
		return ""
	}
	sameSrc := ik == fk || (firstOf(fk) != "" && firstOf(fk) == ik)
	c.Check(sameSrc, "FIRST", name+"/same-source", fcall.Pos(), "both convert "+ik, "FirstTree converts "+fk+" while the iterator converts "+ik).Clause = clause
	// when the source is a range value, FirstTree must take the first element: the converter call is
	// unguarded inside the loop and the loop body leaves after it
	if strings.HasPrefix(fk, "range(") && func() bool {
		for _, s := range stackTo(ft.Decl.Body, fcall) {
			if _, ok := s.(*ast.RangeStmt); ok {
				return true
			}
		}
		return false
	}() {
		st := stackTo(ft.Decl.Body, fcall)
		var rs *ast.RangeStmt
		for _, s := range st {
			if r, ok := s.(*ast.RangeStmt); ok {
				rs = r
			}
		}
		good := false
		if rs != nil {
			conds, okc := c.pathConds(info, ft.Decl.Body, fcall, true)
			good = okc && len(conds) == 0 && c.leaves(info, rs.Body.List)
		}
		c.Check(good, "FIRST", name+".FirstTree/first-element", fcall.Pos(), "converts the first element unconditionally and leaves the loop", "FirstTree does not unconditionally convert the first element and stop: it may return a later tree than the first one the iterator delivers").Clause = clause
	}
	// when the source is an element of a slice, "no element" must give "no tree" (nil): the reader
	// entry points tell an empty document from a tree by testing FirstTree's result against nil. The
	// tree FirstTree returns is therefore created only where an element exists: inside the range
	// over the slice, or under a test of its length.
	if src := strings.TrimSuffix(strings.TrimPrefix(firstOf(fk), "range("), ")"); src != "" || strings.HasPrefix(fk, "range(") {
		if src == "" {
			src = strings.TrimSuffix(strings.TrimPrefix(fk, "range("), ")")
		}
		so := c.localExpansions(info, ft.Decl.Body)
		if r := recvObj(info, ft.Decl); r != nil {
			so.subst[r] = "$R"
		}
		var sites []*ast.CallExpr
		for _, cl := range callsIn(ft.Decl.Body, false) {
			if g := calleeOf(info, cl); g != nil && (isRepoFunc(g, "tree", "", "NewTree") || (fp.builder != nil && g == fp.builder.Obj)) {
				sites = append(sites, cl)
			}
		}
		okAll := len(sites) > 0
		var at token.Pos = ft.Decl.Pos()
		for _, cl := range sites {
			guarded := false
			for _, a := range stackTo(ft.Decl.Body, cl) {
				if rs, ok := a.(*ast.RangeStmt); ok && c.canon(info, rs.X, so) == src {
					guarded = true
				}
			}
			if conds, okc := c.pathConds(info, ft.Decl.Body, cl, false); okc {
				for _, cd := range conds {
					if cd.Expr != nil && strings.Contains(c.canon(info, cd.Expr, so), "len("+src+")") {
						guarded = true
					}
				}
			}
			if !guarded {
				okAll, at = false, cl.Pos()
			}
		}
		c.Check(okAll, "FIRST", name+".FirstTree/no-element-no-tree", at, "the tree is created only where a source element exists", "FirstTree creates the tree it returns outside any test that an element of "+src+" exists: a document without such an element yields an empty non-nil tree (nil root) instead of nil, and the entry points that test the result against nil deliver it as a success").Clause = "returns either a tree ... or an error"
	}
	c.firstTreeSelf(name, clause, ft, fcall, ftree, fp.pass, fp.builder != nil)
	// the error of the conversion is delivered by the iterator
	if ip.pass {
		c.OK("ERRFLOW", funcName(it.Obj)+"/"+calleeOf(info, icall).Name(), icall.Pos(), "both results of the conversion are the arguments of the callback").Clause = "or an error is reported, none is silently skipped"
	} else {
		sp := &errFlowSpec{info: info, body: it.Decl.Body, ftype: it.Decl.Type}
		sp.extraSink = func(n ast.Node, v types.Object) bool {
			found := false
			ast.Inspect(n, func(m ast.Node) bool {
				if cl, ok := m.(*ast.CallExpr); ok {
					if id, ok := unparen(cl.Fun).(*ast.Ident); ok && info.Uses[id] == cb {
						for _, a := range cl.Args {
							if identObj(info, a) == v {
								found = true
							}
						}
					}
				}
				return true
			})
			return found
		}
		r := c.errFlow(sp, icall)
		c.reportErrFlow("ERRFLOW", funcName(it.Obj)+"/"+calleeOf(info, icall).Name(), r, "the conversion", "or an error is reported, none is silently skipped")
	}
	if ip.builder != nil {
		gi := ip.builder
		c.OK("ERRFLOW", funcName(gi.Obj)+"/"+ip.conv.Name(), gi.Decl.Pos(), "the builder returns the tree it filled together with the converter's error on every return").Clause = "or an error is reported, none is silently skipped"
	}
}

// firstTreeSelf: FirstTree returns the object handed to the converter, and the conversion's error.
func (c *Ctx) firstTreeSelf(name, clause string, ft *FuncInfo, fcall *ast.CallExpr, ftree ast.Expr, pass, viaBuilder bool) {
	info := ft.Pkg.TypesInfo
	if pass {
		c.OK("FIRST", name+".FirstTree/returns-converted", fcall.Pos(), "FirstTree returns the two results of the conversion as they are").Clause = clause
		c.OK("ERRFLOW", funcName(ft.Obj)+"/"+calleeOf(info, fcall).Name(), fcall.Pos(), "both results of the conversion are returned").Clause = "or an error is reported, none is silently skipped"
		return
	}
	var resObj types.Object
	if ft.Decl.Type.Results != nil {
		for _, f := range ft.Decl.Type.Results.List {
			for _, n := range f.Names {
				if o := info.Defs[n]; o != nil && isTreePtr(o.Type()) {
					resObj = o
				}
			}
		}
	}
	ftObj := identObj(info, ftree)
	returned := map[types.Object]bool{}
	bare := false
	ast.Inspect(ft.Decl.Body, func(n ast.Node) bool {
		if _, ok := n.(*ast.FuncLit); ok {
			return false
		}
		if r, ok := n.(*ast.ReturnStmt); ok {
			if len(r.Results) == 0 {
				bare = true
			} else if isNilIdent(info, r.Results[0]) {
				// "no tree": the path taken when there is no source element
			} else if o := identObj(info, r.Results[0]); o != nil {
				returned[o] = true
			}
		}
		return true
	})
	if bare && resObj != nil {
		returned[resObj] = true
	}
	switch {
	case ftObj == nil:
		c.Undecided("FIRST", name+".FirstTree/returns-converted", fcall.Pos(), "tree argument of the converter is not a variable")
	case returned[ftObj] && len(returned) == 1:
		c.OK("FIRST", name+".FirstTree/returns-converted", fcall.Pos(), "the returned tree is the object the converter filled")
	default:
		why := "the tree returned is not the object handed to the converter"
		if resObj != nil && ftObj != resObj && ftObj.Name() == resObj.Name() {
			why = fmt.Sprintf("`%s` handed to the converter is a new variable declared in an inner scope (:=) that shadows the named result `%s`; no path assigns the named result, so FirstTree returns a nil tree for every input while the iterator delivers the converted tree", ftObj.Name(), resObj.Name())
		}
		c.Violation("FIRST", name+".FirstTree/returns-converted", fcall.Pos(), why).Clause = clause
	}
	sp := &errFlowSpec{info: info, body: ft.Decl.Body, ftype: ft.Decl.Type}
	r := c.errFlow(sp, fcall)
	c.reportErrFlow("ERRFLOW", funcName(ft.Obj)+"/"+calleeOf(info, fcall).Name(), r, "the conversion", "or an error is reported, none is silently skipped")
}

func (c *Ctx) nexusFirst() {
	ft := c.Func("io/nexus", "Nexus", "FirstTree")
	it := c.Func("io/nexus", "Nexus", "IterateTrees")
	add := c.Func("io/nexus", "Nexus", "AddTree")
	if ft == nil || it == nil || add == nil {
		return
	}
	info := ft.Pkg.TypesInfo
	clause := "reading 'the first tree' of a file gives the same tree as the first one delivered by the multi-tree reader"
	sub := func(fd *ast.FuncDecl) *canonOpts {
		o := &canonOpts{subst: map[types.Object]string{}}
		if r := recvObj(info, fd); r != nil {
			o.subst[r] = "$R"
		}
		return o
	}
	// FirstTree: every non-nil return is $R.trees[0]
	good, n := true, 0
	ast.Inspect(ft.Decl.Body, func(m ast.Node) bool {
		if r, ok := m.(*ast.ReturnStmt); ok && len(r.Results) == 1 && !isNilIdent(info, r.Results[0]) {
			n++
			if c.canon(info, r.Results[0], sub(ft.Decl)) != "$R.trees[0]" {
				good = false
			}
		}
		return true
	})
	c.Check(good && n > 0, "FIRST", "io/nexus.Nexus.FirstTree/first-element", ft.Decl.Pos(), "returns trees[0]", "Nexus.FirstTree does not return trees[0]").Clause = clause
	// IterateTrees: range over $R.trees, callback gets the range value, unguarded
	cb := paramObj(info, it.Decl, 0)
	okIt := false
	ast.Inspect(it.Decl.Body, func(m ast.Node) bool {
		rs, ok := m.(*ast.RangeStmt)
		if !ok || c.canon(info, rs.X, sub(it.Decl)) != "$R.trees" || rs.Value == nil {
			return true
		}
		for _, cl := range callsIn(rs.Body, false) {
			if id, ok := unparen(cl.Fun).(*ast.Ident); ok && info.Uses[id] == cb && len(cl.Args) == 2 && identObj(info, cl.Args[1]) == identObj(info, rs.Value) {
				conds, okc := c.pathConds(info, it.Decl.Body, cl, true)
				if okc && len(conds) == 0 {
					okIt = true
				}
			}
		}
		return true
	})
	if !okIt {
		// the same walk written as a counting loop, over the field or over a local holding it
		for _, cl := range callsIn(it.Decl.Body, false) {
			id, isId := unparen(cl.Fun).(*ast.Ident)
			if !isId || info.Uses[id] != cb || len(cl.Args) != 2 {
				continue
			}
			container, isElem := c.loopElement(info, it.Decl.Body, cl, cl.Args[1], sub(it.Decl))
			if !isElem {
				continue
			}
			if container != "$R.trees" {
				for _, st := range it.Decl.Body.List {
					if as, isAs := st.(*ast.AssignStmt); isAs && len(as.Lhs) == 1 && len(as.Rhs) == 1 {
						if o := identObj(info, as.Lhs[0]); o != nil && o.Name() == container && c.canon(info, as.Rhs[0], sub(it.Decl)) == "$R.trees" {
							container = "$R.trees"
						}
					}
				}
			}
			upward := false
			for _, a := range stackTo(it.Decl.Body, cl) {
				if fs, isFor := a.(*ast.ForStmt); isFor {
					if inc, isInc := fs.Post.(*ast.IncDecStmt); isInc && inc.Tok == token.INC {
						if init, isAs := fs.Init.(*ast.AssignStmt); isAs && len(init.Rhs) >= 1 {
							if tv, has := info.Types[init.Rhs[0]]; has && tv.Value != nil && constKey(tv.Value) == "0" {
								upward = true
							}
						}
					}
				}
			}
			conds, okc := c.pathConds(info, it.Decl.Body, cl, true)
			if container == "$R.trees" && upward && okc && len(conds) == 0 {
				okIt = true
			}
		}
	}
	c.Check(okIt, "FIRST", "io/nexus.Nexus.IterateTrees/in-order", it.Decl.Pos(), "delivers trees[0], trees[1], ... unconditionally", "Nexus.IterateTrees does not deliver every element of trees in slice order").Clause = "Every tree of a multi-tree file is delivered in file order"
	// AddTree appends
	okAdd := false
	tparam := paramObj(info, add.Decl, 1)
	ast.Inspect(add.Decl.Body, func(m ast.Node) bool {
		if as, ok := m.(*ast.AssignStmt); ok && len(as.Lhs) == 1 && len(as.Rhs) == 1 && c.canon(info, as.Lhs[0], sub(add.Decl)) == "$R.trees" {
			if cl, ok := unparen(as.Rhs[0]).(*ast.CallExpr); ok && len(cl.Args) == 2 {
				if id, ok := cl.Fun.(*ast.Ident); ok && id.Name == "append" && c.canon(info, cl.Args[0], sub(add.Decl)) == "$R.trees" && identObj(info, cl.Args[1]) == tparam {
					okAdd = true
				}
			}
		}
		return true
	})
	c.Check(okAdd, "FIRST", "io/nexus.Nexus.AddTree/appends", add.Decl.Pos(), "parsed trees are appended in file order", "Nexus.AddTree does not append the tree at the end of trees: file order is lost").Clause = "Every tree of a multi-tree file is delivered in file order"
}

// caseParsers: for a `switch format` statement: FORMAT_x constant name -> packages whose
// Parser.Parse / FirstTree / IterateTrees are called in that case.
func (c *Ctx) caseParsers(info *types.Info, body ast.Node) map[string]map[string]string {
	out := map[string]map[string]string{}
	ast.Inspect(body, func(n ast.Node) bool {
		sw, ok := n.(*ast.SwitchStmt)
		if !ok || sw.Tag == nil {
			return true
		}
		for _, s := range sw.Body.List {
			cc := s.(*ast.CaseClause)
			for _, v := range cc.List {
				var cname string
				switch x := unparen(v).(type) {
				case *ast.Ident:
					if cn, ok := info.Uses[x].(*types.Const); ok {
						cname = cn.Name()
					}
				case *ast.SelectorExpr:
					if cn, ok := info.Uses[x.Sel].(*types.Const); ok {
						cname = cn.Name()
					}
				}
				if !strings.HasPrefix(cname, "FORMAT_") {
					continue
				}
				m := map[string]string{}
				for _, st := range cc.Body {
					for _, cl := range callsIn(st, true) {
						fn := calleeOf(info, cl)
						if fn == nil || !inRepo(fn) {
							continue
						}
						switch fn.Name() {
						case "Parse", "FirstTree", "IterateTrees":
							m[fn.Name()] = strings.TrimPrefix(fn.Pkg().Path(), modPath+"/")
						}
					}
				}
				out[cname] = m
			}
		}
		return false
	})
	return out
}

func (c *Ctx) readerSiblings() {
	one := c.Func("io/utils", "", "ReadTreeReader")
	multi := c.Func("io/utils", "", "ReadMultiTrees")
	if one == nil || multi == nil {
		return
	}
	info := one.Pkg.TypesInfo
	a, b := c.caseParsers(info, one.Decl.Body), c.caseParsers(info, multi.Decl.Body)
	clause := "reading 'the first tree' of a file gives the same tree as the first one delivered by the multi-tree reader, for every format"
	if len(a) < 4 || len(b) < 4 {
		c.Undecided("FIRST", "io/utils/format-switch", one.Decl.Pos(), fmt.Sprintf("expected a switch over >=4 FORMAT_ constants in both readers, found %d and %d", len(a), len(b)))
		return
	}
	var names []string
	for k := range a {
		names = append(names, k)
	}
	sort.Strings(names)
	for _, k := range names {
		pa, pb := a[k]["Parse"], b[k]["Parse"]
		key := "io/utils/" + k
		if _, ok := b[k]; !ok {
			c.Violation("FIRST", key, multi.Decl.Pos(), "format "+k+" is read by ReadTreeReader but not by ReadMultiTrees").Clause = clause
			continue
		}
		good := pa != "" && pa == pb
		// every accessor used comes from the same package as the parser
		for _, m := range []map[string]string{a[k], b[k]} {
			for fn, p := range m {
				if fn != "Parse" && p != pa {
					good = false
				}
			}
		}
		// the single-tree reader takes FirstTree (formats other than newick)
		if _, has := b[k]["IterateTrees"]; has {
			if _, ok := a[k]["FirstTree"]; !ok {
				good = false
			}
		}
		c.Check(good, "FIRST", key, one.Decl.Pos(), "both readers parse with "+pa, fmt.Sprintf("the single-tree and the multi-tree reader do not use the same parser/accessors for %s: %v vs %v", k, a[k], b[k])).Clause = clause
	}
}

// the goroutine closure of ReadMultiTrees
func (c *Ctx) multiClosure() (*FuncInfo, *ast.FuncLit) {
	fi := c.Func("io/utils", "", "ReadMultiTrees")
	if fi == nil {
		return nil, nil
	}
	var fl *ast.FuncLit
	ast.Inspect(fi.Decl.Body, func(n ast.Node) bool {
		if g, ok := n.(*ast.GoStmt); ok && fl == nil {
			if l, ok := g.Call.Fun.(*ast.FuncLit); ok {
				fl = l
			}
		}
		return true
	})
	if fl == nil {
		c.Undecided("PATH", "utils.ReadMultiTrees/closure", fi.Decl.Pos(), "reader goroutine not found")
	}
	return fi, fl
}

func (c *Ctx) multiTreeIds() {
	fi, fl := c.multiClosure()
	if fl == nil {
		return
	}
	info := fi.Pkg.TypesInfo
	clause := "delivered in file order with consecutive identifiers"
	// sends of tree.Trees literals
	type sendSite struct {
		st     *ast.SendStmt
		fields map[string]ast.Expr
		owner  *ast.FuncLit // innermost function literal
	}
	var sends []sendSite
	walkStack(fl, func(n ast.Node, stack []ast.Node) bool {
		if s, ok := n.(*ast.SendStmt); ok {
			if flds := c.recordFields(info, s.Value, 3); flds != nil {
				owner := fl
				for _, a := range stack {
					if l, ok := a.(*ast.FuncLit); ok {
						owner = l
					}
				}
				sends = append(sends, sendSite{s, flds, owner})
			}
		}
		return true
	})
	if len(sends) < 6 {
		c.Undecided("PATH", "utils.ReadMultiTrees/sends", fl.Pos(), fmt.Sprintf("expected >=6 record sends in the reader goroutine, found %d", len(sends)))
	}
	// the counter: the variable all Id fields name
	var idObj types.Object
	for i, s := range sends {
		f := s.fields
		key := fmt.Sprintf("utils.ReadMultiTrees/send#%d", i+1)
		o := identObj(info, f["Id"])
		if o == nil {
			c.Violation("PATH", key+"/Id", s.st.Pos(), "the record's Id is not the tree counter").Clause = clause
			continue
		}
		if idObj == nil {
			idObj = o
		}
		c.Check(o == idObj, "PATH", key+"/Id", s.st.Pos(), "Id = "+o.Name(), "records do not all carry the same counter").Clause = clause
	}
	if idObj == nil {
		return
	}
	// the counter starts at 0 and is only changed by ++
	okInit, okMod := false, true
	ast.Inspect(fl, func(n ast.Node) bool {
		switch s := n.(type) {
		case *ast.ValueSpec:
			for i, nm := range s.Names {
				if info.Defs[nm] == idObj {
					if len(s.Values) == 0 {
						okInit = true
					} else if tv, ok := info.Types[s.Values[i]]; ok && tv.Value != nil && constant.Sign(tv.Value) == 0 {
						okInit = true
					}
				}
			}
		case *ast.AssignStmt:
			for i, l := range s.Lhs {
				if identObj(info, l) == idObj {
					if s.Tok == token.DEFINE && len(s.Rhs) == len(s.Lhs) {
						if tv, ok := info.Types[s.Rhs[i]]; ok && tv.Value != nil && constant.Sign(tv.Value) == 0 {
							okInit = true
							continue
						}
					}
					okMod = false
				}
			}
		case *ast.IncDecStmt:
			if identObj(info, s.X) == idObj && s.Tok != token.INC {
				okMod = false
			}
		case *ast.UnaryExpr:
			if s.Op == token.AND && identObj(info, s.X) == idObj {
				okMod = false
			}
		}
		return true
	})
	c.Check(okInit && okMod, "PATH", "utils.ReadMultiTrees/counter", fl.Pos(), "counter starts at 0 and is only incremented", "the tree counter does not start at 0 or is modified other than by ++: identifiers are not consecutive from 0").Clause = clause
	isInc := func(n ast.Node) bool {
		s, ok := n.(*ast.IncDecStmt)
		return ok && s.Tok == token.INC && identObj(info, s.X) == idObj
	}
	for i, s := range sends {
		f := s.fields
		key := fmt.Sprintf("utils.ReadMultiTrees/send#%d", i+1)
		if t, ok := f["Tree"]; !ok || isNilIdent(info, t) {
			c.Trivial("PATH", key+"/error-record", s.st.Pos(), "error record: no tree delivered")
			continue
		}
		g := c.cfgOf(info, s.owner.Body)
		res := mustPass(g, s.st.Pos(), isInc, func(*ast.ReturnStmt) bool { return true })
		if res.ok {
			c.OK("PATH", key+"/id++", s.st.Pos(), "the counter is incremented after the tree is delivered, on every path")
		} else {
			_, ln := c.pos(res.escape)
			c.Violation("PATH", key+"/id++", s.st.Pos(), fmt.Sprintf("a path from this delivered tree to the end of the block (line %d) does not increment the tree counter: the next tree gets the same identifier", ln)).Clause = clause
		}
	}
}

func (c *Ctx) multiTreeErrFlow() {
	fi, fl := c.multiClosure()
	if fl == nil {
		return
	}
	info := fi.Pkg.TypesInfo
	clause := "or an error is reported, none is silently skipped"
	sp := &errFlowSpec{info: info, body: fl.Body, ftype: fl.Type}
	nRead := 0
	for _, call := range callsIn(fl.Body, false) {
		fn := calleeOf(info, call)
		if fn == nil || !inRepo(fn) {
			continue
		}
		pk := strings.TrimPrefix(fn.Pkg().Path(), modPath+"/")
		switch {
		case fn.Name() == "Parse":
			r := c.errFlow(sp, call)
			c.reportErrFlow("ERRFLOW", "utils.ReadMultiTrees#reader/"+pk+".Parse", r, pk+" Parse", clause)
		case fn.Name() == "FirstTree" && fn.Type().(*types.Signature).Results().Len() == 2:
			r := c.errFlow(sp, call)
			c.reportErrFlow("ERRFLOW", "utils.ReadMultiTrees#reader/"+pk+".FirstTree", r, pk+" FirstTree", clause)
		case fn.Name() == "ReadUntilSemiColon":
			nRead++
			r := c.errFlow(sp, call)
			if nRead == 1 {
				c.reportErrFlow("ERRFLOW", "utils.ReadMultiTrees#reader/ReadUntilSemiColon#first", r, "the first ReadUntilSemiColon", clause)
			} else if !r.delivered {
				c.Note("ERRFLOW", fmt.Sprintf("utils.ReadMultiTrees#reader/ReadUntilSemiColon#%d", nRead), call.Pos(), "the error that ends the stream (end of input) is not forwarded; a read error and trailing text without ';' end the stream the same way (input = byte sequences: only end of input occurs)")
			}
		}
	}
	// callbacks handed to IterateTrees: an error parameter must go into the record
	for _, call := range callsIn(fl.Body, false) {
		fn := calleeOf(info, call)
		if fn == nil || fn.Name() != "IterateTrees" || len(call.Args) != 1 {
			continue
		}
		cb, ok := unparen(call.Args[0]).(*ast.FuncLit)
		if !ok {
			c.Undecided("ERRFLOW", "utils.ReadMultiTrees#reader/"+fn.Pkg().Name()+".IterateTrees-callback", call.Pos(), "callback is not a function literal")
			continue
		}
		var errParam types.Object
		for _, f := range cb.Type.Params.List {
			for _, n := range f.Names {
				if o := info.Defs[n]; o != nil && isErrorType(o.Type()) {
					errParam = o
				}
			}
		}
		key := "utils.ReadMultiTrees#reader/" + fn.Pkg().Name() + ".IterateTrees-callback"
		if errParam == nil {
			c.Trivial("ERRFLOW", key, call.Pos(), "callback has no error parameter")
			continue
		}
		delivered := false
		ast.Inspect(cb.Body, func(n ast.Node) bool {
			if s, ok := n.(*ast.SendStmt); ok {
				if flds := c.recordFields(info, s.Value, 3); flds != nil {
					if e, ok := flds["Err"]; ok && identObj(info, e) == errParam {
						if conds, okc := c.pathConds(info, cb.Body, s, false); okc && len(conds) == 0 {
							delivered = true
						}
					}
				}
			}
			return true
		})
		c.Check(delivered, "ERRFLOW", key, call.Pos(), "the conversion error handed to the callback goes into the record's Err", "the conversion error handed to the callback is not put into the record sent: a tree that failed to convert is delivered without its error").Clause = clause
	}
}

var xmlOpenTag = regexp.MustCompile(`<([A-Za-z_][A-Za-z0-9_]*)`)

func (c *Ctx) phyloxmlTables() {
	wc := c.Func("io/phyloxml", "", "writeClade")
	ww := c.Func("io/phyloxml", "", "WritePhyloXML")
	rd := c.Func("io/phyloxml", "", "cladeToTree")
	if wc == nil || ww == nil || rd == nil {
		return
	}
	// numbers written to PhyloXML go through FormatFloat(x, f, -1, 64) wherever they are formatted,
	// including the string accessors of package tree the writer calls (LengthString, SupportString)
	{
		var fw []*FuncInfo
		for _, fi := range c.cone([]*FuncInfo{ww}, 4) {
			sig := fi.Obj.Type().(*types.Signature)
			retString := sig.Results().Len() == 1 && sig.Results().At(0).Type().String() == "string"
			if fi.Pkg == ww.Pkg || (fi.Pkg.PkgPath == modPath+"/tree" && retString) {
				fw = append(fw, fi)
			}
		}
		c.newickFloats(fw, nil)
	}
	// the writer = WritePhyloXML and every function of the package it reaches (writePhylogeny may be
	// inlined or split further without changing what is written)
	writerFuncs := []*FuncInfo{wc, ww}
	for _, fi := range c.cone([]*FuncInfo{ww}, 4) {
		if fi.Pkg == ww.Pkg && fi.Obj != wc.Obj && fi.Obj != ww.Obj {
			writerFuncs = append(writerFuncs, fi)
		}
	}
	info := wc.Pkg.TypesInfo
	clause := "Converting a tree between Newick, Nexus and PhyloXML and back gives the same tree: shape, names, lengths and supports"
	// reader: element tags of the decoded structs, and per Clade field the tree attribute it feeds
	readTags := map[string]string{} // tag -> Struct.Field
	var visit func(t types.Type, seen map[string]bool)
	visit = func(t types.Type, seen map[string]bool) {
		for {
			switch x := t.(type) {
			case *types.Pointer:
				t = x.Elem()
				continue
			case *types.Slice:
				t = x.Elem()
				continue
			}
			break
		}
		n, ok := t.(*types.Named)
		if !ok || n.Obj().Pkg() == nil || n.Obj().Pkg().Path() != wc.Pkg.PkgPath || seen[n.Obj().Name()] {
			return
		}
		seen[n.Obj().Name()] = true
		st, ok := n.Underlying().(*types.Struct)
		if !ok {
			return
		}
		for i := 0; i < st.NumFields(); i++ {
			tag := reflect.StructTag(st.Tag(i)).Get("xml")
			nm := strings.Split(tag, ",")[0]
			if nm != "" && !strings.Contains(tag, ",attr") {
				readTags[nm] = n.Obj().Name() + "." + st.Field(i).Name()
			}
			visit(st.Field(i).Type(), seen)
		}
	}
	if o := wc.Pkg.Types.Scope().Lookup("PhyloXML"); o != nil {
		visit(o.Type(), map[string]bool{})
	}
	if len(readTags) < 5 {
		c.Undecided("TABLE", "io/phyloxml/reader-tags", rd.Decl.Pos(), "struct tags of the PhyloXML document types not found")
		return
	}
	// reader: Clade field -> tree attribute (field of tree.Node/Edge written through a setter fed by c.Field)
	cparam := paramObj(info, rd.Decl, 0)
	readAttr := map[string]string{}
	// the Clade fields an expression of the converter is made of: c.Field directly, through a local
	// defined once, or through a helper that receives the clade and returns one of its fields
	var cladeFields func(e ast.Node, depth int) []string
	cladeFields = func(e ast.Node, depth int) []string {
		var out []string
		if e == nil || depth > 3 {
			return out
		}
		ast.Inspect(e, func(n ast.Node) bool {
			switch x := n.(type) {
			case *ast.SelectorExpr:
				if identObj(info, x.X) == cparam {
					out = append(out, x.Sel.Name)
				}
			case *ast.Ident:
				if lo, isVar := info.Uses[x].(*types.Var); isVar && !lo.IsField() && lo != cparam {
					if defs := localDefs(info, rd.Decl.Body, lo); len(defs) == 1 {
						out = append(out, cladeFields(defs[0], depth+1)...)
					}
				}
			case *ast.CallExpr:
				fn := calleeOf(info, x)
				gi := c.FuncOfObj(fn)
				if fn == nil || gi == nil || gi.Decl.Body == nil || !inRepo(fn) || gi.Pkg != rd.Pkg {
					return true
				}
				for k, a := range x.Args {
					if identObj(info, a) != cparam {
						continue
					}
					p := paramObj(info, gi.Decl, k)
					ast.Inspect(gi.Decl.Body, func(m ast.Node) bool {
						ret, isRet := m.(*ast.ReturnStmt)
						if !isRet {
							return true
						}
						for _, r := range ret.Results {
							ast.Inspect(r, func(q ast.Node) bool {
								if sel, isSel := q.(*ast.SelectorExpr); isSel {
									// c.Name, or c.Tax.ScientificName: the field of the clade itself
									base := sel
									for {
										inner, isInner := unparen(base.X).(*ast.SelectorExpr)
										if !isInner {
											break
										}
										base = inner
									}
									if identObj(info, base.X) == p && p != nil {
										out = append(out, base.Sel.Name)
									}
								}
								return true
							})
						}
						return true
					})
				}
			}
			return true
		})
		return out
	}
	for _, st := range c.fieldStores(info, rd.Decl.Body, nil) {
		if st.rhs == nil {
			continue
		}
		for _, fld := range cladeFields(st.rhs, 0) {
			if _, seen := readAttr["Clade."+fld]; !seen {
				readAttr["Clade."+fld] = st.field.Name()
			}
		}
	}
	// writer: per string literal with an opening tag, the tree attribute read by the other Sprintf arguments
	type wtag struct {
		tag  string
		attr string
		pos  token.Pos
		call *ast.CallExpr
	}
	var written []wtag
	for _, fi := range writerFuncs {
		ast.Inspect(fi.Decl.Body, func(n ast.Node) bool {
			lit, ok := n.(*ast.BasicLit)
			if !ok || lit.Kind != token.STRING {
				return true
			}
			tv := info.Types[lit]
			if tv.Value == nil {
				return true
			}
			s := constant.StringVal(tv.Value)
			for _, m := range xmlOpenTag.FindAllStringSubmatch(s, -1) {
				w := wtag{tag: m[1], pos: lit.Pos()}
				// enclosing Sprintf call
				st := stackTo(fi.Decl.Body, lit)
				for i := len(st) - 1; i >= 0; i-- {
					if cl, ok := st[i].(*ast.CallExpr); ok {
						fn := calleeOf(info, cl)
						if !isFunc(fn, "fmt", "", "Sprintf") && !isFunc(fn, "fmt", "", "Fprintf") && !isFunc(fn, "fmt", "", "Printf") {
							continue
						}
						// the values formatted: the arguments after the format string (the literal)
						fmtIdx := -1
						for k, a := range cl.Args {
							if nodeContains(a, lit.Pos()) {
								fmtIdx = k
							}
						}
						if fmtIdx < 0 {
							continue
						}
						w.call = cl
						for _, a := range cl.Args[fmtIdx+1:] {
							if f := c.attrRead(info, a, 3); f != "" {
								w.attr = f
							}
						}
						break
					}
				}
				written = append(written, w)
			}
			return true
		})
	}
	if len(written) < 5 {
		c.Undecided("TABLE", "io/phyloxml/writer-tags", wc.Decl.Pos(), fmt.Sprintf("expected >=5 element names in the writer's string literals, found %d", len(written)))
	}
	seen := map[string]bool{}
	for _, w := range written {
		if w.tag == "xml" || seen[w.tag+"/"+w.attr] {
			continue
		}
		seen[w.tag+"/"+w.attr] = true
		key := "io/phyloxml/<" + w.tag + ">"
		f, ok := readTags[w.tag]
		if !ok {
			c.Violation("TABLE", key, w.pos, "the writer emits element <"+w.tag+"> which no struct of the reader decodes: what it carries is lost on reading back").Clause = clause
			continue
		}
		switch w.attr {
		case "name", "length", "support", "pvalue", "comment":
		default:
			w.attr = "" // not a per-node/per-branch attribute of the tree
		}
		if w.attr == "" {
			c.OK("TABLE", key, w.pos, "decoded into "+f)
			continue
		}
		ra, ok := readAttr[f]
		switch {
		case !ok:
			c.Violation("TABLE", key, w.pos, fmt.Sprintf("<%s> is written from the tree's %s and decoded into %s, but the converter never stores %s into the tree", w.tag, w.attr, f, f)).Clause = clause
		case ra != w.attr:
			c.Violation("TABLE", key, w.pos, fmt.Sprintf("<%s> is written from the tree's %s but read back into %s", w.tag, w.attr, ra)).Clause = clause
		default:
			c.OK("TABLE", key, w.pos, fmt.Sprintf("written from %s, decoded into %s, stored back into %s", w.attr, f, ra))
		}
	}
	// GF: presence guards on both sides
	wopts := &canonOpts{subst: map[types.Object]string{}}
	nparam, eparam := paramObj(info, wc.Decl, 0), paramObj(info, wc.Decl, 2)
	if nparam != nil && eparam != nil {
		wopts.subst[nparam] = "$N"
		wopts.subst[eparam] = "$E"
	}
	for _, w := range written {
		if w.call == nil || (w.attr != "support" && w.attr != "length") {
			continue
		}
		conds, okc := c.pathConds(info, wc.Decl.Body, w.call, true)
		var rel []cond
		for _, cd := range conds {
			if cd.Expr != nil {
				k := c.canon(info, cd.Expr, wopts)
				if strings.Contains(k, "$E."+w.attr) || strings.Contains(k, "$N.Tip()") || strings.Contains(k, "$N.neigh") {
					rel = append(rel, cd)
				}
			}
		}
		code := c.inlineTip(c.condsToBexpr(info, rel, wopts))
		var spec *bexpr
		if w.attr == "support" {
			spec = c.inlineTip(bAnd(bNot(bAtom("$N.Tip()")), bCmp("$E.support", token.NEQ, "NIL_SUPPORT")))
		} else {
			spec = bCmp("$E.length", token.NEQ, "NIL_LENGTH")
		}
		key := "io/phyloxml.writeClade/" + w.attr + "-written"
		eq, wit, _, err := gfEquiv(code, spec)
		if !okc || err != nil {
			c.Undecided("GF", key, w.pos, fmt.Sprintf("guard shape not understood: %v", err))
		} else {
			c.Check(eq, "GF", key, w.pos, w.attr+" written iff "+spec.String(), w.attr+" is written under "+code.String()+", expected "+spec.String()+": "+wit).Clause = clause
		}
	}
	ropts := &canonOpts{subst: map[types.Object]string{}}
	if cparam != nil {
		ropts.subst[cparam] = "$C"
	}
	for _, st := range c.fieldStores(info, rd.Decl.Body, nil) {
		if st.field.Name() != "support" && st.field.Name() != "length" {
			continue
		}
		conds, okc := c.pathConds(info, rd.Decl.Body, st.node, true)
		var rel []cond
		for _, cd := range conds {
			if cd.Expr != nil && strings.Contains(c.canon(info, cd.Expr, ropts), "$C.") {
				rel = append(rel, cd)
			}
		}
		code := c.condsToBexpr(info, rel, ropts)
		var spec *bexpr
		if st.field.Name() == "support" {
			spec = bAnd(intCmp("len($C.Clades)", token.GTR, 0), bCmp("$C.Confidence", token.NEQ, "nil"))
		} else {
			spec = bCmp("$C.BranchLength", token.NEQ, "nil")
		}
		key := "io/phyloxml.cladeToTree/" + st.field.Name() + "-read"
		eq, wit, _, err := gfEquiv(code, spec)
		if !okc || err != nil {
			c.Undecided("GF", key, st.pos, fmt.Sprintf("guard shape not understood: %v", err))
		} else {
			c.Check(eq, "GF", key, st.pos, st.field.Name()+" read iff "+spec.String(), st.field.Name()+" is read under "+code.String()+", expected "+spec.String()+": "+wit).Clause = clause
		}
	}
}

// attrRead: the field of tree.Node / tree.Edge that expression e reads, following repository
// accessors (depth-bounded): n.Name() -> name, e.LengthString() -> length.
func (c *Ctx) attrRead(info *types.Info, e ast.Expr, depth int) string {
	c.indexAccessors()
	res := ""
	ast.Inspect(e, func(n ast.Node) bool {
		if res != "" {
			return false
		}
		switch x := n.(type) {
		case *ast.CallExpr:
			fn := calleeOf(info, x)
			if fn == nil || !inRepo(fn) {
				return true
			}
			if fv, ok := c.getters[fn]; ok {
				res = fv.Name()
				return false
			}
			if depth > 0 {
				if fi := c.FuncOfObj(fn); fi != nil && fn.Pkg().Path() == modPath+"/tree" {
					// a formatting accessor: the single Node/Edge field its results read
					fields := map[string]bool{}
					finfo := fi.Pkg.TypesInfo
					ast.Inspect(fi.Decl.Body, func(m ast.Node) bool {
						switch y := m.(type) {
						case *ast.CallExpr:
							if g := calleeOf(finfo, y); g != nil {
								if fv, ok := c.getters[g]; ok {
									fields[fv.Name()] = true
								} else if inRepo(g) && g != fn && depth > 1 {
									if f := c.attrRead(finfo, y, depth-1); f != "" {
										fields[f] = true
									}
								}
							}
						case *ast.SelectorExpr:
							if fv, _ := fieldOfSel(finfo, y); fv != nil && fv.Pkg() != nil && fv.Pkg().Path() == modPath+"/tree" {
								fields[fv.Name()] = true
							}
						}
						return true
					})
					if len(fields) == 1 {
						for f := range fields {
							res = f
						}
						return false
					}
				}
			}
		case *ast.SelectorExpr:
			if fv, _ := fieldOfSel(info, x); fv != nil && fv.Pkg() != nil && fv.Pkg().Path() == modPath+"/tree" {
				res = fv.Name()
				return false
			}
		}
		return true
	})
	return res
}

var nexusWord = regexp.MustCompile(`#?[A-Z]{3,}`)

func (c *Ctx) nexusKeywords() {
	lex := c.Func("io/nexus", "Scanner", "scanIdent")
	scan := c.Func("io/nexus", "Scanner", "Scan")
	w1 := c.Func("io/nexus", "", "WriteNexus")
	w2 := c.Func("tree", "Tree", "Nexus")
	if lex == nil || scan == nil || w1 == nil || w2 == nil {
		return
	}
	clause := "Converting a tree between Newick, Nexus (with or without a translate table) ... and back gives the same tree"
	kw := map[string]bool{}
	ast.Inspect(lex.Decl.Body, func(n ast.Node) bool {
		if cc, ok := n.(*ast.CaseClause); ok {
			for _, v := range cc.List {
				if tv, ok := lex.Pkg.TypesInfo.Types[v]; ok && tv.Value != nil && tv.Value.Kind() == constant.String {
					// only cases that return a dedicated token (not IDENT)
					kw[constant.StringVal(tv.Value)] = true
				}
			}
		}
		return true
	})
	// ... or the keys of a package-level table (map[string]Token{...}) the lexer looks words up in
	{
		linfo := lex.Pkg.TypesInfo
		ast.Inspect(lex.Decl.Body, func(n ast.Node) bool {
			id, ok := n.(*ast.Ident)
			if !ok {
				return true
			}
			v, ok := linfo.Uses[id].(*types.Var)
			if !ok || v.Parent() != lex.Pkg.Types.Scope() {
				return true
			}
			if _, isMap := v.Type().Underlying().(*types.Map); !isMap {
				return true
			}
			for _, f := range lex.Pkg.Syntax {
				for _, d := range f.Decls {
					gd, ok := d.(*ast.GenDecl)
					if !ok {
						continue
					}
					for _, sp := range gd.Specs {
						vs, ok := sp.(*ast.ValueSpec)
						if !ok {
							continue
						}
						for i, nm := range vs.Names {
							if linfo.Defs[nm] != v || i >= len(vs.Values) {
								continue
							}
							if lit, ok := unparen(vs.Values[i]).(*ast.CompositeLit); ok {
								for _, el := range lit.Elts {
									if kv, ok := el.(*ast.KeyValueExpr); ok {
										if tv, ok := linfo.Types[kv.Key]; ok && tv.Value != nil && tv.Value.Kind() == constant.String {
											kw[constant.StringVal(tv.Value)] = true
										}
									}
								}
							}
						}
					}
				}
			}
			return true
		})
	}
	if len(kw) < 10 {
		c.Undecided("TABLE", "io/nexus/keywords", lex.Decl.Pos(), fmt.Sprintf("expected >=10 keyword cases in the Nexus lexer, found %d", len(kw)))
		return
	}
	for _, fi := range []*FuncInfo{w1, w2} {
		info := fi.Pkg.TypesInfo
		words := map[string]token.Pos{}
		// the writer and the unexported helpers of its package it calls
		units := []*FuncInfo{fi}
		seenU := map[*types.Func]bool{fi.Obj: true}
		for i := 0; i < len(units) && len(units) < 12; i++ {
			for _, call := range callsIn(units[i].Decl.Body, true) {
				g := calleeOf(units[i].Pkg.TypesInfo, call)
				if g == nil || seenU[g] || g.Exported() || g.Pkg() != fi.Obj.Pkg() {
					continue
				}
				if gi := c.FuncOfObj(g); gi != nil && gi.Decl.Body != nil {
					seenU[g] = true
					units = append(units, gi)
				}
			}
		}
		body := &ast.BlockStmt{}
		for _, u := range units {
			body.List = append(body.List, u.Decl.Body)
		}
		ast.Inspect(body, func(n ast.Node) bool {
			if lit, ok := n.(*ast.BasicLit); ok && lit.Kind == token.STRING {
				if tv := info.Types[lit]; tv.Value != nil {
					for _, w := range nexusWord.FindAllString(constant.StringVal(tv.Value), -1) {
						if _, ok := words[w]; !ok {
							words[w] = lit.Pos()
						}
					}
				}
			}
			return true
		})
		if len(words) < 8 {
			c.Undecided("TABLE", funcName(fi.Obj)+"/keywords", fi.Decl.Pos(), fmt.Sprintf("expected >=8 upper-case keywords in the writer, found %d", len(words)))
		}
		var ws []string
		for w := range words {
			ws = append(ws, w)
		}
		sort.Strings(ws)
		for _, w := range ws {
			c.Check(kw[w], "TABLE", funcName(fi.Obj)+"/keyword "+w, words[w], "keyword of the lexer", "the writer emits keyword "+w+" which the Nexus lexer does not know: the file it writes cannot be read back").Clause = clause
		}
	}
}

// bufioRetain: a slice returned by (*bufio.Reader).ReadLine / ReadSlice / Peek or
// (*bufio.Scanner).Bytes is only valid until the next read; it must be copied
// (append(dst, line...), string(line)) and never retained as is.
func (c *Ctx) bufioRetain(rule string, pkgRels []string, clause string) int {
	n := 0
	for _, fi := range c.AllFuncs(pkgRels...) {
		info := fi.Pkg.TypesInfo
		ast.Inspect(fi.Decl.Body, func(m ast.Node) bool {
			as, ok := m.(*ast.AssignStmt)
			if !ok || len(as.Rhs) != 1 {
				return true
			}
			call, ok := unparen(as.Rhs[0]).(*ast.CallExpr)
			if !ok {
				return true
			}
			fn := calleeOf(info, call)
			if fn == nil || fn.Pkg() == nil || fn.Pkg().Path() != "bufio" {
				return true
			}
			switch fn.Name() {
			case "ReadLine", "ReadSlice", "Peek", "Bytes":
			default:
				return true
			}
			line := identObj(info, as.Lhs[0])
			if line == nil {
				return true
			}
			n++
			key := funcName(fi.Obj) + "/" + fn.Name() + "→" + line.Name()
			var bad ast.Node
			rootIs := func(e ast.Expr) bool {
				for {
					switch x := unparen(e).(type) {
					case *ast.SliceExpr:
						e = x.X
						continue
					case *ast.Ident:
						return info.Uses[x] == line
					}
					return false
				}
			}
			ast.Inspect(fi.Decl.Body, func(u ast.Node) bool {
				switch x := u.(type) {
				case *ast.AssignStmt:
					if x == as {
						return true
					}
					for _, r := range x.Rhs {
						if rootIs(r) {
							bad = x
						}
						if cl, ok := unparen(r).(*ast.CallExpr); ok {
							if id, ok := cl.Fun.(*ast.Ident); ok && id.Name == "append" && len(cl.Args) > 0 && rootIs(cl.Args[0]) {
								bad = x
							}
						}
					}
				case *ast.ReturnStmt:
					for _, r := range x.Results {
						if rootIs(r) {
							bad = x
						}
					}
				case *ast.SendStmt:
					if rootIs(x.Value) {
						bad = x
					}
				case *ast.KeyValueExpr:
					if rootIs(x.Value) {
						bad = x
					}
				}
				return true
			})
			if bad != nil {
				c.Violation(rule, key, bad.Pos(), fmt.Sprintf("the slice returned by bufio %s (valid only until the next read) is retained without a copy: later reads overwrite text already accepted (multi-line trees straddling a buffer refill are corrupted or dropped)", fn.Name())).Clause = clause
			} else {
				c.OK(rule, key, as.Pos(), "the buffer slice is only copied (append(dst, line...), string(line)), never retained")
			}
			return true
		})
	}
	return n
}
