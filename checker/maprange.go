package main

import (
	"fmt"
	"go/ast"
	"go/token"
	"go/types"
	"strings"

	"golang.org/x/tools/go/packages"
)

// MAPRANGE — no result depends on the iteration order of a map.
//
// For every `for k, v := range m` with m of map type the body (and repository callees reached
// with arguments derived from k/v, depth <= 3) is searched for order-dependent sinks:
//   S1 write of a tainted value to an io.Writer / fmt.Print* / buffer
//   S2 append of a tainted value to a slice that is not sorted before any other use
//   S3 floating-point accumulation of a tainted value
//   S4 store m2[i] = tainted where i is not derived from the iteration key (first/last wins)
//   S5 assignment of a tainted non-error value to a variable/field that outlives the iteration
//      and is not selected by the key (keeps the last)
//   S6 return of a tainted non-error value (keeps the first)
// Everything else (stores keyed by the iteration key, delete, integer counters, constant stores,
// membership tests, returning an error, append followed by sort, setters on an object looked up
// by the key) is order-free.

type mrSink struct {
	pos  token.Pos
	kind string
	desc string
}

type mrLoop struct {
	pkg     *packages.Package
	fn      *ast.FuncDecl  // enclosing declaration, nil for a literal in a package-level initialiser
	body    *ast.BlockStmt // innermost enclosing function body
	ftype   *ast.FuncType
	name    string
	rs      *ast.RangeStmt
	sinks   []mrSink
	reasons []string // why order-free
	assumed []string // external calls assumed pure
}

var writerMethodNames = map[string]bool{"Write": true, "WriteString": true, "WriteRune": true, "WriteByte": true,
	"Print": true, "Printf": true, "Println": true, "Fprint": true, "Fprintf": true, "Fprintln": true, "WriteTo": true, "Encode": true}

// reviewed external keyed stores (reason: keyed by the iteration key, read back by key)
var mrKeyedExternals = map[string]string{
	"net/url.Values.Add": "url.Values is a map keyed by the first argument; Encode() sorts by key",
	"net/url.Values.Set": "url.Values is a map keyed by the first argument; Encode() sorts by key",
}

func (c *Ctx) mapRangeLoops(pkgs []*packages.Package) []*mrLoop {
	var out []*mrLoop
	for _, p := range pkgs {
		info := p.TypesInfo
		for _, f := range p.Syntax {
			walkStack(f, func(n ast.Node, stack []ast.Node) bool {
				rs, ok := n.(*ast.RangeStmt)
				if !ok {
					return true
				}
				tv, ok := info.Types[rs.X]
				if !ok || tv.Type == nil {
					return true
				}
				if _, ok := tv.Type.Underlying().(*types.Map); !ok {
					return true
				}
				// innermost enclosing function body (declaration or literal)
				l := &mrLoop{pkg: p, rs: rs}
				for _, m := range stack {
					switch fn := m.(type) {
					case *ast.FuncDecl:
						l.fn = fn
						l.body = fn.Body
						if o, ok := info.Defs[fn.Name].(*types.Func); ok {
							l.name = funcName(o)
						}
					case *ast.FuncLit:
						l.body = fn.Body
						l.ftype = fn.Type
					case *ast.ValueSpec:
						if l.fn == nil && len(fn.Names) > 0 {
							l.name = strings.TrimPrefix(strings.TrimPrefix(p.PkgPath, modPath), "/") + "." + fn.Names[0].Name
						}
					case *ast.KeyValueExpr:
						if id, ok := fn.Key.(*ast.Ident); ok && l.fn == nil {
							l.name = strings.SplitN(l.name, "#", 2)[0] + "#" + id.Name
						}
					}
				}
				if l.body == nil {
					return true
				}
				if l.fn != nil && l.ftype == nil {
					l.ftype = l.fn.Type
				}
				c.classifyMapLoop(l)
				out = append(out, l)
				return true
			})
		}
	}
	return out
}

type taint struct {
	key map[types.Object]bool // derived from the iteration key
	val map[types.Object]bool // derived from the element (or anything tainted but not the key)
}

func (t *taint) any(o types.Object) bool { return o != nil && (t.key[o] || t.val[o]) }

func exprTaint(info *types.Info, e ast.Expr, t *taint) (k, v bool) {
	if e == nil {
		return
	}
	ast.Inspect(e, func(n ast.Node) bool {
		if id, ok := n.(*ast.Ident); ok {
			o := info.Uses[id]
			if o == nil {
				o = info.Defs[id]
			}
			if t.key[o] {
				k = true
			}
			if t.val[o] {
				v = true
			}
		}
		return true
	})
	return
}

func (c *Ctx) classifyMapLoop(l *mrLoop) {
	info := l.pkg.TypesInfo
	t := &taint{key: map[types.Object]bool{}, val: map[types.Object]bool{}}
	if id, ok := l.rs.Key.(*ast.Ident); ok && id.Name != "_" {
		if o := info.Defs[id]; o != nil {
			t.key[o] = true
		} else if o := info.Uses[id]; o != nil {
			t.key[o] = true
		}
	}
	if l.rs.Value != nil {
		if id, ok := l.rs.Value.(*ast.Ident); ok && id.Name != "_" {
			if o := info.Defs[id]; o != nil {
				t.val[o] = true
			} else if o := info.Uses[id]; o != nil {
				t.val[o] = true
			}
		}
	}
	locals := declaredIn(info, l.rs.Body)
	c.mrScan(l, info, l.rs.Body, t, locals, 0, l.rs, l.body)
	c.mrCarried(l, info, locals)
}

// receiverMapAccess: map fields of its receiver that a repository method stores into / indexes
// (for an interface method: the union over the repository types of the same package having a
// method of that name).
func (c *Ctx) receiverMapAccess(fn *types.Func) (writes, reads map[string]bool) {
	writes, reads = map[string]bool{}, map[string]bool{}
	var impls []*FuncInfo
	if fi := c.FuncOfObj(fn); fi != nil {
		impls = append(impls, fi)
	} else if fn.Pkg() != nil {
		for _, fi := range c.AllFuncs(strings.TrimPrefix(strings.TrimPrefix(fn.Pkg().Path(), modPath), "/")) {
			if fi.Obj.Name() == fn.Name() && fi.Decl.Recv != nil {
				impls = append(impls, fi)
			}
		}
	}
	for _, fi := range impls {
		info := fi.Pkg.TypesInfo
		r := recvObj(info, fi.Decl)
		if r == nil {
			continue
		}
		isRecvMap := func(e ast.Expr) (string, bool) {
			if fv, x := fieldOfSel(info, e); fv != nil && identObj(info, x) == r {
				if _, ok := fv.Type().Underlying().(*types.Map); ok {
					return fv.Name(), true
				}
			}
			return "", false
		}
		ast.Inspect(fi.Decl.Body, func(n ast.Node) bool {
			switch x := n.(type) {
			case *ast.AssignStmt:
				for _, l := range x.Lhs {
					if ix, ok := unparen(l).(*ast.IndexExpr); ok {
						if f, ok := isRecvMap(ix.X); ok {
							writes[f] = true
						}
					}
				}
			case *ast.IndexExpr:
				if f, ok := isRecvMap(x.X); ok {
					reads[f] = true
				}
			case *ast.CallExpr:
				if id, ok := x.Fun.(*ast.Ident); ok && id.Name == "delete" && len(x.Args) == 2 {
					if f, ok := isRecvMap(x.Args[0]); ok {
						writes[f] = true
					}
				}
			}
			return true
		})
		// an index on the left-hand side of an assignment was counted as a read too: remove pure stores
		pure := map[string]bool{}
		ast.Inspect(fi.Decl.Body, func(n ast.Node) bool {
			if ix, ok := n.(*ast.IndexExpr); ok {
				if f, ok := isRecvMap(ix.X); ok {
					st := stackTo(fi.Decl.Body, ix)
					if len(st) >= 2 {
						if as, ok := st[len(st)-2].(*ast.AssignStmt); ok {
							for _, l := range as.Lhs {
								if unparen(l) == ast.Expr(ix) {
									return true
								}
							}
						}
					}
					pure[f] = true
				}
			}
			return true
		})
		for f := range reads {
			if !pure[f] {
				delete(reads, f)
			}
		}
	}
	return
}

// mrCarried (S7): inside the loop, a container that outlives the iteration is both written (under
// a key that is not the iteration key) and read through repository methods: later iterations see
// what earlier ones stored, so the result depends on the iteration order.
func (c *Ctx) mrCarried(l *mrLoop, info *types.Info, locals map[types.Object]bool) {
	type acc struct {
		w, r   map[string]bool
		wp, rp token.Pos
		wname  string
		rname  string
	}
	byRecv := map[types.Object]*acc{}
	for _, call := range callsIn(l.rs.Body, true) {
		sel, ok := unparen(call.Fun).(*ast.SelectorExpr)
		if !ok {
			continue
		}
		x := identObj(info, sel.X)
		if x == nil || locals[x] {
			continue
		}
		fn := calleeOf(info, call)
		if fn == nil || !inRepo(fn) {
			continue
		}
		w, r := c.receiverMapAccess(fn)
		if len(w) == 0 && len(r) == 0 {
			continue
		}
		a := byRecv[x]
		if a == nil {
			a = &acc{w: map[string]bool{}, r: map[string]bool{}}
			byRecv[x] = a
		}
		for f := range w {
			a.w[f] = true
			a.wp, a.wname = call.Pos(), fn.Name()
		}
		for f := range r {
			a.r[f] = true
			a.rp, a.rname = call.Pos(), fn.Name()
		}
	}
	for x, a := range byRecv {
		for f := range a.w {
			if a.r[f] {
				_, ln := c.pos(a.rp)
				l.sinks = append(l.sinks, mrSink{a.wp, "S7", fmt.Sprintf("%s.%s() stores into %s.%s and %s.%s() (line %d) reads it inside the same loop over a map: what a later iteration finds depends on which entries came first", x.Name(), a.wname, x.Name(), f, x.Name(), a.rname, ln)})
			}
		}
	}
}

// declaredIn returns the objects declared inside n (they do not outlive an iteration).
func declaredIn(info *types.Info, n ast.Node) map[types.Object]bool {
	out := map[types.Object]bool{}
	ast.Inspect(n, func(m ast.Node) bool {
		if id, ok := m.(*ast.Ident); ok {
			if o := info.Defs[id]; o != nil {
				out[o] = true
			}
		}
		return true
	})
	return out
}

func isErrorType(t types.Type) bool {
	return t != nil && types.Identical(t, types.Universe.Lookup("error").Type())
}

func isFloat(t types.Type) bool {
	if t == nil {
		return false
	}
	b, ok := t.Underlying().(*types.Basic)
	return ok && b.Info()&types.IsFloat != 0
}

func isInteger(t types.Type) bool {
	if t == nil {
		return false
	}
	b, ok := t.Underlying().(*types.Basic)
	return ok && b.Info()&types.IsInteger != 0
}

func baseIdent(e ast.Expr) *ast.Ident {
	for {
		switch x := unparen(e).(type) {
		case *ast.Ident:
			return x
		case *ast.SelectorExpr:
			e = x.X
		case *ast.IndexExpr:
			e = x.X
		case *ast.StarExpr:
			e = x.X
		case *ast.SliceExpr:
			e = x.X
		case *ast.CallExpr:
			// getter chain: n.Neigh()[0] -> n
			if sel, ok := unparen(x.Fun).(*ast.SelectorExpr); ok {
				e = sel.X
				continue
			}
			return nil
		default:
			return nil
		}
	}
}

// mrScan scans body with taint t. `scope` is the statement whose following siblings are searched
// for a sort of appended slices (the range statement itself at depth 0, nil in callees).
func (c *Ctx) mrScan(l *mrLoop, info *types.Info, body ast.Node, t *taint, locals map[types.Object]bool, depth int, scope ast.Stmt, fnBody *ast.BlockStmt) {
	// 1. propagate taint through local assignments to a fixpoint
	for changed := true; changed; {
		changed = false
		ast.Inspect(body, func(n ast.Node) bool {
			switch s := n.(type) {
			case *ast.AssignStmt:
				var rk, rv bool
				for _, r := range s.Rhs {
					k, v := exprTaint(info, r, t)
					rk, rv = rk || k, rv || v
				}
				if !rk && !rv {
					return true
				}
				for _, lh := range s.Lhs {
					id, ok := unparen(lh).(*ast.Ident)
					if !ok {
						continue
					}
					o := info.Defs[id]
					if o == nil {
						o = info.Uses[id]
					}
					if o == nil {
						continue
					}
					if rk && !t.key[o] {
						t.key[o] = true
						changed = true
					}
					if rv && !t.val[o] {
						t.val[o] = true
						changed = true
					}
				}
			case *ast.RangeStmt:
				k, v := exprTaint(info, s.X, t)
				if k || v {
					for _, e := range []ast.Expr{s.Key, s.Value} {
						if id, ok := e.(*ast.Ident); ok {
							if o := info.Defs[id]; o != nil && !t.val[o] {
								t.val[o] = true
								changed = true
							}
						}
					}
				}
			}
			return true
		})
	}
	add := func(p token.Pos, kind, desc string) {
		l.sinks = append(l.sinks, mrSink{p, kind, desc})
	}
	tainted := func(e ast.Expr) bool { k, v := exprTaint(info, e, t); return k || v }
	// 2. sinks
	ast.Inspect(body, func(n ast.Node) bool {
		switch s := n.(type) {
		case *ast.FuncLit:
			return true
		case *ast.ReturnStmt:
			if depth == 0 {
				for _, r := range s.Results {
					if tv, ok := info.Types[r]; ok && tainted(r) {
						if isErrorType(tv.Type) {
							// an error that names the current entry: which entry is named depends on the order
							add(s.Pos(), "S6", "returns an error built from the current entry ("+types.ExprString(r)+"): when several entries qualify, the text of the error depends on map order")
						} else {
							add(s.Pos(), "S6", "returns a value derived from the current entry ("+types.ExprString(r)+"): which entry comes first depends on map order")
						}
					}
				}
			}
		case *ast.IncDecStmt:
			return true
		case *ast.AssignStmt:
			for i, lh := range s.Lhs {
				var rhs ast.Expr
				if len(s.Rhs) == len(s.Lhs) {
					rhs = s.Rhs[i]
				} else if len(s.Rhs) == 1 {
					rhs = s.Rhs[0]
				}
				lh = unparen(lh)
				ltype := info.TypeOf(lh)
				// append
				if call, ok := unparen(rhs).(*ast.CallExpr); ok {
					if id, ok := unparen(call.Fun).(*ast.Ident); ok && id.Name == "append" && info.Uses[id] == types.Universe.Lookup("append") {
						anyT := false
						for _, a := range call.Args[1:] {
							if tainted(a) {
								anyT = true
							}
						}
						if !anyT {
							continue
						}
						lid := baseIdent(lh)
						var lobj types.Object
						if lid != nil {
							lobj = info.Uses[lid]
							if lobj == nil {
								lobj = info.Defs[lid]
							}
						}
						if lobj != nil && locals[lobj] {
							// slice local to the iteration: propagate taint (already done), not a sink by itself
							continue
						}
						if depth == 0 && scope != nil && lobj != nil && c.sortedAfter(info, fnBody, scope, lobj) {
							l.reasons = append(l.reasons, "append to "+lobj.Name()+" is followed by a sort before any other use")
							continue
						}
						add(s.Pos(), "S2", "appends a value derived from the current entry to `"+types.ExprString(lh)+"`, which is not sorted before its next use: element order follows map order")
						continue
					}
				}
				if rhs == nil {
					continue
				}
				rk, rv := exprTaint(info, rhs, t)
				if !rk && !rv {
					continue // constant / untainted store: idempotent across orders
				}
				switch x := lh.(type) {
				case *ast.IndexExpr:
					if _, isMap := info.TypeOf(x.X).Underlying().(*types.Map); isMap {
						ik, _ := exprTaint(info, x.Index, t)
						if ik {
							l.reasons = append(l.reasons, "store into "+types.ExprString(x.X)+" is keyed by the iteration key")
							continue
						}
						if s.Tok != token.ASSIGN && s.Tok != token.DEFINE && isInteger(ltype) {
							continue // integer accumulation
						}
						add(s.Pos(), "S4", "stores a value derived from the current entry under `"+types.ExprString(x.Index)+"`, which is not derived from the iteration key: when two entries collide, the one kept depends on map order")
						continue
					}
					// slice/array element
					ik, iv := exprTaint(info, x.Index, t)
					if ik || iv {
						bk, bv := exprTaint(info, x.X, t)
						_ = bk
						_ = bv
						l.reasons = append(l.reasons, "indexed store selected by the current entry")
						continue
					}
				}
				if s.Tok == token.ADD_ASSIGN || s.Tok == token.SUB_ASSIGN || s.Tok == token.MUL_ASSIGN || s.Tok == token.QUO_ASSIGN {
					if isFloat(ltype) {
						add(s.Pos(), "S3", "floating-point accumulation into `"+types.ExprString(lh)+"` in map order (float addition is not associative)")
					}
					if bt, isB := ltype.Underlying().(*types.Basic); isB && bt.Info()&types.IsString != 0 && s.Tok == token.ADD_ASSIGN {
						// text built by concatenation: the pieces appear in map order
						if lid := baseIdent(lh); lid != nil {
							lobj := info.Uses[lid]
							if lobj == nil {
								lobj = info.Defs[lid]
							}
							if lobj != nil && !locals[lobj] {
								add(s.Pos(), "S3", "text appended to `"+types.ExprString(lh)+"` in map order: the pieces of the result are ordered like the iteration")
							}
						}
					}
					continue // integer accumulation
				}
				if isErrorType(ltype) {
					continue
				}
				lid := baseIdent(lh)
				if lid == nil {
					continue
				}
				lobj := info.Uses[lid]
				if lobj == nil {
					lobj = info.Defs[lid]
				}
				if lobj == nil || locals[lobj] {
					continue
				}
				if _, isSel := lh.(*ast.SelectorExpr); isSel || depth > 0 {
					// field store: keyed when the object itself was selected by the entry
					if t.any(lobj) {
						l.reasons = append(l.reasons, "field store on an object selected by the current entry ("+types.ExprString(lh)+")")
						continue
					}
				}
				if s.Tok == token.DEFINE {
					continue
				}
				if depth == 0 && !c.liveAfterLoop(info, l, lobj) {
					continue // scratch variable: rewritten before being read, dead after the loop
				}
				add(s.Pos(), "S5", "assigns a value derived from the current entry to `"+types.ExprString(lh)+"`, which outlives the iteration: the value kept is that of the last entry in map order")
			}
		case *ast.CallExpr:
			c.mrCall(l, info, s, t, depth, add)
		}
		return true
	})
}

func (c *Ctx) mrCall(l *mrLoop, info *types.Info, call *ast.CallExpr, t *taint, depth int, add func(token.Pos, string, string)) {
	tainted := func(e ast.Expr) bool { k, v := exprTaint(info, e, t); return k || v }
	anyArg := false
	for _, a := range call.Args {
		if tainted(a) {
			anyArg = true
		}
	}
	var recv ast.Expr
	if sel, ok := unparen(call.Fun).(*ast.SelectorExpr); ok {
		if _, isSel := info.Selections[sel]; isSel {
			recv = sel.X
		}
	}
	recvT := recv != nil && tainted(recv)
	if !anyArg && !recvT {
		return
	}
	fn := calleeOf(info, call)
	name := ""
	if fn != nil {
		name = fn.Name()
	} else if sel, ok := unparen(call.Fun).(*ast.SelectorExpr); ok {
		name = sel.Sel.Name
	} else if id, ok := unparen(call.Fun).(*ast.Ident); ok {
		name = id.Name
	}
	if tv, ok := info.Types[call.Fun]; ok && tv.IsType() {
		return // conversion
	}
	if fn == nil {
		if _, ok := unparen(call.Fun).(*ast.Ident); ok {
			return // builtin (len, delete, make, ...) or local func value
		}
	}
	// writer-like sink
	if anyArg && writerMethodNames[name] {
		isWriter := true
		if fn != nil && fn.Pkg() != nil && fn.Pkg().Path() == "fmt" && (strings.HasPrefix(name, "Sprint") || name == "Errorf") {
			isWriter = false
		}
		if isWriter {
			add(call.Pos(), "S1", "writes a value derived from the current entry with "+types.ExprString(call.Fun)+": output order follows map order")
			return
		}
	}
	if fn == nil {
		l.assumed = append(l.assumed, "dynamic call "+types.ExprString(call.Fun))
		return
	}
	full := fn.FullName()
	full = strings.NewReplacer("(", "", ")", "", "*", "").Replace(full)
	if why, ok := mrKeyedExternals[full]; ok {
		l.reasons = append(l.reasons, full+": "+why)
		return
	}
	// trivial setter on an object selected by the entry
	c.indexAccessors()
	if _, ok := c.setters[fn]; ok && recvT {
		l.reasons = append(l.reasons, "setter "+fn.Name()+" on an object selected by the current entry")
		return
	}
	fi := c.FuncOfObj(fn)
	if fi == nil {
		if !inRepo(fn) {
			l.assumed = append(l.assumed, "external "+full+" assumed free of order-dependent effects")
		}
		return
	}
	if isRepoFunc(fn, "io", "", "LogError") || isRepoFunc(fn, "io", "", "LogWarning") || isRepoFunc(fn, "io", "", "LogInfo") {
		return // diagnostics on stderr are not results
	}
	if depth >= 3 {
		l.assumed = append(l.assumed, "call depth bound reached at "+full)
		return
	}
	// follow into the callee with the corresponding parameters tainted
	cinfo := fi.Pkg.TypesInfo
	ct := &taint{key: map[types.Object]bool{}, val: map[types.Object]bool{}}
	k := 0
	for _, f := range fi.Decl.Type.Params.List {
		for _, nm := range f.Names {
			if k < len(call.Args) {
				ak, av := exprTaint(info, call.Args[k], t)
				if o := cinfo.Defs[nm]; o != nil {
					if ak {
						ct.key[o] = true
					}
					if av {
						ct.val[o] = true
					}
				}
			}
			k++
		}
	}
	if recv != nil {
		if ro := recvObj(cinfo, fi.Decl); ro != nil {
			rk, rv := exprTaint(info, recv, t)
			if rk {
				ct.key[ro] = true
			}
			if rv {
				ct.val[ro] = true
			}
		}
	}
	sub := &mrLoop{pkg: fi.Pkg, fn: fi.Decl, body: fi.Decl.Body, ftype: fi.Decl.Type, rs: l.rs}
	locals := declaredIn(cinfo, fi.Decl.Body)
	// parameters/receiver are not locals for the purpose of "outlives the iteration"
	for o := range ct.key {
		delete(locals, o)
	}
	for o := range ct.val {
		delete(locals, o)
	}
	c.mrScan(sub, cinfo, fi.Decl.Body, ct, locals, depth+1, nil, fi.Decl.Body)
	for _, s := range sub.sinks {
		f, ln := c.pos(s.pos)
		add(call.Pos(), s.kind, fmt.Sprintf("through %s (%s:%d): %s", funcName(fn), f, ln, s.desc))
	}
	l.reasons = append(l.reasons, sub.reasons...)
	l.assumed = append(l.assumed, sub.assumed...)
}

// sortedAfter: in the block that contains `after`, the first following statement that mentions obj
// is a call sort.X(obj, ...) / slices.Sort*(obj) / obj-taking sort of the repo's sort package.
func (c *Ctx) sortedAfter(info *types.Info, fnBody *ast.BlockStmt, after ast.Stmt, obj types.Object) bool {
	st := stackTo(fnBody, after)
	if st == nil {
		return false
	}
	// climb: the loop may be nested in blocks that end right after it
	for i := len(st) - 1; i > 0; i-- {
		var list []ast.Stmt
		switch b := st[i-1].(type) {
		case *ast.BlockStmt:
			list = b.List
		case *ast.CaseClause:
			list = b.Body
		default:
			continue
		}
		idx := -1
		for j, s := range list {
			if s == st[i] {
				idx = j
			}
		}
		if idx < 0 {
			continue
		}
		for _, s := range list[idx+1:] {
			if !mentions(info, s, obj) {
				continue
			}
			if es, ok := s.(*ast.ExprStmt); ok {
				if call, ok := es.X.(*ast.CallExpr); ok {
					if fn := calleeOf(info, call); fn != nil && fn.Pkg() != nil {
						p := fn.Pkg().Path()
						if (p == "sort" || p == "slices") && len(call.Args) > 0 {
							if lit := lessOfSortCall(info, call); lit != nil {
								if v, _ := c.lessVerdict(info, lit); v == "lossy" {
									return false // a comparator that lets elements tie keeps the map order among them
								}
								// a comparator on a number read from the elements through a method (an index, an id,
								// a count) orders them only as far as that number tells them apart: elements that share
								// it - all of them while it still has its initial value - keep the map's order
								numericKey := false
								ast.Inspect(lit.Body, func(q ast.Node) bool {
									if be, isBin := q.(*ast.BinaryExpr); isBin && (be.Op == token.LSS || be.Op == token.GTR || be.Op == token.LEQ || be.Op == token.GEQ) {
										if cl, isCall := unparen(be.X).(*ast.CallExpr); isCall && isInteger(info.TypeOf(be.X)) {
											if g := calleeOf(info, cl); g != nil && inRepo(g) {
												numericKey = true
											}
										}
									}
									return true
								})
								if numericKey {
									return false
								}
							}
							if id := baseIdent(call.Args[0]); id != nil && info.Uses[id] == obj {
								return true
							}
							// sort.Sort(sort.StringSlice(x))
							if mentions(info, call.Args[0], obj) && strings.HasPrefix(fn.Name(), "S") {
								return true
							}
						}
					}
				}
			}
			return false
		}
		// not mentioned in the rest of this block: keep climbing only if the enclosing construct is not a loop
		if i-2 >= 0 {
			switch st[i-2].(type) {
			case *ast.ForStmt, *ast.RangeStmt:
				return false
			}
		}
	}
	return false
}

func mentions(info *types.Info, n ast.Node, obj types.Object) bool {
	found := false
	ast.Inspect(n, func(m ast.Node) bool {
		if id, ok := m.(*ast.Ident); ok && (info.Uses[id] == obj || info.Defs[id] == obj) {
			found = true
		}
		return !found
	})
	return found
}

// liveAfterLoop: the variable is observable after the map loop — a named result of the enclosing
// function, a package-level variable, mentioned after the loop, or (loop nested in another loop)
// mentioned anywhere outside it.
func (c *Ctx) liveAfterLoop(info *types.Info, l *mrLoop, obj types.Object) bool {
	if obj.Pkg() != nil && obj.Parent() == obj.Pkg().Scope() {
		return true
	}
	if l.ftype != nil && l.ftype.Results != nil {
		for _, f := range l.ftype.Results.List {
			for _, n := range f.Names {
				if info.Defs[n] == obj {
					return true
				}
			}
		}
	}
	nested := false
	for _, n := range stackTo(l.body, l.rs) {
		switch n.(type) {
		case *ast.ForStmt, *ast.RangeStmt:
			if n != ast.Node(l.rs) {
				nested = true
			}
		}
	}
	live := false
	ast.Inspect(l.body, func(n ast.Node) bool {
		if n == ast.Node(l.rs) {
			return false
		}
		if id, ok := n.(*ast.Ident); ok && info.Uses[id] == obj {
			if id.Pos() > l.rs.End() || nested {
				live = true
			}
		}
		return !live
	})
	return live
}
