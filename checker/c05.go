package main

import (
	"fmt"
	"go/ast"
	"go/token"
	"go/types"
	"math/big"
	"strings"

	"golang.org/x/tools/go/packages"
)

func init() { props["C05"] = checkC05 }

func checkC05(c *Ctx) {
	c.Decides("LF: the branch split at the new root (RerootOutGroup) gives both halves L/2 and the original support; RerootMidPoint's two pieces sum to the cut branch's length and carry its support; UnRoot's merged branch is pos(l1)+pos(l2) with support max(pos(s1),pos(s2)); GraftTipOnEdge halves the split branch (read before it is overwritten)")
	c.Decides("SENTINEL: presence of a length/support/p-value is tested by (in)equality with its NIL_* sentinel, never by an ordered comparison with 0 that guards a transfer of values (0 is a legal length)")
	c.Decides("GF: strict mode refuses exactly the non-monophyletic outgroup; ReorderEdges inverts a branch exactly when it points towards the node being left; PATH: every root move in Reroot/reroot_nocheck is followed by ReorderEdges on the new root; PAIR: neighbour permutations are applied to both parallel slices and the split/merge edits are two-sided")
	c.DoesNotDecide("preservation of tip set, split set and tip-to-tip distances as such; correctness of the LCA and of the longest-path search; ties between longest paths")

	tree := c.Pkg("tree")
	if tree == nil {
		c.Undecided("ANCHOR", "tree", token.NoPos, "package tree not found")
		return
	}
	info := tree.TypesInfo

	// ---- RerootOutGroup
	if fi := c.Func("tree", "Tree", "RerootOutGroup"); fi != nil {
		env := c.newLFEnv(info, fi.Decl.Body)
		lens := c.setterCalls(info, fi.Decl.Body, "length", env.o)
		sups := c.setterCalls(info, fi.Decl.Body, "support", env.o)
		half := big.NewRat(1, 2)
		var lenAtoms []string
		nOK := 0
		for _, sc := range lens {
			p, err := env.fold(sc.arg)
			key := "tree.Tree.RerootOutGroup/" + sc.recv + ".SetLength"
			if err != nil {
				c.Undecided("LF", key, sc.call.Pos(), err.Error())
				continue
			}
			a, q, ok := p.singleAtom()
			if ok && q.Cmp(half) == 0 && strings.HasSuffix(a, ".length") {
				nOK++
				lenAtoms = append(lenAtoms, a)
				c.OK("LF", key, sc.call.Pos(), "new root branch length = "+p.String())
			} else {
				c.Violation("LF", key, sc.call.Pos(), "new root branch gets length "+p.String()+", not half of the separating branch's length").Clause = "the separating branch being cut into two equal halves"
			}
		}
		if len(lens) != 2 {
			c.Undecided("LF", "tree.Tree.RerootOutGroup/two-halves", fi.Decl.Pos(), fmt.Sprintf("expected the two SetLength calls of the split, found %d", len(lens)))
		} else if nOK == 2 {
			c.Check(lenAtoms[0] == lenAtoms[1] && lens[0].recv != lens[1].recv, "LF", "tree.Tree.RerootOutGroup/two-halves", fi.Decl.Pos(), "both new branches get half of "+lenAtoms[0], "the two halves are not halves of the same branch on two different new branches").Clause = "cut into two equal halves"
		}
		for _, sc := range sups {
			p, err := env.fold(sc.arg)
			key := "tree.Tree.RerootOutGroup/" + sc.recv + ".SetSupport"
			if err != nil {
				c.Undecided("LF", key, sc.call.Pos(), err.Error())
				continue
			}
			a, q, ok := p.singleAtom()
			good := ok && q.Cmp(big.NewRat(1, 1)) == 0 && strings.HasSuffix(a, ".support") && len(lenAtoms) > 0 && strings.TrimSuffix(a, ".support") == strings.TrimSuffix(lenAtoms[0], ".length")
			c.Check(good, "LF", key, sc.call.Pos(), "support of the split branch kept: "+p.String(), "support of a new root branch is "+p.String()+", not the support of the branch that was split").Clause = "supports of untouched branches kept; the two root branches counting as one branch"
		}
		// strict mode: error return mentioning monophyly  <=>  !monophyletic && strict
		c.strictGuard(fi)
		c.uniqueRootBranch(fi)
		c.rerootOutgroupDetails(fi)
		if lca := c.Func("tree", "Tree", "LeastCommonAncestorRecur"); lca != nil {
			c.accumAgree("ACCUM", lca, "a non-monophyletic outgroup is refused in strict mode (whatever the order of the children)")
		}
	}

	// ---- RerootMidPoint
	if fi := c.Func("tree", "Tree", "RerootMidPoint"); fi != nil {
		c.midpointBothOrientations(fi)
		env := c.newLFEnv(info, fi.Decl.Body)
		lens := c.setterCalls(info, fi.Decl.Body, "length", env.o)
		if len(lens) != 2 {
			c.Undecided("LF", "tree.Tree.RerootMidPoint/pieces", fi.Decl.Pos(), fmt.Sprintf("expected two SetLength calls, found %d", len(lens)))
		} else {
			p0, e0 := env.fold(lens[0].arg)
			p1, e1 := env.fold(lens[1].arg)
			if e0 != nil || e1 != nil {
				c.Undecided("LF", "tree.Tree.RerootMidPoint/pieces", fi.Decl.Pos(), "cannot fold the two pieces")
			} else {
				sum := p0.add(p1)
				a, q, ok := sum.singleAtom()
				good := ok && q.Cmp(big.NewRat(1, 1)) == 0 && strings.HasSuffix(a, ".length") && lens[0].recv != lens[1].recv
				c.Check(good, "LF", "tree.Tree.RerootMidPoint/pieces", lens[0].call.Pos(), "pieces "+p0.String()+" and "+p1.String()+" sum to "+sum.String(), "the two pieces of the cut branch ("+p0.String()+" ; "+p1.String()+") sum to "+sum.String()+", not to the length of the cut branch").Clause = "tip-to-tip path lengths preserved; root halfway along a longest path"
				for _, sc := range c.setterCalls(info, fi.Decl.Body, "support", env.o) {
					ps, err := env.fold(sc.arg)
					if err != nil {
						continue
					}
					sa, sq, sok := ps.singleAtom()
					g := sok && sq.Cmp(big.NewRat(1, 1)) == 0 && ok && strings.TrimSuffix(sa, ".support") == strings.TrimSuffix(a, ".length")
					c.Check(g, "LF", "tree.Tree.RerootMidPoint/"+sc.recv+".SetSupport", sc.call.Pos(), "support of the cut branch kept", "piece gets support "+ps.String()+", not that of the cut branch").Clause = "the two root branches counting as one branch"
				}
			}
		}
	}

	// ---- UnRoot
	if fi := c.Func("tree", "Tree", "UnRoot"); fi != nil {
		c.mergeForms(fi, "tree.Tree.UnRoot", true)
	}

	// ---- GraftTipOnEdge halves
	if fi := c.Func("tree", "Tree", "GraftTipOnEdge"); fi != nil {
		c.graftHalves(fi)
	}

	// ---- SENTINEL over package tree (+ fixture control)
	ns := c.sentinelScan([]*packages.Package{tree}, true)
	c.Extra["presence_tests"] = ns
	c.Decides("COLLECT-ALL: loops of package tree that collect a result per requested name/tip (the outgroup names of LeastCommonAncestorUnrooted included) do not leave with a silent break: every requested name is looked at")
	nca, _ := c.collectAll("COLLECT-ALL", c.AllFuncs("tree"), "the outgroup is exactly one of the two root clades")
	c.Extra["collecting_loops_over_parameters"] = nca
	c.Floor("COLLECT-ALL", 3)
	c.Decides("OPT-OWN: no command (reroot outgroup --strict included) reads another command's option storage while leaving an own option of the same type unread (the option the user gives would be ignored)")
	ncm, _ := c.optOwn("OPT-OWN", "a non-monophyletic outgroup is refused in strict mode")
	if ncm < 80 {
		c.Undecided("OPT-OWN", "scan-count", 0, fmt.Sprintf("only %d command literals seen (more than 80 confirmed by hand)", ncm))
	}
	c.Floor("SENTINEL", 10)
	if fx := c.Fixture(); fx != nil {
		sub := c.subCtx(fx)
		sub.sentinelScan(fx, true)
		hit := false
		for _, o := range sub.Obl {
			if o.Verdict == vViolation {
				hit = true
			}
		}
		c.Control("SENTINEL", hit, "fixture.C05ZeroAsAbsent tests `length > 0` before transferring the length")
	}

	// ---- both re-rooting operations first remove a former bifurcating root
	c.Decides("PATH: RerootOutGroup and RerootMidPoint call UnRoot unconditionally (no path condition) before anything else is computed: the former degree-2 root never stays in the tree as a single-child node")
	for _, fn := range []string{"RerootOutGroup", "RerootMidPoint"} {
		fi := c.Func("tree", "Tree", fn)
		if fi == nil {
			continue
		}
		info := fi.Pkg.TypesInfo
		good := false
		var at token.Pos = fi.Decl.Pos()
		for _, call := range callsIn(fi.Decl.Body, false) {
			if isRepoFunc(calleeOf(info, call), "tree", "Tree", "UnRoot") {
				if conds, okc := c.pathConds(info, fi.Decl.Body, call, false); okc && len(conds) == 0 {
					good, at = true, call.Pos()
				}
			}
		}
		c.Check(good, "PATH", "tree.Tree."+fn+"/unroots-first", at, "UnRoot is called unconditionally", fn+" does not call UnRoot unconditionally: on a rooted input the former root stays behind as a node with a single child").Clause = "the two root branches of a rooted tree counting as one branch"
	}
	// ---- ReorderEdges / Reroot
	c.reorderRules()

	// ---- the sort used for display writes every slot back
	c.Decides("WRITEBACK-ALL: sortNeighbors writes the sorted neighbours and branches back into every slot (its write-back loop starts at slot 0 and runs to the end)")
	if fi := c.Func("tree", "Tree", "sortNeighbors"); fi != nil {
		c.writebackAll("WRITEBACK-ALL", fi, "re-ordering the neighbours of a node keeps every neighbour and its branch")
	}
	c.Floor("WRITEBACK-ALL", 1)

	c.Decides("ROOT-LIVE: a function of package tree that installs a node given by its caller as the root (Reroot, reroot_nocheck) calls nothing that can delete nodes (reaches delNode) before doing so")
	c.rootLive("ROOT-LIVE", c.AllFuncs("tree"), "the tree is re-rooted on the requested node and keeps all its tips")
	c.Floor("ROOT-LIVE", 2)

	c.Decides("LASTLINE: the list-file readers shared by the commands (cmd/root.go, io/fileutils, io/utils) do not read lines with bufio ReadString/ReadBytes unless they handle io.EOF themselves: these return the last unterminated line together with io.EOF, which the `for err == nil` line loops never look at")
	c.lastLineIn("that outgroup is exactly one of the two clades below the root", "cmd/outgroup.go", "cmd/reroot.go")

	// ---- PAIR on the functions of this property
	only := map[string]bool{"RotateNeighbors": true, "sortNeighbors": true, "RerootOutGroup": true, "RerootMidPoint": true, "UnRoot": true}
	c.checkPair("PAIR", only)
	c.Decides("CMD-REACHES: in the reroot outgroup / reroot midpoint / unroot / rotate commands nothing between the head of the loop over the input trees and the call of the operation leaves the iteration except under an error test (no tree is filtered out in front of the operation)")
	for _, fo := range [][2]string{{"cmd/outgroup.go", "RerootOutGroup"}, {"cmd/midpoint.go", "RerootMidPoint"}, {"cmd/unroot.go", "UnRoot"}, {"cmd/rotate_rand.go", "RotateInternalNodes"}, {"cmd/rotate_sort.go", "SortNeighborsByTips"}} {
		c.cmdReaches("CMD-REACHES", fo[0], []string{fo[1]}, "all trees with branch lengths on >= 3 tips (rooted or not, any multifurcation)")
	}
	c.Floor("CMD-REACHES", 5)
	c.Decides("ROOT-WRITE: every write of Tree.root in package tree is the setter, a listed case that needs no re-orientation, or is followed by ReorderEdges(<the new root>, nil, ...)")
	c.rootWrites("ROOT-WRITE", "preserve the tip set, the set of splits with their lengths")
	c.Floor("ROOT-WRITE", 4)
	c.Decides("KEY-RAW: every access to the name index's map in tree/nodeindex.go is keyed by a name as it is (a name variable or a Name() call), on the storing and on the looking-up side alike")
	c.indexKeysRaw("KEY-RAW", "that outgroup is exactly one of the two clades below the root")
	c.Floor("KEY-RAW", 4)
	c.Decides("ABSENT-USE: in package tree, in the branch taken when a length / support / p-value equals its 'absent' sentinel, that value is not an operand of arithmetic (no half of an absent length)")
	if sites, viol := c.absentUse("ABSENT-USE", c.AllFuncs("tree"), "the separating branch being cut into two equal halves"); viol == 0 {
		if sites < 5 {
			c.Undecided("ABSENT-USE", "scan", token.NoPos, fmt.Sprintf("only %d branches taken on an absent value found in package tree (twelve on the reference tree)", sites))
		} else {
			c.OK("ABSENT-USE", "scan", token.NoPos, fmt.Sprintf("%d branches taken on an absent value, none computes with it", sites))
		}
	}
	c.Decides("REINDEX-LAST (go/cfg, shared with C04): RerootOutGroup, RerootMidPoint, Reroot and UnRoot pass a refresh of bitsets, hash codes and depths on every path from each of their structural edits to a successful exit")
	c.reindexLast("REINDEX-LAST", []string{"RerootOutGroup", "RerootMidPoint", "Reroot", "UnRoot"}, "preserve the tip set, the set of splits with their lengths", false)
	for _, nm := range []string{"RerootOutGroup", "RerootMidPoint", "Reroot", "UnRoot"} {
		c.Require("REINDEX-LAST/tree.Tree." + nm + "/refresh-after-last-edit")
	}
	c.Decides("ARG-INPLACE: no function of package tree or of the commands filters a slice it received as a parameter in place (`p[:0]` then append): the outgroup list a caller reuses for the next tree is never compacted")
	{
		sites, _ := c.argInplace("ARG-INPLACE", append(c.AllFuncs("tree"), c.AllFuncs("cmd")...), "all tip subsets as outgroup ... names absent from the tree")
		c.Trivial("ARG-INPLACE", "scan", 0, fmt.Sprintf("%d functions with a slice parameter", sites))
	}
	c.Decides("DESCEND-ALL: MaxLengthPath goes into every neighbour but the one it came from (no neighbour is skipped because of its branch)")
	c.descendAll("DESCEND-ALL", c.Func("tree", "", "MaxLengthPath"), "after midpoint rooting the root lies halfway along a longest tip-to-tip path")
	c.Floor("DESCEND-ALL", 1)
	c.Decides("DUP-REFUSED: NewNodeIndex (the name look-up behind the outgroup LCA) refuses every tree in which a non-empty name occurs twice, whatever kind of node carries it: the error return depends on the look-up result and on nothing else")
	c.dupNameRefused("DUP-REFUSED", c.Func("tree", "", "NewNodeIndex"), "that outgroup is exactly one of the two clades below the root")
	c.Floor("DUP-REFUSED", 1)
	c.Floor("PAIR", 8)
	c.Floor("LF", 8)
}

// strictGuard: in RerootOutGroup the constant error return whose path condition mentions the
// monophyly flag happens iff !monophyletic && strict.
func (c *Ctx) strictGuard(fi *FuncInfo) {
	info := fi.Pkg.TypesInfo
	// the flag: third result of LeastCommonAncestorUnrooted ; strict: parameter #1
	var mono types.Object
	ast.Inspect(fi.Decl.Body, func(n ast.Node) bool {
		as, ok := n.(*ast.AssignStmt)
		if !ok || len(as.Rhs) != 1 || len(as.Lhs) != 4 {
			return true
		}
		if call, ok := unparen(as.Rhs[0]).(*ast.CallExpr); ok {
			if fn := calleeOf(info, call); fn != nil && isRepoFunc(fn, "tree", "Tree", "LeastCommonAncestorUnrooted") {
				mono = identObj(info, as.Lhs[2])
			}
		}
		return true
	})
	strict := paramObj(info, fi.Decl, 1)
	if mono == nil || strict == nil {
		c.Undecided("GF", "tree.Tree.RerootOutGroup/strict", fi.Decl.Pos(), "cannot identify the monophyly result of LeastCommonAncestorUnrooted or the strict parameter")
		return
	}
	found := 0
	ast.Inspect(fi.Decl.Body, func(n ast.Node) bool {
		ret, ok := n.(*ast.ReturnStmt)
		if !ok || len(ret.Results) != 1 {
			return true
		}
		call, ok := unparen(ret.Results[0]).(*ast.CallExpr)
		if !ok {
			return true
		}
		if fn := calleeOf(info, call); fn == nil || !(isFunc(fn, "errors", "", "New") || isFunc(fn, "fmt", "", "Errorf")) {
			return true
		}
		conds, okc := c.pathConds(info, fi.Decl.Body, ret, false)
		if !okc {
			return true
		}
		var rel []cond
		for _, cd := range conds {
			if cd.Expr != nil && (mentions(info, cd.Expr, mono) || mentions(info, cd.Expr, strict)) {
				rel = append(rel, cd)
			}
		}
		if len(rel) == 0 {
			return true
		}
		// a refusal is an error return that sits inside an if on monophyly / strictness; an error return
		// further down that merely comes after such an if (and so carries its negation) is another matter
		nested := false
		st := stackTo(fi.Decl.Body, ret)
		for k := 0; k+1 < len(st); k++ {
			if is, isIf := st[k].(*ast.IfStmt); isIf && (mentions(info, is.Cond, mono) || mentions(info, is.Cond, strict)) && !nodeContains(is.Cond, ret.Pos()) {
				nested = true
			}
		}
		if !nested {
			return true
		}
		found++
		code := c.condsToBexpr(info, rel, nil)
		spec := bAnd(bNot(bAtom(mono.Name())), bAtom(strict.Name()))
		ok2, wit, _, err := gfEquiv(code, spec)
		key := "tree.Tree.RerootOutGroup/strict-refusal"
		if err != nil {
			c.Undecided("GF", key, ret.Pos(), err.Error())
		} else if ok2 {
			c.OK("GF", key, ret.Pos(), "refused iff "+spec.String())
		} else {
			c.Violation("GF", key, ret.Pos(), "outgroup refused under "+code.String()+", property requires "+spec.String()+" ("+wit+")").Clause = "a non-monophyletic outgroup is refused in strict mode and otherwise ends up inside one root clade"
		}
		return true
	})
	if found == 0 {
		c.Violation("GF", "tree.Tree.RerootOutGroup/strict-refusal", fi.Decl.Pos(), "no error return depends on the monophyly of the outgroup: strict mode never refuses").Clause = "a non-monophyletic outgroup is refused in strict mode"
	}
}

// mergeForms: in UnRoot / removeTip case 2 the merged branch gets pos(l1)+pos(l2) and (inner
// branches only) support max(..) of the two merged branches.
func (c *Ctx) mergeForms(fi0 *FuncInfo, name string, posSupport bool) {
	nl, ns := 0, 0
	for _, u := range c.lfUnits(fi0) {
		fi, env := u.fi, u.env
		info := fi.Pkg.TypesInfo
		lens := c.setterCalls(info, fi.Decl.Body, "length", env.o)
		sups := c.setterCalls(info, fi.Decl.Body, "support", env.o)
		for _, sc := range lens {
			p, err := env.fold(sc.arg)
			if err != nil {
				continue
			}
			if v, isC := p.isConst(); isC && v.Sign() == 0 {
				continue // SetLength(0.0) elsewhere
			}
			nl++
			key := name + "/" + sc.recv + ".SetLength"
			ats := p.atoms()
			good := len(p.norm().terms) == 2 && len(ats) == 2 && strings.HasPrefix(ats[0], "pos(") && strings.HasPrefix(ats[1], "pos(") &&
				strings.HasSuffix(ats[0], ".length)") && strings.HasSuffix(ats[1], ".length)") && ats[0] != ats[1]
			for _, t := range p.norm().terms {
				if t.coef.Cmp(big.NewRat(1, 1)) != 0 {
					good = false
				}
			}
			c.Check(good, "LF", key, sc.call.Pos(), "merged length = "+p.String(), "merged branch gets length "+p.String()+", property requires pos(l1)+pos(l2) of the two merged branches").Clause = "lengths added (absent counted as 0), support = max"
			if good {
				// written iff at least one of the two lengths is present
				t0 := strings.TrimSuffix(strings.TrimPrefix(ats[0], "pos("), ")")
				t1 := strings.TrimSuffix(strings.TrimPrefix(ats[1], "pos("), ")")
				conds, okc := c.pathConds(info, fi.Decl.Body, sc.call, false)
				var rel []cond
				for _, cd := range conds {
					if cd.Expr == nil {
						continue
					}
					k := c.canon(info, cd.Expr, env.o)
					if strings.Contains(k, "length") || strings.Contains(k, t0) || strings.Contains(k, t1) {
						rel = append(rel, cd)
					}
				}
				code := c.condsToBexpr(info, rel, env.o)
				spec := bOr(bCmp(t0, token.NEQ, "NIL_LENGTH"), bCmp(t1, token.NEQ, "NIL_LENGTH"))
				eq, wit, _, err := gfEquiv(code, spec)
				gk := name + "/" + sc.recv + ".SetLength-guard"
				if !okc || err != nil {
					c.Undecided("GF", gk, sc.call.Pos(), fmt.Sprintf("guard shape not understood: %v", err))
				} else {
					c.Check(eq, "GF", gk, sc.call.Pos(), "merged length written iff one of the two lengths is present", "the merged length is written under "+code.String()+", expected "+spec.String()+" (a sum of two zero-length branches is a present length 0, not an absent one): "+wit).Clause = "the two root branches of a rooted tree counting as one branch"
				}
			}
		}
		for _, sc := range sups {
			p, err := env.fold(sc.arg)
			if err != nil {
				continue
			}
			ns++
			key := name + "/" + sc.recv + ".SetSupport"
			a, q, ok := p.singleAtom()
			good := ok && q.Cmp(big.NewRat(1, 1)) == 0 && strings.HasPrefix(a, "max(") && strings.Count(a, ".support") == 2
			c.Check(good, "LF", key, sc.call.Pos(), "merged support = "+p.String(), "merged branch gets support "+p.String()+", property requires the max of the two merged supports").Clause = "support = max"
		}
	}
	if nl == 0 {
		c.Violation("LF", name+"/merged-length", fi0.Decl.Pos(), "no SetLength of the merged branch found: the summed length is lost").Clause = "lengths added"
	}
	if ns == 0 {
		c.Violation("LF", name+"/merged-support", fi0.Decl.Pos(), "no SetSupport of the merged branch found").Clause = "support = max"
	}
}

// graftHalves: the branch split by GraftTipOnEdge gives l/2 to both pieces, and the piece that
// overwrites the original branch's length is written last (otherwise the second half is l/4).
func (c *Ctx) graftHalves(fi *FuncInfo) {
	info := fi.Pkg.TypesInfo
	env := c.newLFEnv(info, fi.Decl.Body)
	lens := c.setterCalls(info, fi.Decl.Body, "length", env.o)
	eParam := paramObj(info, fi.Decl, 1)
	if eParam == nil {
		c.Undecided("LF", "tree.Tree.GraftTipOnEdge/halves", fi.Decl.Pos(), "no branch parameter")
		return
	}
	half := big.NewRat(1, 2)
	var halves []setCall
	for _, sc := range lens {
		p, err := env.fold(sc.arg)
		if err != nil {
			continue
		}
		a, q, ok := p.singleAtom()
		if ok && a == eParam.Name()+".length" {
			if q.Cmp(half) == 0 {
				halves = append(halves, sc)
			} else {
				c.Violation("LF", "tree.Tree.GraftTipOnEdge/"+sc.recv+".SetLength", sc.call.Pos(), "piece of the split branch gets "+p.String()+" instead of half of its length").Clause = "insertion of a new tip in the middle of a branch"
			}
		}
	}
	if len(halves) != 2 {
		c.Violation("LF", "tree.Tree.GraftTipOnEdge/halves", fi.Decl.Pos(), fmt.Sprintf("expected two pieces with half of the split branch's length, found %d", len(halves))).Clause = "insertion of a new tip in the middle of a branch"
		return
	}
	// the write to e itself must be the later one
	var self, other *setCall
	for i := range halves {
		if halves[i].recv == eParam.Name() {
			self = &halves[i]
		} else {
			other = &halves[i]
		}
	}
	if self == nil || other == nil {
		c.Violation("LF", "tree.Tree.GraftTipOnEdge/halves", fi.Decl.Pos(), "the two halves must go to the split branch itself and to the new branch").Clause = "path lengths preserved"
		return
	}
	c.Check(other.call.Pos() < self.call.Pos(), "LF", "tree.Tree.GraftTipOnEdge/halves", self.call.Pos(), "new piece reads l before the split branch is overwritten; both get l/2", "the split branch's length is overwritten before the other piece reads it: the second piece gets l/4").Clause = "path lengths preserved"
}

// sentinelScan: presence tests of Edge.length/support/pvalue.
func (c *Ctx) sentinelScan(pkgs []*packages.Package, armed bool) int {
	n := 0
	fieldOfInterest := func(a string) string {
		for _, f := range []string{".length", ".support", ".pvalue"} {
			if strings.HasSuffix(a, f) {
				return f[1:]
			}
		}
		return ""
	}
	for _, p := range pkgs {
		info := p.TypesInfo
		for _, f := range p.Syntax {
			for _, d := range f.Decls {
				fd, ok := d.(*ast.FuncDecl)
				if !ok || fd.Body == nil {
					continue
				}
				fobj, _ := info.Defs[fd.Name].(*types.Func)
				if fobj == nil {
					continue
				}
				env := c.newLFEnv(info, fd.Body)
				ast.Inspect(fd.Body, func(nd ast.Node) bool {
					is, ok := nd.(*ast.IfStmt)
					if !ok {
						return true
					}
					ast.Inspect(is.Cond, func(m ast.Node) bool {
						be, ok := m.(*ast.BinaryExpr)
						if !ok {
							return true
						}
						switch be.Op {
						case token.EQL, token.NEQ, token.LSS, token.LEQ, token.GTR, token.GEQ:
						default:
							return true
						}
						for _, side := range [][2]ast.Expr{{be.X, be.Y}, {be.Y, be.X}} {
							if !isFloat(info.TypeOf(side[0])) {
								continue
							}
							pv, err := env.fold(side[0])
							if err != nil {
								continue
							}
							a, q, ok := pv.singleAtom()
							if !ok || q.Cmp(big.NewRat(1, 1)) != 0 {
								continue
							}
							fld := fieldOfInterest(a)
							if fld == "" {
								continue
							}
							po, err := env.fold(side[1])
							if err != nil {
								continue
							}
							other := po.String()
							key := funcName(fobj) + "/" + a + " " + be.Op.String() + " " + other
							switch {
							case strings.HasPrefix(other, "NIL_") && (be.Op == token.EQL || be.Op == token.NEQ):
								n++
								c.OK("SENTINEL", key, be.Pos(), "presence of "+fld+" tested with its sentinel")
							case other == "0" && be.Op != token.EQL && be.Op != token.NEQ:
								// does the guarded body transfer a length/support/pvalue ?
								transfers := len(c.setterCalls(info, is.Body, "length", env.o))+len(c.setterCalls(info, is.Body, "support", env.o))+len(c.setterCalls(info, is.Body, "pvalue", env.o)) > 0
								// a direct store into the field of another branch (`copy.length = e.length`) is a transfer too
								ast.Inspect(is.Body, func(q ast.Node) bool {
									if as, isAs := q.(*ast.AssignStmt); isAs {
										for _, l := range as.Lhs {
											if sel, isSel := unparen(l).(*ast.SelectorExpr); isSel {
												switch sel.Sel.Name {
												case "length", "support", "pvalue":
													transfers = true
												}
											}
										}
									}
									return true
								})
								if transfers {
									n++
									c.Violation("SENTINEL", key, be.Pos(), fmt.Sprintf("presence of the %s is tested with `%s %s 0`; the 'absent' value is the sentinel NIL_%s (-1) and nothing else: 0 is a legal %s and so are the negative values some methods produce, and the values guarded by this test are not transferred for them", fld, a, be.Op, strings.ToUpper(fld), fld)).Clause = "including zero-length branches"
								}
							}
						}
						return true
					})
					return true
				})
			}
		}
	}
	return n
}

// reorderRules: ReorderEdges inverts exactly the branches that point towards the node being left,
// and every root move of Reroot/reroot_nocheck is followed by ReorderEdges on the new root.
func (c *Ctx) reorderRules() {
	if fi := c.Func("tree", "Tree", "ReorderEdges"); fi != nil {
		info := fi.Pkg.TypesInfo
		nP, prevP := paramObj(info, fi.Decl, 0), paramObj(info, fi.Decl, 1)
		var rs *ast.RangeStmt
		ast.Inspect(fi.Decl.Body, func(n ast.Node) bool {
			if r, ok := n.(*ast.RangeStmt); ok && rs == nil {
				rs = r
			}
			return true
		})
		var inv, rec *ast.CallExpr
		for _, call := range callsIn(fi.Decl.Body, false) {
			if fn := calleeOf(info, call); fn != nil {
				if isRepoFunc(fn, "tree", "Edge", "Inverse") {
					inv = call
				}
				if fn == fi.Obj {
					rec = call
				}
			}
		}
		// the inversion done by a per-branch helper (`orientEdgeFrom(n, next, reversed)`): read as if it
		// were written in place, the helper's own guard joined to the caller's
		var helperCode *bexpr
		var helperCall *ast.CallExpr
		helperE := ""
		if inv == nil {
			for _, call := range callsIn(fi.Decl.Body, false) {
				g := calleeOf(info, call)
				gi := c.FuncOfObj(g)
				if g == nil || gi == nil || gi.Decl.Body == nil || g == fi.Obj || !inRepo(g) || gi.Pkg != fi.Pkg || helperCall != nil {
					continue
				}
				ginfo := gi.Pkg.TypesInfo
				var hinv *ast.CallExpr
				for _, hc := range callsIn(gi.Decl.Body, false) {
					if isRepoFunc(calleeOf(ginfo, hc), "tree", "Edge", "Inverse") {
						hinv = hc
					}
				}
				if hinv == nil {
					continue
				}
				sub := &canonOpts{subst: map[types.Object]string{}}
				for k, a := range call.Args {
					if pr := paramObj(ginfo, gi.Decl, k); pr != nil {
						sub.subst[pr] = c.canon(info, a, nil)
					}
				}
				hconds, okh := c.pathConds(ginfo, gi.Decl.Body, hinv, true)
				if !okh {
					continue
				}
				if sel, ok := unparen(hinv.Fun).(*ast.SelectorExpr); ok {
					helperE = c.canon(ginfo, sel.X, sub)
				}
				helperCode = c.condsToBexpr(ginfo, hconds, sub)
				helperCall = call
			}
			if helperCall != nil {
				inv = helperCall
			}
		}
		// the branch being looked at = the receiver of Inverse, whatever the loop form
		e := ""
		inLoop := false
		if inv != nil {
			if sel, ok := unparen(inv.Fun).(*ast.SelectorExpr); ok {
				e = c.canon(info, sel.X, nil)
			}
			if helperCall != nil {
				e = helperE
			}
			for _, a := range stackTo(fi.Decl.Body, inv) {
				switch a.(type) {
				case *ast.ForStmt, *ast.RangeStmt:
					inLoop = true
				}
			}
		}
		_ = rs
		if !inLoop || inv == nil || rec == nil || nP == nil || prevP == nil || e == "" {
			c.Undecided("GF", "tree.Tree.ReorderEdges/shape", fi.Decl.Pos(), "expected a loop over the node's branches with an Inverse call and a recursive call")
		} else {
			n, prev := nP.Name(), prevP.Name()
			// over the branches of n other than the one to prev: inverse <=> right == n
			conds, okc := c.pathConds(info, fi.Decl.Body, inv, true)
			code := c.condsToBexpr(info, conds, nil)
			if helperCode != nil {
				code = bAnd(code, helperCode)
			}
			notPrev := bAnd(bCmp(e+".right", token.NEQ, prev), bCmp(e+".left", token.NEQ, prev))
			spec := bAnd(notPrev, bCmp(e+".right", token.EQL, n))
			if !okc {
				c.Undecided("GF", "tree.Tree.ReorderEdges/inverse", inv.Pos(), "guard shape not understood")
			} else if ok2, wit, _, err := gfEquiv(code, spec); err != nil {
				c.Undecided("GF", "tree.Tree.ReorderEdges/inverse", inv.Pos(), err.Error())
			} else if ok2 {
				c.OK("GF", "tree.Tree.ReorderEdges/inverse", inv.Pos(), "inverted iff "+spec.String())
			} else {
				c.Violation("GF", "tree.Tree.ReorderEdges/inverse", inv.Pos(), "branch inverted under "+code.String()+" but must be inverted exactly when "+spec.String()+" ("+wit+")").Clause = "every branch pointing away from the root"
			}
			// recursion: into e.right, coming from n, for every branch not leading to prev
			conds2, okc2 := c.pathConds(info, fi.Decl.Body, rec, true)
			code2 := c.condsToBexpr(info, conds2, nil)
			a0, a1 := c.canon(info, rec.Args[0], nil), c.canon(info, rec.Args[1], nil)
			if !okc2 {
				c.Undecided("GF", "tree.Tree.ReorderEdges/descent", rec.Pos(), "guard shape not understood")
			} else if ok2, wit, _, err := gfEquiv(code2, notPrev); err != nil {
				c.Undecided("GF", "tree.Tree.ReorderEdges/descent", rec.Pos(), err.Error())
			} else {
				c.Check(ok2 && a0 == e+".right" && a1 == n && inv.Pos() < rec.Pos(), "GF", "tree.Tree.ReorderEdges/descent", rec.Pos(), "descends into "+a0+" (after the inversion) for every branch not leading back", fmt.Sprintf("descent must go to %s.right coming from %s, after the inversion, exactly for the branches not leading back to %s (args %s,%s; guard %s; %s)", e, n, prev, a0, a1, code2.String(), wit)).Clause = "re-orientation of branches after a root change"
			}
		}
	}
	for _, name := range []string{"Reroot", "reroot_nocheck"} {
		fi := c.Func("tree", "Tree", name)
		if fi == nil {
			continue
		}
		info := fi.Pkg.TypesInfo
		g := c.cfgOf(info, fi.Decl.Body)
		found := false
		ast.Inspect(fi.Decl.Body, func(n ast.Node) bool {
			as, ok := n.(*ast.AssignStmt)
			if !ok || len(as.Lhs) != 1 {
				return true
			}
			if c.canon(info, as.Lhs[0], nil) != recvObj(info, fi.Decl).Name()+".root" {
				return true
			}
			found = true
			newroot := c.canon(info, as.Rhs[0], nil)
			res := mustPass(g, as.Pos(), func(m ast.Node) bool {
				return containsCall(info, m, func(call *ast.CallExpr, fn *types.Func) bool {
					return fn != nil && isRepoFunc(fn, "tree", "Tree", "ReorderEdges") && len(call.Args) == 3 && c.canon(info, call.Args[0], nil) == newroot
				})
			}, nil)
			key := "tree.Tree." + name + "/root-move→ReorderEdges"
			if res.ok {
				c.OK("PATH", key, as.Pos(), "every path from the root move passes ReorderEdges("+newroot+", …)")
			} else {
				_, ln := c.pos(res.escape)
				c.Violation("PATH", key, as.Pos(), fmt.Sprintf("the root is moved to %s but a path to the exit at line %d does not re-orient the branches from it", newroot, ln)).Clause = "every branch pointing away from the root"
			}
			return true
		})
		if !found {
			c.Undecided("PATH", "tree.Tree."+name+"/root-move→ReorderEdges", fi.Decl.Pos(), "no root move found in "+name)
		}
	}
}

// uniqueRootBranch: RerootOutGroup refuses unless exactly one branch of the LCA lies outside the
// outgroup: an error return guarded by a comparison whose normal form is len(n.br) - len(edges) = 1.
func (c *Ctx) uniqueRootBranch(fi *FuncInfo) {
	info := fi.Pkg.TypesInfo
	key := "tree.Tree.RerootOutGroup/unique-root-branch"
	clause := "that outgroup is exactly one of the two clades below the root ... a non-monophyletic outgroup is refused"
	var nObj, eObj types.Object
	ast.Inspect(fi.Decl.Body, func(n ast.Node) bool {
		if as, ok := n.(*ast.AssignStmt); ok && len(as.Rhs) == 1 && len(as.Lhs) == 4 {
			if call, ok := unparen(as.Rhs[0]).(*ast.CallExpr); ok && isRepoFunc(calleeOf(info, call), "tree", "Tree", "LeastCommonAncestorUnrooted") {
				nObj, eObj = identObj(info, as.Lhs[0]), identObj(info, as.Lhs[1])
			}
		}
		return true
	})
	if nObj == nil || eObj == nil {
		c.Undecided("GF", key, fi.Decl.Pos(), "results of LeastCommonAncestorUnrooted not found")
		return
	}
	// the function itself, and the unexported helpers it hands the LCA node and the outgroup branches to
	type unit struct {
		f            *FuncInfo
		nName, eName string
	}
	units := []unit{{fi, nObj.Name(), eObj.Name()}}
	for _, call := range callsIn(fi.Decl.Body, true) {
		g := calleeOf(info, call)
		if g == nil || g.Exported() || g.Pkg() != fi.Obj.Pkg() {
			continue
		}
		gi := c.FuncOfObj(g)
		if gi == nil || gi.Decl.Body == nil {
			continue
		}
		ni, ei := -1, -1
		for i, a := range call.Args {
			switch identObj(info, a) {
			case nObj:
				ni = i
			case eObj:
				ei = i
			}
		}
		if ni >= 0 && ei >= 0 {
			pn, pe := paramObj(gi.Pkg.TypesInfo, gi.Decl, ni), paramObj(gi.Pkg.TypesInfo, gi.Decl, ei)
			if pn != nil && pe != nil {
				units = append(units, unit{gi, pn.Name(), pe.Name()})
			}
		}
	}
	found := false
	for _, u := range units {
		info := u.f.Pkg.TypesInfo
		env := c.newLFEnv(info, u.f.Decl.Body)
		want := pAtom("len(" + u.nName + ".br)").sub(pAtom("len(" + u.eName + ")")).sub(pInt(1))
		ast.Inspect(u.f.Decl.Body, func(n ast.Node) bool {
			is, ok := n.(*ast.IfStmt)
			if !ok || found {
				return true
			}
			be, ok := unparen(is.Cond).(*ast.BinaryExpr)
			if !ok || be.Op != token.NEQ {
				return true
			}
			// body is an error return
			if len(is.Body.List) == 0 {
				return true
			}
			ret, ok := is.Body.List[len(is.Body.List)-1].(*ast.ReturnStmt)
			if !ok || returnsNilError(info, ret) {
				return true
			}
			l, e1 := env.fold(be.X)
			r, e2 := env.fold(be.Y)
			if e1 != nil || e2 != nil {
				return true
			}
			d := l.sub(r)
			if d.equal(want) || d.neg().equal(want) {
				found = true
				c.OK("GF", key, is.Pos(), "refused unless exactly one branch of the LCA lies outside the outgroup")
			}
			return true
		})
	}
	if !found {
		c.Violation("GF", key, fi.Decl.Pos(), fmt.Sprintf("no error return guarded by `len(%s.br) - len(%s) != 1` (or an equivalent form): when the outgroup covers only part of a multifurcating node the root is placed on an arbitrary branch, the outgroup is not one of the two root clades and, with removal, other tips vanish", nObj.Name(), eObj.Name())).Clause = clause
	}
}

// midpointBothOrientations: the walk along the longest path crosses the apex of the path, so its
// branches are met in both orientations; the two ends used for the cut must be assigned under
// both `E.Right() == previous` and `E.Left() == previous`.
func (c *Ctx) midpointBothOrientations(fi *FuncInfo) {
	key := "tree.Tree.RerootMidPoint/path-orientation"
	clause := "Rerooting ... at the midpoint ... preserve ... every tip-to-tip path length"
	// RerootMidPoint and the unexported helpers of its package it calls (the walk may live in one)
	units := []*FuncInfo{fi}
	seen := map[*types.Func]bool{fi.Obj: true}
	for i := 0; i < len(units) && len(units) < 12; i++ {
		for _, call := range callsIn(units[i].Decl.Body, true) {
			g := calleeOf(units[i].Pkg.TypesInfo, call)
			if g == nil || seen[g] || g.Exported() || g.Pkg() != fi.Obj.Pkg() {
				continue
			}
			if gi := c.FuncOfObj(g); gi != nil && gi.Decl.Body != nil {
				seen[g] = true
				units = append(units, gi)
			}
		}
	}
	// assignments T = E.right / E.left (T a variable or a field of a local record) with the positive
	// conditions on their path
	type asg struct {
		target, end, edge, pos string
	}
	ok := false
	for _, u := range units {
		info := u.Pkg.TypesInfo
		var asgs []asg
		ast.Inspect(u.Decl.Body, func(n ast.Node) bool {
			as, isAs := n.(*ast.AssignStmt)
			if !isAs || len(as.Lhs) != len(as.Rhs) || as.Tok != token.ASSIGN {
				return true
			}
			for i := range as.Lhs {
				k := c.canon(info, as.Rhs[i], nil)
				var end string
				switch {
				case strings.HasSuffix(k, ".right"):
					end = "right"
				case strings.HasSuffix(k, ".left"):
					end = "left"
				default:
					continue
				}
				conds, _ := c.pathConds(info, u.Decl.Body, as, true)
				var ps []string
				for _, cd := range conds {
					if cd.Expr != nil && !cd.Neg {
						ps = append(ps, c.canon(info, cd.Expr, nil))
					}
				}
				asgs = append(asgs, asg{c.canon(info, as.Lhs[i], nil), end, strings.TrimSuffix(strings.TrimSuffix(k, ".right"), ".left"), strings.Join(ps, " && ")})
			}
			return true
		})
		// two targets a (the end met first) and b (the end met next): a = E.right under E.right == b
		// (climbing) and a = E.left under E.left == b (descending)
		for _, x := range asgs {
			for _, y := range asgs {
				if x.target != y.target || x.end != "right" || y.end != "left" {
					continue
				}
				for _, bcand := range asgs {
					b := bcand.target
					if b == x.target {
						continue
					}
					has := func(z asg, end string) bool {
						return strings.Contains(z.pos, z.edge+"."+end+" == "+b) || strings.Contains(z.pos, b+" == "+z.edge+"."+end)
					}
					if has(x, "right") && has(y, "left") {
						ok = true
					}
				}
			}
		}
	}
	c.Check(ok, "SYM", key, fi.Decl.Pos(), "the ends of the cut branch are taken in both orientations (before and after the apex of the path)",
		"walking the longest path, the ends of the branch to cut are not assigned under both `E.Right() == <previous node>` (climbing) and `E.Left() == <previous node>` (descending after the apex): when the midpoint lies on the descending part the two pieces go to the wrong ends").Clause = clause
}
