package main

import (
	"fmt"
	"go/ast"
	"go/constant"
	"go/token"
	"go/types"
	"strings"

	"golang.org/x/tools/go/packages"
)

func init() { props["C18"] = checkC18 }

func checkC18(c *Ctx) {
	c.Decides("MAPRANGE: every `range` over a map in the repository is classified; a body (followed into repository callees, depth<=3) that writes, appends without a following sort, accumulates floats, keeps the first/last entry or stores under a key not derived from the iteration key makes the result depend on Go's randomised map order")
	c.Decides("ARRIVAL-ORDER: inside a `go` function the value returned by a sync/atomic Add/Swap/CompareAndSwap is never used (an identifier, file name or index taken from a shared counter depends on which goroutine arrives first)")
	nao, _ := c.arrivalOrder("ARRIVAL-ORDER", c.All, "running with several threads may only change the order in which per-tree records arrive, each record carrying its tree identifier")
	c.Extra["atomic_updates_in_goroutines"] = nao
	c.Floor("ARRIVAL-ORDER", 1)
	if fx := c.Fixture(); fx != nil {
		sub := c.subCtx(fx)
		_, nv := sub.arrivalOrder("ARRIVAL-ORDER", fx, "")
		c.Control("ARRIVAL-ORDER", nv == 1, "fixture.C18ArrivalOrder indexes its output by the value atomic.AddInt32 returns inside a goroutine")
	}
	c.Decides("RANDSRC: math/rand.Seed is called only from the root command's PersistentPreRun with the --seed storage; every other PersistentPreRun[E] delegates to it; no private random source (rand.New/NewSource, crypto/rand, math/rand/v2, hash/maphash whose seeds are per-process, os.Getpid); time.Now() flows only into the seed default (seed == -1) and the support log; no %p formatting")
	c.DoesNotDecide("order of per-tree records of threaded commands (permitted by the property); order dependence hidden behind external calls assumed pure (listed in evidence); injectivity of keys derived from the iteration key")
	c.Assume = append(c.Assume, "objects looked up by distinct map keys are distinct", "external (non-repository) calls without a Write/Print-like name have no order-dependent effect")

	c.Decides("CMP: every comparator given to sort.Slice/SliceStable compares the same plain key (fields, trivial getters) of its two elements; a comparator through a lossy function (ToLower, Atoi, len ...) or with a key chosen by a condition lets elements tie or is not transitive, and the result then depends on the order the slice had (traversal or map order)")
	nc, _ := c.cmpTotal("CMP", append(c.AllFuncs(), c.PkgLevelClosures()...), "same inputs and same seed give byte-identical output")
	c.Extra["sort_comparators"] = nc
	c.Floor("CMP", 5)
	// MAPRANGE
	loops := c.mapRangeLoops(c.All)
	c.Floor("MAPRANGE", 9)
	c.Decides("LOCK-COVERS (go/cfg, must-analysis): in UpdateTaxaMoveArrays every write to an accumulator shared between the TBE workers (slice parameter not indexed by the call's own reference branch, pointer parameter) happens with the mutex parameter held on every path")
	c.lockCovers("LOCK-COVERS", c.Func("support", "", "UpdateTaxaMoveArrays"), "the output does not depend on the thread schedule")
	c.Floor("LOCK-COVERS", 2)
	c.Extra["map_range_loops"] = len(loops)
	var assumed []string
	seenKey := map[string]int{}
	for _, l := range loops {
		key := l.name + "/range " + c.canon(l.pkg.TypesInfo, l.rs.X, nil)
		seenKey[key]++
		if n := seenKey[key]; n > 1 {
			key += fmt.Sprintf("#%d", n)
		}
		assumed = append(assumed, l.assumed...)
		if len(l.sinks) == 0 {
			why := "no order-dependent sink"
			if len(l.reasons) > 0 {
				why += ": " + strings.Join(dedup(l.reasons), "; ")
			}
			c.OK("MAPRANGE", key, l.rs.Pos(), why)
			continue
		}
		var ds []string
		for _, s := range l.sinks {
			_, ln := c.pos(s.pos)
			ds = append(ds, fmt.Sprintf("[%s line %d] %s", s.kind, ln, s.desc))
		}
		msg := "result depends on map iteration order: " + strings.Join(ds, " | ")
		rel := strings.TrimPrefix(l.pkg.PkgPath, modPath+"/")
		if rel == "download" || rel == "upload" {
			c.Note("MAPRANGE", key, l.rs.Pos(), "(network-only package, outside the property's commands) "+msg)
			continue
		}
		o := c.Violation("MAPRANGE", key, l.rs.Pos(), msg)
		o.Clause = "results never depend on hash-map iteration order"
	}
	c.Extra["assumed_pure_calls"] = dedup(assumed)
	if fx := c.Fixture(); fx != nil {
		hit := false
		for _, l := range c.mapRangeLoops(fx) {
			if l.fn != nil && l.fn.Name.Name == "C18PrintMap" && len(l.sinks) > 0 {
				hit = true
			}
		}
		c.Control("MAPRANGE", hit, "fixture.C18PrintMap writes in map order")
	}

	// RANDSRC
	c.randSrc(c.All, true)
	if fx := c.Fixture(); fx != nil {
		sub := c.subCtx(fx)
		sub.randSrc(fx, false)
		got := map[string]bool{}
		for _, o := range sub.Obl {
			if o.Verdict == vViolation {
				got[strings.SplitN(strings.TrimPrefix(o.Key, o.Rule+"/"), "/", 2)[0]] = true
			}
		}
		c.Control("RANDSRC-private-source", got["private-source"], "fixture.C18OwnSource uses rand.New(rand.NewSource(..))")
		c.Control("RANDSRC-clock", got["clock"], "fixture.C18OwnSource feeds time.Now() into a seed")
		c.Control("RANDSRC-address", got["address"], "fixture.C18Pointer formats with %p")
	}
}

func dedup(xs []string) []string {
	seen := map[string]bool{}
	var out []string
	for _, x := range xs {
		if !seen[x] {
			seen[x] = true
			out = append(out, x)
		}
	}
	return out
}

// randSrc evaluates the RANDSRC rules on pkgs. repo=true additionally requires the cobra wiring.
func (c *Ctx) randSrc(pkgs []*packages.Package, repo bool) {
	type site struct {
		p    *packages.Package
		call *ast.CallExpr
		fn   string
		path []ast.Node
	}
	var seeds []site
	nDraw := 0
	for _, p := range pkgs {
		info := p.TypesInfo
		for _, f := range p.Syntax {
			for _, imp := range f.Imports {
				ip := strings.Trim(imp.Path.Value, `"`)
				if ip == "hash/maphash" {
					o := c.Violation("RANDSRC", "private-source/import "+ip+"@"+p.PkgPath, imp.Pos(), "imports hash/maphash: its seeds are drawn at random in every process (MakeSeed, zero Hash), so anything ordered or keyed by these hashes differs between runs whatever --seed says")
					o.Clause = "byte-identical output for the same input, options and seed, in a new process"
				}
				if ip == "crypto/rand" || ip == "math/rand/v2" {
					o := c.Violation("RANDSRC", "private-source/import "+ip+"@"+p.PkgPath, imp.Pos(), "imports "+ip+": a random source that --seed does not control")
					o.Clause = "byte-identical output for the same input, options and seed"
				}
			}
			walkStack(f, func(n ast.Node, stack []ast.Node) bool {
				switch x := n.(type) {
				case *ast.BasicLit:
					if x.Kind == token.STRING && strings.Contains(x.Value, "%p") {
						c.Violation("RANDSRC", "address/%p@"+c.enclosingFuncName(info, stack), x.Pos(), "format string contains %p: prints a memory address, which differs between runs").Clause = "results never depend on memory addresses"
					}
				case *ast.CallExpr:
					fn := calleeOf(info, x)
					if fn == nil || fn.Pkg() == nil {
						return true
					}
					switch fn.Pkg().Path() {
					case "math/rand":
						sig := fn.Type().(*types.Signature)
						switch {
						case fn.Name() == "Seed" && sig.Recv() == nil:
							seeds = append(seeds, site{p, x, c.enclosingFuncName(info, stack), append([]ast.Node{}, stack...)})
						case (fn.Name() == "New" || fn.Name() == "NewSource" || fn.Name() == "NewZipf") && sig.Recv() == nil:
							c.Violation("RANDSRC", "private-source/rand."+fn.Name()+"@"+c.enclosingFuncName(info, stack), x.Pos(), "creates a private random source with rand."+fn.Name()+": draws from it are not controlled by the single seeded global source").Clause = "results are a deterministic function of input, options and seed"
						default:
							nDraw++
						}
					case "os":
						if fn.Name() == "Getpid" || fn.Name() == "Getppid" {
							c.Violation("RANDSRC", "process/os."+fn.Name()+"@"+c.enclosingFuncName(info, stack), x.Pos(), "reads the process id, which differs between runs").Clause = "byte-identical output for the same input, options and seed, in a new process"
						}
					case "time":
						if fn.Name() == "Now" {
							c.clockUse(info, x, stack, repo)
						}
					}
				}
				return true
			})
		}
	}
	if !repo {
		return
	}
	c.Extra["rand_draw_sites"] = nDraw
	// rand.Seed: only in RootCmd.PersistentPreRun, argument = storage of --seed
	regs, _ := c.collectFlagRegs()
	var seedVar types.Object
	for _, r := range regs {
		if r.flag == "seed" && r.cmdVar == "RootCmd" {
			seedVar = r.vobj
		}
	}
	if seedVar == nil {
		c.Undecided("RANDSRC", "seed-flag", token.NoPos, "no --seed registration on RootCmd found: cannot identify the seed storage")
	}
	if len(seeds) == 0 {
		c.Violation("RANDSRC", "seed/no-call", token.NoPos, "math/rand.Seed is never called: --seed has no effect").Clause = "same seed, same output"
	}
	pathInRootPre := func(path []ast.Node) bool {
		for i, n := range path {
			if kv, ok := n.(*ast.KeyValueExpr); ok {
				if id, ok := kv.Key.(*ast.Ident); ok && id.Name == "PersistentPreRun" && i > 0 {
					// the composite literal must be the initialiser of RootCmd
					for _, m := range path[:i] {
						if vs, ok := m.(*ast.ValueSpec); ok && len(vs.Names) == 1 && vs.Names[0].Name == "RootCmd" {
							return true
						}
					}
				}
			}
		}
		return false
	}
	for _, s := range seeds {
		inRootPre := pathInRootPre(s.path)
		if !inRootPre {
			// the seeding extracted into an unexported function that is called from the root
			// command's PersistentPreRun and from nowhere else (and is never used as a value)
			var fd *ast.FuncDecl
			for _, n := range s.path {
				if d, ok := n.(*ast.FuncDecl); ok {
					fd = d
				}
				if _, ok := n.(*ast.FuncLit); ok {
					fd = nil
				}
			}
			if fd != nil && fd.Recv == nil && !ast.IsExported(fd.Name.Name) {
				fobj := s.p.TypesInfo.Defs[fd.Name]
				inside, outside := 0, 0
				for _, p := range pkgs {
					for _, f := range p.Syntax {
						walkStack(f, func(n ast.Node, stack []ast.Node) bool {
							id, ok := n.(*ast.Ident)
							if !ok || p.TypesInfo.Uses[id] != fobj || fobj == nil {
								return true
							}
							isCall := false
							if len(stack) > 0 {
								if ce, ok := stack[len(stack)-1].(*ast.CallExpr); ok && unparen(ce.Fun) == ast.Expr(id) {
									isCall = true
								}
							}
							if isCall && pathInRootPre(stack) {
								inside++
							} else {
								outside++
							}
							return true
						})
					}
				}
				inRootPre = inside > 0 && outside == 0
			}
		}
		argOK := seedVar != nil && len(s.call.Args) == 1 && identObj(s.p.TypesInfo, s.call.Args[0]) == seedVar
		switch {
		case inRootPre && argOK:
			c.OK("RANDSRC", "seed/"+s.fn, s.call.Pos(), "rand.Seed(seed storage) in the root command's PersistentPreRun")
		case !inRootPre:
			c.Violation("RANDSRC", "seed/"+s.fn, s.call.Pos(), "math/rand.Seed is called outside the root command's PersistentPreRun: the global source is re-seeded independently of --seed").Clause = "single global source seeded from --seed before every command"
		default:
			c.Violation("RANDSRC", "seed/"+s.fn, s.call.Pos(), "math/rand.Seed is not given the --seed storage").Clause = "single global source seeded from --seed before every command"
		}
	}
	// cobra runs only the nearest PersistentPreRun[E]: every override must delegate to the root's
	for _, p := range pkgs {
		info := p.TypesInfo
		for _, f := range p.Syntax {
			walkStack(f, func(n ast.Node, stack []ast.Node) bool {
				kv, ok := n.(*ast.KeyValueExpr)
				if !ok {
					return true
				}
				id, ok := kv.Key.(*ast.Ident)
				if !ok || (id.Name != "PersistentPreRun" && id.Name != "PersistentPreRunE") {
					return true
				}
				fv, ok := info.Uses[id].(*types.Var)
				if !ok || !fv.IsField() || fv.Pkg() == nil || !strings.HasSuffix(fv.Pkg().Path(), "spf13/cobra") {
					return true
				}
				owner := "?"
				for _, m := range stack {
					if vs, ok := m.(*ast.ValueSpec); ok && len(vs.Names) == 1 {
						owner = vs.Names[0].Name
					}
				}
				if owner == "RootCmd" {
					return true
				}
				fl, ok := kv.Value.(*ast.FuncLit)
				if !ok {
					c.Undecided("RANDSRC", "prerun/"+owner, kv.Pos(), "PersistentPreRun of "+owner+" is not a function literal: cannot see whether it seeds the random source")
					return true
				}
				delegates := false
				for _, st := range fl.Body.List {
					if _, isRet := st.(*ast.ReturnStmt); isRet {
						break
					}
					if es, ok := st.(*ast.ExprStmt); ok {
						if call, ok := es.X.(*ast.CallExpr); ok {
							if sel, ok := unparen(call.Fun).(*ast.SelectorExpr); ok && sel.Sel.Name == "PersistentPreRun" {
								if rid, ok := unparen(sel.X).(*ast.Ident); ok && rid.Name == "RootCmd" {
									delegates = true
								}
							}
						}
					}
					if _, isIf := st.(*ast.IfStmt); isIf {
						break // anything after a conditional is not unconditional
					}
				}
				if delegates {
					c.OK("RANDSRC", "prerun/"+owner, kv.Pos(), owner+"."+id.Name+" first calls RootCmd.PersistentPreRun (cobra runs only the nearest hook)")
				} else {
					c.Violation("RANDSRC", "prerun/"+owner, kv.Pos(), owner+"."+id.Name+" overrides the root hook without calling RootCmd.PersistentPreRun unconditionally first: its sub-commands run with an unseeded random source, whatever --seed says").Clause = "single global source seeded from --seed before every command"
				}
				return true
			})
		}
	}
}

func (c *Ctx) enclosingFuncName(info *types.Info, stack []ast.Node) string {
	name := "<pkg>"
	for _, n := range stack {
		if fd, ok := n.(*ast.FuncDecl); ok {
			if o, ok := info.Defs[fd.Name].(*types.Func); ok {
				name = funcName(o)
			}
		}
		if vs, ok := n.(*ast.ValueSpec); ok && len(vs.Names) > 0 && name == "<pkg>" {
			name = vs.Names[0].Name
		}
	}
	return name
}

// clockUse: time.Now() may only feed (a) an assignment to the seed storage guarded by seed == -1,
// (b) a write to the support log.
func (c *Ctx) clockUse(info *types.Info, call *ast.CallExpr, stack []ast.Node, repo bool) {
	where := c.enclosingFuncName(info, stack)
	// innermost statement
	var stmt ast.Stmt
	var stmtIdx int
	for i := len(stack) - 1; i >= 0; i-- {
		if s, ok := stack[i].(ast.Stmt); ok {
			stmt, stmtIdx = s, i
			break
		}
	}
	key := "clock/" + where
	if !repo {
		c.Violation("RANDSRC", key, call.Pos(), "time.Now() used (control)")
		return
	}
	switch s := stmt.(type) {
	case *ast.AssignStmt:
		if len(s.Lhs) == 1 {
			if o := identObj(info, s.Lhs[0]); o != nil && o.Name() == "seed" && o.Parent() == o.Pkg().Scope() {
				// guarded by seed == -1 ?
				for i := stmtIdx - 1; i >= 0; i-- {
					if is, ok := stack[i].(*ast.IfStmt); ok {
						// `seed == -1` / `-1 == seed` with the store in the then-branch, or `seed != -1` with it in the else-branch
						if be, ok := unparen(is.Cond).(*ast.BinaryExpr); ok && (be.Op == token.EQL || be.Op == token.NEQ) {
							inThen := is.Body.Pos() <= s.Pos() && s.End() <= is.Body.End()
							for _, pr := range [][2]ast.Expr{{be.X, be.Y}, {be.Y, be.X}} {
								if identObj(info, pr[0]) != o {
									continue
								}
								if tv, ok := info.Types[pr[1]]; ok && tv.Value != nil && constant.Compare(tv.Value, token.EQL, constant.MakeInt64(-1)) && ((be.Op == token.EQL) == inThen) {
									c.OK("RANDSRC", key+"/seed-default", call.Pos(), "clock feeds the seed only when no seed was given (seed == -1)")
									return
								}
							}
						}
					}
				}
				c.Violation("RANDSRC", key+"/seed-default", call.Pos(), "clock value assigned to the seed without the `seed == -1` guard: a given seed is overridden by the clock").Clause = "results never depend on the clock once a seed is given"
				return
			}
		}
	case *ast.ExprStmt:
		if call2, ok := s.X.(*ast.CallExpr); ok {
			isLog := func(e ast.Expr) bool {
				o := identObj(info, e)
				return o != nil && o.Name() == "supportLog" && o.Pkg() != nil && o.Parent() == o.Pkg().Scope()
			}
			if sel, ok := unparen(call2.Fun).(*ast.SelectorExpr); ok && isLog(sel.X) {
				c.OK("RANDSRC", key+"/log", call.Pos(), "clock written to the support log only")
				return
			}
			// fmt.Fprint*(supportLog, ...)
			if fn := calleeOf(info, call2); fn != nil && fn.Pkg() != nil && fn.Pkg().Path() == "fmt" && strings.HasPrefix(fn.Name(), "Fprint") && len(call2.Args) > 0 && isLog(call2.Args[0]) {
				c.OK("RANDSRC", key+"/log", call.Pos(), "clock written to the support log only")
				return
			}
		}
	}
	rel := ""
	if len(stack) > 0 {
		if f, ok := stack[0].(*ast.File); ok {
			if p := pkgOfFile(c.All, f); p != nil {
				rel = strings.TrimPrefix(p.PkgPath, modPath+"/")
			}
		}
	}
	if rel == "download" || rel == "upload" {
		c.Note("RANDSRC", key, call.Pos(), "(network-only package) time.Now() used")
		return
	}
	c.Violation("RANDSRC", key, call.Pos(), "time.Now() flows somewhere other than the seed default or the support log: output may depend on the clock").Clause = "results never depend on the clock once a seed is given"
}
