package main

import (
	"fmt"
	"go/ast"
	"go/token"
	"go/types"
	"strings"
)

func init() { props["C20"] = checkC20 }

// DRAW — index draws use the unbiased range.
//
// Every call of math/rand.Intn/Int31n/Int63n/Perm in the repository is classified by the idiom it
// takes part in, and the argument is compared (as a canonical expression) with the one range that
// makes the idiom uniform:
//
//	reservoir       if c < n { out[c] = x } else { j := Intn(E); if j < n { out[j] = x } }   E ≡ c+1
//	with replacement  T++ … r := Intn(E); if r == 0 { out[j] = x }                            E ≡ T, T++ before the draw
//	inside-out Fisher–Yates   for i := range s { j := Intn(E); s[i], s[j] = s[j], s[i] }       E ≡ i+1
//	uniform pick    k := Intn(E); … s[k]                                                      E ≡ len(s)
//	permutation     p := Perm(E); … s[p[·]]                                                   E ≡ len(s)
func checkC20(c *Ctx) {
	c.Decides("GENCMD: each `generate` command calls the generator its name announces (uniformtree -> RandomUniformBinaryTree ...)")
	c.Decides("REDRAW: in package tree and in the commands no while-style loop (a `for cond` that is not a plain counter) contains a call that reaches math/rand: a draw is never repeated until its result is accepted")
	{
		var fs []*FuncInfo
		fs = append(fs, c.AllFuncs("tree", "cmd")...)
		fs = append(fs, c.PkgLevelClosures("cmd")...)
		nl, _ := c.redraw("REDRAW", fs, "every permutation / every subset has the same probability")
		c.Extra["while_loops_scanned"] = nl
	}
	c.Floor("REDRAW", 4)
	c.generatorCommands("GENCMD")
	c.Decides("DRAW: every rand.Intn/Int31n/Int63n/Perm call site is classified (reservoir, reservoir with replacement, inside-out Fisher–Yates, uniform index pick, permutation) and its argument must be the unique range that makes the idiom unbiased: c+1 for the item at zero-based position c of a reservoir, the running count (incremented before the draw) for replacement sampling, i+1 for the shuffle, len(s) for a pick from s")
	c.DoesNotDecide("the distribution of generated tree topologies or of anything computed after the draw; quality of math/rand itself; rand.Perm/Intn are trusted uniform")
	c.Trusted = append(c.Trusted, "math/rand.Intn(n) is uniform on [0,n), rand.Perm(n) a uniform permutation")
	c.Decides("ROTATE-ALL: RotateInternalNodes shuffles every node that has at least two neighbours (the bifurcating root of a rooted tree included)")
	c.rotateAll("ROTATE-ALL")
	c.Floor("ROTATE-ALL", 1)
	c.Decides("CANDIDATES: every branch created by the uniform generator is appended to the list the insertion point is drawn from")
	c.uniformCandidates("CANDIDATES")
	c.Floor("CANDIDATES", 4)
	c.Decides("ALL-MEMBERS (shared with C13): no gzip reader has Multistream switched off: every tree of a compressed input can be drawn")
	if sites, _ := c.gzipAllMembers("ALL-MEMBERS", "every input element has a non-zero chance of being selected"); sites > 0 {
		c.Trivial("ALL-MEMBERS", "scan", 0, fmt.Sprintf("%d gzip readers, none with Multistream switched off", sites))
	}
	c.Decides("APPEND-ALWAYS (shared with C13, go/cfg): Nexus.AddTree appends on every path - every TREE statement of a Nexus file reaches the reservoir of `sample`, whatever its name")
	c.appendAlways("APPEND-ALWAYS", c.Func("io/nexus", "Nexus", "AddTree"), []string{"trees", "treeNames"}, "every input element has a non-zero chance of being selected")
	c.Floor("APPEND-ALWAYS", 2)
	c.Floor("DRAW", 6)
	n := 0
	for _, p := range c.All {
		info := p.TypesInfo
		rel := strings.TrimPrefix(strings.TrimPrefix(p.PkgPath, modPath), "/")
		for _, f := range p.Syntax {
			walkStack(f, func(nd ast.Node, stack []ast.Node) bool {
				call, ok := nd.(*ast.CallExpr)
				if !ok {
					return true
				}
				fn := calleeOf(info, call)
				if fn == nil || fn.Pkg() == nil || fn.Pkg().Path() != "math/rand" || fn.Type().(*types.Signature).Recv() != nil {
					return true
				}
				switch fn.Name() {
				case "Intn", "Int31n", "Int63n":
					n++
					c.drawIntn(info, rel, call, append([]ast.Node{}, stack...))
				case "Perm":
					n++
					c.drawPerm(info, rel, call, append([]ast.Node{}, stack...))
				case "Shuffle":
					n++
					where := c.enclosingFuncName(info, stack)
					c.Undecided("DRAW", where+"/Shuffle", call.Pos(), "rand.Shuffle call: idiom not in the recognised set (add it to the DRAW rule after review)")
				}
				return true
			})
		}
	}
	c.Extra["draw_sites"] = n
}

// enclosing function body of a stack
func enclosingBody(stack []ast.Node) *ast.BlockStmt {
	var b *ast.BlockStmt
	for _, n := range stack {
		switch f := n.(type) {
		case *ast.FuncDecl:
			b = f.Body
		case *ast.FuncLit:
			b = f.Body
		}
	}
	return b
}

// assignedVar: the call is the sole RHS of `v := call` / `v = call`; returns v's object.
func assignedVar(info *types.Info, call *ast.CallExpr, stack []ast.Node) types.Object {
	if len(stack) == 0 {
		return nil
	}
	as, ok := stack[len(stack)-1].(*ast.AssignStmt)
	if !ok || len(as.Lhs) != 1 || len(as.Rhs) != 1 || unparen(as.Rhs[0]) != ast.Expr(call) {
		return nil
	}
	return identObj(info, as.Lhs[0])
}

func (c *Ctx) drawIntn(info *types.Info, rel string, call *ast.CallExpr, stack []ast.Node) {
	where := c.enclosingFuncName(info, stack)
	arg := c.canon(info, call.Args[0], nil)
	key := where + "/Intn(" + arg + ")"
	body := enclosingBody(stack)
	v := assignedVar(info, call, stack)
	strict := rel == "cmd" || rel == "tree"
	unknown := func(why string) {
		if strict {
			c.Undecided("DRAW", key, call.Pos(), why+": draw idiom not recognised, cannot tell whether the range is unbiased")
		} else {
			c.Trivial("DRAW", key, call.Pos(), why+" (outside the selections C20 names; informational)")
		}
	}
	if c.drawThroughWrapper(info, arg, call, stack) {
		return
	}
	if body != nil && v == nil && len(stack) > 0 {
		switch par := stack[len(stack)-1].(type) {
		case *ast.BinaryExpr:
			// with replacement, inline: `if rand.Intn(T) == 0 { out[j] = x }`
			other := par.Y
			if unparen(par.Y) == ast.Expr(call) {
				other = par.X
			}
			if tv, ok := info.Types[other]; ok && par.Op == token.EQL && tv.Value != nil && tv.Value.ExactString() == "0" {
				c.drawWithReplacement(info, key, arg, call, stack)
				return
			}
		case *ast.CallExpr:
			// the draw is handed to a helper that swaps positions (i, draw) of parallel slices
			if c.drawSwapHelper(info, key, arg, call, par, stack) {
				return
			}
		case *ast.IndexExpr:
			// uniform pick written inline: s[rand.Intn(len(s))]
			if unparen(par.Index) == ast.Expr(call) {
				want := "len(" + c.canon(info, par.X, nil) + ")"
				if arg == want {
					c.OK("DRAW", key, call.Pos(), "uniform pick: index drawn from the full length of the indexed slice")
				} else {
					c.Violation("DRAW", key, call.Pos(), "uniform pick from a slice must draw Intn("+want+"); Intn("+arg+") leaves some elements with zero or unequal probability").Clause = "every input element has a non-zero chance of being selected"
				}
				return
			}
		}
	}
	if body == nil || v == nil {
		unknown("result of the draw is not stored in a variable")
		return
	}
	// --- reservoir step extracted into a function f(C, N) (slot, keep):
	//     if C < N { return C, true }; v = Intn(C+1); return v, v < N
	if c.drawReservoirStep(info, key, arg, call, v, body, stack) {
		return
	}
	// --- reservoir, "slot" form: v := C; if N <= C { v = Intn(...) }; if v < N { out[v] = x }
	if done := c.drawSlotForm(info, key, arg, call, v, body, stack); done {
		return
	}
	// --- reservoir: the draw sits in the else branch of `if C < N { out[C] = x }`, or follows
	// `if C < N { out[C] = x; ...; continue }` in the same statement list
	type resCtx struct {
		is    *ast.IfStmt
		scope ast.Node // where the replacement store is looked for
	}
	var cands []resCtx
	for i := len(stack) - 1; i >= 1; i-- {
		if is, ok := stack[i-1].(*ast.IfStmt); ok && is.Else != nil && stack[i] == ast.Node(is.Else) {
			cands = append(cands, resCtx{is, is.Else})
		}
		// inverted: `if C >= N { draw ... } else { out[C] = x }` - same statement with the branches swapped
		if is, ok := stack[i-1].(*ast.IfStmt); ok && is.Else != nil && stack[i] == ast.Node(is.Body) {
			if be, ok := unparen(is.Cond).(*ast.BinaryExpr); ok && (be.Op == token.GEQ || be.Op == token.LEQ) {
				if eb, ok := is.Else.(*ast.BlockStmt); ok {
					nop := token.LSS
					if be.Op == token.LEQ {
						nop = token.GTR
					}
					synth := &ast.IfStmt{If: is.If, Cond: &ast.BinaryExpr{X: be.X, OpPos: be.OpPos, Op: nop, Y: be.Y}, Body: eb, Else: is.Body}
					cands = append(cands, resCtx{synth, is.Body})
				}
			}
		}
		var list []ast.Stmt
		switch b := stack[i-1].(type) {
		case *ast.BlockStmt:
			list = b.List
		case *ast.CaseClause:
			list = b.Body
		}
		for k, s := range list {
			if ast.Node(s) == stack[i] {
				for j := k - 1; j >= 0; j-- {
					if is, ok := list[j].(*ast.IfStmt); ok && is.Else == nil && len(is.Body.List) > 0 {
						if br, ok := is.Body.List[len(is.Body.List)-1].(*ast.BranchStmt); ok && br.Tok == token.CONTINUE {
							cands = append(cands, resCtx{is, &ast.BlockStmt{List: list[j+1:], Lbrace: list[j+1].Pos(), Rbrace: list[len(list)-1].End()}})
						}
					}
				}
			}
		}
	}
	for _, rc := range cands {
		is := rc.is
		be, ok := unparen(is.Cond).(*ast.BinaryExpr)
		if !ok {
			continue
		}
		var cExpr, nExpr ast.Expr
		switch be.Op {
		case token.LSS:
			cExpr, nExpr = be.X, be.Y
		case token.GTR:
			cExpr, nExpr = be.Y, be.X
		default:
			continue
		}
		cKey, nKey := c.canon(info, cExpr, nil), c.canon(info, nExpr, nil)
		// slot fill out[C] = x in the then-branch
		fill := false
		ast.Inspect(is.Body, func(m ast.Node) bool {
			if as, ok := m.(*ast.AssignStmt); ok {
				for _, l := range as.Lhs {
					if ix, ok := unparen(l).(*ast.IndexExpr); ok && c.canon(info, ix.Index, nil) == cKey {
						fill = true
					}
				}
			}
			return true
		})
		if !fill {
			continue
		}
		want := canonPlus1(cKey)
		// replacement store out[v] = x guarded by v < N
		guardOK, storeSeen := false, false
		ast.Inspect(rc.scope, func(m ast.Node) bool {
			as, ok := m.(*ast.AssignStmt)
			if !ok {
				return true
			}
			for _, l := range as.Lhs {
				ix, ok := unparen(l).(*ast.IndexExpr)
				if !ok || identObj(info, ix.Index) != v {
					continue
				}
				storeSeen = true
				conds, okc := c.pathConds(info, body, as, true)
				if !okc {
					continue
				}
				code := c.condsToBexpr(info, conds, nil)
				need := bCmp(v.Name(), token.LSS, nKey)
				if ok2, _, _, err := gfImplies(code, need); err == nil && ok2 {
					guardOK = true
				}
			}
			return true
		})
		// the "items seen" counter is incremented exactly once on every path of the iteration
		counterOK, counterWhy := true, ""
		if cObj := identObj(info, cExpr); cObj != nil {
			var loopBody *ast.BlockStmt
			byLoop := false // the loop itself advances the counter (range index / post statement)
			for i := len(stack) - 1; i >= 0 && loopBody == nil; i-- {
				switch lp := stack[i].(type) {
				case *ast.RangeStmt:
					loopBody = lp.Body
					if lp.Key != nil && identObj(info, lp.Key) == cObj {
						byLoop = true
					}
				case *ast.ForStmt:
					loopBody = lp.Body
					if inc, ok := lp.Post.(*ast.IncDecStmt); ok && inc.Tok == token.INC && identObj(info, inc.X) == cObj {
						byLoop = true
					}
				}
			}
			if loopBody != nil && !byLoop {
				counterOK, counterWhy = incOncePerIteration(info, loopBody.List, cObj)
			}
		}
		switch {
		case arg != want:
			o := c.Violation("DRAW", key, call.Pos(), fmt.Sprintf("reservoir sampling: the item at zero-based position %s (slot fill `[%s]` under `%s < %s`) must draw from Intn(%s); Intn(%s) makes item number %s+1 enter with probability %s/%s instead of %s/(%s+1) — in particular item %s+1 is always selected and the last slot is never replaced by it", cKey, cKey, cKey, nKey, want, arg, cKey, nKey, cKey, nKey, cKey, nKey))
			o.Clause = "every tree / tip subset has the same probability; reservoir sampling"
		case !storeSeen || !guardOK:
			c.Violation("DRAW", key, call.Pos(), "reservoir sampling: replacement store is not guarded by `"+v.Name()+" < "+nKey+"`").Clause = "every tree / tip subset has the same probability"
		case !counterOK:
			c.Violation("DRAW", key, call.Pos(), "reservoir sampling: the count of items seen ("+cKey+") is not incremented exactly once on every path of an iteration ("+counterWhy+"): later items are drawn against a stale count and enter with the wrong probability").Clause = "every tree / tip subset has the same probability; reservoir sampling"
		default:
			c.OK("DRAW", key, call.Pos(), "reservoir: position "+cKey+", draw Intn("+arg+"), replacement iff draw < "+nKey+", count incremented once per item")
		}
		return
	}
	// the drawn value is stored and only handed to a helper that swaps two positions of parallel slices
	{
		var helperCalls []*ast.CallExpr
		otherUse := false
		walkStack(body, func(m ast.Node, st []ast.Node) bool {
			id, ok := m.(*ast.Ident)
			if !ok || info.Uses[id] != v || len(st) == 0 {
				return true
			}
			if oc, ok := st[len(st)-1].(*ast.CallExpr); ok && inRepo(calleeOf(info, oc)) {
				for _, a := range oc.Args {
					if unparen(a) == ast.Expr(id) {
						helperCalls = append(helperCalls, oc)
						return true
					}
				}
			}
			otherUse = true
			return true
		})
		if len(helperCalls) == 1 && !otherUse {
			if c.drawSwapHelperVia(info, key, arg, call, helperCalls[0], stack, func(e ast.Expr) bool { return identObj(info, e) == v }) {
				return
			}
		}
	}
	// uses of v
	type use struct {
		kind string // index, swap, eq0, cmp, other
		node ast.Node
		x    ast.Expr
	}
	var uses []use
	walkStack(body, func(m ast.Node, st []ast.Node) bool {
		id, ok := m.(*ast.Ident)
		if !ok || info.Uses[id] != v {
			return true
		}
		if len(st) == 0 {
			return true
		}
		switch par := st[len(st)-1].(type) {
		case *ast.IndexExpr:
			if unparen(par.Index) == ast.Expr(id) {
				uses = append(uses, use{"index", par, par.X})
				return true
			}
		case *ast.BinaryExpr:
			other := par.Y
			if unparen(par.Y) == ast.Expr(id) {
				other = par.X
			}
			if par.Op == token.EQL {
				if tv, ok := info.Types[other]; ok && tv.Value != nil && tv.Value.ExactString() == "0" {
					uses = append(uses, use{"eq0", par, nil})
					return true
				}
			}
			uses = append(uses, use{"cmp", par, other})
			return true
		}
		uses = append(uses, use{"other", m, nil})
		return true
	})
	if len(uses) == 0 {
		unknown("drawn value unused")
		return
	}
	allKind := func(k string) bool {
		for _, u := range uses {
			if u.kind != k {
				return false
			}
		}
		return true
	}
	// --- with replacement: r == 0
	if allKind("eq0") {
		c.drawWithReplacement(info, key, arg, call, stack)
		return
	}
	// --- inside-out Fisher–Yates: swap X[i], X[v] = X[v], X[i] in a loop over i
	var loopIdx types.Object
	for i := len(stack) - 1; i >= 0; i-- {
		switch lp := stack[i].(type) {
		case *ast.RangeStmt:
			if id, ok := lp.Key.(*ast.Ident); ok && id.Name != "_" && loopIdx == nil {
				loopIdx = info.Defs[id]
			}
		case *ast.ForStmt:
			if as, ok := lp.Init.(*ast.AssignStmt); ok && len(as.Lhs) == 1 && loopIdx == nil {
				loopIdx = identObj(info, as.Lhs[0])
			}
		}
		if loopIdx != nil {
			break
		}
	}
	swaps := 0
	if loopIdx != nil {
		ast.Inspect(body, func(m ast.Node) bool {
			as, ok := m.(*ast.AssignStmt)
			if !ok || len(as.Lhs) != 2 || len(as.Rhs) != 2 {
				return true
			}
			l0, l1 := c.canon(info, as.Lhs[0], nil), c.canon(info, as.Lhs[1], nil)
			r0, r1 := c.canon(info, as.Rhs[0], nil), c.canon(info, as.Rhs[1], nil)
			if l0 == r1 && l1 == r0 && strings.Contains(l0+l1, "["+v.Name()+"]") && strings.Contains(l0+l1, "["+loopIdx.Name()+"]") {
				swaps++
			}
			return true
		})
	}
	if swaps > 0 && allKind("index") {
		want := canonPlus1(loopIdx.Name())
		if arg == want {
			c.OK("DRAW", key, call.Pos(), fmt.Sprintf("inside-out Fisher–Yates over %s: j = Intn(%s), %d parallel swap(s)", loopIdx.Name(), arg, swaps))
		} else {
			c.Violation("DRAW", key, call.Pos(), fmt.Sprintf("shuffle by swapping position %s with Intn(%s): only Intn(%s) gives every permutation the same probability", loopIdx.Name(), arg, want)).Clause = "Fisher-Yates style shuffles give every permutation the same probability"
		}
		return
	}
	// --- uniform pick: s[v] with E ≡ len(s)
	if allKind("index") {
		ok := true
		var bad string
		for _, u := range uses {
			want := "len(" + c.canon(info, u.x, nil) + ")"
			if arg != want {
				ok = false
				bad = want
			}
		}
		if ok {
			c.OK("DRAW", key, call.Pos(), "uniform pick: index drawn from the full length of the indexed slice")
		} else {
			c.Violation("DRAW", key, call.Pos(), "uniform pick from a slice must draw Intn("+bad+"); Intn("+arg+") leaves some elements with zero or unequal probability").Clause = "every input element has a non-zero chance of being selected"
		}
		return
	}
	if allKind("cmp") {
		unknown("counted pick (drawn rank compared with a running counter)")
		return
	}
	unknown("mixed uses of the drawn value")
}

func canonPlus1(k string) string {
	a, b := "1", k
	if b < a {
		a, b = b, a
	}
	return "(" + a + " + " + b + ")"
}

func (c *Ctx) drawPerm(info *types.Info, rel string, call *ast.CallExpr, stack []ast.Node) {
	where := c.enclosingFuncName(info, stack)
	arg := c.canon(info, call.Args[0], nil)
	key := where + "/Perm(" + arg + ")"
	body := enclosingBody(stack)
	v := assignedVar(info, call, stack)
	if body == nil || v == nil {
		c.Undecided("DRAW", key, call.Pos(), "rand.Perm result not stored in a variable: idiom not recognised")
		return
	}
	// the argument may be a local `l` initialised from len(X) and decremented: expand only a direct len()
	// element variables of `for _, p := range v`
	elems := map[types.Object]bool{}
	ast.Inspect(body, func(m ast.Node) bool {
		if rs, ok := m.(*ast.RangeStmt); ok && identObj(info, rs.X) == v {
			if id, ok := rs.Value.(*ast.Ident); ok {
				elems[info.Defs[id]] = true
			}
		}
		return true
	})
	// indexed containers: X[p] or X[v[...]]
	var targets []ast.Expr
	ast.Inspect(body, func(m ast.Node) bool {
		ix, ok := m.(*ast.IndexExpr)
		if !ok {
			return true
		}
		idx := unparen(ix.Index)
		if o := identObj(info, idx); o != nil && elems[o] {
			targets = append(targets, ix.X)
		}
		if in, ok := idx.(*ast.IndexExpr); ok && identObj(info, in.X) == v {
			targets = append(targets, ix.X)
		}
		return true
	})
	if len(targets) == 0 {
		c.Undecided("DRAW", key, call.Pos(), "rand.Perm result never used as an index: idiom not recognised")
		return
	}
	for _, tX := range targets {
		tk := c.canon(info, tX, nil)
		if arg == "len("+tk+")" {
			continue
		}
		// X := make(T, arg)
		okMake := false
		if o := identObj(info, tX); o != nil {
			ast.Inspect(body, func(m ast.Node) bool {
				as, ok := m.(*ast.AssignStmt)
				if !ok || len(as.Lhs) != 1 || len(as.Rhs) != 1 || identObj(info, as.Lhs[0]) != o {
					return true
				}
				if mk, ok := unparen(as.Rhs[0]).(*ast.CallExpr); ok {
					if id, ok := mk.Fun.(*ast.Ident); ok && id.Name == "make" && len(mk.Args) == 2 && c.canon(info, mk.Args[1], nil) == arg {
						okMake = true
					}
				}
				return true
			})
			// X and Y := f() of equal length is beyond this rule: names/tips in ShuffleTips
			if !okMake {
				if c.sameLengthSiblings(info, body, o, call.Args[0]) {
					okMake = true
				}
			}
		}
		if !okMake {
			c.Violation("DRAW", key, call.Pos(), "permutation of "+arg+" elements indexes `"+tk+"`, whose length is not shown to be "+arg+": some elements are never (or out of range) selected").Clause = "shuffling gives every permutation the same probability"
			return
		}
	}
	c.OK("DRAW", key, call.Pos(), fmt.Sprintf("uniform permutation of exactly the %d indexed container(s)' length", len(targets)))
}

// sameLengthSiblings: Perm(len(A)) indexing A directly is the normal case; this accepts the
// ShuffleTips shape where Perm(len(names)) indexes names (target == the len operand).
func (c *Ctx) sameLengthSiblings(info *types.Info, body *ast.BlockStmt, target types.Object, arg ast.Expr) bool {
	if call, ok := unparen(arg).(*ast.CallExpr); ok {
		if id, ok := call.Fun.(*ast.Ident); ok && id.Name == "len" && len(call.Args) == 1 {
			return identObj(info, call.Args[0]) == target
		}
	}
	return false
}

// incOncePerIteration: along every path through the loop body that reaches the back edge (end of
// body or `continue`), the counter is incremented exactly once.
func incOncePerIteration(info *types.Info, list []ast.Stmt, cnt types.Object) (bool, string) {
	ok, why := true, ""
	fail := func(w string) {
		if ok {
			ok, why = false, w
		}
	}
	isInc := func(s ast.Stmt) bool {
		switch x := s.(type) {
		case *ast.IncDecStmt:
			return x.Tok == token.INC && identObj(info, x.X) == cnt
		case *ast.AssignStmt:
			if len(x.Lhs) == 1 && identObj(info, x.Lhs[0]) == cnt {
				return x.Tok == token.ADD_ASSIGN
			}
		}
		return false
	}
	// walk returns the set of possible increment counts (bitmask: 1=zero, 2=one, 4=many) at fall-through
	var walk func(list []ast.Stmt, in uint8) uint8
	bump := func(m uint8) uint8 {
		var o uint8
		if m&1 != 0 {
			o |= 2
		}
		if m&6 != 0 {
			o |= 4
		}
		return o
	}
	atBackEdge := func(m uint8) {
		if m&1 != 0 {
			fail("a path reaches the next iteration without incrementing it")
		}
		if m&4 != 0 {
			fail("a path increments it more than once")
		}
	}
	walk = func(list []ast.Stmt, in uint8) uint8 {
		cur := in
		for _, s := range list {
			if cur == 0 {
				break
			}
			switch x := s.(type) {
			case *ast.IfStmt:
				a := walk(x.Body.List, cur)
				b := cur
				if x.Else != nil {
					switch e := x.Else.(type) {
					case *ast.BlockStmt:
						b = walk(e.List, cur)
					case *ast.IfStmt:
						b = walk([]ast.Stmt{e}, cur)
					}
				}
				cur = a | b
			case *ast.BlockStmt:
				cur = walk(x.List, cur)
			case *ast.SwitchStmt:
				var o uint8
				hasDefault := false
				for _, cs := range x.Body.List {
					cc := cs.(*ast.CaseClause)
					if cc.List == nil {
						hasDefault = true
					}
					o |= walk(cc.Body, cur)
				}
				if !hasDefault {
					o |= cur
				}
				cur = o
			case *ast.BranchStmt:
				switch x.Tok {
				case token.CONTINUE:
					atBackEdge(cur)
					cur = 0
				case token.BREAK, token.GOTO:
					cur = 0
				}
			case *ast.ReturnStmt:
				cur = 0
			case *ast.ForStmt, *ast.RangeStmt:
				// a nested loop that touches the counter is outside the idiom
				touched := false
				ast.Inspect(x, func(n ast.Node) bool {
					if st, ok := n.(ast.Stmt); ok && isInc(st) {
						touched = true
					}
					return true
				})
				if touched {
					fail("it is changed inside a nested loop")
				}
			default:
				if isInc(s) {
					cur = bump(cur)
				}
			}
		}
		return cur
	}
	end := walk(list, 1)
	if end != 0 {
		atBackEdge(end)
	}
	return ok, why
}

// drawWithReplacement: slot replaced iff Intn(T) == 0, T the running count incremented before the draw.
func (c *Ctx) drawWithReplacement(info *types.Info, key, arg string, call *ast.CallExpr, stack []ast.Node) {
	tObj := identObj(info, call.Args[0])
	if tObj == nil {
		c.Undecided("DRAW", key, call.Pos(), "replacement draw whose range is not a counter variable: draw idiom not recognised, cannot tell whether the range is unbiased")
		return
	}
	// T++ must precede the draw in an enclosing loop body
	before, after := false, false
	for i := len(stack) - 1; i >= 1; i-- {
		var list []ast.Stmt
		switch b := stack[i-1].(type) {
		case *ast.BlockStmt:
			list = b.List
		default:
			continue
		}
		seenSelf := false
		for _, s := range list {
			if ast.Node(s) == stack[i] {
				seenSelf = true
				continue
			}
			isInc := false
			switch x := s.(type) {
			case *ast.IncDecStmt:
				isInc = x.Tok == token.INC && identObj(info, x.X) == tObj
			case *ast.AssignStmt:
				if len(x.Lhs) == 1 && identObj(info, x.Lhs[0]) == tObj && x.Tok == token.ADD_ASSIGN {
					if v, ok := intConstOf(info, x.Rhs[0]); ok && v == 1 {
						isInc = true
					}
				}
			}
			if isInc {
				if seenSelf {
					after = true
				} else {
					before = true
				}
			}
		}
	}
	if before && !after {
		c.OK("DRAW", key, call.Pos(), "sampling with replacement: running count "+tObj.Name()+" is incremented before the draw, slot replaced iff Intn("+arg+") == 0 (probability 1/count)")
	} else {
		c.Violation("DRAW", key, call.Pos(), "sampling with replacement: the item number "+tObj.Name()+" must be counted before drawing Intn("+tObj.Name()+") == 0; here the increment does not precede the draw, so the probabilities are 1/(count-1) (and Intn(0) panics on the first item)").Clause = "with replacement: independent uniform draws"
	}
}

// drawSwapHelper: `h(i, rand.Intn(E))` where h swaps positions (p0, p1) of its receiver's slices:
// inside-out Fisher–Yates through a helper.
func (c *Ctx) drawSwapHelper(info *types.Info, key, arg string, call, outer *ast.CallExpr, stack []ast.Node) bool {
	return c.drawSwapHelperVia(info, key, arg, call, outer, stack, func(e ast.Expr) bool { return unparen(e) == ast.Expr(call) })
}

// drawSwapHelperVia: isDraw tells which argument of the helper call carries the drawn value (the
// draw itself, or the local it was stored in).
func (c *Ctx) drawSwapHelperVia(info *types.Info, key, arg string, call, outer *ast.CallExpr, stack []ast.Node, isDraw func(ast.Expr) bool) bool {
	fn := calleeOf(info, outer)
	g := c.FuncOfObj(fn)
	if g == nil || len(outer.Args) != 2 {
		return false
	}
	ginfo := g.Pkg.TypesInfo
	p0, p1 := paramObj(ginfo, g.Decl, 0), paramObj(ginfo, g.Decl, 1)
	if p0 == nil || p1 == nil {
		return false
	}
	swaps := 0
	ast.Inspect(g.Decl.Body, func(m ast.Node) bool {
		as, ok := m.(*ast.AssignStmt)
		if !ok || len(as.Lhs) != 2 || len(as.Rhs) != 2 {
			return true
		}
		l0, l1 := c.canon(ginfo, as.Lhs[0], nil), c.canon(ginfo, as.Lhs[1], nil)
		r0, r1 := c.canon(ginfo, as.Rhs[0], nil), c.canon(ginfo, as.Rhs[1], nil)
		if l0 == r1 && l1 == r0 && strings.Contains(l0+l1, "["+p0.Name()+"]") && strings.Contains(l0+l1, "["+p1.Name()+"]") {
			swaps++
		}
		return true
	})
	if swaps == 0 {
		return false
	}
	// the other argument is the ascending loop index
	otherArg := outer.Args[0]
	if isDraw(outer.Args[0]) {
		otherArg = outer.Args[1]
	} else if !isDraw(outer.Args[1]) {
		return false
	}
	idx := identObj(info, otherArg)
	var loopIdx types.Object
	for i := len(stack) - 1; i >= 0 && loopIdx == nil; i-- {
		switch lp := stack[i].(type) {
		case *ast.RangeStmt:
			if id, ok := lp.Key.(*ast.Ident); ok && id.Name != "_" {
				loopIdx = info.Defs[id]
			}
		case *ast.ForStmt:
			if as, ok := lp.Init.(*ast.AssignStmt); ok && len(as.Lhs) == 1 {
				loopIdx = identObj(info, as.Lhs[0])
			}
		}
	}
	if idx == nil || idx != loopIdx {
		return false
	}
	want := canonPlus1(loopIdx.Name())
	if arg == want {
		c.OK("DRAW", key, call.Pos(), fmt.Sprintf("inside-out Fisher–Yates over %s through %s: j = Intn(%s), %d parallel swap(s)", loopIdx.Name(), fn.Name(), arg, swaps))
	} else {
		c.Violation("DRAW", key, call.Pos(), fmt.Sprintf("shuffle by swapping position %s with Intn(%s): only Intn(%s) gives every permutation the same probability", loopIdx.Name(), arg, want)).Clause = "Fisher-Yates style shuffles give every permutation the same probability"
	}
	return true
}

// drawSlotForm: `slot := C; if N <= C { slot = Intn(E) }; if slot < N { out[slot] = x }`.
func (c *Ctx) drawSlotForm(info *types.Info, key, arg string, call *ast.CallExpr, v types.Object, body *ast.BlockStmt, stack []ast.Node) bool {
	// the draw assignment is the body of an if without else
	if len(stack) < 3 {
		return false
	}
	as, ok := stack[len(stack)-1].(*ast.AssignStmt)
	if !ok || as.Tok != token.ASSIGN {
		return false
	}
	var is *ast.IfStmt
	var list []ast.Stmt
	for i := len(stack) - 1; i >= 1; i-- {
		if x, ok := stack[i].(*ast.IfStmt); ok && is == nil {
			is = x
			switch b := stack[i-1].(type) {
			case *ast.BlockStmt:
				list = b.List
			case *ast.CaseClause:
				list = b.Body
			}
		}
	}
	if is == nil || is.Else != nil || len(is.Body.List) != 1 || is.Body.List[0] != ast.Stmt(as) || list == nil {
		return false
	}
	// v := C just before
	var cExpr ast.Expr
	for i, s := range list {
		if s == ast.Stmt(is) && i > 0 {
			if d, ok := list[i-1].(*ast.AssignStmt); ok && len(d.Lhs) == 1 && identObj(info, d.Lhs[0]) == v && len(d.Rhs) == 1 {
				cExpr = d.Rhs[0]
			}
		}
	}
	if cExpr == nil {
		return false
	}
	cKey := c.canon(info, cExpr, nil)
	// condition: not (C < N)
	code := c.toBexpr(info, is.Cond, nil)
	terms, atoms := map[string]bool{}, map[string]bool{}
	code.collect(terms, atoms)
	nKey := ""
	for t := range terms {
		if t != cKey {
			nKey = t
		}
	}
	if nKey == "" || !terms[cKey] {
		return false
	}
	if eq, _, _, err := gfEquiv(code, bNot(bCmp(cKey, token.LSS, nKey))); err != nil || !eq {
		return false
	}
	want := canonPlus1(cKey)
	// store out[v] guarded by v < N
	guardOK := false
	ast.Inspect(body, func(m ast.Node) bool {
		st, ok := m.(*ast.AssignStmt)
		if !ok {
			return true
		}
		for _, l := range st.Lhs {
			ix, ok := unparen(l).(*ast.IndexExpr)
			if !ok || identObj(info, ix.Index) != v {
				continue
			}
			conds, okc := c.pathConds(info, body, st, true)
			if !okc {
				continue
			}
			if imp, _, _, err := gfImplies(c.condsToBexpr(info, conds, nil), bCmp(v.Name(), token.LSS, nKey)); err == nil && imp {
				guardOK = true
			}
		}
		return true
	})
	counterOK, why := true, ""
	if cObj := identObj(info, cExpr); cObj != nil {
		var loopBody *ast.BlockStmt
		byLoop := false
		for i := len(stack) - 1; i >= 0 && loopBody == nil; i-- {
			switch lp := stack[i].(type) {
			case *ast.RangeStmt:
				loopBody = lp.Body
				byLoop = lp.Key != nil && identObj(info, lp.Key) == cObj
			case *ast.ForStmt:
				loopBody = lp.Body
				if inc, ok := lp.Post.(*ast.IncDecStmt); ok && inc.Tok == token.INC && identObj(info, inc.X) == cObj {
					byLoop = true
				}
			}
		}
		if loopBody != nil && !byLoop {
			counterOK, why = incOncePerIteration(info, loopBody.List, cObj)
		}
	}
	switch {
	case arg != want:
		c.Violation("DRAW", key, call.Pos(), fmt.Sprintf("reservoir sampling: the item at zero-based position %s must draw its slot from Intn(%s), not Intn(%s)", cKey, want, arg)).Clause = "every tree / tip subset has the same probability; reservoir sampling"
	case !guardOK:
		c.Violation("DRAW", key, call.Pos(), "reservoir sampling: the store into the drawn slot is not guarded by `"+v.Name()+" < "+nKey+"`").Clause = "every tree / tip subset has the same probability"
	case !counterOK:
		c.Violation("DRAW", key, call.Pos(), "reservoir sampling: the count of items seen ("+cKey+") is not incremented exactly once on every path of an iteration ("+why+")").Clause = "every tree / tip subset has the same probability; reservoir sampling"
	default:
		c.OK("DRAW", key, call.Pos(), "reservoir (slot form): position "+cKey+", slot drawn from Intn("+arg+") once the reservoir is full, stored iff slot < "+nKey)
	}
	return true
}

// drawReservoirStep recognises the reservoir step written as a function of (items seen, size):
// the fill case returns (seen, true) under seen < size, the draw is Intn(seen+1) and the second
// result is `draw < size`. Every caller must hand it a counter that advances exactly once per item.
func (c *Ctx) drawReservoirStep(info *types.Info, key, arg string, call *ast.CallExpr, v types.Object, body *ast.BlockStmt, stack []ast.Node) bool {
	var fd *ast.FuncDecl
	for _, a := range stack {
		if d, ok := a.(*ast.FuncDecl); ok {
			fd = d
		}
	}
	if fd == nil || fd.Type.Results == nil || fd.Type.Params == nil {
		return false
	}
	fobj, _ := info.Defs[fd.Name].(*types.Func)
	if fobj == nil {
		return false
	}
	sig := fobj.Type().(*types.Signature)
	if sig.Results().Len() != 2 || sig.Params().Len() != 2 {
		return false
	}
	// fill guard: if C < N { return C, true }
	var cObj, nObj types.Object
	for _, st := range fd.Body.List {
		is, ok := st.(*ast.IfStmt)
		if !ok || is.Else != nil || len(is.Body.List) != 1 {
			continue
		}
		ret, ok := is.Body.List[0].(*ast.ReturnStmt)
		be, ok2 := unparen(is.Cond).(*ast.BinaryExpr)
		if !ok || !ok2 || len(ret.Results) != 2 {
			continue
		}
		var ce, ne ast.Expr
		switch be.Op {
		case token.LSS:
			ce, ne = be.X, be.Y
		case token.GTR:
			ce, ne = be.Y, be.X
		default:
			continue
		}
		if tv, ok := info.Types[ret.Results[1]]; !ok || tv.Value == nil || tv.Value.String() != "true" {
			continue
		}
		if identObj(info, ret.Results[0]) != identObj(info, ce) {
			continue
		}
		cObj, nObj = identObj(info, ce), identObj(info, ne)
	}
	if cObj == nil || nObj == nil || (cObj != sig.Params().At(0) && cObj != sig.Params().At(1)) {
		return false
	}
	// final return: v, v < N
	okRet := false
	ast.Inspect(fd.Body, func(m ast.Node) bool {
		ret, ok := m.(*ast.ReturnStmt)
		if !ok || len(ret.Results) != 2 || identObj(info, ret.Results[0]) != v {
			return true
		}
		if be, ok := unparen(ret.Results[1]).(*ast.BinaryExpr); ok {
			if (be.Op == token.LSS && identObj(info, be.X) == v && identObj(info, be.Y) == nObj) || (be.Op == token.GTR && identObj(info, be.Y) == v && identObj(info, be.X) == nObj) {
				okRet = true
			}
		}
		return true
	})
	if !okRet {
		return false
	}
	want := canonPlus1(cObj.Name())
	if arg != want {
		c.Violation("DRAW", key, call.Pos(), fmt.Sprintf("reservoir step: the item at zero-based position %s must draw from Intn(%s); Intn(%s) gives later items the wrong probability of entering", cObj.Name(), want, arg)).Clause = "every tree / tip subset has the same probability; reservoir sampling"
		return true
	}
	// callers: the counter argument advances exactly once per iteration of their loop
	cIdx := 0
	if cObj == sig.Params().At(1) {
		cIdx = 1
	}
	bad := ""
	nCalls := 0
	for _, fi := range append(c.AllFuncs(), c.PkgLevelClosures()...) {
		finfo := fi.Pkg.TypesInfo
		walkStack(fi.Decl.Body, func(m ast.Node, st []ast.Node) bool {
			cl, ok := m.(*ast.CallExpr)
			if !ok || calleeOf(finfo, cl) != fobj || len(cl.Args) != 2 {
				return true
			}
			nCalls++
			cnt := identObj(finfo, cl.Args[cIdx])
			var loopBody *ast.BlockStmt
			byLoop := false
			for i := len(st) - 1; i >= 0 && loopBody == nil; i-- {
				switch lp := st[i].(type) {
				case *ast.RangeStmt:
					loopBody = lp.Body
					if lp.Key != nil && identObj(finfo, lp.Key) == cnt {
						byLoop = true
					}
				case *ast.ForStmt:
					loopBody = lp.Body
					if inc, ok := lp.Post.(*ast.IncDecStmt); ok && inc.Tok == token.INC && identObj(finfo, inc.X) == cnt {
						byLoop = true
					}
				}
			}
			if cnt == nil || loopBody == nil {
				bad = "a caller does not pass a loop counter"
				return true
			}
			if !byLoop {
				if ok2, why := incOncePerIteration(finfo, loopBody.List, cnt); !ok2 {
					bad = "in " + funcName(fi.Obj) + " the count of items seen (" + cnt.Name() + ") is not incremented exactly once per iteration (" + why + ")"
				}
			}
			return true
		})
	}
	switch {
	case nCalls == 0:
		c.Undecided("DRAW", key, call.Pos(), "reservoir step function with no caller")
	case bad != "":
		c.Violation("DRAW", key, call.Pos(), "reservoir sampling: "+bad+": later items are drawn against a stale count").Clause = "every tree / tip subset has the same probability; reservoir sampling"
	default:
		c.OK("DRAW", key, call.Pos(), fmt.Sprintf("reservoir step %s(%s, %s): fill under %s < %s, draw Intn(%s), kept iff draw < %s; %d caller(s) advance the count once per item", fobj.Name(), cObj.Name(), nObj.Name(), cObj.Name(), nObj.Name(), arg, nObj.Name(), nCalls))
	}
	return true
}

// callSitesOf: the calls of fn in its own package, each with the stack of its enclosing nodes.
func (c *Ctx) callSitesOf(fn *types.Func) (sites []struct {
	call  *ast.CallExpr
	stack []ast.Node
	info  *types.Info
}) {
	for _, p := range c.All {
		if p.Types != fn.Pkg() {
			continue
		}
		for _, f := range p.Syntax {
			walkStack(f, func(nd ast.Node, stack []ast.Node) bool {
				if call, ok := nd.(*ast.CallExpr); ok && calleeOf(p.TypesInfo, call) == fn {
					sites = append(sites, struct {
						call  *ast.CallExpr
						stack []ast.Node
						info  *types.Info
					}{call, append([]ast.Node{}, stack...), p.TypesInfo})
				}
				return true
			})
		}
	}
	return
}

// drawThroughWrapper: the draw sits in a tiny function of its own and the idiom is in the callers:
//
//	func oneChanceOver(total int) bool { return rand.Intn(total) == 0 }     -- replacement draw
//	func slot(seen, size int) int { if seen < size { return seen }; return rand.Intn(seen + 1) }  -- reservoir slot
//
// Each caller is then judged as if the draw were written in place.
func (c *Ctx) drawThroughWrapper(info *types.Info, arg string, call *ast.CallExpr, stack []ast.Node) bool {
	var fd *ast.FuncDecl
	for _, n := range stack {
		if d, ok := n.(*ast.FuncDecl); ok {
			fd = d
		}
		if _, ok := n.(*ast.FuncLit); ok {
			return false
		}
	}
	if fd == nil || fd.Body == nil || fd.Recv != nil || len(stack) == 0 {
		return false
	}
	fobj, _ := info.Defs[fd.Name].(*types.Func)
	if fobj == nil {
		return false
	}
	paramIdx := func(o types.Object) int {
		for k := 0; ; k++ {
			p := paramObj(info, fd, k)
			if p == nil {
				return -1
			}
			if p == o {
				return k
			}
		}
	}
	// (A) `return rand.Intn(P) == 0` as the whole body
	if len(fd.Body.List) == 1 {
		if ret, ok := fd.Body.List[0].(*ast.ReturnStmt); ok && len(ret.Results) == 1 {
			if be, ok := unparen(ret.Results[0]).(*ast.BinaryExpr); ok && be.Op == token.EQL {
				other := be.Y
				if unparen(be.Y) == ast.Expr(call) {
					other = be.X
				} else if unparen(be.X) != ast.Expr(call) {
					return false
				}
				tv, has := info.Types[other]
				k := paramIdx(identObj(info, call.Args[0]))
				if !has || tv.Value == nil || tv.Value.ExactString() != "0" || k < 0 {
					return false
				}
				sites := c.callSitesOf(fobj)
				if len(sites) == 0 {
					c.Undecided("DRAW", funcName(fobj)+"/Intn("+arg+")", call.Pos(), "replacement-draw helper with no caller")
					return true
				}
				for _, st := range sites {
					if k >= len(st.call.Args) {
						continue
					}
					carg := c.canon(st.info, st.call.Args[k], nil)
					key := c.enclosingFuncName(st.info, st.stack) + "/Intn(" + carg + ")"
					synth := &ast.CallExpr{Fun: st.call.Fun, Lparen: st.call.Lparen, Args: []ast.Expr{st.call.Args[k]}, Rparen: st.call.Rparen}
					// the caller's call stands where the comparison with 0 stood
					c.drawWithReplacement(st.info, key, carg, synth, st.stack)
				}
				return true
			}
		}
	}
	// (B) slot function: `if C < N { return C }; return rand.Intn(E)` (or the inverted form)
	ret, isRet := stack[len(stack)-1].(*ast.ReturnStmt)
	if !isRet || len(ret.Results) != 1 || unparen(ret.Results[0]) != ast.Expr(call) {
		return false
	}
	conds, okc := c.pathConds(info, fd.Body, ret, false)
	if !okc {
		return false
	}
	code := c.condsToBexpr(info, conds, nil)
	terms, atoms := map[string]bool{}, map[string]bool{}
	code.collect(terms, atoms)
	var cObj, nObj types.Object
	for k := 0; ; k++ {
		p := paramObj(info, fd, k)
		if p == nil {
			break
		}
		for k2 := 0; ; k2++ {
			q := paramObj(info, fd, k2)
			if q == nil {
				break
			}
			if p == q || !terms[p.Name()] || !terms[q.Name()] {
				continue
			}
			if eq, _, _, err := gfEquiv(code, bNot(bCmp(p.Name(), token.LSS, q.Name()))); err == nil && eq {
				cObj, nObj = p, q
			}
		}
	}
	if cObj == nil {
		return false
	}
	// the other return hands back C under C < N
	fillOK := false
	ast.Inspect(fd.Body, func(m ast.Node) bool {
		r2, ok := m.(*ast.ReturnStmt)
		if !ok || r2 == ret || len(r2.Results) != 1 || identObj(info, r2.Results[0]) != cObj {
			return true
		}
		cs, okc2 := c.pathConds(info, fd.Body, r2, false)
		if okc2 {
			if eq, _, _, err := gfEquiv(c.condsToBexpr(info, cs, nil), bCmp(cObj.Name(), token.LSS, nObj.Name())); err == nil && eq {
				fillOK = true
			}
		}
		return true
	})
	if !fillOK {
		return false
	}
	want := canonPlus1(cObj.Name())
	key := funcName(fobj) + "/Intn(" + arg + ")"
	if arg != want {
		c.Violation("DRAW", key, call.Pos(), fmt.Sprintf("reservoir slot: the item at zero-based position %s must draw its slot from Intn(%s), not Intn(%s)", cObj.Name(), want, arg)).Clause = "every tree / tip subset has the same probability; reservoir sampling"
		return true
	}
	sites := c.callSitesOf(fobj)
	if len(sites) == 0 {
		c.Undecided("DRAW", key, call.Pos(), "reservoir slot function with no caller")
		return true
	}
	ci, ni := paramIdx(cObj), paramIdx(nObj)
	for _, st := range sites {
		ckey := c.enclosingFuncName(st.info, st.stack) + "/Intn(" + c.canon(st.info, st.call.Args[ci], nil) + " + 1)"
		v := assignedVar(st.info, st.call, st.stack)
		body := enclosingBody(st.stack)
		if v == nil || body == nil {
			c.Undecided("DRAW", ckey, st.call.Pos(), "result of the slot function is not stored in a variable: draw idiom not recognised")
			continue
		}
		nKey := c.canon(st.info, st.call.Args[ni], nil)
		guardOK := false
		ast.Inspect(body, func(m ast.Node) bool {
			as, ok := m.(*ast.AssignStmt)
			if !ok {
				return true
			}
			for _, l := range as.Lhs {
				ix, ok := unparen(l).(*ast.IndexExpr)
				if !ok || identObj(st.info, ix.Index) != v {
					continue
				}
				cs, okc2 := c.pathConds(st.info, body, as, true)
				if !okc2 {
					continue
				}
				if imp, _, _, err := gfImplies(c.condsToBexpr(st.info, cs, nil), bCmp(v.Name(), token.LSS, nKey)); err == nil && imp {
					guardOK = true
				}
			}
			return true
		})
		counterOK, why := true, ""
		if cnt := identObj(st.info, st.call.Args[ci]); cnt != nil {
			var loopBody *ast.BlockStmt
			byLoop := false
			for i := len(st.stack) - 1; i >= 0 && loopBody == nil; i-- {
				switch lp := st.stack[i].(type) {
				case *ast.RangeStmt:
					loopBody = lp.Body
					byLoop = lp.Key != nil && identObj(st.info, lp.Key) == cnt
				case *ast.ForStmt:
					loopBody = lp.Body
					if inc, ok := lp.Post.(*ast.IncDecStmt); ok && inc.Tok == token.INC && identObj(st.info, inc.X) == cnt {
						byLoop = true
					}
				}
			}
			if loopBody != nil && !byLoop {
				counterOK, why = incOncePerIteration(st.info, loopBody.List, cnt)
			}
		}
		switch {
		case !guardOK:
			c.Violation("DRAW", ckey, st.call.Pos(), "reservoir sampling: the store into the drawn slot is not guarded by `"+v.Name()+" < "+nKey+"`").Clause = "every tree / tip subset has the same probability"
		case !counterOK:
			c.Violation("DRAW", ckey, st.call.Pos(), "reservoir sampling: the count of items seen is not incremented exactly once on every path of an iteration ("+why+")").Clause = "every tree / tip subset has the same probability; reservoir sampling"
		default:
			c.OK("DRAW", ckey, st.call.Pos(), "reservoir through "+fobj.Name()+": slot = position while the reservoir fills, Intn(position+1) afterwards, stored iff slot < "+nKey)
		}
	}
	return true
}
