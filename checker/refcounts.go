package main

import (
	_ "embed"
	"encoding/json"
	"fmt"
	"go/token"
	"os"
	"sort"
	"strings"
)

// Reference instance counts. For the rules whose obligations stand for something the property needs
// (a stored value, a guard, a table row, a path, a field), reference_counts.json records how many
// obligations each (rule, function-or-table) slot produced on the reference tree, confirmed by hand
// when the rule was written. A run that produces fewer obligations in a slot fails as undecided: the
// statement the obligation stood for was deleted, or moved to where the rule does not find it. Without
// this a deleted store simply makes its obligation disappear and the check passes with one
// obligation fewer. The file is regenerated (tools/refcounts.sh) only when a rule is added or the
// reference tree is repaired, never by a registered command.

//go:embed reference_counts.json
var referenceCountsJSON []byte

var countedRules = map[string]bool{"LF": true, "TABLE": true, "GF": true, "SYM": true, "COMM": true, "ORDER": true, "FIELDS": true,
	"SKELETON": true, "PATH": true, "ERRFLOW": true, "FIRST": true, "SIBLING": true, "PAIR": true, "DRAW": true, "SHAPE": true, "LENGTH": true,
	"TYPESTATE": true, "SLOTS": true, "RESTORE": true, "FRESH": true, "ACCUM": true, "DEP": true, "COUNT": true, "NET": true, "PRESENT": true, "NAMED": true, "WRITES": true}

// slotOf: "RULE/a/b/c" -> "RULE/a/b" (the last element names the instance inside the slot);
// "RULE/a" stays as it is.
func slotOf(key string) string {
	parts := strings.Split(key, "/")
	if len(parts) <= 2 {
		return key
	}
	return strings.Join(parts[:len(parts)-1], "/")
}

var baselineOut = map[string]map[string]int{}

func (c *Ctx) slotCounts() map[string]int {
	cnt := map[string]int{}
	for _, o := range c.Obl {
		if !countedRules[o.Rule] || o.Verdict == vNote {
			continue
		}
		cnt[slotOf(o.Key)]++
	}
	return cnt
}

func (c *Ctx) referenceCounts() {
	if c.Tier == "control" {
		return
	}
	cnt := c.slotCounts()
	if os.Getenv("GTVERIF_WRITE_BASELINE") != "" {
		baselineOut[c.Prop] = cnt
		return
	}
	var ref map[string]map[string]int
	if err := json.Unmarshal(referenceCountsJSON, &ref); err != nil {
		c.Undecided("REFCOUNT", "file", token.NoPos, "reference_counts.json unreadable: "+err.Error())
		return
	}
	want := ref[c.Prop]
	var slots []string
	for k := range want {
		slots = append(slots, k)
	}
	sort.Strings(slots)
	for _, k := range slots {
		if cnt[k] < want[k] {
			c.Undecided("REFCOUNT", k, token.NoPos, fmt.Sprintf("%d obligations in slot %s, %d on the reference tree: something these obligations stood for (a stored value, a guard, a table row) was deleted or moved where the rule does not find it", cnt[k], k, want[k]))
		}
	}
	c.Extra["reference_slots"] = len(want)
}

func writeBaseline(path string) error {
	b, err := json.MarshalIndent(baselineOut, "", " ")
	if err != nil {
		return err
	}
	return os.WriteFile(path, append(b, '\n'), 0o644)
}
