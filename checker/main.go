package main

import (
	"encoding/json"
	"flag"
	"fmt"
	"os"
	"runtime/debug"
	"sort"
	"strings"
)

// one entry per property: the function that evaluates its rules
var props = map[string]func(c *Ctx){}

func usage() {
	fmt.Fprintln(os.Stderr, "usage: gtverif check -prop Cnn [-tier quick|thorough] | gtverif replay <file> | gtverif list")
	os.Exit(2)
}

func main() {
	if len(os.Args) < 2 {
		usage()
	}
	if d := os.Getenv("GTVERIF_REPO"); d != "" {
		repoDir = d
	}
	if d := os.Getenv("GTVERIF_VERIF"); d != "" {
		verifDir = d
	}
	switch os.Args[1] {
	case "check":
		fs := flag.NewFlagSet("check", flag.ExitOnError)
		prop := fs.String("prop", "", "property id")
		tier := fs.String("tier", "", "quick|thorough")
		overlay := fs.String("overlay", "", "JSON file {path: content} of in-memory replacements (witness runs; no evidence written)")
		goarch := fs.String("goarch", "", "GOARCH for loading")
		fs.Parse(os.Args[2:])
		if *tier == "" {
			*tier = os.Getenv("VERIF_TIER")
		}
		if *tier == "" {
			*tier = "quick"
		}
		os.Exit(runCheck(*prop, *tier, *overlay, *goarch))
	case "sweep":
		// development aid: several properties (quick tier) on one load of the repository; prints the
		// output of each check between "== Cnn begin" / "== Cnn rc=N" lines; exit 1 if any fails
		fs := flag.NewFlagSet("sweep", flag.ExitOnError)
		plist := fs.String("props", "", "comma-separated property ids (default all)")
		fs.Parse(os.Args[2:])
		os.Exit(runSweep(*plist))
	case "replay":
		if len(os.Args) < 3 {
			usage()
		}
		os.Exit(replay(os.Args[2]))
	case "list":
		var ids []string
		for k := range props {
			ids = append(ids, k)
		}
		sort.Strings(ids)
		for _, k := range ids {
			fmt.Println(k)
		}
	default:
		usage()
	}
}

func runCheck(prop, tier, overlayFile, goarch string) (code int) {
	run, ok := props[prop]
	if !ok {
		fmt.Printf("unknown property %q\n", prop)
		return 2
	}
	c := newCtx(prop, tier)
	c.goarch = goarch
	if overlayFile != "" {
		b, err := os.ReadFile(overlayFile)
		if err != nil {
			fmt.Println("overlay:", err)
			return 2
		}
		m := map[string]string{}
		if err := json.Unmarshal(b, &m); err != nil {
			fmt.Println("overlay:", err)
			return 2
		}
		c.overlay = map[string][]byte{}
		for k, v := range m {
			c.overlay[k] = []byte(v)
		}
	}
	defer func() {
		if r := recover(); r != nil {
			fmt.Printf("checker panic: %v\n%s\n", r, debug.Stack())
			code = c.finish(fmt.Errorf("checker panic: %v", r))
		}
	}()
	if err := c.load(); err != nil {
		return c.finish(err)
	}
	run(c)
	if tier == "thorough" && c.overlay == nil {
		runThorough(c)
	}
	return c.finish(nil)
}

func runSweep(plist string) int {
	var ids []string
	if plist == "" {
		for k := range props {
			ids = append(ids, k)
		}
	} else {
		ids = strings.Split(plist, ",")
	}
	sort.Strings(ids)
	base := newCtx(ids[0], "quick")
	loadErr := base.load()
	worst := 0
	for _, id := range ids {
		run, ok := props[id]
		if !ok {
			continue
		}
		fmt.Printf("== %s begin\n", id)
		code := func() (code int) {
			c := newCtx(id, "quick")
			c.All, c.byPath, c.Fset, c.fatalErr = base.All, base.byPath, base.Fset, base.fatalErr
			c.Extra["packages"] = len(base.All)
			defer func() {
				if r := recover(); r != nil {
					fmt.Printf("checker panic: %v\n%s\n", r, debug.Stack())
					code = c.finish(fmt.Errorf("checker panic: %v", r))
				}
			}()
			if loadErr != nil {
				return c.finish(loadErr)
			}
			run(c)
			return c.finish(nil)
		}()
		fmt.Printf("== %s rc=%d\n", id, code)
		if code > worst {
			worst = code
		}
	}
	if out := os.Getenv("GTVERIF_WRITE_BASELINE"); out != "" {
		if err := writeBaseline(out); err != nil {
			fmt.Println("ERROR: cannot write the reference counts:", err)
			return 2
		}
	}
	return worst
}

// replay re-evaluates the property of a recorded violation on the current tree and prints the
// diagnostics for the recorded obligation key.
func replay(path string) int {
	b, err := os.ReadFile(path)
	if err != nil {
		fmt.Println(err)
		return 2
	}
	var rec struct {
		Property   string      `json:"property"`
		Tier       string      `json:"tier"`
		Obligation *Obligation `json:"obligation"`
		Error      string      `json:"error"`
	}
	if err := json.Unmarshal(b, &rec); err != nil {
		fmt.Println(err)
		return 2
	}
	run, ok := props[rec.Property]
	if !ok {
		fmt.Println("unknown property in replay file")
		return 2
	}
	c := newCtx(rec.Property, "quick")
	c.overlay = map[string][]byte{} // do not rewrite the evidence file
	if err := c.load(); err != nil {
		fmt.Println("ERROR:", err)
		return 1
	}
	run(c)
	hit := false
	for _, o := range c.Obl {
		if rec.Obligation != nil && o.Key == rec.Obligation.Key {
			fmt.Printf("%s:%d: [%s] %s: %s\n", o.File, o.Line, o.Key, o.Verdict, o.Detail)
			if o.Verdict == vViolation || o.Verdict == vUndecided {
				hit = true
			}
		}
	}
	if rec.Obligation == nil {
		fmt.Println("recorded error:", rec.Error)
		return 1
	}
	if hit {
		fmt.Printf("VIOLATION property=%s replay=%s\n", rec.Property, path)
		return 1
	}
	fmt.Println("obligation no longer violated on the current tree")
	return 0
}
