package main

// runThorough is filled in by witness.go; placeholder until witnesses exist.
var thoroughHooks []func(c *Ctx)

func runThorough(c *Ctx) {
	for _, h := range thoroughHooks {
		h(c)
	}
}
