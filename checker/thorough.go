package main

import (
	"bytes"
	"encoding/json"
	"fmt"
	"go/ast"
	"go/token"
	"os"
	"os/exec"
	"path/filepath"
	"sort"
	"strconv"
	"strings"
	"sync"
)

// Thorough tier = the quick rules, plus three explorations of the checker's own sensitivity on
// variants of /repo's current source. Variants exist only in memory (packages.Config.Overlay, one
// short-lived subprocess each); nothing is executed, nothing under /repo is touched.
//
//  1. seeded witnesses: every confirmed independent change kept under /verif/seeded/<prop>-*/ is
//     applied to a scratch copy of the files it touches and handed over as an overlay; the
//     property's rules must fire on it.
//  2. second configuration: the same rules with GOARCH=386 must give the same verdicts.
//  3. operator mutants: single-token / single-statement edits (relational operator, && / ||,
//     0/1 constants, deletion of a call or increment statement) inside the functions the property's
//     obligations are anchored in; each is classified killed / survived / does not compile. The kill
//     ratio is reported in the evidence; survivors are listed, they are not failures (an edit
//     can be behaviour-preserving or concern a clause the rules do not decide).
//
// A seeded witness that no longer fires is reported as a NOTE (never as a violation of the
// property: the unchanged tree is not at fault when the checker loses sensitivity).

type variantResult struct {
	name    string
	verdict string // killed | survived | nocompile | error
	keys    string
}

func runVariant(prop string, overlay map[string]string, goarch string) (string, string) {
	dir, err := os.MkdirTemp("", "gtv")
	if err != nil {
		return "error", err.Error()
	}
	defer os.RemoveAll(dir)
	self, _ := os.Executable()
	args := []string{"check", "-prop", prop, "-tier", "quick"}
	if overlay != nil {
		b, _ := json.Marshal(overlay)
		f := filepath.Join(dir, "overlay.json")
		os.WriteFile(f, b, 0o644)
		args = append(args, "-overlay", f)
	} else {
		// a run without overlay would rewrite the evidence file: give it an empty overlay
		f := filepath.Join(dir, "overlay.json")
		os.WriteFile(f, []byte("{}"), 0o644)
		args = append(args, "-overlay", f)
	}
	if goarch != "" {
		args = append(args, "-goarch", goarch)
	}
	cmd := exec.Command(self, args...)
	cmd.Env = append(os.Environ(), "GTVERIF_REPO="+repoDir, "GTVERIF_VERIF="+verifDir)
	var out bytes.Buffer
	cmd.Stdout, cmd.Stderr = &out, &out
	err = cmd.Run()
	s := out.String()
	if err == nil {
		return "survived", ""
	}
	if strings.Contains(s, "type/load error") || strings.Contains(s, "ERROR: load:") {
		return "nocompile", ""
	}
	if strings.Contains(s, "checker panic") {
		return "error", "checker panic"
	}
	if !strings.Contains(s, "VIOLATION property=") {
		return "error", strings.TrimSpace(s)
	}
	var keys []string
	for _, l := range strings.Split(s, "\n") {
		if i := strings.Index(l, ": ["); i > 0 && !strings.HasPrefix(l, "NOTE") {
			if j := strings.Index(l[i:], "]"); j > 0 {
				keys = append(keys, l[i+3:i+j])
			}
		}
	}
	if len(keys) > 3 {
		keys = keys[:3]
	}
	return "killed", strings.Join(keys, " ; ")
}

func runThorough(c *Ctx) {
	// only when the quick rules are clean: otherwise every variant "fires"
	for _, o := range c.Obl {
		if o.Verdict == vViolation || o.Verdict == vUndecided {
			c.Extra["thorough"] = "skipped: the quick rules already report on the unchanged tree"
			return
		}
	}
	workers := 8
	// ---- 1. seeded witnesses
	seeded, _ := filepath.Glob(filepath.Join(verifDir, "seeded", c.Prop+"-*", "patch.diff"))
	sort.Strings(seeded)
	type sw struct {
		name    string
		overlay map[string]string
	}
	var sws []sw
	nNA := 0
	for _, p := range seeded {
		name := filepath.Base(filepath.Dir(p))
		ov, err := overlayFromPatch(p)
		if err != nil {
			nNA++
			c.Trivial("WITNESS", "seeded/"+name, token.NoPos, "patch no longer applies to the current source ("+err.Error()+"): not evaluated")
			continue
		}
		sws = append(sws, sw{name, ov})
	}
	res := make([]variantResult, len(sws))
	var wg sync.WaitGroup
	sem := make(chan struct{}, workers)
	for i := range sws {
		wg.Add(1)
		go func(i int) {
			defer wg.Done()
			sem <- struct{}{}
			v, k := runVariant(c.Prop, sws[i].overlay, "")
			<-sem
			res[i] = variantResult{sws[i].name, v, k}
		}(i)
	}
	wg.Wait()
	fired := 0
	for _, r := range res {
		switch r.verdict {
		case "killed":
			fired++
			c.OK("WITNESS", "seeded/"+r.name, token.NoPos, "independent seeded change detected by: "+r.keys)
		case "nocompile":
			c.Trivial("WITNESS", "seeded/"+r.name, token.NoPos, "seeded change no longer compiles against the current source: not evaluated")
		default:
			c.Note("WITNESS", "seeded/"+r.name, token.NoPos, "the seeded change applies but the rules of "+c.Prop+" do not fire on it ("+r.verdict+" "+r.keys+"): the checker has no rule for this kind of change (see DESIGN.md, table of seeded changes)")
		}
	}
	c.Extra["witnesses_seeded_total"] = len(sws)
	c.Extra["witnesses_seeded_fired"] = fired
	c.Extra["witnesses_seeded_not_applicable"] = nNA
	// ---- 1b. benign witnesses: behaviour-preserving refactorings kept under /verif/benign must stay silent
	benign, _ := filepath.Glob(filepath.Join(verifDir, "benign", c.Prop+"-*", "patch.diff"))
	sort.Strings(benign)
	var bws []sw
	for _, p := range benign {
		if ov, err := overlayFromPatch(p); err == nil {
			bws = append(bws, sw{filepath.Base(filepath.Dir(p)), ov})
		}
	}
	bres := make([]variantResult, len(bws))
	for i := range bws {
		wg.Add(1)
		go func(i int) {
			defer wg.Done()
			sem <- struct{}{}
			v, k := runVariant(c.Prop, bws[i].overlay, "")
			<-sem
			bres[i] = variantResult{bws[i].name, v, k}
		}(i)
	}
	wg.Wait()
	silent := 0
	for _, r := range bres {
		switch r.verdict {
		case "survived":
			silent++
			c.OK("WITNESS", "benign/"+r.name, token.NoPos, "behaviour-preserving refactoring: the rules stay silent")
		case "nocompile":
			c.Trivial("WITNESS", "benign/"+r.name, token.NoPos, "refactoring no longer compiles against the current source: not evaluated")
		default:
			c.Note("WITNESS", "benign/"+r.name, token.NoPos, "FALSE ALARM of the checker: the rules fire on a behaviour-preserving refactoring ("+r.keys+")")
		}
	}
	c.Extra["witnesses_benign_total"] = len(bws)
	c.Extra["witnesses_benign_silent"] = silent
	// ---- 2. second configuration
	v386, k386 := runVariant(c.Prop, nil, "386")
	switch v386 {
	case "survived":
		c.OK("CONFIG", "GOARCH=386", token.NoPos, "the same rules give the same verdicts when the repository is loaded for a 32-bit architecture")
	case "nocompile":
		c.Trivial("CONFIG", "GOARCH=386", token.NoPos, "the repository does not type-check for GOARCH=386: configuration not evaluated")
	default:
		c.Violation("CONFIG", "GOARCH=386", token.NoPos, "the rules report on the GOARCH=386 configuration although they pass on the default one: "+k386).Clause = "every build configuration"
	}
	// ---- 3. operator mutants inside the anchored functions
	muts := c.operatorMutants()
	budget := 160
	if s := os.Getenv("GTVERIF_MUTANTS"); s != "" {
		if n, err := strconv.Atoi(s); err == nil {
			budget = n
		}
	}
	seed := 1
	if s := os.Getenv("VERIF_SEED"); s != "" {
		if n, err := strconv.Atoi(s); err == nil {
			seed = n
		}
	}
	if len(muts) > budget {
		// deterministic spread over the list
		step := float64(len(muts)) / float64(budget)
		var pick []opMutant
		for i := 0; i < budget; i++ {
			pick = append(pick, muts[(int(float64(i)*step)+seed)%len(muts)])
		}
		muts = pick
	}
	mres := make([]variantResult, len(muts))
	for i := range muts {
		wg.Add(1)
		go func(i int) {
			defer wg.Done()
			sem <- struct{}{}
			v, k := runVariant(c.Prop, map[string]string{muts[i].file: muts[i].content}, "")
			<-sem
			mres[i] = variantResult{muts[i].desc, v, k}
		}(i)
	}
	wg.Wait()
	cnt := map[string]int{}
	var survivors []string
	byOp := map[string][2]int{}
	for i, r := range mres {
		cnt[r.verdict]++
		op := muts[i].op
		x := byOp[op]
		if r.verdict == "killed" {
			x[0]++
		}
		if r.verdict == "killed" || r.verdict == "survived" {
			x[1]++
		}
		byOp[op] = x
		if r.verdict == "survived" && len(survivors) < 40 {
			survivors = append(survivors, r.name)
		}
	}
	// development aid: the variants no rule fires on, written out as files so that the existing test
	// suite can be run on them (tools/survivors.sh); never used by the registered commands
	if dir := os.Getenv("GTVERIF_DUMP_SURVIVORS"); dir != "" {
		k := 0
		for i, r := range mres {
			if r.verdict != "survived" {
				continue
			}
			k++
			d := filepath.Join(dir, fmt.Sprintf("%s-%03d", c.Prop, k))
			rel, rerr := filepath.Rel(repoDir, muts[i].file)
			if rerr != nil || strings.HasPrefix(rel, "..") {
				continue
			}
			if err := os.MkdirAll(filepath.Join(d, filepath.Dir(rel)), 0o755); err == nil {
				_ = os.WriteFile(filepath.Join(d, rel), []byte(muts[i].content), 0o644)
				_ = os.WriteFile(filepath.Join(d, "DESC"), []byte(muts[i].desc+"\n"+rel+"\n"), 0o644)
			}
		}
	}
	c.Extra["mutants_generated"] = len(mres)
	c.Extra["mutants_killed"] = cnt["killed"]
	c.Extra["mutants_survived"] = cnt["survived"]
	c.Extra["mutants_not_compiling"] = cnt["nocompile"]
	c.Extra["mutants_errors"] = cnt["error"]
	ops := map[string]string{}
	for op, x := range byOp {
		ops[op] = fmt.Sprintf("%d/%d killed", x[0], x[1])
	}
	c.Extra["mutants_by_operator"] = ops
	c.Extra["mutants_survivors_sample"] = survivors
	c.Trivial("MUTANTS", "operator-mutants", token.NoPos, fmt.Sprintf("%d single-edit variants of the anchored functions: %d killed, %d survived, %d do not compile", len(mres), cnt["killed"], cnt["survived"], cnt["nocompile"]))
	if cnt["error"] > 0 {
		c.Note("MUTANTS", "operator-mutants/errors", token.NoPos, fmt.Sprintf("%d variant runs ended with a checker error (counted neither as killed nor as survived)", cnt["error"]))
	}
}

// overlayFromPatch applies a unified diff to scratch copies of the files it names and returns the
// patched contents keyed by their path under the repository.
func overlayFromPatch(patchFile string) (map[string]string, error) {
	b, err := os.ReadFile(patchFile)
	if err != nil {
		return nil, err
	}
	var files []string
	for _, l := range strings.Split(string(b), "\n") {
		if strings.HasPrefix(l, "+++ b/") {
			files = append(files, strings.TrimSpace(strings.TrimPrefix(l, "+++ b/")))
		}
	}
	if len(files) == 0 {
		return nil, fmt.Errorf("no file in patch")
	}
	dir, err := os.MkdirTemp("", "gtvp")
	if err != nil {
		return nil, err
	}
	defer os.RemoveAll(dir)
	for _, f := range files {
		src, err := os.ReadFile(filepath.Join(repoDir, f))
		if err != nil {
			return nil, fmt.Errorf("file %s not in the repository", f)
		}
		os.MkdirAll(filepath.Dir(filepath.Join(dir, f)), 0o755)
		os.WriteFile(filepath.Join(dir, f), src, 0o644)
	}
	cmd := exec.Command("patch", "-p1", "-s", "-f", "-i", patchFile)
	cmd.Dir = dir
	if out, err := cmd.CombinedOutput(); err != nil {
		return nil, fmt.Errorf("patch: %s", strings.TrimSpace(strings.Split(string(out), "\n")[0]))
	}
	ov := map[string]string{}
	for _, f := range files {
		nb, err := os.ReadFile(filepath.Join(dir, f))
		if err != nil {
			return nil, err
		}
		ov[filepath.Join(repoDir, f)] = string(nb)
	}
	return ov, nil
}

type opMutant struct {
	file    string
	content string
	desc    string
	op      string
}

// operatorMutants: single edits inside the functions that contain the property's obligations.
func (c *Ctx) operatorMutants() []opMutant {
	// functions anchored: those containing the position of some obligation
	type span struct{ lo, hi token.Pos }
	anch := map[string][]span{} // file -> function spans
	lines := map[string]map[int]bool{}
	for _, o := range c.Obl {
		if o.File == "" || o.Line == 0 || !strings.HasSuffix(o.File, ".go") {
			continue
		}
		if lines[o.File] == nil {
			lines[o.File] = map[int]bool{}
		}
		lines[o.File][o.Line] = true
	}
	var out []opMutant
	for _, p := range c.All {
		for _, f := range p.Syntax {
			fname := c.Fset.Position(f.Pos()).Filename
			rel, _ := filepath.Rel(repoDir, fname)
			ls := lines[rel]
			if ls == nil {
				continue
			}
			src, err := os.ReadFile(fname)
			if err != nil {
				continue
			}
			tf := c.Fset.File(f.Pos())
			for _, d := range f.Decls {
				fd, ok := d.(*ast.FuncDecl)
				if !ok || fd.Body == nil {
					continue
				}
				l0, l1 := c.Fset.Position(fd.Pos()).Line, c.Fset.Position(fd.End()).Line
				hit := false
				for l := range ls {
					if l >= l0 && l <= l1 {
						hit = true
					}
				}
				if !hit {
					continue
				}
				anch[rel] = append(anch[rel], span{fd.Pos(), fd.End()})
				edit := func(pos, end token.Pos, repl, op, what string) {
					a, b := tf.Offset(pos), tf.Offset(end)
					if a < 0 || b > len(src) || a > b {
						return
					}
					nb := append(append(append([]byte{}, src[:a]...), []byte(repl)...), src[b:]...)
					out = append(out, opMutant{file: fname, content: string(nb), op: op,
						desc: fmt.Sprintf("%s:%d %s.%s: %s", rel, c.Fset.Position(pos).Line, p.Name, fd.Name.Name, what)})
				}
				ast.Inspect(fd.Body, func(n ast.Node) bool {
					switch x := n.(type) {
					case *ast.BinaryExpr:
						alt := map[token.Token]string{token.LSS: "<=", token.LEQ: "<", token.GTR: ">=", token.GEQ: ">", token.EQL: "!=", token.NEQ: "==", token.LAND: "||", token.LOR: "&&"}
						if r, ok := alt[x.Op]; ok {
							op := "ROR"
							if x.Op == token.LAND || x.Op == token.LOR {
								op = "LCR"
							}
							edit(x.OpPos, x.OpPos+token.Pos(len(x.Op.String())), r, op, fmt.Sprintf("`%s` -> `%s`", x.Op, r))
						}
					case *ast.BasicLit:
						if x.Kind == token.INT && (x.Value == "0" || x.Value == "1") {
							r := map[string]string{"0": "1", "1": "0"}[x.Value]
							edit(x.Pos(), x.End(), r, "CRP", fmt.Sprintf("constant %s -> %s", x.Value, r))
						}
					case *ast.ExprStmt:
						if _, ok := x.X.(*ast.CallExpr); ok {
							edit(x.Pos(), x.End(), "{}", "SDL", "statement `"+oneLine(string(src[tf.Offset(x.Pos()):tf.Offset(x.End())]))+"` deleted")
						}
					case *ast.IncDecStmt:
						edit(x.Pos(), x.End(), "{}", "SDL", "statement `"+oneLine(string(src[tf.Offset(x.Pos()):tf.Offset(x.End())]))+"` deleted")
					case *ast.UnaryExpr:
						if x.Op == token.NOT {
							edit(x.OpPos, x.OpPos+1, "", "NEG", "negation removed from `"+oneLine(string(src[tf.Offset(x.Pos()):tf.Offset(x.End())]))+"`")
						}
					}
					return true
				})
			}
		}
	}
	sort.Slice(out, func(i, j int) bool { return out[i].desc < out[j].desc })
	return out
}

func oneLine(s string) string {
	s = strings.Join(strings.Fields(s), " ")
	if len(s) > 60 {
		s = s[:57] + "..."
	}
	return s
}
