package main

import "golang.org/x/tools/go/packages"

import (
	"fmt"
	"go/ast"
	"go/constant"
	"go/token"
	"go/types"
	"sort"
	"strings"
)

func init() { props["C17"] = checkC17 }

func checkC17(c *Ctx) {
	c.Decides("GF: Rearrange proposes, for a branch, exactly the two variants cross=false and cross=true, once each, exactly when both ends have three neighbours, both built on the branch's own two ends")
	c.Decides("SLOTS: newNNI takes, on each side, the two neighbour slots other than the one holding the opposite end ((i+1)%3 and (i+2)%3 of the index of the opposite end): the two subtrees of a side are distinct, so the two variants differ")
	c.Decides("PAIR: the adjacency edits of Apply and Undo are two-sided and re-target the exchanged branches; TYPESTATE: Apply returns at once iff already applied and sets applied=true only as its last step (Undo mirrored), so a failed or repeated call leaves the state consistent")
	c.Decides("RESTORE: any branch/node attribute that Apply writes is saved by Apply before and written back by Undo from that saved value (today Apply writes none)")
	c.DoesNotDecide("that exactly one split changes, that all proposed neighbours are pairwise distinct as trees, that Undo restores the exact text (child order) - behavioural facts about the pointer surgery")
	rr := c.Func("tree", "NNIRearranger", "Rearrange")
	nn := c.Func("tree", "", "newNNI")
	ap := c.Func("tree", "nni", "Apply")
	un := c.Func("tree", "nni", "Undo")
	if rr == nil || nn == nil || ap == nil || un == nil {
		return
	}
	c.nniProposals(rr, nn)
	c.nniSlots(nn)
	c.checkPair("PAIR", map[string]bool{"Apply": true, "Undo": true})
	c.nniTypestate(ap, true)
	c.nniTypestate(un, false)
	c.nniRestore(ap, un)
	c.Decides("FMT-CONST: the nni command and the rearrangement code never use a computed text (the neighbour's Newick) as a printf format string")
	var nniPkgs []*packages.Package
	for _, r := range []string{"cmd", "tree"} {
		if p := c.Pkg(r); p != nil {
			nniPkgs = append(nniPkgs, p)
		}
	}
	c.fmtConst("FMT-CONST", nniPkgs, "each of them is a well-formed tree on the same tips", nil)
	c.Decides("CARRIED-BUF: no command (nni included) fills and consumes, inside its loop over the input trees, a buffer declared before the loop without resetting it")
	ncb, _ := c.carriedBuf("CARRIED-BUF", append(c.AllFuncs("cmd"), c.PkgLevelClosures("cmd")...), "exactly two rearrangements per inner branch")
	c.Trivial("CARRIED-BUF", "scan", 0, fmt.Sprintf("%d buffers written inside loops over input trees", ncb))
	c.Decides("ENDS: Apply and Undo re-target the moved branches for both orientations")
	if p := c.Pkg("tree"); p != nil {
		var fs []*FuncInfo
		for _, fi := range c.AllFuncs("tree") {
			if strings.HasSuffix(c.Fset.Position(fi.Decl.Pos()).Filename, "rearrange.go") {
				fs = append(fs, fi)
			}
		}
		c.endsBothOrientations("ENDS", fs, "each of them is a well-formed tree")
	}
	c.Decides("FRESH-RESULT: the enumerations Rearrange ranges over while its callback runs (Edges, and with it InternalEdges, TipEdges, Nodes, Tips, SortedTips, AllTipNames) return a slice created in the call, never storage kept in the tree and re-used by the next call")
	{
		var fis []*FuncInfo
		for _, n := range []string{"Edges", "InternalEdges", "TipEdges", "Nodes", "Tips", "SortedTips", "AllTipNames"} {
			if fi := c.Func("tree", "Tree", n); fi != nil {
				fis = append(fis, fi)
			}
		}
		c.freshResult("FRESH-RESULT", fis, "all proposed neighbours are pairwise distinct")
	}
	c.Floor("FRESH-RESULT", 5)
	c.Decides("TRUNC: every output file of the commands (the -o file of nni through openWriteFile included) is opened by os.Create or with O_TRUNC/O_APPEND/O_EXCL: no stale tail of an earlier, longer output stays behind the neighbours written now")
	{
		var fs []*FuncInfo
		fs = append(fs, c.AllFuncs("cmd")...)
		fs = append(fs, c.PkgLevelClosures("cmd")...)
		c.truncOutputs("TRUNC", fs, "proposes exactly two rearrangements per inner branch (as written to the output)")
	}
	c.Floor("TRUNC", 5)
	c.Decides("BUF-FLUSH (shared with C16): every bufio.Writer of the repository (the nni command writes through none today) is flushed before its file is closed - no deferred Flush that runs after an ordinary or a later-deferred close")
	c.bufFlush("BUF-FLUSH", c.All, "the NNI generator proposes exactly two rearrangements per inner branch")
	c.Floor("BUF-FLUSH", 3)
	c.Decides("SEPARATOR (shared with C01): the comma between the children the Newick writer writes is guarded by a count of children written, never by the position in the neighbour list - after an NNI the parent of a node can sit anywhere in that list")
	c.separatorByCount("SEPARATOR", c.Func("tree", "Node", "Newick"), "applying one gives a well-formed tree on the same tips")
	c.Floor("SEPARATOR", 1)
	c.Decides("NO-PREFILTER: Rearrange has no return in front of its loop over the branches other than under an error / nil / empty-list test (no size threshold that yields nothing for small trees); CMD-REACHES: in the nni command nothing between the head of the loop over the input trees and the call of Rearrange leaves the iteration except under an error test")
	if c.noPrefilter("NO-PREFILTER", c.Func("tree", "NNIRearranger", "Rearrange"), "proposes exactly two rearrangements per inner branch") == 0 {
		c.Undecided("NO-PREFILTER", "tree.NNIRearranger.Rearrange", token.NoPos, "no top-level loop found in Rearrange")
	}
	if c.cmdReaches("CMD-REACHES", "cmd/nni.go", []string{"Rearrange"}, "all binary trees on >= 4 tips (rooted or unrooted, any root position)") == 0 {
		c.Undecided("CMD-REACHES", "cmd.nni", token.NoPos, "no loop over the input trees that calls Rearrange found in cmd/nni.go")
	}
	c.Floor("ENDS", 1)
	c.Floor("GF", 2)
	c.Floor("SLOTS", 2)
	c.Floor("PAIR", 8)
	c.Floor("TYPESTATE", 4)
	c.Floor("RESTORE", 1)
}

func (c *Ctx) nniProposals(rr, nn *FuncInfo) {
	info := rr.Pkg.TypesInfo
	clause := "the NNI generator proposes exactly two rearrangements per inner branch"
	var calls []*ast.CallExpr
	// a proposal built through a wrapper (`nniAround(t, e, cross)` = `return newNNI(t, e.Left(), e.Right(), cross)`)
	// is read as the newNNI call it stands for, its arguments expressed in the caller's terms
	type viaWrapper struct{ a1, a2, cross func(o *canonOpts) string }
	wrapped := map[*ast.CallExpr]*viaWrapper{}
	var wrapE = map[*ast.CallExpr]types.Object{}
	for _, call := range callsIn(rr.Decl.Body, true) {
		fn := calleeOf(info, call)
		if fn == nn.Obj {
			calls = append(calls, call)
			continue
		}
		wi := c.FuncOfObj(fn)
		if fn == nil || wi == nil || wi.Decl.Body == nil || !inRepo(fn) || len(wi.Decl.Body.List) != 1 {
			continue
		}
		ret, isRet := wi.Decl.Body.List[0].(*ast.ReturnStmt)
		if !isRet || len(ret.Results) != 1 {
			continue
		}
		inner, isCall := unparen(ret.Results[0]).(*ast.CallExpr)
		if !isCall || calleeOf(wi.Pkg.TypesInfo, inner) != nn.Obj || len(inner.Args) != 4 {
			continue
		}
		winfo := wi.Pkg.TypesInfo
		call := call
		mk := func(e ast.Expr) func(o *canonOpts) string {
			return func(o *canonOpts) string {
				sub := &canonOpts{subst: map[types.Object]string{}}
				for k, a := range call.Args {
					if p := paramObj(winfo, wi.Decl, k); p != nil {
						sub.subst[p] = c.canon(info, a, o)
					}
				}
				return c.canon(winfo, e, sub)
			}
		}
		wrapped[call] = &viaWrapper{mk(inner.Args[1]), mk(inner.Args[2]), mk(inner.Args[3])}
		for _, a := range call.Args {
			if t := info.TypeOf(a); t != nil && strings.HasSuffix(t.String(), "tree.Edge") {
				wrapE[call] = identObj(info, a)
			}
		}
		calls = append(calls, call)
	}
	if len(calls) != 2 {
		c.Violation("GF", "tree.NNIRearranger.Rearrange/two-variants", rr.Decl.Pos(), fmt.Sprintf("%d calls of newNNI per branch, expected exactly 2", len(calls))).Clause = clause
		return
	}
	// the branch variable: root identifier of the nodes handed to newNNI; it must come from t.Edges()
	// (range value, or element of a local holding t.Edges())
	var eObj types.Object
	if w := wrapE[calls[0]]; w != nil {
		eObj = w
	} else if len(calls[0].Args) == 4 {
		e := unparen(calls[0].Args[1])
		for {
			switch x := e.(type) {
			case *ast.CallExpr:
				if sel, ok := unparen(x.Fun).(*ast.SelectorExpr); ok {
					e = unparen(sel.X)
					continue
				}
			case *ast.SelectorExpr:
				e = unparen(x.X)
				continue
			}
			break
		}
		eObj = identObj(info, e)
	}
	if eObj == nil {
		c.Undecided("GF", "tree.NNIRearranger.Rearrange/two-variants", rr.Decl.Pos(), "the branch the rearrangements are built on is not a variable")
		return
	}
	isEdgesCall := func(x ast.Expr) bool {
		if cl, ok := unparen(x).(*ast.CallExpr); ok && isRepoFunc(calleeOf(info, cl), "tree", "Tree", "Edges") {
			return true
		}
		if o := identObj(info, x); o != nil {
			found := false
			ast.Inspect(rr.Decl.Body, func(n ast.Node) bool {
				if as, ok := n.(*ast.AssignStmt); ok && len(as.Lhs) == 1 && len(as.Rhs) == 1 && identObj(info, as.Lhs[0]) == o {
					if cl, ok := unparen(as.Rhs[0]).(*ast.CallExpr); ok && isRepoFunc(calleeOf(info, cl), "tree", "Tree", "Edges") {
						found = true
					}
				}
				return true
			})
			return found
		}
		return false
	}
	okEdges := false
	var loopPos token.Pos = rr.Decl.Pos()
	ast.Inspect(rr.Decl.Body, func(n ast.Node) bool {
		switch x := n.(type) {
		case *ast.RangeStmt:
			if x.Value != nil && identObj(info, x.Value) == eObj && isEdgesCall(x.X) {
				okEdges = true
				loopPos = x.Pos()
			}
		case *ast.AssignStmt:
			if len(x.Lhs) == 1 && len(x.Rhs) == 1 && identObj(info, x.Lhs[0]) == eObj {
				if ix, ok := unparen(x.Rhs[0]).(*ast.IndexExpr); ok && isEdgesCall(ix.X) {
					okEdges = true
					loopPos = x.Pos()
				}
			}
		}
		return true
	})
	o := &canonOpts{subst: map[types.Object]string{eObj: "$E"}}
	c.Check(okEdges, "GF", "tree.NNIRearranger.Rearrange/all-branches", loopPos, "iterates over Tree.Edges()", "the generator does not iterate over all branches (Tree.Edges())").Clause = clause
	vals := map[string]int{}
	good := true
	for _, call := range calls {
		if w := wrapped[call]; w != nil {
			if w.a1(o) != "$E.left" || w.a2(o) != "$E.right" {
				good = false
			}
			if cv := w.cross(o); cv == "true" || cv == "false" {
				vals[cv]++
			} else {
				good = false
			}
		} else {
			if len(call.Args) != 4 {
				good = false
				continue
			}
			if c.canon(info, call.Args[1], o) != "$E.left" || c.canon(info, call.Args[2], o) != "$E.right" {
				good = false
			}
			if tv, ok := info.Types[call.Args[3]]; ok && tv.Value != nil && tv.Value.Kind() == constant.Bool {
				vals[tv.Value.String()]++
			} else {
				good = false
			}
		}
		conds, okc := c.pathConds(info, rr.Decl.Body, call, true)
		var rel []cond
		for _, cd := range conds {
			if cd.Expr != nil && mentions(info, cd.Expr, eObj) && !strings.Contains(c.canon(info, cd.Expr, o), "newNNI") && !containsCall(info, cd.Expr, func(cl *ast.CallExpr, _ *types.Func) bool { return wrapped[cl] != nil }) {
				rel = append(rel, cd)
			}
		}
		code := c.inlineNneigh(c.condsToBexpr(info, rel, o))
		spec := bAnd(bCmp("len($E.left.neigh)", token.EQL, "3"), bCmp("len($E.right.neigh)", token.EQL, "3"))
		eq, wit, _, err := gfEquiv(code, spec)
		if !okc || err != nil {
			c.Undecided("GF", "tree.NNIRearranger.Rearrange/inner-branch-guard", call.Pos(), fmt.Sprintf("guard shape not understood: %v", err))
		} else if !eq {
			c.Violation("GF", "tree.NNIRearranger.Rearrange/inner-branch-guard", call.Pos(), "a rearrangement is proposed under "+code.String()+", expected both ends of degree 3: "+wit).Clause = clause
			good = false
		}
	}
	c.Check(good && vals["true"] == 1 && vals["false"] == 1, "GF", "tree.NNIRearranger.Rearrange/two-variants", rr.Decl.Pos(), "cross=false and cross=true, once each, on (e.Left(), e.Right()), iff both ends have 3 neighbours",
		fmt.Sprintf("the two proposals are not exactly cross=false and cross=true on the branch's own ends under the degree-3 guard (cross values %v)", vals)).Clause = clause
}

func (c *Ctx) nniSlots(nn *FuncInfo) {
	info := nn.Pkg.TypesInfo
	clause := "all proposed neighbours are pairwise distinct"
	n1, n2 := paramObj(info, nn.Decl, 1), paramObj(info, nn.Decl, 2)
	// idx locals: `i, _ := A.NodeIndex(B)`
	type idxInfo struct{ of, other types.Object }
	idx := map[types.Object]idxInfo{}
	ast.Inspect(nn.Decl.Body, func(n ast.Node) bool {
		as, ok := n.(*ast.AssignStmt)
		if !ok || len(as.Rhs) != 1 || len(as.Lhs) < 1 {
			return true
		}
		if call, ok := unparen(as.Rhs[0]).(*ast.CallExpr); ok && isRepoFunc(calleeOf(info, call), "tree", "Node", "NodeIndex") && len(call.Args) == 1 {
			if sel, ok := unparen(call.Fun).(*ast.SelectorExpr); ok {
				if o := identObj(info, as.Lhs[0]); o != nil {
					idx[o] = idxInfo{identObj(info, sel.X), identObj(info, call.Args[0])}
				}
			}
		}
		return true
	})
	// slot reads: X = A.Neigh()[ (i+k)%3 ]
	offsets := map[types.Object][]int64{} // side node -> offsets used
	nreads := 0
	ast.Inspect(nn.Decl.Body, func(n ast.Node) bool {
		as, ok := n.(*ast.AssignStmt)
		if !ok || len(as.Lhs) != 1 || len(as.Rhs) != 1 {
			return true
		}
		ix, ok := unparen(as.Rhs[0]).(*ast.IndexExpr)
		if !ok {
			return true
		}
		base := c.canon(info, ix.X, nil)
		var side types.Object
		for _, p := range []types.Object{n1, n2} {
			if p != nil && base == p.Name()+".neigh" {
				side = p
			}
		}
		if side == nil {
			return true
		}
		nreads++
		// (i + k) % 3
		be, ok := unparen(ix.Index).(*ast.BinaryExpr)
		if !ok || be.Op != token.REM {
			c.Undecided("SLOTS", fmt.Sprintf("tree.newNNI/slot#%d", nreads), as.Pos(), "slot index "+c.src(ix.Index)+" is not of the form (i+k)%3")
			return true
		}
		m, okm := intConstOf(info, be.Y)
		sum, oks := unparen(be.X).(*ast.BinaryExpr)
		if !okm || m != 3 || !oks || sum.Op != token.ADD {
			c.Undecided("SLOTS", fmt.Sprintf("tree.newNNI/slot#%d", nreads), as.Pos(), "slot index "+c.src(ix.Index)+" is not of the form (i+k)%3")
			return true
		}
		io, k := identObj(info, sum.X), sum.Y
		if io == nil {
			io, k = identObj(info, sum.Y), sum.X
		}
		kv, okk := intConstOf(info, k)
		ii, isIdx := idx[io]
		other := n2
		if side == n2 {
			other = n1
		}
		if !okk || !isIdx || ii.of != side || ii.other != other {
			c.Violation("SLOTS", fmt.Sprintf("tree.newNNI/slot#%d", nreads), as.Pos(), "the neighbour slot is not taken relative to the index of the opposite end in this node's neighbour list").Clause = clause
			return true
		}
		offsets[side] = append(offsets[side], kv%3)
		return true
	})
	for _, side := range []types.Object{n1, n2} {
		if side == nil {
			continue
		}
		offs := offsets[side]
		sort.Slice(offs, func(i, j int) bool { return offs[i] < offs[j] })
		good := len(offs) == 2 && offs[0] == 1 && offs[1] == 2
		c.Check(good, "SLOTS", "tree.newNNI/"+side.Name()+"-subtrees", nn.Decl.Pos(), "the two subtrees of "+side.Name()+" are the slots at offsets 1 and 2 from the opposite end",
			fmt.Sprintf("the subtrees recorded for %s are taken at offsets %v from the opposite end's slot, expected {1,2} (mod 3): the same subtree twice or the central branch itself would make the two variants coincide", side.Name(), offs)).Clause = clause
	}
}

func (c *Ctx) nniTypestate(fi *FuncInfo, apply bool) {
	info := fi.Pkg.TypesInfo
	name := funcName(fi.Obj)
	r := recvObj(info, fi.Decl)
	clause := "Undoing a rearrangement restores the original tree exactly ... the tree is unchanged after a full enumeration"
	appliedKey := r.Name() + ".applied"
	// (a) first statement: if <applied-ness> { return }
	okFirst := false
	first := 0
	for first < len(fi.Decl.Body.List) {
		// plain declarations in front of the guard (`var err error`) do nothing
		if _, isDecl := fi.Decl.Body.List[first].(*ast.DeclStmt); !isDecl {
			break
		}
		first++
	}
	if len(fi.Decl.Body.List) > first {
		if is, ok := fi.Decl.Body.List[first].(*ast.IfStmt); ok && is.Else == nil && c.leaves(info, is.Body.List) {
			code := c.toBexpr(info, is.Cond, nil)
			spec := bAtom(appliedKey)
			if !apply {
				spec = bNot(spec)
			}
			if eq, _, _, err := gfEquiv(code, spec); err == nil && eq {
				okFirst = true
			}
		}
	}
	want := map[bool]string{true: "already applied", false: "not applied"}[apply]
	c.Check(okFirst, "TYPESTATE", name+"/guard", fi.Decl.Pos(), "returns at once iff "+want, name+" does not start by returning iff the rearrangement is "+want+": applying twice / undoing what was not applied corrupts the tree").Clause = clause
	// (b) one store to applied, constant, as the last statement before the final return
	var stores []fieldStore
	for _, st := range c.fieldStores(info, fi.Decl.Body, nil) {
		if st.field.Name() == "applied" && identObj(info, st.recvE) == r {
			stores = append(stores, st)
		}
	}
	okStore := len(stores) == 1
	if okStore {
		tv, has := info.Types[stores[0].rhs]
		okStore = has && tv.Value != nil && tv.Value.Kind() == constant.Bool && constant.BoolVal(tv.Value) == apply
		// top-level, followed only by return
		lst := fi.Decl.Body.List
		pos := -1
		for i, s := range lst {
			if s == ast.Stmt(stores[0].node.(*ast.AssignStmt)) {
				pos = i
			}
		}
		if pos < 0 {
			okStore = false
		} else {
			for _, s := range lst[pos+1:] {
				if _, isRet := s.(*ast.ReturnStmt); !isRet {
					okStore = false
				}
			}
		}
	}
	c.Check(okStore, "TYPESTATE", name+"/flag-last", fi.Decl.Pos(), fmt.Sprintf("applied=%v is the last step", apply), fmt.Sprintf("%s does not set applied=%v exactly once as its last step: an error exit after the flag, or a success exit without it, desynchronises Apply/Undo", name, apply)).Clause = clause
	// notes: error assigned in an if body that does not leave
	ast.Inspect(fi.Decl.Body, func(n ast.Node) bool {
		is, ok := n.(*ast.IfStmt)
		if !ok || is.Init == nil || !errGuard(info, is.Cond) || c.leaves(info, is.Body.List) {
			return true
		}
		for _, s := range is.Body.List {
			if as, ok := s.(*ast.AssignStmt); ok && len(as.Lhs) == 1 && isErrorType(info.TypeOf(as.Lhs[0])) {
				c.Note("ERRFLOW", name+"/first-error-not-returned", is.Pos(), "the error set here is not returned at once and is overwritten by the next check; it cannot occur for rearrangements produced by Rearrange on an unedited tree")
			}
		}
		return true
	})
}

// nniRestore: attributes written by Apply are saved before and restored by Undo.
func (c *Ctx) nniRestore(ap, un *FuncInfo) {
	info := ap.Pkg.TypesInfo
	clause := "Undoing a rearrangement restores the original tree exactly (identical text, lengths and names)"
	structural := map[string]bool{"neigh": true, "br": true, "left": true, "right": true, "applied": true}
	ra, ru := recvObj(info, ap.Decl), recvObj(info, un.Decl)
	oa := &canonOpts{subst: map[types.Object]string{ra: "$R"}}
	ou := &canonOpts{subst: map[types.Object]string{ru: "$R"}}
	// the rearrangement's own struct type: stores into it are saves, not tree writes
	isOwn := func(st fieldStore, r types.Object) bool { return identObj(info, st.recvE) == r }
	// matching is per attribute (field), not per receiver expression: the same branch is usually
	// reached through different expressions in Apply and Undo
	written := map[string]token.Pos{}
	savedAttr := map[string]string{} // attribute -> own slot that holds its old value
	for _, st := range c.fieldStores(info, ap.Decl.Body, oa) {
		if structural[st.field.Name()] {
			continue
		}
		if isOwn(st, ra) {
			if st.rhs != nil {
				if f := c.attrRead(info, st.rhs, 2); f != "" {
					savedAttr[f] = st.field.Name()
				}
			}
			continue
		}
		if _, ok := written[st.field.Name()]; !ok {
			written[st.field.Name()] = st.pos
		}
	}
	if len(written) == 0 {
		c.OK("RESTORE", "tree.nni.Apply/writes-no-attribute", ap.Decl.Pos(), "Apply writes only adjacency, orientation and its own flag")
	}
	restored := map[string]string{} // attribute -> own slot it is restored from
	for _, st := range c.fieldStores(info, un.Decl.Body, ou) {
		if structural[st.field.Name()] || isOwn(st, ru) {
			continue
		}
		restored[st.field.Name()] = ""
		if st.rhs != nil {
			if fv, x := fieldOfSel(info, st.rhs); fv != nil && identObj(info, x) == ru {
				restored[st.field.Name()] = fv.Name()
			}
		}
	}
	var attrs []string
	for a := range written {
		attrs = append(attrs, a)
	}
	sort.Strings(attrs)
	for _, a := range attrs {
		key := "tree.nni.Apply/" + a
		slot, saved := savedAttr[a]
		rs, isRestored := restored[a]
		switch {
		case !saved:
			c.Violation("RESTORE", key, written[a], "Apply overwrites a "+a+" without saving its previous value in the rearrangement: Undo cannot restore the original tree").Clause = clause
		case !isRestored || rs != slot:
			c.Violation("RESTORE", key, written[a], fmt.Sprintf("Apply overwrites a %s (old value saved in .%s) but Undo does not write it back from there: the tree after Apply+Undo differs from the original", a, slot)).Clause = clause
		default:
			c.OK("RESTORE", key, written[a], "saved in ."+slot+" and restored by Undo")
		}
	}
	// Undo must not write attributes Apply did not touch
	for k := range restored {
		if _, found := written[k]; !found {
			c.Violation("RESTORE", "tree.nni.Undo/"+k, un.Decl.Pos(), "Undo writes a "+k+" which Apply never changed").Clause = clause
		}
	}
}
