package main

import (
	"fmt"
	"go/ast"
	"go/constant"
	"go/token"
	"go/types"
	"sort"
	"strings"
)

func init() { props["C04"] = checkC04 }

func checkC04(c *Ctx) {
	c.Decides("NET: Quartet.HashCode is executed symbolically on all 24 orderings of its four taxa (comparisons are the only operations on them before the final expression): the polynomial returned must be the same for all 24, which is what 'equal (or conflicting) quartets hash equally' needs since HashEquals accepts the whole permutation orbit")
	c.Decides("PRESENT: Quartet.Compare, a pure function of equalities between the 8 fields, is executed on the 24 presentations of a quartet (8 must be EQUALS, 16 CONFLICT) and on a foreign taxon (DIFF); HashEquals is Compare != DIFF")
	c.Decides("SYM: Edge.HashCode executed on the three orderings of (ntaxleft, ntaxright) returns a polynomial invariant under exchanging the two sides (orientation/rooting independence); COMM: per-side hashes and counts are reset then accumulated only with += from the same side of the same neighbouring branch (child-order independence), descending branches contributing their right side and ascending ones their left side")
	c.Decides("SIBLING: SameBipartition, HashEquals and FindEdge decide with EqualOrComplement; hashmap Value/PutValue/rehash use one bucket function of (HashCode, capacity in force) and HashEquals; capacity and table are replaced together; total++ exactly on insertion paths; map state touched only under the lock; ORDER: ReinitIndexes runs UpdateTipIndex < ClearBitSets < UpdateBitSet < ComputeEdgeHashes")
	c.DoesNotDecide("that bitsets equal the actual splits after arbitrary edit histories (UpdateBitSet's recursion), hash-map behaviour over concrete insertion sequences, collision quality")
	c.quartetNet()
	c.quartetCompare()
	c.edgeHashSym()
	c.edgeHashAccumulation()
	c.equalOrComplementSiblings()
	c.hashmapSiblings()
	c.reinitOrder()
	c.hashMapLocks("LOCKSET")
	c.Decides("FRESH: ClearBitSets gives every branch a new bitset of the current tip count, unconditionally (no reuse of a bitset whose width belongs to an earlier tip set)")
	c.freshBitsets("FRESH")
	c.Decides("LOSTWRITE: no loop of hashmap/tree/support stores into the per-iteration copy of a struct-valued range variable without using the copy afterwards (an overwrite of an existing key that only reaches the copy leaves the old value in the table)")
	nl, _ := c.lostWrite("LOSTWRITE", c.AllFuncs("hashmap", "tree", "support"), "the index overwrites entries exactly like a plain map")
	c.Extra["struct_valued_range_loops"] = nl
	if fx := c.Fixture(); fx != nil {
		sub := c.subCtx(fx)
		_, nv := sub.lostWrite("LOSTWRITE", sub.AllFuncs(), "")
		c.Control("LOSTWRITE", nv == 1, "fixture.C04LostWrite stores into the copy of a struct-valued range variable")
	}
	c.Decides("CMP: SortedTips, which assigns the bit positions, orders the tips by a strict comparison of their plain names: two distinct names never tie (a tie would let the traversal order of each tree decide and equal splits would get different bit sets)")
	if fi := c.Func("tree", "Tree", "SortedTips"); fi != nil {
		c.cmpTotal("CMP", []*FuncInfo{fi}, "branches of different trees on the same taxa compare equal exactly when they define the same split")
	}
	c.Floor("CMP", 1)
	c.Decides("HASH-AFTER-CLEAR: every caller of ClearBitSets (which zeroes the branch hash codes too) recomputes the hashes afterwards")
	c.hashAfterClear("HASH-AFTER-CLEAR")
	c.Floor("HASH-AFTER-CLEAR", 2)
	c.Decides("RANK-ALWAYS (go/cfg): UpdateTipIndex reports success only after the loop that stores each tip's rank has been entered (no 'map already in sync' shortcut)")
	c.rankAlways("RANK-ALWAYS", c.Func("tree", "Tree", "UpdateTipIndex"), "bit positions are the ranks of the tips in the sorted name list")
	c.Floor("RANK-ALWAYS", 1)
	c.Decides("REINDEX-LAST (go/cfg): the eleven operations of package tree that edit the structure and refresh the derived data themselves (RerootOutGroup, RerootMidPoint, RemoveTips, Reroot, Resolve, ResolveNamedInternalNodes, RemoveSingleNodes, RemoveEdges, UnRoot, SubTree, Merge) pass a call reaching UpdateBitSet on every path from each of their structural edits to a successful exit")
	c.reindexLast("REINDEX-LAST", reindexLastFuncs, "every branch's recorded split (tip counts on both sides) equals the split obtained by cutting that branch", false)
	for _, nm := range reindexLastFuncs {
		c.Require("REINDEX-LAST/tree.Tree." + nm + "/refresh-after-last-edit")
	}
	c.Decides("REORIENT-REINDEX: every exported method of Tree that re-orients branches (reaches ReorderEdges) also reaches UpdateBitSet, ComputeEdgeHashes and ComputeDepths: the per-side hash codes and tip counts depend on the orientation")
	c.reorientReindex("REORIENT-REINDEX", "every branch's recorded split (tip counts on both sides) equals the split obtained by cutting that branch")
	c.Floor("REORIENT-REINDEX", 3)
	c.Decides("REORIENT-ALWAYS (go/cfg): Reroot and RerootFirst re-orient the branches (a call reaching ReorderEdges) on every successful exit, also when the root pointer is already the node asked for")
	c.reorientAlways("REORIENT-ALWAYS", []*FuncInfo{c.Func("tree", "Tree", "Reroot"), c.Func("tree", "Tree", "RerootFirst")}, "every branch's recorded split (tip counts on both sides) equals the split obtained by cutting that branch")
	c.Floor("REORIENT-ALWAYS", 2)
	c.Floor("LOSTWRITE", 1)
	c.Floor("NET", 1)
	c.Floor("PRESENT", 3)
	c.Floor("SYM", 3)
	c.Floor("COMM", 6)
	c.Floor("SIBLING", 8)
	c.Floor("ORDER", 2)
}

func (c *Ctx) quartetNet() {
	fi := c.Func("tree", "Quartet", "HashCode")
	if fi == nil {
		return
	}
	info := fi.Pkg.TypesInfo
	r := recvObj(info, fi.Decl)
	clause := "equal splits always hash equally ... The same equality/hash agreement holds for quartets"
	fields := []string{"T1", "T2", "T3", "T4"}
	atom := func(f string) string { return r.Name() + "." + f }
	results := map[string][]string{}
	var firstErr error
	for _, pm := range permutations(4) {
		rank := map[string]int{}
		for i, f := range fields {
			rank[atom(f)] = pm[i]
		}
		x := c.newSymExec(info, fi.Decl.Body, rank)
		p, err := x.run(fi.Decl.Body.List)
		if err != nil || p == nil {
			if err == nil {
				err = fmt.Errorf("no return reached")
			}
			firstErr = err
			break
		}
		q := p.rename(func(a string) string {
			if rk, ok := rank[a]; ok {
				return fmt.Sprintf("s%d", rk+1)
			}
			return a
		})
		pres := fmt.Sprintf("(%d,%d|%d,%d)", pm[0]+1, pm[1]+1, pm[2]+1, pm[3]+1)
		results[q.String()] = append(results[q.String()], pres)
	}
	key := "tree.Quartet.HashCode/24-presentations"
	if firstErr != nil {
		c.Undecided("NET", key, fi.Decl.Pos(), "symbolic execution stopped: "+firstErr.Error())
		return
	}
	c.Extra["quartet_presentations"] = 24
	if len(results) == 1 {
		for k := range results {
			c.OK("NET", key, fi.Decl.Pos(), "all 24 presentations of four taxa return "+k)
		}
		return
	}
	var ks []string
	for k, v := range results {
		ks = append(ks, fmt.Sprintf("%s <- %s", k, strings.Join(v[:min(2, len(v))], " ")))
	}
	sort.Strings(ks)
	c.Violation("NET", key, fi.Decl.Pos(), fmt.Sprintf("the 24 presentations of one set of four taxa reach %d different hash polynomials (the compare-exchange network does not sort): %s; HashEquals is true for all of them, so equal quartets land in different buckets", len(results), strings.Join(ks[:min(3, len(ks))], " ; "))).Clause = clause
}

func min(a, b int) int {
	if a < b {
		return a
	}
	return b
}

func (c *Ctx) quartetCompare() {
	fi := c.Func("tree", "Quartet", "Compare")
	he := c.Func("tree", "Quartet", "HashEquals")
	if fi == nil || he == nil {
		return
	}
	info := fi.Pkg.TypesInfo
	r := recvObj(info, fi.Decl)
	q2 := paramObj(info, fi.Decl, 0)
	clause := "Two ... compare equal exactly when they define the same split ... The same equality/hash agreement holds for quartets"
	cval := func(name string) string {
		if o, ok := fi.Pkg.Types.Scope().Lookup(name).(*types.Const); ok {
			if v, ok := constant.Int64Val(o.Val()); ok {
				return fmt.Sprint(v)
			}
		}
		return "?"
	}
	eq, conf, diff := cval("QUARTET_EQUALS"), cval("QUARTET_CONFLICT"), cval("QUARTET_DIFF")
	fields := []string{"T1", "T2", "T3", "T4"}
	run := func(second []int) (string, error) {
		rank := map[string]int{}
		for i, f := range fields {
			rank[r.Name()+"."+f] = i
			rank[q2.Name()+"."+f] = second[i]
		}
		x := c.newSymExec(info, fi.Decl.Body, rank)
		p, err := x.run(fi.Decl.Body.List)
		if err != nil {
			return "", err
		}
		if p == nil {
			return "", fmt.Errorf("no return reached")
		}
		return p.String(), nil
	}
	nEq, nConf, bad := 0, 0, ""
	for _, pm := range permutations(4) {
		got, err := run(pm)
		if err != nil {
			c.Undecided("PRESENT", "tree.Quartet.Compare/24-presentations", fi.Decl.Pos(), "symbolic execution stopped: "+err.Error())
			return
		}
		// pairing kept: {pm[0],pm[1]} == {0,1} or == {2,3}
		same := (pm[0] < 2) == (pm[1] < 2)
		want := conf
		if same {
			want = eq
		}
		if got == eq {
			nEq++
		} else if got == conf {
			nConf++
		}
		if got != want && bad == "" {
			bad = fmt.Sprintf("(1,2|3,4) vs (%d,%d|%d,%d) returns %s, expected %s", pm[0]+1, pm[1]+1, pm[2]+1, pm[3]+1, got, want)
		}
	}
	if bad == "" {
		c.OK("PRESENT", "tree.Quartet.Compare/24-presentations", fi.Decl.Pos(), fmt.Sprintf("%d presentations EQUALS, %d CONFLICT", nEq, nConf))
	} else {
		c.Violation("PRESENT", "tree.Quartet.Compare/24-presentations", fi.Decl.Pos(), "quartet comparison wrong on a presentation: "+bad).Clause = clause
	}
	// a foreign taxon anywhere: DIFF
	badDiff := ""
	for pos := 0; pos < 4; pos++ {
		for _, pm := range permutations(4) {
			second := append([]int{}, pm...)
			second[pos] = 9
			got, err := run(second)
			if err != nil {
				c.Undecided("PRESENT", "tree.Quartet.Compare/foreign-taxon", fi.Decl.Pos(), err.Error())
				return
			}
			if got != diff && badDiff == "" {
				badDiff = fmt.Sprintf("second quartet %v (9 = foreign taxon) returns %s, expected %s", second, got, diff)
			}
		}
	}
	c.Check(badDiff == "", "PRESENT", "tree.Quartet.Compare/foreign-taxon", fi.Decl.Pos(), "96 quartets with one foreign taxon all return DIFF", badDiff).Clause = clause
	// HashEquals == (Compare != DIFF)
	hinfo := he.Pkg.TypesInfo
	ok := false
	ast.Inspect(he.Decl.Body, func(n ast.Node) bool {
		if ret, isr := n.(*ast.ReturnStmt); isr && len(ret.Results) == 1 {
			if be, isb := unparen(ret.Results[0]).(*ast.BinaryExpr); isb && be.Op == token.NEQ {
				l, rr := be.X, be.Y
				if _, isCall := unparen(l).(*ast.CallExpr); !isCall {
					l, rr = rr, l
				}
				if call, isCall := unparen(l).(*ast.CallExpr); isCall && calleeOf(hinfo, call) == fi.Obj {
					if tv, has := hinfo.Types[rr]; has && tv.Value != nil && tv.Value.ExactString() == diff {
						ok = true
					}
				}
			}
		}
		return true
	})
	c.Check(ok, "PRESENT", "tree.Quartet.HashEquals/is-Compare≠DIFF", he.Decl.Pos(), "HashEquals is Compare != QUARTET_DIFF", "Quartet.HashEquals is no longer Compare(...) != QUARTET_DIFF: equality used by the index and the hash no longer refer to the same relation").Clause = clause
}

func (c *Ctx) edgeHashSym() {
	fi := c.Func("tree", "Edge", "HashCode")
	if fi == nil {
		return
	}
	info := fi.Pkg.TypesInfo
	r := recvObj(info, fi.Decl)
	clause := "equal splits always hash equally regardless of rooting, branch orientation or child order"
	nl, nr := r.Name()+".ntaxleft", r.Name()+".ntaxright"
	hl, hr := r.Name()+".hashcodeleft", r.Name()+".hashcoderight"
	swap := func(a string) string {
		switch a {
		case hl:
			return hr
		case hr:
			return hl
		case nl:
			return nr
		case nr:
			return nl
		}
		return a
	}
	run := func(l, rr int) (*poly, error) {
		x := c.newSymExec(info, fi.Decl.Body, map[string]int{nl: l, nr: rr})
		p, err := x.run(fi.Decl.Body.List)
		if err == nil && p == nil {
			err = fmt.Errorf("no return reached")
		}
		return p, err
	}
	lt, e1 := run(0, 1)
	gt, e2 := run(1, 0)
	eq, e3 := run(0, 0)
	for _, e := range []error{e1, e2, e3} {
		if e != nil {
			c.Undecided("SYM", "tree.Edge.HashCode/side-exchange", fi.Decl.Pos(), "symbolic execution stopped: "+e.Error())
			return
		}
	}
	c.Check(eq.rename(swap).equal(eq), "SYM", "tree.Edge.HashCode/balanced", fi.Decl.Pos(), "equal tip counts: "+eq.String()+" is symmetric in the two sides",
		"for a balanced split (same number of tips on both sides) the hash is "+eq.String()+", which changes when the branch is seen from the other side ("+eq.rename(swap).String()+"): the same split hashes differently depending on where the tree is rooted").Clause = clause
	c.Check(lt.rename(swap).equal(gt), "SYM", "tree.Edge.HashCode/unbalanced", fi.Decl.Pos(), "left lighter: "+lt.String()+"; right lighter: "+gt.String()+" (mirror images)",
		"with the lighter side on the left the hash is "+lt.String()+", with the same split oriented the other way it is "+gt.String()+" instead of "+lt.rename(swap).String()).Clause = clause
	// the hash only depends on the side data
	for _, p := range []*poly{lt, gt, eq} {
		for _, a := range p.atoms() {
			if a != hl && a != hr {
				c.Violation("SYM", "tree.Edge.HashCode/inputs", fi.Decl.Pos(), "the hash depends on "+a+", which is not a per-side taxon hash").Clause = clause
				return
			}
		}
	}
	c.OK("SYM", "tree.Edge.HashCode/inputs", fi.Decl.Pos(), "depends only on the two per-side taxon hashes")
}

func (c *Ctx) edgeHashAccumulation() {
	clause := "equal splits always hash equally regardless of rooting, branch orientation or child order"
	side := func(f string) (kind, sd string) {
		switch f {
		case "hashcodeleft":
			return "hash", "left"
		case "hashcoderight":
			return "hash", "right"
		case "ntaxleft":
			return "ntax", "left"
		case "ntaxright":
			return "ntax", "right"
		}
		return "", ""
	}
	for _, spec := range []struct{ fn, writes string }{{"computeEdgeHashesRightRecur", "right"}, {"computeEdgeHashesLeftRecur", "left"}} {
		fi := c.Func("tree", "Tree", spec.fn)
		if fi == nil {
			continue
		}
		info := fi.Pkg.TypesInfo
		o := c.localExpansions(info, fi.Decl.Body)
		name := "tree.Tree." + spec.fn
		eParam := paramObj(info, fi.Decl, 2)
		type acc struct {
			st       fieldStore
			src, sd  string
			kind     string
			condKeys string
		}
		var accs []acc
		resets := map[string]token.Pos{}
		for _, st := range c.fieldStores(info, fi.Decl.Body, o) {
			kind, sd := side(st.field.Name())
			if kind == "" {
				continue
			}
			if identObj(info, st.recvE) != eParam {
				c.Violation("COMM", name+"/"+st.recv+"."+st.field.Name(), st.pos, "writes the side data of a branch other than the one being computed").Clause = clause
				continue
			}
			if sd != spec.writes {
				c.Violation("COMM", name+"/"+st.field.Name(), st.pos, spec.fn+" must only write the "+spec.writes+" side").Clause = clause
				continue
			}
			switch st.op {
			case token.ASSIGN:
				if tv, ok := info.Types[st.rhs]; ok && tv.Value != nil && constant.Sign(tv.Value) == 0 {
					resets[kind] = st.pos
				} else if cl, ok := unparen(st.rhs).(*ast.CallExpr); ok && isRepoFunc(calleeOf(info, cl), "tree", "", "tax_hash") {
					c.OK("COMM", name+"/tip-hash", st.pos, "a tip contributes the hash of its own name")
				} else {
					c.Violation("COMM", name+"/"+st.field.Name()+"=", st.pos, "side data assigned from "+c.src(st.rhs)+": only a reset to 0, the tip's own name hash, or += accumulation keep the value independent of child order").Clause = clause
				}
			case token.ADD_ASSIGN:
				if st.rhs == nil { // ntax++ for a tip
					c.OK("COMM", name+"/tip-count", st.pos, "a tip counts for one")
					continue
				}
				fv, x := fieldOfSel(info, st.rhs)
				if fv == nil {
					c.Violation("COMM", name+"/"+st.field.Name()+"+=", st.pos, "accumulates "+c.src(st.rhs)+", not the side data of a neighbouring branch").Clause = clause
					continue
				}
				k2, s2 := side(fv.Name())
				if k2 != kind {
					c.Violation("COMM", name+"/"+st.field.Name()+"+=", st.pos, "accumulates "+fv.Name()+" into "+st.field.Name()+": hash and count mixed up").Clause = clause
					continue
				}
				conds, _ := c.pathConds(info, fi.Decl.Body, st.node, true)
				var ck []string
				for _, cd := range conds {
					if cd.Expr != nil {
						k := c.canon(info, cd.Expr, o)
						if cd.Neg {
							k = "not" + k
						} else {
							k = "pos" + k
						}
						ck = append(ck, k)
					} else if cd.Tag != nil {
						// `switch n { case x: }` reads as n == x
						for _, v := range cd.Vals {
							k := "(" + c.canon(info, cd.Tag, o) + " == " + c.canon(info, v, o) + ")"
							if cd.Neg {
								k = "not" + k
							} else {
								k = "pos" + k
							}
							ck = append(ck, k)
						}
					}
				}
				accs = append(accs, acc{st, c.canon(info, x, o), s2, kind, strings.Join(ck, " && ")})
			default:
				c.Violation("COMM", name+"/"+st.field.Name(), st.pos, "side data combined with "+st.op.String()+": not a commutative accumulation").Clause = clause
			}
		}
		for _, k := range []string{"hash", "ntax"} {
			if p, ok := resets[k]; ok {
				// the reset comes first in source order and sits at the top level of the e != nil guard
				first := true
				for _, a := range accs {
					if a.kind == k && a.st.pos < p {
						first = false
					}
				}
				c.Check(first, "COMM", name+"/reset-"+k, p, "reset to 0 before accumulation", "the "+k+" accumulator is reset after an accumulation").Clause = clause
			} else {
				c.Violation("COMM", name+"/reset-"+k, fi.Decl.Pos(), "the "+k+" of the "+spec.writes+" side is never reset before accumulation: recomputing indexes adds to stale values").Clause = "Once indexes have been (re)computed"
			}
		}
		// accumulations come in (hash, ntax) pairs reading the same side of the same branch under the same guard
		byGuard := map[string][]acc{}
		for _, a := range accs {
			byGuard[a.condKeys+"|"+a.src] = append(byGuard[a.condKeys+"|"+a.src], a)
		}
		var gks []string
		for k := range byGuard {
			gks = append(gks, k)
		}
		sort.Strings(gks)
		for i, gk := range gks {
			g := byGuard[gk]
			key := fmt.Sprintf("%s/accumulate#%d", name, i+1)
			okPair := len(g) == 2 && g[0].kind != g[1].kind && g[0].sd == g[1].sd
			if !okPair {
				c.Violation("COMM", key, g[0].st.pos, "hash and count are not accumulated together from the same side of "+g[0].src+" (they would describe different tip sets)").Clause = clause
				continue
			}
			// which side must be read
			want := ""
			switch {
			case spec.writes == "right":
				want = "right" // children contribute what is below them
			case posCondHas(gk, g[0].src+".right"):
				want = "right" // descending sibling branch
			case posCondHas(gk, g[0].src+".left"):
				want = "left" // ascending branch: everything above it
			}
			if want == "" {
				c.Undecided("COMM", key, g[0].st.pos, "cannot tell from the guard ("+gk+") whether the neighbouring branch is descending or ascending")
				continue
			}
			c.Check(g[0].sd == want, "COMM", key, g[0].st.pos, "adds the "+want+" side of "+g[0].src, "adds the "+g[0].sd+" side of "+g[0].src+" where the tips on the far end of that branch are its "+want+" side: counts/hashes no longer describe the split").Clause = "every branch's recorded split (tip counts on both sides) equals the split obtained by cutting that branch"
		}
		if len(gks) == 0 {
			c.Violation("COMM", name+"/accumulate", fi.Decl.Pos(), "no accumulation from neighbouring branches found").Clause = clause
		}
	}
}

func (c *Ctx) equalOrComplementSiblings() {
	clause := "Two branches ... compare equal exactly when they define the same split"
	for _, n := range []string{"SameBipartition", "HashEquals", "FindEdge"} {
		fi := c.Func("tree", "Edge", n)
		if fi == nil {
			continue
		}
		info := fi.Pkg.TypesInfo
		found, other := false, ""
		for _, call := range callsIn(fi.Decl.Body, true) {
			fn := calleeOf(info, call)
			if fn == nil || fn.Pkg() == nil || !strings.HasSuffix(fn.Pkg().Path(), "/bitset") {
				continue
			}
			switch fn.Name() {
			case "EqualOrComplement":
				found = true
			case "Equal":
				other = fn.Name()
			}
		}
		c.Check(found && other == "", "SIBLING", "tree.Edge."+n+"/EqualOrComplement", fi.Decl.Pos(), "decides with EqualOrComplement", "tree.Edge."+n+" does not decide equality with bitset.EqualOrComplement (found "+other+"): the same split seen from the other side compares different").Clause = clause
		// the two equality predicates decide on split data alone: every constant `false` they return is
		// guarded by conditions on hash codes or bit sets (not on what kind of node hangs below: a tip
		// branch and the inner root branch next to it carry the same split in a rooted tree)
		if n != "FindEdge" {
			nret := 0
			ast.Inspect(fi.Decl.Body, func(m ast.Node) bool {
				r, ok := m.(*ast.ReturnStmt)
				if !ok || len(r.Results) != 1 {
					return true
				}
				tv, isC := info.Types[r.Results[0]]
				if !isC || tv.Value == nil || tv.Value.String() != "false" {
					return true
				}
				nret++
				conds, okc := c.pathConds(info, fi.Decl.Body, r, false)
				good := okc
				var off string
				for _, cd := range conds {
					if cd.Expr == nil {
						good, off = false, "switch"
						continue
					}
					k := c.canon(info, cd.Expr, nil)
					if !strings.Contains(k, "HashCode()") && !strings.Contains(k, "bitset") && !strings.Contains(k, "hashcode") {
						good, off = false, c.src(cd.Expr)
					}
				}
				c.Check(good, "SIBLING", fmt.Sprintf("tree.Edge.%s/rejects-on-split-data#%d", n, nret), r.Pos(), "`return false` only under conditions on hash codes / bit sets", "tree.Edge."+n+" returns false under `"+off+"`, a condition that is not about the split (hash code, bit set): two branches that carry the same split but differ in that respect (a tip branch and the inner root branch beside it) compare different").Clause = clause
				return true
			})
		}
		// a hash pre-test may only reject: `if a.HashCode() != b.HashCode() { return false / continue }`
		ast.Inspect(fi.Decl.Body, func(m ast.Node) bool {
			is, ok := m.(*ast.IfStmt)
			if !ok {
				return true
			}
			if !strings.Contains(c.canon(info, is.Cond, nil), "HashCode()") {
				return true
			}
			// the condition is a disjunction; the disjunct comparing the two hash codes must be `!=`
			var disj []ast.Expr
			var split func(e ast.Expr)
			split = func(e ast.Expr) {
				if b, ok := unparen(e).(*ast.BinaryExpr); ok && b.Op == token.LOR {
					split(b.X)
					split(b.Y)
					return
				}
				disj = append(disj, unparen(e))
			}
			split(is.Cond)
			good := is.Else == nil && c.leaves(info, is.Body.List)
			for _, d := range disj {
				if !strings.Contains(c.canon(info, d, nil), "HashCode()") {
					continue
				}
				if b, ok := d.(*ast.BinaryExpr); !ok || b.Op != token.NEQ {
					good = false
				}
			}
			c.Check(good, "SIBLING", "tree.Edge."+n+"/hash-pretest", is.Pos(), "differing hashes only reject", "hash pre-test in "+n+" is not of the form `if ... || h1 != h2 { reject }`").Clause = clause
			return true
		})
	}
}

func (c *Ctx) hashmapSiblings() {
	clause := "a split-keyed index finds, counts and overwrites entries exactly like a plain map through any number of insertions and resizes"
	idx := c.Func("hashmap", "", "indexFor")
	val := c.Func("hashmap", "HashMap", "Value")
	put := c.Func("hashmap", "HashMap", "PutValue")
	reh := c.Func("hashmap", "HashMap", "rehash")
	if idx == nil || val == nil || put == nil || reh == nil {
		return
	}
	info := val.Pkg.TypesInfo
	// a method and the unexported methods of the same type it calls (the bucket search may be shared)
	unitsOf := func(fi *FuncInfo) []*FuncInfo {
		out := []*FuncInfo{fi}
		seen := map[*types.Func]bool{fi.Obj: true}
		for i := 0; i < len(out) && len(out) < 6; i++ {
			for _, call := range callsIn(out[i].Decl.Body, true) {
				g := calleeOf(info, call)
				if g == nil || seen[g] || g.Exported() || g.Pkg() != fi.Obj.Pkg() || g == idx.Obj || g == reh.Obj {
					continue
				}
				if gi := c.FuncOfObj(g); gi != nil && gi.Decl.Body != nil {
					seen[g] = true
					out = append(out, gi)
				}
			}
		}
		return out
	}
	// bucket computations
	for _, fi0 := range []*FuncInfo{val, put, reh} {
		name := funcName(fi0.Obj)
		n := 0
		for _, fi := range unitsOf(fi0) {
			r := recvObj(info, fi.Decl)
			if r == nil {
				continue // a plain helper function (bucket search): it has no table of its own
			}
			for _, call := range callsIn(fi.Decl.Body, true) {
				if calleeOf(info, call) != idx.Obj || len(call.Args) != 2 {
					continue
				}
				n++
				// first argument: <key>.HashCode()
				okHash := false
				if hc, ok := unparen(call.Args[0]).(*ast.CallExpr); ok {
					if fn := calleeOf(info, hc); fn != nil && fn.Name() == "HashCode" {
						okHash = true
					}
				}
				// second: the capacity in force: r.capacity, or a local that this function stores into r.capacity
				capKey := c.canon(info, call.Args[1], nil)
				okCap := capKey == r.Name()+".capacity"
				if !okCap {
					if lo := identObj(info, call.Args[1]); lo != nil {
						storesCap, tableSized := false, false
						for _, st := range c.fieldStores(info, fi.Decl.Body, nil) {
							if st.field.Name() == "capacity" && identObj(info, st.recvE) == r && identObj(info, st.rhs) == lo {
								storesCap = true
							}
							if st.field.Name() == "mapArray" && identObj(info, st.recvE) == r && !st.elem {
								// the new table was made with that size
								if to := identObj(info, st.rhs); to != nil {
									ast.Inspect(fi.Decl.Body, func(m ast.Node) bool {
										if as, ok := m.(*ast.AssignStmt); ok && len(as.Lhs) == 1 && identObj(info, as.Lhs[0]) == to && len(as.Rhs) == 1 {
											if mk, ok := unparen(as.Rhs[0]).(*ast.CallExpr); ok && len(mk.Args) == 2 && identObj(info, mk.Args[1]) == lo {
												tableSized = true
											}
										}
										return true
									})
								}
							}
						}
						okCap = storesCap && tableSized
					}
				}
				c.Check(okHash && okCap, "SIBLING", fmt.Sprintf("%s/bucket#%d", name, n), call.Pos(), "bucket = indexFor(key.HashCode(), capacity in force)",
					"bucket computed as "+c.src(call)+": not indexFor(key.HashCode(), capacity in force) — look-up, insertion and resize would disagree on where a key lives").Clause = clause
			}
		}
		if n == 0 {
			c.Violation("SIBLING", name+"/bucket", fi0.Decl.Pos(), name+" does not compute its bucket with indexFor: look-up, insertion and resize disagree on where a key lives").Clause = clause
		}
		// any other indexing of mapArray must use a value obtained from indexFor or a range over the table
	}
	// equality through HashEquals in Value and PutValue
	for _, fi := range []*FuncInfo{val, put} {
		found := false
		for _, u := range unitsOf(fi) {
			for _, call := range callsIn(u.Decl.Body, true) {
				if fn := calleeOf(info, call); fn != nil && fn.Name() == "HashEquals" {
					found = true
				}
			}
		}
		c.Check(found, "SIBLING", funcName(fi.Obj)+"/HashEquals", fi.Decl.Pos(), "keys compared with HashEquals", funcName(fi.Obj)+" does not compare keys with HashEquals").Clause = clause
	}
	// rehash: capacity and table stored together
	r := recvObj(info, reh.Decl)
	var capSt, tabSt *fieldStore
	sts := c.fieldStores(info, reh.Decl.Body, nil)
	for i := range sts {
		st := &sts[i]
		if identObj(info, st.recvE) != r || st.elem {
			continue
		}
		switch st.field.Name() {
		case "capacity":
			capSt = st
		case "mapArray":
			tabSt = st
		}
	}
	okTogether := capSt != nil && tabSt != nil
	if okTogether {
		a, _ := c.pathConds(info, reh.Decl.Body, capSt.node, false)
		b, _ := c.pathConds(info, reh.Decl.Body, tabSt.node, false)
		okTogether = len(a) == len(b)
		for i := range a {
			if okTogether && a[i].Expr != b[i].Expr {
				okTogether = false
			}
		}
	}
	c.Check(okTogether, "SIBLING", "hashmap.HashMap.rehash/capacity+table", reh.Decl.Pos(), "capacity and table replaced under the same condition", "rehash does not replace capacity and table together: later look-ups index the table with the wrong capacity").Clause = clause
	// the new capacity doubles (keeps capacity-1 a mask when it was one): LF
	// total++ exactly on insertion paths of PutValue
	pr := recvObj(info, put.Decl)
	fg := c.cfgOf(info, put.Decl.Body)
	isInc := func(n ast.Node) bool {
		s, ok := n.(*ast.IncDecStmt)
		if !ok || s.Tok != token.INC {
			return false
		}
		fv, x := fieldOfSel(info, s.X)
		return fv != nil && fv.Name() == "total" && identObj(info, x) == pr
	}
	nIns := 0
	ast.Inspect(put.Decl.Body, func(m ast.Node) bool {
		as, ok := m.(*ast.AssignStmt)
		if !ok {
			return true
		}
		hasKV := false
		ast.Inspect(as, func(k ast.Node) bool {
			if cl, ok := k.(*ast.CompositeLit); ok {
				if t := info.TypeOf(cl); t != nil && strings.HasSuffix(t.String(), "hashmap.KeyValue") {
					hasKV = true
				}
			}
			return true
		})
		if hasKV {
			nIns++
			res := mustPass(fg, as.Pos(), isInc, nil)
			c.Check(res.ok, "SIBLING", fmt.Sprintf("hashmap.HashMap.PutValue/insert#%d→total++", nIns), as.Pos(), "every insertion is counted", "an insertion path does not increment total: the table never grows / Keys() is too short").Clause = clause
			return true
		}
		// overwrite: kv.Value = value
		if len(as.Lhs) == 1 {
			if sel, ok := unparen(as.Lhs[0]).(*ast.SelectorExpr); ok && sel.Sel.Name == "Value" {
				res := reachesNode(fg, as.Pos(), isInc)
				c.Check(!res, "SIBLING", "hashmap.HashMap.PutValue/overwrite↛total++", as.Pos(), "an overwrite is not counted as an insertion", "overwriting an existing key also increments total: the count drifts from the number of keys").Clause = clause
			}
		}
		return true
	})
	if nIns == 0 {
		c.Undecided("SIBLING", "hashmap.HashMap.PutValue/insert", put.Decl.Pos(), "no insertion of a KeyValue found")
	}
}

func (c *Ctx) reinitOrder() {
	clause := "Once indexes have been (re)computed, every branch's recorded split equals the split obtained by cutting that branch in the actual tree"
	for _, spec := range []struct {
		fn    string
		order []string
	}{
		{"ReinitIndexes", []string{"UpdateTipIndex", "ClearBitSets", "UpdateBitSet", "ComputeEdgeHashes"}},
		{"ReinitInternalIndexes", []string{"ClearBitSets", "UpdateBitSet", "ComputeEdgeHashes"}},
	} {
		fi := c.Func("tree", "Tree", spec.fn)
		if fi == nil {
			continue
		}
		info := fi.Pkg.TypesInfo
		var seq []string
		pos := map[string]token.Pos{}
		for _, call := range callsIn(fi.Decl.Body, false) {
			if fn := calleeOf(info, call); fn != nil && inRepo(fn) {
				for _, w := range spec.order {
					if fn.Name() == w {
						seq = append(seq, w)
						pos[w] = call.Pos()
					}
				}
			}
		}
		good := len(seq) == len(spec.order)
		for i := range spec.order {
			if good && seq[i] != spec.order[i] {
				good = false
			}
		}
		// each step reached on every success path: the later step's call is only skipped by an error return
		if good {
			fg := c.cfgOf(info, fi.Decl.Body)
			for i := 0; i+1 < len(spec.order); i++ {
				next := spec.order[i+1]
				res := mustPass(fg, pos[spec.order[i]], func(n ast.Node) bool {
					return containsCall(info, n, func(cl *ast.CallExpr, fn *types.Func) bool { return fn != nil && fn.Name() == next && inRepo(fn) })
				}, func(ret *ast.ReturnStmt) bool {
					// an exit right after a failing step is an error exit
					if ret == nil {
						return true
					}
					conds, _ := c.pathConds(info, fi.Decl.Body, ret, false)
					for _, cd := range conds {
						if cd.Expr != nil && !cd.Neg && errGuard(info, cd.Expr) {
							return false
						}
					}
					return true
				})
				if !res.ok {
					good = false
				}
			}
		}
		c.Check(good, "ORDER", "tree.Tree."+spec.fn, fi.Decl.Pos(), strings.Join(spec.order, " < "), "index rebuild steps are "+strings.Join(seq, ", ")+"; required on every success path, in this order: "+strings.Join(spec.order, " < ")+" (bit positions and bitset width come from the tip ranking, hashes from the orientation)").Clause = clause
	}
}

// posCondHas: one of the positive conjuncts of the guard key is an equality mentioning term.
func posCondHas(gk, term string) bool {
	gk = strings.SplitN(gk, "|", 2)[0]
	for _, k := range strings.Split(gk, " && ") {
		if strings.HasPrefix(k, "pos(") && strings.Contains(k, " == ") && (strings.Contains(k, term+")") || strings.Contains(k, term+" ")) {
			return true
		}
	}
	return false
}
