package main

import (
	"go/ast"
	"go/token"
	"go/types"
)

// fieldStore is one write to a struct field: through a trivial setter `X.SetF(v)` or directly
// `X.f = v` / `X.f op= v` / `X.f[i] = v` (elem=true).
type fieldStore struct {
	node  ast.Node // the call or the assignment
	pos   token.Pos
	field *types.Var
	recvE ast.Expr // X
	recv  string   // canon(X)
	rhs   ast.Expr
	op    token.Token // ASSIGN, ADD_ASSIGN ...; ASSIGN for setters
	elem  bool        // store into an element of the field (slice/map)
	idx   ast.Expr    // the index for elem stores
}

// fieldOfSel resolves `X.f` to the field variable.
func fieldOfSel(info *types.Info, e ast.Expr) (*types.Var, ast.Expr) {
	sel, ok := unparen(e).(*ast.SelectorExpr)
	if !ok {
		return nil, nil
	}
	if s, ok := info.Selections[sel]; ok && s.Kind() == types.FieldVal {
		if fv, ok := s.Obj().(*types.Var); ok {
			return fv, sel.X
		}
	}
	return nil, nil
}

// fieldStores lists every write to a field of a repository struct inside body (function literals
// included), in source order.
func (c *Ctx) fieldStores(info *types.Info, body ast.Node, o *canonOpts) []fieldStore {
	c.indexAccessors()
	var out []fieldStore
	ast.Inspect(body, func(n ast.Node) bool {
		switch s := n.(type) {
		case *ast.CallExpr:
			fn := calleeOf(info, s)
			if fn == nil {
				return true
			}
			if fv, ok := c.setters[fn]; ok && len(s.Args) == 1 {
				if sel, ok := unparen(s.Fun).(*ast.SelectorExpr); ok {
					out = append(out, fieldStore{node: s, pos: s.Pos(), field: fv, recvE: sel.X, recv: c.canon(info, sel.X, o), rhs: s.Args[0], op: token.ASSIGN})
				}
			}
		case *ast.AssignStmt:
			for i, l := range s.Lhs {
				var rhs ast.Expr
				if len(s.Rhs) == len(s.Lhs) {
					rhs = s.Rhs[i]
				} else if len(s.Rhs) == 1 {
					rhs = s.Rhs[0]
				}
				if fv, x := fieldOfSel(info, l); fv != nil && inRepoObj(fv) {
					out = append(out, fieldStore{node: s, pos: s.Pos(), field: fv, recvE: x, recv: c.canon(info, x, o), rhs: rhs, op: s.Tok})
					continue
				}
				if ix, ok := unparen(l).(*ast.IndexExpr); ok {
					if fv, x := fieldOfSel(info, ix.X); fv != nil && inRepoObj(fv) {
						out = append(out, fieldStore{node: s, pos: s.Pos(), field: fv, recvE: x, recv: c.canon(info, x, o), rhs: rhs, op: s.Tok, elem: true, idx: ix.Index})
					}
				}
			}
		case *ast.IncDecStmt:
			if fv, x := fieldOfSel(info, s.X); fv != nil && inRepoObj(fv) {
				op := token.ADD_ASSIGN
				if s.Tok == token.DEC {
					op = token.SUB_ASSIGN
				}
				out = append(out, fieldStore{node: s, pos: s.Pos(), field: fv, recvE: x, recv: c.canon(info, x, o), op: op})
			}
		}
		return true
	})
	return out
}

// structFields lists the fields of the named struct type pkgRel.name.
func (c *Ctx) structFields(pkgRel, name string) []*types.Var {
	p := c.Pkg(pkgRel)
	if p == nil {
		return nil
	}
	obj := p.Types.Scope().Lookup(name)
	if obj == nil {
		return nil
	}
	st, ok := obj.Type().Underlying().(*types.Struct)
	if !ok {
		return nil
	}
	var out []*types.Var
	for i := 0; i < st.NumFields(); i++ {
		out = append(out, st.Field(i))
	}
	return out
}

func isRefType(t types.Type) bool {
	switch t.Underlying().(type) {
	case *types.Slice, *types.Map, *types.Pointer, *types.Chan:
		return true
	}
	return false
}

// mentionsExpr: canon of some sub-expression of n equals key.
func (c *Ctx) mentionsCanon(info *types.Info, n ast.Node, o *canonOpts, key string) bool {
	found := false
	ast.Inspect(n, func(m ast.Node) bool {
		if found {
			return false
		}
		if e, ok := m.(ast.Expr); ok {
			if c.canon(info, e, o) == key {
				found = true
				return false
			}
		}
		return true
	})
	return found
}
