package main

import (
	"fmt"
	"go/ast"
	"go/token"
	"go/types"
	"strings"
)

// CONTRA-IDX / CONTRA-NIL — the code contradicts its own guard (Engler's "beliefs").

// lenTestAllows: can the condition `len(V) op K` be true for some length n in [0, c] ?
func lenTestAllows(op token.Token, k int64, c int64) bool {
	for n := int64(0); n <= c; n++ {
		var t bool
		switch op {
		case token.NEQ:
			t = n != k
		case token.EQL:
			t = n == k
		case token.LSS:
			t = n < k
		case token.LEQ:
			t = n <= k
		case token.GTR:
			t = n > k
		case token.GEQ:
			t = n >= k
		}
		if t {
			return true
		}
	}
	return false
}

// lenTest: cond is `len(V) op K` (either operand order); returns V's object.
func lenTest(info *types.Info, e ast.Expr) (types.Object, token.Token, int64, bool) {
	be, ok := unparen(e).(*ast.BinaryExpr)
	if !ok {
		return nil, 0, 0, false
	}
	l, r, op := be.X, be.Y, be.Op
	flip := map[token.Token]token.Token{token.LSS: token.GTR, token.GTR: token.LSS, token.LEQ: token.GEQ, token.GEQ: token.LEQ, token.EQL: token.EQL, token.NEQ: token.NEQ}
	if _, isCall := unparen(l).(*ast.CallExpr); !isCall {
		l, r = r, l
		op = flip[op]
	}
	call, ok := unparen(l).(*ast.CallExpr)
	if !ok || len(call.Args) != 1 {
		return nil, 0, 0, false
	}
	if id, ok := call.Fun.(*ast.Ident); !ok || id.Name != "len" {
		return nil, 0, 0, false
	}
	k, ok := intConstOf(info, r)
	if !ok {
		return nil, 0, 0, false
	}
	o := identObj(info, call.Args[0])
	if o == nil {
		return nil, 0, 0, false
	}
	if _, ok := flip[op]; !ok {
		return nil, 0, 0, false
	}
	return o, op, k, true
}

// constIndexOf: e is V[c] or []T(V)[c] with c a constant; returns V and c.
func constIndexOf(info *types.Info, ix *ast.IndexExpr) (types.Object, int64, bool) {
	c, ok := intConstOf(info, ix.Index)
	if !ok {
		return nil, 0, false
	}
	base := unparen(ix.X)
	if call, ok := base.(*ast.CallExpr); ok && len(call.Args) == 1 {
		if tv, ok := info.Types[call.Fun]; ok && tv.IsType() {
			base = unparen(call.Args[0])
		}
	}
	o := identObj(info, base)
	if o == nil {
		return nil, 0, false
	}
	if _, isMap := o.Type().Underlying().(*types.Map); isMap {
		return nil, 0, false
	}
	return o, c, true
}

// contraIdx1: an index V[c] follows, in the same statement list, a length test on V whose TRUE
// outcome allows len(V) <= c and whose body neither leaves nor reassigns V.
func (c *Ctx) contraIdx1(rule string, info *types.Info, owner string, body *ast.BlockStmt, clause string) int {
	n := 0
	var lists [][]ast.Stmt
	ast.Inspect(body, func(m ast.Node) bool {
		switch x := m.(type) {
		case *ast.BlockStmt:
			lists = append(lists, x.List)
		case *ast.CaseClause:
			lists = append(lists, x.Body)
		}
		return true
	})
	seen := map[token.Pos]bool{}
	for _, list := range lists {
		for i, s := range list {
			is, ok := s.(*ast.IfStmt)
			if !ok || is.Else != nil {
				continue
			}
			v, op, k, ok := lenTest(info, is.Cond)
			if !ok || c.leaves(info, is.Body.List) || assignedObjs(info, is.Body)[v] {
				continue
			}
			// later statements of the same list, until V is reassigned or re-tested by a leaving guard
			for _, t := range list[i+1:] {
				if is2, ok := t.(*ast.IfStmt); ok {
					if v2, _, _, ok := lenTest(info, is2.Cond); ok && v2 == v && c.leaves(info, is2.Body.List) {
						break
					}
				}
				stop := false
				ast.Inspect(t, func(m ast.Node) bool {
					ix, ok := m.(*ast.IndexExpr)
					if !ok || seen[ix.Pos()] {
						return true
					}
					vo, cidx, ok := constIndexOf(info, ix)
					if !ok || vo != v {
						return true
					}
					// not itself under a guard on len(V)
					conds, _ := c.pathConds(info, &ast.BlockStmt{List: list, Lbrace: list[0].Pos(), Rbrace: list[len(list)-1].End()}, ix, false)
					for _, cd := range conds {
						if cd.Expr != nil {
							if v3, _, _, ok := lenTest(info, cd.Expr); ok && v3 == v {
								return true
							}
						}
					}
					if lenTestAllows(op, k, cidx) {
						seen[ix.Pos()] = true
						n++
						_, ln := c.pos(is.Pos())
						c.Violation(rule, fmt.Sprintf("%s/%s[%d]-after-len-test", owner, v.Name(), cidx), ix.Pos(), fmt.Sprintf("%s is indexed at %d although the length test at line %d (`%s`) shows the function itself expects other lengths, and its body does not leave: a shorter value (e.g. the empty literal at end of input) panics with index out of range", v.Name(), cidx, ln, c.src(is.Cond))).Clause = clause
					}
					return true
				})
				if assignedObjs(info, t)[v] {
					stop = true
				}
				if stop {
					break
				}
			}
		}
	}
	return n
}

// contraIdx2: in a loop guarded by `i >= c` (or `i > c`), i is decremented and then used as an index
// before being tested again; the interval after the decrement reaches below 0.
func (c *Ctx) contraIdx2(rule string, info *types.Info, owner string, body *ast.BlockStmt, clause string) int {
	n := 0
	ast.Inspect(body, func(m ast.Node) bool {
		f, ok := m.(*ast.ForStmt)
		if !ok || f.Cond == nil {
			return true
		}
		var conj []ast.Expr
		var split func(e ast.Expr)
		split = func(e ast.Expr) {
			if be, ok := unparen(e).(*ast.BinaryExpr); ok && be.Op == token.LAND {
				split(be.X)
				split(be.Y)
				return
			}
			conj = append(conj, unparen(e))
		}
		split(f.Cond)
		for _, e := range conj {
			be, ok := e.(*ast.BinaryExpr)
			if !ok {
				continue
			}
			o := identObj(info, be.X)
			k, okk := intConstOf(info, be.Y)
			if o == nil || !okk || !isIntType(info, be.X) {
				continue
			}
			var lb int64
			switch be.Op {
			case token.GEQ:
				lb = k
			case token.GTR:
				lb = k + 1
			default:
				continue
			}
			// after the loop: the guard may have failed on this very conjunct, leaving the counter
			// one step past the bound (only when the body moves it down)
			decrements := false
			for _, s := range f.Body.List {
				if x, ok := s.(*ast.IncDecStmt); ok && identObj(info, x.X) == o && x.Tok == token.DEC {
					decrements = true
				}
			}
			if decrements && lb-1 < 0 {
				if st := stackTo(body, f); len(st) >= 2 {
					var list []ast.Stmt
					switch b := st[len(st)-2].(type) {
					case *ast.BlockStmt:
						list = b.List
					case *ast.CaseClause:
						list = b.Body
					}
					after := false
					for _, s := range list {
						if s == ast.Stmt(f) {
							after = true
							continue
						}
						if !after {
							continue
						}
						if is, ok := s.(*ast.IfStmt); ok && mentions(info, is.Cond, o) {
							break // re-tested
						}
						if assignedObjs(info, s)[o] {
							break
						}
						stop := false
						ast.Inspect(s, func(q ast.Node) bool {
							ix, ok := q.(*ast.IndexExpr)
							if !ok || identObj(info, ix.Index) != o {
								return true
							}
							if _, isMap := info.TypeOf(ix.X).Underlying().(*types.Map); isMap {
								return true
							}
							n++
							stop = true
							c.Violation(rule, fmt.Sprintf("%s/%s[%s]-after-loop", owner, c.src(ix.X), o.Name()), ix.Pos(), fmt.Sprintf("the loop above stops when `%s` fails, i.e. possibly with %s == %d, and `%s[%s]` is evaluated right after it without another test: index out of range (e.g. on a line made only of blanks)", c.src(e), o.Name(), lb-1, c.src(ix.X), o.Name())).Clause = clause
							return false
						})
						if stop {
							break
						}
					}
				}
			}
			known := true
			for _, s := range f.Body.List {
				if !known {
					break
				}
				switch x := s.(type) {
				case *ast.IncDecStmt:
					if identObj(info, x.X) == o {
						if x.Tok == token.DEC {
							lb--
						} else {
							lb++
						}
						continue
					}
				case *ast.IfStmt:
					// `if i < 0 { leave }` restores the bound
					if be2, ok := unparen(x.Cond).(*ast.BinaryExpr); ok && identObj(info, be2.X) == o && c.leaves(info, x.Body.List) {
						if k2, ok := intConstOf(info, be2.Y); ok {
							switch be2.Op {
							case token.LSS:
								if lb < k2 {
									lb = k2
								}
							case token.LEQ:
								if lb < k2+1 {
									lb = k2 + 1
								}
							}
						}
						continue
					}
				}
				if assignedObjs(info, s)[o] {
					known = false
					continue
				}
				if lb < 0 {
					ast.Inspect(s, func(q ast.Node) bool {
						ix, ok := q.(*ast.IndexExpr)
						if !ok || identObj(info, ix.Index) != o {
							return true
						}
						if _, isMap := info.TypeOf(ix.X).Underlying().(*types.Map); isMap {
							return true
						}
						n++
						c.Violation(rule, fmt.Sprintf("%s/%s[%s]-after-decrement", owner, c.src(ix.X), o.Name()), ix.Pos(), fmt.Sprintf("the loop guard `%s` is tested before `%s` is decremented, so `%s[%s]` is evaluated with %s as low as %d: index out of range (e.g. on a line made only of blanks)", c.src(e), o.Name(), c.src(ix.X), o.Name(), o.Name(), lb)).Clause = clause
						return true
					})
				}
			}
		}
		return true
	})
	return n
}

// contraNil: a pointer the function itself compares with nil is dereferenced where no successful
// nil test protects it.
func (c *Ctx) contraNil(rule string, fi *FuncInfo, clause string) int {
	info := fi.Pkg.TypesInfo
	owner := funcName(fi.Obj)
	// pointers compared with nil
	tested := map[types.Object]token.Pos{}
	ast.Inspect(fi.Decl.Body, func(m ast.Node) bool {
		if be, ok := m.(*ast.BinaryExpr); ok && (be.Op == token.EQL || be.Op == token.NEQ) {
			if o, _, ok := nilTest(info, be); ok {
				if _, isPtr := o.Type().Underlying().(*types.Pointer); isPtr {
					if _, isVar := o.(*types.Var); isVar {
						tested[o] = be.Pos()
					}
				}
			}
		}
		return true
	})
	if len(tested) == 0 {
		return 0
	}
	n := 0
	protects := func(e ast.Expr, o types.Object, neg bool) bool {
		// does knowing e (negated if neg) imply o != nil ?
		var f func(e ast.Expr, neg bool) bool
		f = func(e ast.Expr, neg bool) bool {
			switch x := unparen(e).(type) {
			case *ast.UnaryExpr:
				if x.Op == token.NOT {
					return f(x.X, !neg)
				}
			case *ast.BinaryExpr:
				switch x.Op {
				case token.LAND:
					if !neg {
						return f(x.X, false) || f(x.Y, false)
					}
				case token.LOR:
					if neg {
						return f(x.X, true) || f(x.Y, true)
					}
				case token.EQL, token.NEQ:
					if to, trueIsNonNil, ok := nilTest(info, x); ok && to == o {
						return trueIsNonNil != neg
					}
				}
			}
			return false
		}
		return f(e, neg)
	}
	reported := map[types.Object]bool{}
	flows := map[types.Object]*nilFlowResult{}
	walkStack(fi.Decl.Body, func(m ast.Node, stack []ast.Node) bool {
		sel, ok := m.(*ast.SelectorExpr)
		if !ok {
			return true
		}
		o := identObj(info, sel.X)
		if o == nil || !tested[o].IsValid() || reported[o] {
			return true
		}
		// a dereference: field access, or a call of a method with pointer receiver declared in the repo that touches its fields
		deref := false
		if s, ok := info.Selections[sel]; ok {
			switch s.Kind() {
			case types.FieldVal:
				deref = true
			case types.MethodVal:
				if fn, ok := s.Obj().(*types.Func); ok {
					if g := c.FuncOfObj(fn); g != nil {
						r := recvObj(g.Pkg.TypesInfo, g.Decl)
						ast.Inspect(g.Decl.Body, func(q ast.Node) bool {
							if s2, ok := q.(*ast.SelectorExpr); ok && r != nil && identObj(g.Pkg.TypesInfo, s2.X) == r {
								if _, isField := g.Pkg.TypesInfo.Selections[s2]; isField {
									deref = true
								}
							}
							return true
						})
					}
				}
			}
		}
		if !deref {
			return true
		}
		// protected by the path condition?
		conds, okc := c.pathConds(info, fi.Decl.Body, sel, false)
		if !okc {
			return true
		}
		for _, cd := range conds {
			if cd.Expr != nil && protects(cd.Expr, o, cd.Neg) {
				return true
			}
		}
		// short-circuit inside the same expression: X != nil && X.f ; X == nil || X.f
		for i := len(stack) - 1; i >= 0; i-- {
			be, ok := stack[i].(*ast.BinaryExpr)
			if !ok {
				if _, isExpr := stack[i].(ast.Expr); !isExpr {
					break
				}
				continue
			}
			inRight := nodeContains(be.Y, sel.Pos())
			if inRight && be.Op == token.LAND && protects(be.X, o, false) {
				return true
			}
			if inRight && be.Op == token.LOR && protects(be.X, o, true) {
				return true
			}
		}
		// flow: is the pointer known non-nil here (assigned a value, or a successful test on every path)?
		inLit := false
		for _, a := range stack {
			if _, isLit := a.(*ast.FuncLit); isLit {
				inLit = true
			}
		}
		decided := false
		if !inLit {
			fl := flows[o]
			if fl == nil {
				fl = c.nilFlow(info, fi.Decl.Body, o, false)
				flows[o] = fl
			}
			if nn, okf := fl.at(sel.Pos()); okf {
				decided = true
				if nn {
					return true
				}
			}
		}
		if !decided {
			// assigned (possibly non-nil) between the test and here on this path: `if x == nil { x = ... }` idiom
			assignedBefore := false
			ast.Inspect(fi.Decl.Body, func(q ast.Node) bool {
				if as, ok := q.(*ast.AssignStmt); ok && as.Pos() < sel.Pos() {
					for _, l := range as.Lhs {
						if identObj(info, l) == o {
							assignedBefore = true
						}
					}
				}
				if rs, ok := q.(*ast.RangeStmt); ok && rs.Pos() < sel.Pos() {
					for _, l := range []ast.Expr{rs.Key, rs.Value} {
						if l != nil && identObj(info, l) == o {
							assignedBefore = true
						}
					}
				}
				return true
			})
			if assignedBefore {
				return true
			}
		}
		// the test itself must not come after (a later test says nothing about an earlier use) -- it still
		// states the belief that nil is possible for this variable, which no assignment changes
		reported[o] = true
		n++
		_, ln := c.pos(tested[o])
		c.Violation(rule, owner+"/"+o.Name()+"."+sel.Sel.Name, sel.Pos(), fmt.Sprintf("`%s` is compared with nil at line %d (the function expects it may be nil) but `%s.%s` is evaluated on a path that no successful nil test protects: nil pointer dereference", o.Name(), ln, o.Name(), sel.Sel.Name)).Clause = clause
		return true
	})
	return n
}

// cone: repository functions reachable from the given roots through statically resolved calls.
func (c *Ctx) cone(roots []*FuncInfo, depth int) []*FuncInfo {
	seen := map[*types.Func]bool{}
	var out []*FuncInfo
	var visit func(fi *FuncInfo, d int)
	visit = func(fi *FuncInfo, d int) {
		if fi == nil || seen[fi.Obj] {
			return
		}
		seen[fi.Obj] = true
		out = append(out, fi)
		if d == 0 {
			return
		}
		for _, call := range callsIn(fi.Decl.Body, true) {
			if fn := calleeOf(fi.Pkg.TypesInfo, call); fn != nil && inRepo(fn) {
				visit(c.FuncOfObj(fn), d-1)
			}
		}
	}
	for _, r := range roots {
		visit(r, depth)
	}
	return out
}

// exitPaths: call-graph paths from the roots to a process exit / panic in repository code.
func (c *Ctx) exitPaths(roots []*FuncInfo) [][]string {
	var found [][]string
	seen := map[*types.Func]bool{}
	var visit func(fi *FuncInfo, path []string)
	visit = func(fi *FuncInfo, path []string) {
		if fi == nil || seen[fi.Obj] {
			return
		}
		seen[fi.Obj] = true
		path = append(append([]string{}, path...), funcName(fi.Obj))
		info := fi.Pkg.TypesInfo
		for _, call := range callsIn(fi.Decl.Body, true) {
			if id, ok := call.Fun.(*ast.Ident); ok && id.Name == "panic" && info.Uses[id] == types.Universe.Lookup("panic") {
				_, ln := c.pos(call.Pos())
				found = append(found, append(path, fmt.Sprintf("panic(...) at line %d", ln)))
				continue
			}
			fn := calleeOf(info, call)
			if fn == nil || fn.Pkg() == nil {
				continue
			}
			full := fn.Pkg().Path() + "." + fn.Name()
			if full == "os.Exit" || (fn.Pkg().Path() == "log" && (strings.HasPrefix(fn.Name(), "Fatal") || strings.HasPrefix(fn.Name(), "Panic"))) || isRepoFunc(fn, "io", "", "ExitWithMessage") {
				_, ln := c.pos(call.Pos())
				found = append(found, append(path, fmt.Sprintf("%s at line %d", full, ln)))
				continue
			}
			if inRepo(fn) || fn.Pkg().Path() == "fixture" {
				if g := c.FuncOfObj(fn); g != nil {
					visit(g, path)
				}
			}
		}
	}
	for _, r := range roots {
		visit(r, nil)
	}
	return found
}

// decodedStructs: named struct types reachable from the target of encoding/xml / encoding/json
// Unmarshal calls in the given packages.
func (c *Ctx) decodedStructs(pkgRels ...string) map[*types.Named]bool {
	out := map[*types.Named]bool{}
	var visit func(t types.Type)
	visit = func(t types.Type) {
		switch x := t.(type) {
		case *types.Pointer:
			visit(x.Elem())
		case *types.Slice:
			visit(x.Elem())
		case *types.Array:
			visit(x.Elem())
		case *types.Map:
			visit(x.Elem())
		case *types.Named:
			if out[x] || !inRepoObj(x.Obj()) {
				return
			}
			if st, ok := x.Underlying().(*types.Struct); ok {
				out[x] = true
				for i := 0; i < st.NumFields(); i++ {
					visit(st.Field(i).Type())
				}
			}
		}
	}
	for _, fi := range c.AllFuncs(pkgRels...) {
		info := fi.Pkg.TypesInfo
		for _, call := range callsIn(fi.Decl.Body, true) {
			fn := calleeOf(info, call)
			if fn == nil || fn.Pkg() == nil || fn.Name() != "Unmarshal" || len(call.Args) != 2 {
				continue
			}
			if p := fn.Pkg().Path(); p != "encoding/json" && p != "encoding/xml" {
				continue
			}
			visit(info.TypeOf(call.Args[1]))
		}
	}
	return out
}

// nilDecode: a decoder leaves nil in every pointer it finds no value for (absent element, JSON
// null). Every dereference of a pointer-typed field of a decoded struct, and every use of an
// element of a slice-of-pointers field, must sit under a successful nil test of that very value.
func (c *Ctx) nilDecode(rule string, pkgRels []string, clause string) (nptr int) {
	dec := c.decodedStructs(pkgRels...)
	isDecodedField := func(info *types.Info, e ast.Expr) (*types.Var, bool) {
		fv, x := fieldOfSel(info, e)
		if fv == nil {
			return nil, false
		}
		t := info.TypeOf(x)
		if p, ok := t.(*types.Pointer); ok {
			t = p.Elem()
		}
		n, ok := t.(*types.Named)
		return fv, ok && dec[n]
	}
	for _, fi := range c.AllFuncs(pkgRels...) {
		info := fi.Pkg.TypesInfo
		owner := funcName(fi.Obj)
		guarded := func(target ast.Node, key string) bool {
			conds, okc := c.pathConds(info, fi.Decl.Body, target, false)
			if !okc {
				return false
			}
			for _, cd := range conds {
				if cd.Expr == nil {
					continue
				}
				k := c.canon(info, cd.Expr, nil)
				if (!cd.Neg && (k == "("+key+" != nil)" || k == "(nil != "+key+")")) || (cd.Neg && (k == "("+key+" == nil)" || k == "(nil == "+key+")")) {
					return true
				}
				// conjunctions
				if !cd.Neg && (strings.Contains(k, "("+key+" != nil)") || strings.Contains(k, "(nil != "+key+")")) && !strings.Contains(k, "||") {
					return true
				}
			}
			return false
		}
		ast.Inspect(fi.Decl.Body, func(m ast.Node) bool {
			switch x := m.(type) {
			case *ast.StarExpr:
				// *(c.F)
				if fv, ok := isDecodedField(info, x.X); ok {
					if _, isPtr := fv.Type().(*types.Pointer); isPtr {
						nptr++
						key := c.canon(info, x.X, nil)
						c.Check(guarded(x, key), rule, owner+"/*"+key, x.Pos(), "dereferenced under "+key+" != nil", "the decoded pointer "+key+" is dereferenced without a nil test: the decoder leaves it nil when the element is absent or null").Clause = clause
					}
				}
			case *ast.RangeStmt:
				// for _, v := range c.F  with F a slice of pointers
				if fv, ok := isDecodedField(info, x.X); ok && x.Value != nil {
					if sl, isSl := fv.Type().Underlying().(*types.Slice); isSl {
						if _, isPtr := sl.Elem().(*types.Pointer); isPtr {
							nptr++
							v := identObj(info, x.Value)
							// every use of v in the body must be under v != nil
							bad := token.NoPos
							ast.Inspect(x.Body, func(q ast.Node) bool {
								if id, ok := q.(*ast.Ident); ok && info.Uses[id] == v && !bad.IsValid() {
									if !guarded(id, v.Name()) {
										// the test itself is a use
										if st := stackTo(x.Body, id); len(st) >= 2 {
											if be, ok := st[len(st)-2].(*ast.BinaryExpr); ok && (be.Op == token.EQL || be.Op == token.NEQ) {
												return true
											}
										}
										bad = id.Pos()
									}
								}
								return true
							})
							key := c.canon(info, x.X, nil)
							c.Check(!bad.IsValid(), rule, owner+"/range "+key, x.Pos(), "elements used only under a nil test", "elements of the decoded slice of pointers "+key+" are used without a nil test: a null entry in the document is a nil pointer").Clause = clause
						}
					}
				}
			}
			return true
		})
	}
	return nptr
}
