package main

import (
	"fmt"
	"go/ast"
	"go/token"
	"go/types"
	"sort"
	"strings"
)

func init() { props["C19"] = checkC19 }

type flagReg struct {
	call   *ast.CallExpr
	method string
	vobj   types.Object
	vname  string
	flag   string
	def    string // canonical default
	isCons bool
	file   string
	fn     string
	cmdVar string
}

// collectFlagRegs finds every (*pflag.FlagSet).XxxVar[P](&v, name, [short,] default, usage) call.
func (c *Ctx) collectFlagRegs() (regs []*flagReg, others int) {
	for _, p := range c.All {
		info := p.TypesInfo
		for _, f := range p.Syntax {
			var curFn string
			for _, d := range f.Decls {
				fd, ok := d.(*ast.FuncDecl)
				if !ok || fd.Body == nil {
					// package-level var initialisers may register too
					ast.Inspect(d, func(n ast.Node) bool {
						if call, ok := n.(*ast.CallExpr); ok {
							if r := c.flagRegOf(info, call); r != nil {
								r.fn = "<package initialiser>"
								regs = append(regs, r)
							}
						}
						return true
					})
					continue
				}
				curFn = fd.Name.Name
				ast.Inspect(fd.Body, func(n ast.Node) bool {
					call, ok := n.(*ast.CallExpr)
					if !ok {
						return true
					}
					if r := c.flagRegOf(info, call); r != nil {
						r.fn = curFn
						regs = append(regs, r)
					} else if fn := calleeOf(info, call); fn != nil && isPflagSet(fn) && isValueRegistrar(fn.Name()) {
						others++
					}
					return true
				})
			}
		}
	}
	return
}

func isPflagSet(fn *types.Func) bool {
	sig, ok := fn.Type().(*types.Signature)
	if !ok || sig.Recv() == nil {
		return false
	}
	t := sig.Recv().Type()
	if p, ok := t.(*types.Pointer); ok {
		t = p.Elem()
	}
	n, ok := t.(*types.Named)
	return ok && n.Obj().Name() == "FlagSet" && n.Obj().Pkg() != nil && strings.HasSuffix(n.Obj().Pkg().Path(), "spf13/pflag")
}

var pflagKinds = []string{"String", "Bool", "Int", "Int8", "Int16", "Int32", "Int64", "Uint", "Uint8", "Uint16", "Uint32", "Uint64",
	"Float32", "Float64", "Duration", "StringSlice", "StringArray", "IntSlice", "Count", "IP", "BoolSlice", "Float64Slice", "Float32Slice", "Int32Slice", "Int64Slice", "UintSlice", "DurationSlice", "StringToString", "StringToInt", "StringToInt64", "BytesHex", "BytesBase64", "IPMask", "IPNet", "IPSlice"}

func isValueRegistrar(name string) bool {
	n := strings.TrimSuffix(name, "P")
	for _, k := range pflagKinds {
		if n == k {
			return true
		}
	}
	return false
}

func (c *Ctx) flagRegOf(info *types.Info, call *ast.CallExpr) *flagReg {
	fn := calleeOf(info, call)
	if fn == nil || !isPflagSet(fn) {
		return nil
	}
	name := fn.Name()
	base := strings.TrimSuffix(name, "P")
	if !strings.HasSuffix(base, "Var") || base == "Var" {
		return nil
	}
	if !isValueRegistrar(strings.TrimSuffix(base, "Var")) {
		return nil
	}
	defIdx := 2
	if strings.HasSuffix(name, "P") {
		defIdx = 3
	}
	if len(call.Args) <= defIdx {
		return nil
	}
	r := &flagReg{call: call, method: name}
	if u, ok := unparen(call.Args[0]).(*ast.UnaryExpr); ok && u.Op == token.AND {
		r.vobj = identObj(info, u.X)
		r.vname = types.ExprString(u.X)
	} else {
		r.vname = types.ExprString(call.Args[0])
	}
	if tv, ok := info.Types[call.Args[1]]; ok && tv.Value != nil {
		r.flag = strings.Trim(tv.Value.ExactString(), `"`)
	}
	if tv, ok := info.Types[call.Args[defIdx]]; ok && tv.Value != nil {
		r.def = tv.Value.ExactString()
		r.isCons = true
	} else {
		r.def = c.canon(info, call.Args[defIdx], nil)
	}
	// the command the flag set belongs to: xCmd.Flags() / xCmd.PersistentFlags()
	if sel, ok := unparen(call.Fun).(*ast.SelectorExpr); ok {
		if inner, ok := unparen(sel.X).(*ast.CallExpr); ok {
			if s2, ok := unparen(inner.Fun).(*ast.SelectorExpr); ok {
				r.cmdVar = types.ExprString(s2.X)
			}
		}
	}
	return r
}

func checkC19(c *Ctx) {
	c.Decides("PRESENCE: no command decides on whether an option was given (Flags().Changed) rather than on its value, no flag has a NoOptDefVal, and no cobra flag group or required-flag mark (MarkFlagsMutuallyExclusive, MarkFlagRequired, ...) is declared: all of these make passing the documented default differ from omitting the option")
	c.flagPresenceLints()
	c.Level = "proof"
	c.Decides("FLAGDEF: for every option storage bound by (*pflag.FlagSet).XxxVar[P]: all registrations on that storage carry the same constant default, and no init()/package initialiser stores another value into it after registration — so the value in the storage when any command runs is the default its help text documents (pflag's XxxVar executes *p = value and records DefValue = value)")
	c.DoesNotDecide("that the command's code reads the bound variable and not something else (end-to-end effect of omitting the option)")
	c.Trusted = append(c.Trusted, "init order inside package cmd: files in file-name order (go tool), init functions and statements in source order", "spf13/pflag: XxxVar(p, name, value, usage) executes *p = value and records DefValue = value.String()", "Go package initialisation: all init() functions of package cmd run before any command")
	regs, others := c.collectFlagRegs()
	c.Extra["registrations"] = len(regs)
	c.Extra["non_var_registrations"] = others
	c.Floor("FLAGDEF", 150)

	byVar := map[types.Object][]*flagReg{}
	var order []types.Object
	for _, r := range regs {
		if r.vobj == nil {
			f, l := c.pos(r.call.Pos())
			c.Undecided("FLAGDEF", fmt.Sprintf("%s:%d/unresolved-storage", f, l), r.call.Pos(), "storage argument "+r.vname+" is not &identifier: cannot tell which storage the option is bound to")
			continue
		}
		if _, ok := byVar[r.vobj]; !ok {
			order = append(order, r.vobj)
		}
		byVar[r.vobj] = append(byVar[r.vobj], r)
	}
	c.Extra["bound_variables"] = len(order)
	shared := 0
	for _, v := range order {
		rs := byVar[v]
		if len(rs) > 1 {
			shared++
		}
		// value in the storage once every init() has run = default of the registration executed last
		// (package cmd: files in file-name order, as the go tool passes them to the compiler; then
		// init functions and statements in source order)
		sort.SliceStable(rs, func(i, j int) bool {
			fi, li := c.pos(rs[i].call.Pos())
			fj, lj := c.pos(rs[j].call.Pos())
			if fi != fj {
				return fi < fj
			}
			return li < lj
		})
		last := rs[len(rs)-1]
		lf, ll := c.pos(last.call.Pos())
		distinctDefs := map[string]bool{}
		for _, r := range rs {
			distinctDefs[r.def] = true
		}
		for _, r := range rs {
			key := fmt.Sprintf("%s/%s --%s", v.Name(), r.cmdVar, r.flag)
			switch {
			case !r.isCons && len(rs) > 1:
				c.Undecided("FLAGDEF", key, r.call.Pos(), "shared storage "+v.Name()+" with non-constant default "+r.def+": equality of the defaults cannot be decided")
			case r.def == last.def:
				o := c.OK("FLAGDEF", key, r.call.Pos(), fmt.Sprintf("default %s = value left in `%s` by the last of its %d registration(s)", r.def, v.Name(), len(rs)))
				o.Nontrivial = len(rs) > 1
			default:
				o := c.Violation("FLAGDEF", key, r.call.Pos(), fmt.Sprintf("option --%s of %s documents default %s, but its storage `%s` is shared (%d registrations, %d different defaults) and the registration that runs last (%s --%s at %s:%d) leaves %s in it: omitting the option does not mean the documented default",
					r.flag, r.cmdVar, r.def, v.Name(), len(rs), len(distinctDefs), last.cmdVar, last.flag, lf, ll, last.def))
				o.Clause = "leaving an option out has the same effect as passing the default value shown in its help text; registering the options of one command never changes the behaviour of another command"
			}
		}
	}
	c.Extra["shared_variables"] = shared

	// other stores into bound storage during initialisation
	for _, p := range c.All {
		info := p.TypesInfo
		for _, f := range p.Syntax {
			for _, d := range f.Decls {
				fd, ok := d.(*ast.FuncDecl)
				if !ok || fd.Body == nil || fd.Recv != nil || fd.Name.Name != "init" {
					continue
				}
				ast.Inspect(fd.Body, func(n ast.Node) bool {
					if _, ok := n.(*ast.FuncLit); ok {
						return false // closures stored in commands run later, not at init
					}
					as, ok := n.(*ast.AssignStmt)
					if !ok {
						return true
					}
					for i, l := range as.Lhs {
						obj := identObj(info, l)
						rs, bound := byVar[obj]
						if !bound || obj == nil {
							continue
						}
						val := "?"
						if i < len(as.Rhs) {
							if tv, ok := info.Types[as.Rhs[i]]; ok && tv.Value != nil {
								val = tv.Value.ExactString()
							}
						}
						fl, ln := c.pos(as.Pos())
						key := fmt.Sprintf("%s/init-store@%s", obj.Name(), fl)
						_ = ln
						if val == rs[0].def {
							c.OK("FLAGDEF-STORE", key, as.Pos(), "init() stores the registered default "+val)
						} else {
							o := c.Violation("FLAGDEF-STORE", key, as.Pos(), fmt.Sprintf("init() stores %s into option storage `%s` whose registered default is %s: depending on init order the documented default is not what the command sees", val, obj.Name(), rs[0].def))
							o.Clause = "the documented default is the value the command actually uses"
						}
					}
					return true
				})
			}
		}
	}
}
