package main

import (
	"fmt"
	"go/ast"
	"go/constant"
	"go/token"
	"go/types"
	"golang.org/x/tools/go/packages"
	"sort"
	"strconv"
	"strings"
)

func init() { props["C19"] = checkC19 }

type flagReg struct {
	call       *ast.CallExpr
	method     string
	vobj       types.Object
	vname      string
	flag       string
	def        string // canonical default
	isCons     bool
	file       string
	fn         string
	cmdVar     string
	persistent bool
}

// collectFlagRegs finds every (*pflag.FlagSet).XxxVar[P](&v, name, [short,] default, usage) call.
func (c *Ctx) collectFlagRegs() (regs []*flagReg, others int) {
	for _, p := range c.All {
		info := p.TypesInfo
		for _, f := range p.Syntax {
			var curFn string
			for _, d := range f.Decls {
				fd, ok := d.(*ast.FuncDecl)
				if !ok || fd.Body == nil {
					// package-level var initialisers may register too
					ast.Inspect(d, func(n ast.Node) bool {
						if call, ok := n.(*ast.CallExpr); ok {
							if r := c.flagRegOf(info, call); r != nil {
								r.fn = "<package initialiser>"
								regs = append(regs, r)
							}
						}
						return true
					})
					continue
				}
				curFn = fd.Name.Name
				ast.Inspect(fd.Body, func(n ast.Node) bool {
					call, ok := n.(*ast.CallExpr)
					if !ok {
						return true
					}
					if r := c.flagRegOf(info, call); r != nil {
						if r.vobj == nil {
							// registration written once in a helper and fed from a table of option records
							if inst := c.flagRegsThroughHelper(p, fd, call); len(inst) > 0 {
								regs = append(regs, inst...)
								return true
							}
						}
						r.fn = curFn
						// the default is a parameter of the enclosing helper: one registration per call
						// of the helper, with the value given there
						if inst := c.flagRegsByParamDefault(p, fd, call, r); len(inst) > 0 {
							regs = append(regs, inst...)
							return true
						}
						regs = append(regs, r)
					} else if fn := calleeOf(info, call); fn != nil && isPflagSet(fn) && isValueRegistrar(fn.Name()) {
						others++
					}
					return true
				})
			}
		}
	}
	return
}

func isPflagSet(fn *types.Func) bool {
	sig, ok := fn.Type().(*types.Signature)
	if !ok || sig.Recv() == nil {
		return false
	}
	t := sig.Recv().Type()
	if p, ok := t.(*types.Pointer); ok {
		t = p.Elem()
	}
	n, ok := t.(*types.Named)
	return ok && n.Obj().Name() == "FlagSet" && n.Obj().Pkg() != nil && strings.HasSuffix(n.Obj().Pkg().Path(), "spf13/pflag")
}

var pflagKinds = []string{"String", "Bool", "Int", "Int8", "Int16", "Int32", "Int64", "Uint", "Uint8", "Uint16", "Uint32", "Uint64",
	"Float32", "Float64", "Duration", "StringSlice", "StringArray", "IntSlice", "Count", "IP", "BoolSlice", "Float64Slice", "Float32Slice", "Int32Slice", "Int64Slice", "UintSlice", "DurationSlice", "StringToString", "StringToInt", "StringToInt64", "BytesHex", "BytesBase64", "IPMask", "IPNet", "IPSlice"}

func isValueRegistrar(name string) bool {
	n := strings.TrimSuffix(name, "P")
	for _, k := range pflagKinds {
		if n == k {
			return true
		}
	}
	return false
}

// flagSetExpr: the expression a flag set comes from: e itself, or, when e is a local defined once
// (`flags := xCmd.PersistentFlags()`), that definition.
func (c *Ctx) flagSetExpr(info *types.Info, e ast.Expr) ast.Expr {
	recv := unparen(e)
	if id, ok := recv.(*ast.Ident); ok {
		if lo, ok := info.Uses[id].(*types.Var); ok && !lo.IsField() {
			c.autoOpts(info, id) // fills declSpans
			for _, fd := range c.declSpans {
				if fd.Pos() <= id.Pos() && id.Pos() < fd.End() {
					if vals := localDefs(info, fd.Body, lo); len(vals) == 1 {
						recv = unparen(vals[0])
					}
				}
			}
		}
	}
	return recv
}

func (c *Ctx) flagRegOf(info *types.Info, call *ast.CallExpr) *flagReg {
	fn := calleeOf(info, call)
	if fn == nil || !isPflagSet(fn) {
		return nil
	}
	name := fn.Name()
	base := strings.TrimSuffix(name, "P")
	if !strings.HasSuffix(base, "Var") || base == "Var" {
		return nil
	}
	if !isValueRegistrar(strings.TrimSuffix(base, "Var")) {
		return nil
	}
	defIdx := 2
	if strings.HasSuffix(name, "P") {
		defIdx = 3
	}
	if len(call.Args) <= defIdx {
		return nil
	}
	r := &flagReg{call: call, method: name}
	if u, ok := unparen(call.Args[0]).(*ast.UnaryExpr); ok && u.Op == token.AND {
		r.vobj = identObj(info, u.X)
		r.vname = types.ExprString(u.X)
	} else {
		r.vname = types.ExprString(call.Args[0])
	}
	if tv, ok := info.Types[call.Args[1]]; ok && tv.Value != nil {
		r.flag = strings.Trim(tv.Value.ExactString(), `"`)
	}
	if tv, ok := info.Types[call.Args[defIdx]]; ok && tv.Value != nil {
		r.def = constText(tv.Value)
		r.isCons = true
	} else {
		r.def = c.canon(info, call.Args[defIdx], nil)
	}
	// the command the flag set belongs to: xCmd.Flags() / xCmd.PersistentFlags()
	if sel, ok := unparen(call.Fun).(*ast.SelectorExpr); ok {
		recv := c.flagSetExpr(info, sel.X)
		if inner, ok := recv.(*ast.CallExpr); ok {
			if s2, ok := unparen(inner.Fun).(*ast.SelectorExpr); ok {
				r.cmdVar = types.ExprString(s2.X)
				r.persistent = s2.Sel.Name == "PersistentFlags"
			}
		}
	}
	return r
}

func checkC19(c *Ctx) {
	c.Decides("PRESENCE: no command decides on whether an option was given (Flags().Changed) rather than on its value, no flag has a NoOptDefVal, and no cobra flag group or required-flag mark (MarkFlagsMutuallyExclusive, MarkFlagRequired, ...) is declared: all of these make passing the documented default differ from omitting the option")
	c.flagPresenceLints()
	c.Level = "proof"
	c.Decides("FLAGDEF: for every option storage bound by (*pflag.FlagSet).XxxVar[P]: all registrations on that storage carry the same constant default, and no init()/package initialiser stores another value into it after registration — so the value in the storage when any command runs is the default its help text documents (pflag's XxxVar executes *p = value and records DefValue = value)")
	c.DoesNotDecide("that the command's code reads the bound variable and not something else (end-to-end effect of omitting the option)")
	c.Trusted = append(c.Trusted, "init order inside package cmd: files in file-name order (go tool), init functions and statements in source order", "spf13/pflag: XxxVar(p, name, value, usage) executes *p = value and records DefValue = value.String()", "Go package initialisation: all init() functions of package cmd run before any command")
	regs, others := c.collectFlagRegs()
	c.Extra["registrations"] = len(regs)
	c.Extra["non_var_registrations"] = others
	c.Floor("FLAGDEF", 150)
	c.Decides("BUILTIN-VALUES: every option of package cmd is registered through pflag's own typed registrars (no Var/VarP/VarPF with a hand-written Value, whose Set could refuse or alter the documented default when it is passed explicitly)")
	if c.builtinValues("BUILTIN-VALUES", c.AllFuncs("cmd"), "passing the documented default explicitly behaves like omitting the option") < 150 {
		c.Undecided("BUILTIN-VALUES", "coverage", token.NoPos, "fewer than 150 typed registrations seen in package cmd")
	}

	c.Decides("DEFVALUE-PATCH: nothing assigns the DefValue field of a flag after its registration: the default the help text shows is the one the registration call stored in the option")
	if sites, _ := c.defValuePatch("DEFVALUE-PATCH", "the default value shown in its help text"); sites > 0 {
		c.Trivial("DEFVALUE-PATCH", "scan", 0, fmt.Sprintf("%d functions of package cmd scanned", sites))
	}
	c.Decides("FLAGDEF-SHADOW: no command registers an option whose name is that of a persistent option of one of its ancestors: cobra (v1.5) then lists only the ancestor's entry in the command's help, with the ancestor's default and meaning, while the command line sets the command's own option")
	c.flagShadow(regs)
	byVar := map[types.Object][]*flagReg{}
	var order []types.Object
	for _, r := range regs {
		if r.vobj == nil {
			f, l := c.pos(r.call.Pos())
			c.Undecided("FLAGDEF", fmt.Sprintf("%s:%d/unresolved-storage", f, l), r.call.Pos(), "storage argument "+r.vname+" is not &identifier: cannot tell which storage the option is bound to")
			continue
		}
		if _, ok := byVar[r.vobj]; !ok {
			order = append(order, r.vobj)
		}
		byVar[r.vobj] = append(byVar[r.vobj], r)
	}
	c.Extra["bound_variables"] = len(order)
	shared := 0
	for _, v := range order {
		rs := byVar[v]
		if len(rs) > 1 {
			shared++
		}
		// value in the storage once every init() has run = default of the registration executed last
		// (package cmd: files in file-name order, as the go tool passes them to the compiler; then
		// init functions and statements in source order)
		sort.SliceStable(rs, func(i, j int) bool {
			fi, li := c.pos(rs[i].call.Pos())
			fj, lj := c.pos(rs[j].call.Pos())
			if fi != fj {
				return fi < fj
			}
			return li < lj
		})
		last := rs[len(rs)-1]
		lf, ll := c.pos(last.call.Pos())
		distinctDefs := map[string]bool{}
		for _, r := range rs {
			distinctDefs[r.def] = true
		}
		for _, r := range rs {
			key := fmt.Sprintf("%s/%s --%s", v.Name(), r.cmdVar, r.flag)
			switch {
			case !r.isCons && len(rs) > 1:
				c.Undecided("FLAGDEF", key, r.call.Pos(), "shared storage "+v.Name()+" with non-constant default "+r.def+": equality of the defaults cannot be decided")
			case r.def == last.def:
				o := c.OK("FLAGDEF", key, r.call.Pos(), fmt.Sprintf("default %s = value left in `%s` by the last of its %d registration(s)", r.def, v.Name(), len(rs)))
				o.Nontrivial = len(rs) > 1
			default:
				o := c.Violation("FLAGDEF", key, r.call.Pos(), fmt.Sprintf("option --%s of %s documents default %s, but its storage `%s` is shared (%d registrations, %d different defaults) and the registration that runs last (%s --%s at %s:%d) leaves %s in it: omitting the option does not mean the documented default",
					r.flag, r.cmdVar, r.def, v.Name(), len(rs), len(distinctDefs), last.cmdVar, last.flag, lf, ll, last.def))
				o.Clause = "leaving an option out has the same effect as passing the default value shown in its help text; registering the options of one command never changes the behaviour of another command"
			}
		}
	}
	c.Extra["shared_variables"] = shared

	// other stores into bound storage during initialisation
	for _, p := range c.All {
		info := p.TypesInfo
		for _, f := range p.Syntax {
			for _, d := range f.Decls {
				fd, ok := d.(*ast.FuncDecl)
				if !ok || fd.Body == nil || fd.Recv != nil || fd.Name.Name != "init" {
					continue
				}
				ast.Inspect(fd.Body, func(n ast.Node) bool {
					if _, ok := n.(*ast.FuncLit); ok {
						return false // closures stored in commands run later, not at init
					}
					as, ok := n.(*ast.AssignStmt)
					if !ok {
						return true
					}
					for i, l := range as.Lhs {
						obj := identObj(info, l)
						rs, bound := byVar[obj]
						if !bound || obj == nil {
							continue
						}
						val := "?"
						if i < len(as.Rhs) {
							if tv, ok := info.Types[as.Rhs[i]]; ok && tv.Value != nil {
								val = constText(tv.Value)
							}
						}
						fl, ln := c.pos(as.Pos())
						key := fmt.Sprintf("%s/init-store@%s", obj.Name(), fl)
						_ = ln
						if val == rs[0].def {
							c.OK("FLAGDEF-STORE", key, as.Pos(), "init() stores the registered default "+val)
						} else {
							o := c.Violation("FLAGDEF-STORE", key, as.Pos(), fmt.Sprintf("init() stores %s into option storage `%s` whose registered default is %s: depending on init order the documented default is not what the command sees", val, obj.Name(), rs[0].def))
							o.Clause = "the documented default is the value the command actually uses"
						}
					}
					return true
				})
			}
		}
	}
}

// flagShadow: option names registered on a command that are also persistent options of an ancestor.
func (c *Ctx) flagShadow(regs []*flagReg) {
	p := c.Pkg("cmd")
	if p == nil {
		return
	}
	parent := map[string]string{}
	for _, f := range p.Syntax {
		ast.Inspect(f, func(m ast.Node) bool {
			call, ok := m.(*ast.CallExpr)
			if !ok {
				return true
			}
			sel, ok := unparen(call.Fun).(*ast.SelectorExpr)
			if !ok || sel.Sel.Name != "AddCommand" {
				return true
			}
			for _, a := range call.Args {
				parent[types.ExprString(a)] = types.ExprString(sel.X)
			}
			return true
		})
	}
	persistentOf := map[string]map[string]*flagReg{}
	for _, r := range regs {
		if r.persistent && r.cmdVar != "" && r.flag != "" {
			if persistentOf[r.cmdVar] == nil {
				persistentOf[r.cmdVar] = map[string]*flagReg{}
			}
			persistentOf[r.cmdVar][r.flag] = r
		}
	}
	// X.LocalFlags().AddFlag(X.PersistentFlags().Lookup("name")): the command puts its own entry into
	// the set its help prints (cobra 1.5 leaves out a local flag that has the name of an inherited one)
	relisted := map[string]bool{}
	info := p.TypesInfo
	for _, f := range p.Syntax {
		ast.Inspect(f, func(m ast.Node) bool {
			call, ok := m.(*ast.CallExpr)
			if !ok || len(call.Args) != 1 {
				return true
			}
			sel, ok := unparen(call.Fun).(*ast.SelectorExpr)
			if !ok || sel.Sel.Name != "AddFlag" {
				return true
			}
			// receiver: X.LocalFlags() or a local assigned from it
			recv := unparen(sel.X)
			if id, isId := recv.(*ast.Ident); isId {
				if v := identObj(info, id); v != nil {
					ast.Inspect(f, func(q ast.Node) bool {
						if as, ok := q.(*ast.AssignStmt); ok && len(as.Lhs) == 1 && len(as.Rhs) == 1 && identObj(info, as.Lhs[0]) == v {
							recv = unparen(as.Rhs[0])
						}
						return true
					})
				}
			}
			rc, ok := recv.(*ast.CallExpr)
			if !ok {
				return true
			}
			rsel, ok := unparen(rc.Fun).(*ast.SelectorExpr)
			if !ok || rsel.Sel.Name != "LocalFlags" {
				return true
			}
			cmdVar := types.ExprString(rsel.X)
			lk, ok := unparen(call.Args[0]).(*ast.CallExpr)
			if !ok || len(lk.Args) != 1 {
				return true
			}
			lsel, ok := unparen(lk.Fun).(*ast.SelectorExpr)
			if !ok || lsel.Sel.Name != "Lookup" {
				return true
			}
			src, ok := unparen(lsel.X).(*ast.CallExpr)
			if !ok {
				return true
			}
			ssel, ok := unparen(src.Fun).(*ast.SelectorExpr)
			if !ok || types.ExprString(ssel.X) != cmdVar || (ssel.Sel.Name != "PersistentFlags" && ssel.Sel.Name != "Flags") {
				return true
			}
			if tv, ok := info.Types[lk.Args[0]]; ok && tv.Value != nil {
				relisted[cmdVar+"/"+strings.Trim(tv.Value.ExactString(), `"`)] = true
			}
			return true
		})
	}
	n := 0
	for _, r := range regs {
		if r.cmdVar == "" || r.flag == "" {
			continue
		}
		n++
		for a, depth := parent[r.cmdVar], 0; a != "" && depth < 10; a, depth = parent[a], depth+1 {
			if anc, ok := persistentOf[a][r.flag]; ok {
				key := fmt.Sprintf("%s --%s", r.cmdVar, r.flag)
				if anc.def == r.def {
					if anc.vobj == r.vobj {
						c.OK("FLAGDEF-SHADOW", key, r.call.Pos(), "re-registers the ancestor's option on the same storage with the same default")
					} else {
						c.Note("FLAGDEF-SHADOW", key, r.call.Pos(), fmt.Sprintf("--%s of %s hides the persistent --%s of %s in the help; both document default %s (different storage)", r.flag, r.cmdVar, anc.flag, a, r.def))
					}
					continue
				}
				if relisted[r.cmdVar+"/"+r.flag] {
					c.OK("FLAGDEF-SHADOW", key, r.call.Pos(), fmt.Sprintf("hides the persistent --%s of %s (default %s), and the command adds its own entry (default %s) to its local flags, so its help lists the option it really has", anc.flag, a, anc.def, r.def))
					continue
				}
				c.Violation("FLAGDEF-SHADOW", key, r.call.Pos(), fmt.Sprintf("option --%s of %s (default %s) has the name of the persistent option --%s of its ancestor %s (default %s): the help of %s lists only the inherited entry and its default, while the command line sets %s's own option - leaving --%s out (%s) is not the same as passing the default its help shows (%s)",
					r.flag, r.cmdVar, r.def, anc.flag, a, anc.def, r.cmdVar, r.cmdVar, r.flag, r.def, anc.def)).Clause = "leaving an option out has the same effect as passing the default value shown in its help text"
			}
		}
	}
	c.Trivial("FLAGDEF-SHADOW", "scan", token.NoPos, fmt.Sprintf("%d registrations compared with the persistent options of their ancestors", n))
}

// flagRegsByParamDefault: registration `reg` inside helper fd takes its default and/or the command
// whose flag set it extends from a parameter of fd (addFlags(cmd, 0.3) ... cmd.Flags().Float64Var(&v,
// name, dflt, usage)). Returns one registration per
// call of fd in the package, carrying the argument of that call as default (and the command given
// there when the flag set belongs to a command parameter); nil when the default is no parameter.
func (c *Ctx) flagRegsByParamDefault(p *packages.Package, fd *ast.FuncDecl, reg *ast.CallExpr, r *flagReg) []*flagReg {
	info := p.TypesInfo
	helper, _ := info.Defs[fd.Name].(*types.Func)
	if helper == nil {
		return nil
	}
	defIdx := 2
	if strings.HasSuffix(r.method, "P") {
		defIdx = 3
	}
	paramIdx := func(e ast.Expr) int {
		o := identObj(info, e)
		if o == nil {
			return -1
		}
		for i := 0; ; i++ {
			po := paramObj(info, fd, i)
			if po == nil {
				return -1
			}
			if po == o {
				return i
			}
		}
	}
	dk := -1
	if !r.isCons {
		dk = paramIdx(reg.Args[defIdx])
	}
	cmdK := -1
	if sel, ok := unparen(reg.Fun).(*ast.SelectorExpr); ok {
		if inner, ok := c.flagSetExpr(info, sel.X).(*ast.CallExpr); ok {
			if s2, ok := unparen(inner.Fun).(*ast.SelectorExpr); ok {
				cmdK = paramIdx(s2.X)
			}
		}
	}
	// nothing of the registration depends on the helper's parameters: it is what it is
	if dk < 0 && cmdK < 0 {
		return nil
	}
	var out []*flagReg
	for _, f := range p.Syntax {
		for _, d := range f.Decls {
			cur := "<package initialiser>"
			if d2, ok := d.(*ast.FuncDecl); ok {
				cur = d2.Name.Name
			}
			ast.Inspect(d, func(n ast.Node) bool {
				call, ok := n.(*ast.CallExpr)
				if !ok || calleeOf(info, call) != helper || dk >= len(call.Args) {
					return true
				}
				cp := *r
				cp.call = reg
				cp.fn = cur + "→" + fd.Name.Name
				if dk >= 0 {
					if tv, ok := info.Types[call.Args[dk]]; ok && tv.Value != nil {
						cp.def, cp.isCons = constText(tv.Value), true
					} else {
						cp.def, cp.isCons = c.canon(info, call.Args[dk], nil), false
					}
				}
				if cmdK >= 0 && cmdK < len(call.Args) {
					cp.cmdVar = types.ExprString(call.Args[cmdK])
				}
				out = append(out, &cp)
				return true
			})
		}
	}
	return out
}

// flagRegsThroughHelper: the registration call sits in helper fd and takes its storage, name and
// default from the fields of the records the helper ranges over (a variadic/slice parameter of a
// struct type). One registration is produced per record literal at every call of the helper.
func (c *Ctx) flagRegsThroughHelper(p *packages.Package, fd *ast.FuncDecl, reg *ast.CallExpr) []*flagReg {
	info := p.TypesInfo
	helper, _ := info.Defs[fd.Name].(*types.Func)
	if helper == nil {
		return nil
	}
	fn := calleeOf(info, reg)
	name := fn.Name()
	defIdx := 2
	if strings.HasSuffix(name, "P") {
		defIdx = 3
	}
	// the record variable: range value over a parameter
	var rec types.Object
	var recParam int = -1
	for _, a := range stackTo(fd.Body, reg) {
		if rs, ok := a.(*ast.RangeStmt); ok && rs.Value != nil {
			for i := 0; ; i++ {
				po := paramObj(info, fd, i)
				if po == nil {
					break
				}
				if identObj(info, rs.X) == po {
					rec, recParam = identObj(info, rs.Value), i
				}
			}
		}
	}
	if rec == nil {
		return nil
	}
	fieldOf := func(e ast.Expr) string {
		if sel, ok := unparen(e).(*ast.SelectorExpr); ok && identObj(info, sel.X) == rec {
			return sel.Sel.Name
		}
		return ""
	}
	fStore, fName, fDef := fieldOf(reg.Args[0]), fieldOf(reg.Args[1]), fieldOf(reg.Args[defIdx])
	if fStore == "" || fName == "" || fDef == "" {
		return nil
	}
	// the command: receiver of .Flags()/.PersistentFlags() is a parameter
	cmdParam := -1
	persistent := false
	if sel, ok := unparen(reg.Fun).(*ast.SelectorExpr); ok {
		if inner, ok := unparen(sel.X).(*ast.CallExpr); ok {
			if s2, ok := unparen(inner.Fun).(*ast.SelectorExpr); ok {
				persistent = s2.Sel.Name == "PersistentFlags"
				for i := 0; ; i++ {
					po := paramObj(info, fd, i)
					if po == nil {
						break
					}
					if identObj(info, s2.X) == po {
						cmdParam = i
					}
				}
			}
		}
	}
	var out []*flagReg
	for _, f := range p.Syntax {
		var cur string
		for _, d := range f.Decls {
			d2, ok := d.(*ast.FuncDecl)
			if ok {
				cur = d2.Name.Name
			}
			ast.Inspect(d, func(n ast.Node) bool {
				call, ok := n.(*ast.CallExpr)
				if !ok || calleeOf(info, call) != helper {
					return true
				}
				var recs []ast.Expr
				for i, a := range call.Args {
					if i >= recParam {
						recs = append(recs, a)
					}
				}
				for _, re := range recs {
					lit, ok := unparen(re).(*ast.CompositeLit)
					if !ok {
						continue
					}
					flds := c.litFields(info, lit)
					r := &flagReg{call: call, method: name, fn: cur, persistent: persistent}
					if cmdParam >= 0 && cmdParam < len(call.Args) {
						r.cmdVar = types.ExprString(call.Args[cmdParam])
					}
					if st, ok := flds[fStore]; ok {
						if u, ok := unparen(st).(*ast.UnaryExpr); ok && u.Op == token.AND {
							r.vobj = identObj(info, u.X)
							r.vname = types.ExprString(u.X)
						}
					}
					if nm, ok := flds[fName]; ok {
						if tv, ok := info.Types[nm]; ok && tv.Value != nil {
							r.flag = strings.Trim(tv.Value.ExactString(), `"`)
						}
					}
					if df, ok := flds[fDef]; ok {
						if tv, ok := info.Types[df]; ok && tv.Value != nil {
							r.def = constText(tv.Value)
							r.isCons = true
						} else {
							r.def = c.canon(info, df, nil)
						}
					}
					// position of the record itself, so that the order of registrations is the order of the table
					r.call = &ast.CallExpr{Fun: call.Fun, Lparen: lit.Pos(), Args: call.Args, Rparen: lit.End()}
					out = append(out, r)
				}
				return true
			})
		}
	}
	return out
}

// localDefs: every right-hand side assigned to local v in body (nil entries never; a tuple
// assignment from one call yields no value and makes the result nil).
func localDefs(info *types.Info, body ast.Node, v types.Object) []ast.Expr {
	var out []ast.Expr
	bad := false
	ast.Inspect(body, func(n ast.Node) bool {
		as, ok := n.(*ast.AssignStmt)
		if !ok {
			return true
		}
		for i, l := range as.Lhs {
			if identObj(info, l) == v {
				if len(as.Lhs) != len(as.Rhs) {
					bad = true
				} else {
					out = append(out, as.Rhs[i])
				}
			}
		}
		return true
	})
	if bad {
		return nil
	}
	return out
}

// constText: the text under which a constant default is compared and shown (floats in decimal form).
func constText(v constant.Value) string {
	if v.Kind() == constant.Float {
		if f, ok := constant.Float64Val(v); ok {
			return strconv.FormatFloat(f, 'g', -1, 64)
		}
	}
	return v.ExactString()
}
