package main

import (
	"fmt"
	"go/ast"
	"go/constant"
	"go/printer"
	"go/token"
	"go/types"
	"sort"
	"strings"

	"golang.org/x/tools/go/packages"
	"golang.org/x/tools/go/types/typeutil"
)

// calleeOf resolves the callee of a call through type information (never by name).
func calleeOf(info *types.Info, call *ast.CallExpr) *types.Func {
	if f, ok := typeutil.Callee(info, call).(*types.Func); ok {
		return f
	}
	return nil
}

// isFunc tells whether fn is pkgPath.(recv).name ; recv "" = plain function; pkgPath is a full import path.
func isFunc(fn *types.Func, pkgPath, recv, name string) bool {
	if fn == nil || fn.Name() != name || fn.Pkg() == nil || fn.Pkg().Path() != pkgPath {
		return false
	}
	sig := fn.Type().(*types.Signature)
	if sig.Recv() == nil {
		return recv == ""
	}
	t := sig.Recv().Type()
	if p, ok := t.(*types.Pointer); ok {
		t = p.Elem()
	}
	if n, ok := t.(*types.Named); ok {
		return n.Obj().Name() == recv
	}
	return false
}

func isRepoFunc(fn *types.Func, pkgRel, recv, name string) bool {
	p := modPath
	if pkgRel != "" {
		p += "/" + pkgRel
	}
	return isFunc(fn, p, recv, name)
}

func inRepo(fn *types.Func) bool {
	return fn != nil && fn.Pkg() != nil && (fn.Pkg().Path() == modPath || strings.HasPrefix(fn.Pkg().Path(), modPath+"/"))
}

// ---------------------------------------------------------------------------------------
// trivial getters / setters: `func (r *T) X() U { return r.f }`, `func (r *T) SetX(v U) { r.f = v }`

func (c *Ctx) indexAccessors() {
	if c.getters != nil {
		return
	}
	c.indexDecls()
	c.getters = map[*types.Func]*types.Var{}
	c.setters = map[*types.Func]*types.Var{}
	for obj, fd := range c.declOf {
		if fd.Recv == nil || fd.Body == nil || len(fd.Body.List) != 1 || len(fd.Recv.List) != 1 || len(fd.Recv.List[0].Names) != 1 {
			continue
		}
		info := c.declPkg[obj].TypesInfo
		recvObj := info.Defs[fd.Recv.List[0].Names[0]]
		switch s := fd.Body.List[0].(type) {
		case *ast.ReturnStmt:
			if len(s.Results) != 1 {
				continue
			}
			if sel, ok := unparen(s.Results[0]).(*ast.SelectorExpr); ok {
				if id, ok := sel.X.(*ast.Ident); ok && info.Uses[id] == recvObj {
					if fv, ok := info.Uses[sel.Sel].(*types.Var); ok && fv.IsField() {
						c.getters[obj] = fv
					}
				}
			}
		case *ast.AssignStmt:
			if len(s.Lhs) != 1 || len(s.Rhs) != 1 || s.Tok != token.ASSIGN {
				continue
			}
			sig := obj.Type().(*types.Signature)
			if sig.Params().Len() != 1 {
				continue
			}
			if sel, ok := unparen(s.Lhs[0]).(*ast.SelectorExpr); ok {
				if id, ok := sel.X.(*ast.Ident); ok && info.Uses[id] == recvObj {
					if rid, ok := unparen(s.Rhs[0]).(*ast.Ident); ok && info.Uses[rid] == sig.Params().At(0) {
						if fv, ok := info.Uses[sel.Sel].(*types.Var); ok && fv.IsField() {
							c.setters[obj] = fv
						}
					}
				}
			}
		}
	}
}

func unparen(e ast.Expr) ast.Expr {
	for {
		p, ok := e.(*ast.ParenExpr)
		if !ok {
			return e
		}
		e = p.X
	}
}

// ---------------------------------------------------------------------------------------
// canonical expression keys

type canonOpts struct {
	subst  map[types.Object]string // replace an identifier by a role name ("$E", "$P0") or an expansion
	merged bool                    // already completed with the expansions of the enclosing function's locals
}

// canon renders an expression as a structural key: parentheses dropped, trivial getters unified
// with their field (e.Length() == e.length), operands of commutative operators sorted, constants
// folded to their value.
func (c *Ctx) canon(info *types.Info, e ast.Expr, o *canonOpts) string {
	c.indexAccessors()
	if o == nil && !c.noAutoExpand {
		o = c.autoOpts(info, e)
	} else if o != nil && !o.merged && !c.noAutoExpand {
		o = c.mergedOpts(info, e, o)
	}
	e = unparen(e)
	if tv, ok := info.Types[e]; ok && tv.Value != nil {
		// named constants keep their name when they are sentinels of the repo (NIL_*), otherwise value
		if id, ok := e.(*ast.Ident); ok {
			if cn, ok := info.Uses[id].(*types.Const); ok && inRepoObj(cn) {
				return cn.Name()
			}
		}
		if sel, ok := e.(*ast.SelectorExpr); ok {
			if cn, ok := info.Uses[sel.Sel].(*types.Const); ok && inRepoObj(cn) {
				return cn.Name()
			}
		}
		return constKey(tv.Value)
	}
	switch x := e.(type) {
	case *ast.Ident:
		if obj := info.Uses[x]; obj != nil {
			if o != nil {
				if s, ok := o.subst[obj]; ok {
					return s
				}
			}
		}
		if obj := info.Defs[x]; obj != nil && o != nil {
			if s, ok := o.subst[obj]; ok {
				return s
			}
		}
		return x.Name
	case *ast.BasicLit:
		return x.Value
	case *ast.SelectorExpr:
		if _, ok := info.Selections[x]; ok {
			return c.canon(info, x.X, o) + "." + x.Sel.Name
		}
		// qualified identifier
		if obj := info.Uses[x.Sel]; obj != nil && obj.Pkg() != nil {
			return obj.Pkg().Name() + "." + x.Sel.Name
		}
		return c.canon(info, x.X, o) + "." + x.Sel.Name
	case *ast.CallExpr:
		if fn := calleeOf(info, x); fn != nil {
			if fv, ok := c.getters[fn]; ok && len(x.Args) == 0 {
				if sel, ok := unparen(x.Fun).(*ast.SelectorExpr); ok {
					return c.canon(info, sel.X, o) + "." + fv.Name()
				}
			}
		}
		// a call of a small predicate of the repository (`hasLength(e)`) reads as the expression it returns
		if !c.inCanonPredicate {
			c.inCanonPredicate = true
			be := c.inlinePredicate(info, x, o, 2)
			c.inCanonPredicate = false
			if be != nil {
				return "(" + be.String() + ")"
			}
		}
		// conversion
		if tv, ok := info.Types[x.Fun]; ok && tv.IsType() && len(x.Args) == 1 {
			return types.TypeString(tv.Type, func(p *types.Package) string { return p.Name() }) + "(" + c.canon(info, x.Args[0], o) + ")"
		}
		var args []string
		for _, a := range x.Args {
			args = append(args, c.canon(info, a, o))
		}
		return c.canon(info, x.Fun, o) + "(" + strings.Join(args, ",") + ")"
	case *ast.IndexExpr:
		return c.canon(info, x.X, o) + "[" + c.canon(info, x.Index, o) + "]"
	case *ast.SliceExpr:
		s := c.canon(info, x.X, o) + "["
		if x.Low != nil {
			s += c.canon(info, x.Low, o)
		}
		s += ":"
		if x.High != nil {
			s += c.canon(info, x.High, o)
		}
		return s + "]"
	case *ast.StarExpr:
		return "*" + c.canon(info, x.X, o)
	case *ast.UnaryExpr:
		return x.Op.String() + c.canon(info, x.X, o)
	case *ast.BinaryExpr:
		a, b := c.canon(info, x.X, o), c.canon(info, x.Y, o)
		op := x.Op
		switch op {
		case token.ADD, token.MUL, token.EQL, token.NEQ, token.LAND, token.LOR, token.AND, token.OR, token.XOR:
			if isStringType(info, x.X) && op == token.ADD {
				break // string concatenation is not commutative
			}
			if b < a {
				a, b = b, a
			}
		case token.GTR:
			op, a, b = token.LSS, b, a
		case token.GEQ:
			op, a, b = token.LEQ, b, a
		}
		return "(" + a + " " + op.String() + " " + b + ")"
	case *ast.CompositeLit:
		return "lit{" + fmt.Sprint(len(x.Elts)) + "}"
	case *ast.FuncLit:
		return "func@" + fmt.Sprint(x.Pos())
	case *ast.TypeAssertExpr:
		return c.canon(info, x.X, o) + ".(T)"
	case *ast.KeyValueExpr:
		return c.canon(info, x.Key, o) + ":" + c.canon(info, x.Value, o)
	}
	return fmt.Sprintf("?%T", e)
}

func inRepoObj(o types.Object) bool {
	return o != nil && o.Pkg() != nil && (o.Pkg().Path() == modPath || strings.HasPrefix(o.Pkg().Path(), modPath+"/"))
}

func isStringType(info *types.Info, e ast.Expr) bool {
	if tv, ok := info.Types[e]; ok && tv.Type != nil {
		if b, ok := tv.Type.Underlying().(*types.Basic); ok {
			return b.Info()&types.IsString != 0
		}
	}
	return false
}

func constKey(v constant.Value) string {
	switch v.Kind() {
	case constant.Int, constant.Float:
		if f, ok := constant.Float64Val(constant.ToFloat(v)); ok || true {
			if f == float64(int64(f)) {
				return fmt.Sprintf("%d", int64(f))
			}
			return fmt.Sprintf("%g", f)
		}
	}
	return v.ExactString()
}

// ---------------------------------------------------------------------------------------
// walking with a parent stack

func walkStack(root ast.Node, f func(n ast.Node, stack []ast.Node) bool) {
	var stack []ast.Node
	ast.Inspect(root, func(n ast.Node) bool {
		if n == nil {
			stack = stack[:len(stack)-1]
			return true
		}
		ok := f(n, stack)
		if ok {
			stack = append(stack, n)
		}
		return ok
	})
}

// callsIn lists every call expression in root (not descending into function literals unless deep).
func callsIn(root ast.Node, deep bool) []*ast.CallExpr {
	var out []*ast.CallExpr
	ast.Inspect(root, func(n ast.Node) bool {
		if _, ok := n.(*ast.FuncLit); ok && !deep && n != root {
			return false
		}
		if c, ok := n.(*ast.CallExpr); ok {
			out = append(out, c)
		}
		return true
	})
	return out
}

// funcLits lists the function literals of a function body in source order.
func funcLits(root ast.Node) []*ast.FuncLit {
	var out []*ast.FuncLit
	ast.Inspect(root, func(n ast.Node) bool {
		if fl, ok := n.(*ast.FuncLit); ok {
			out = append(out, fl)
		}
		return true
	})
	return out
}

// stackTo returns the chain of nodes from root down to target (inclusive), or nil.
func stackTo(root, target ast.Node) []ast.Node {
	var res []ast.Node
	walkStack(root, func(n ast.Node, stack []ast.Node) bool {
		if res != nil {
			return false
		}
		if n == target {
			res = append(append([]ast.Node{}, stack...), n)
			return false
		}
		return n.Pos() <= target.Pos() && target.End() <= n.End()
	})
	return res
}

// ---------------------------------------------------------------------------------------
// path conditions over structured code

// cond is one conjunct of a path condition: Expr (or its negation).
type cond struct {
	Expr ast.Expr
	Neg  bool
	// for switch cases: Tag == one of Vals (Neg: none of them)
	Tag  ast.Expr
	Vals []ast.Expr
}

// leaves tells whether a statement list always leaves the enclosing block (return / continue /
// break / goto / panic / os.Exit-like call as last statement).
func (c *Ctx) leaves(info *types.Info, list []ast.Stmt) bool {
	if len(list) == 0 {
		return false
	}
	switch s := list[len(list)-1].(type) {
	case *ast.ReturnStmt:
		return true
	case *ast.BranchStmt:
		return s.Tok == token.CONTINUE || s.Tok == token.BREAK || s.Tok == token.GOTO
	case *ast.ExprStmt:
		if call, ok := s.X.(*ast.CallExpr); ok {
			if id, ok := call.Fun.(*ast.Ident); ok && id.Name == "panic" {
				return true
			}
			if fn := calleeOf(info, call); fn != nil {
				if isFunc(fn, "os", "", "Exit") || isRepoFunc(fn, "io", "", "ExitWithMessage") || (fn.Pkg() != nil && fn.Pkg().Path() == "log" && strings.HasPrefix(fn.Name(), "Fatal")) {
					return true
				}
			}
		}
	case *ast.BlockStmt:
		return c.leaves(info, s.List)
	case *ast.IfStmt:
		if s.Else == nil {
			return false
		}
		var el []ast.Stmt
		switch e := s.Else.(type) {
		case *ast.BlockStmt:
			el = e.List
		default:
			el = []ast.Stmt{e}
		}
		return c.leaves(info, s.Body.List) && c.leaves(info, el)
	}
	return false
}

// pathConds computes the conjunction of conditions under which target (a node inside body) is
// reached from the start of the innermost enclosing loop body or of the function body (whichever
// is closer), over structured code: enclosing if/else, switch cases and preceding guards whose
// body leaves. It returns ok=false when the shape is outside what it understands (labels, goto).
// assigned reports identifiers assigned between a guard and the target so callers can refuse
// guards whose terms change meanwhile.
func (c *Ctx) pathConds(info *types.Info, body *ast.BlockStmt, target ast.Node, stopAtLoop bool) (conds []cond, ok bool) {
	st := stackTo(body, target)
	if st == nil {
		return nil, false
	}
	ok = true
	for i := 0; i < len(st)-1; i++ {
		parent, child := st[i], st[i+1]
		switch p := parent.(type) {
		case *ast.BlockStmt:
			conds = append(conds, c.guardsBefore(info, p.List, child)...)
		case *ast.CaseClause:
			conds = append(conds, c.guardsBefore(info, p.Body, child)...)
		case *ast.IfStmt:
			if child == p.Body {
				conds = append(conds, cond{Expr: p.Cond})
			} else if child == p.Else {
				conds = append(conds, cond{Expr: p.Cond, Neg: true})
			}
		case *ast.SwitchStmt:
			// child is the body block; the case clause is st[i+2]
			if i+2 < len(st) {
				if cc, okc := st[i+2].(*ast.CaseClause); okc && child == p.Body {
					if p.Tag != nil {
						if cc.List != nil {
							conds = append(conds, cond{Tag: p.Tag, Vals: cc.List})
						} else {
							var all []ast.Expr
							for _, s := range p.Body.List {
								all = append(all, s.(*ast.CaseClause).List...)
							}
							conds = append(conds, cond{Tag: p.Tag, Vals: all, Neg: true})
						}
					} else {
						// tagless switch: first true case; earlier cases false
						for _, s := range p.Body.List {
							o := s.(*ast.CaseClause)
							if o == cc {
								break
							}
							for _, e := range o.List {
								conds = append(conds, cond{Expr: e, Neg: true})
							}
						}
						if cc.List != nil {
							if len(cc.List) == 1 {
								conds = append(conds, cond{Expr: cc.List[0]})
							} else {
								ok = false
							}
						}
					}
					// fallthrough makes this wrong
					for _, s := range p.Body.List {
						b := s.(*ast.CaseClause).Body
						if len(b) > 0 {
							if br, okb := b[len(b)-1].(*ast.BranchStmt); okb && br.Tok == token.FALLTHROUGH {
								ok = false
							}
						}
					}
				}
			}
		case *ast.ForStmt:
			if child == p.Body {
				if stopAtLoop {
					conds = nil
				}
				if p.Cond != nil && !(stopAtLoop && isIndexLoop(info, p)) {
					// the bound of a counting loop says which iterations exist, not which elements are
					// selected: `for i := 0; i < len(xs); i++` is `for i := range xs`
					conds = append(conds, cond{Expr: p.Cond})
				}
			}
		case *ast.RangeStmt:
			if child == p.Body && stopAtLoop {
				conds = nil
			}
		case *ast.LabeledStmt:
			ok = false
		case *ast.FuncLit:
			conds = nil // a closure body starts a new path
		}
	}
	return flattenConds(conds), ok
}

// flattenConds splits `A && B` (positive) and `A || B` (negated) into their parts, and strips
// leading negations, so that merging nested ifs into one condition does not change what is seen.
func flattenConds(in []cond) []cond {
	var out []cond
	var add func(cd cond)
	add = func(cd cond) {
		if cd.Expr == nil {
			out = append(out, cd)
			return
		}
		switch x := unparen(cd.Expr).(type) {
		case *ast.BinaryExpr:
			if (x.Op == token.LAND && !cd.Neg) || (x.Op == token.LOR && cd.Neg) {
				add(cond{Expr: x.X, Neg: cd.Neg})
				add(cond{Expr: x.Y, Neg: cd.Neg})
				return
			}
		case *ast.UnaryExpr:
			if x.Op == token.NOT {
				add(cond{Expr: x.X, Neg: !cd.Neg})
				return
			}
		}
		out = append(out, cd)
	}
	for _, cd := range in {
		add(cd)
	}
	return out
}

func (c *Ctx) guardsBefore(info *types.Info, list []ast.Stmt, child ast.Node) []cond {
	var out []cond
	for _, s := range list {
		if s == child {
			break
		}
		if is, ok := s.(*ast.IfStmt); ok && is.Else == nil && c.leaves(info, is.Body.List) {
			out = append(out, cond{Expr: is.Cond, Neg: true})
		}
	}
	return out
}

// assignedBetween lists the objects assigned (=, :=, op=, ++/--, &x taken) in the statements of
// `list` strictly before child.
func assignedObjs(info *types.Info, n ast.Node) map[types.Object]bool {
	out := map[types.Object]bool{}
	ast.Inspect(n, func(m ast.Node) bool {
		switch s := m.(type) {
		case *ast.AssignStmt:
			for _, l := range s.Lhs {
				if id, ok := unparen(l).(*ast.Ident); ok {
					if o := info.Uses[id]; o != nil {
						out[o] = true
					}
					if o := info.Defs[id]; o != nil {
						out[o] = true
					}
				}
			}
		case *ast.IncDecStmt:
			if id, ok := unparen(s.X).(*ast.Ident); ok {
				if o := info.Uses[id]; o != nil {
					out[o] = true
				}
			}
		case *ast.UnaryExpr:
			if s.Op == token.AND {
				if id, ok := unparen(s.X).(*ast.Ident); ok {
					if o := info.Uses[id]; o != nil {
						out[o] = true
					}
				}
			}
		case *ast.RangeStmt:
			for _, l := range []ast.Expr{s.Key, s.Value} {
				if id, ok := l.(*ast.Ident); ok {
					if o := info.Defs[id]; o != nil {
						out[o] = true
					}
					if o := info.Uses[id]; o != nil {
						out[o] = true
					}
				}
			}
		}
		return true
	})
	return out
}

// ---------------------------------------------------------------------------------------
// misc

func (c *Ctx) src(n ast.Node) string {
	if n == nil {
		return ""
	}
	if e, ok := n.(ast.Expr); ok {
		return types.ExprString(e)
	}
	var sb strings.Builder
	if err := printer.Fprint(&sb, c.Fset, n); err == nil && sb.Len() > 0 && sb.Len() < 200 && !strings.Contains(sb.String(), "\n") {
		return sb.String()
	}
	return fmt.Sprintf("%T", n)
}

func pkgOfFile(all []*packages.Package, f *ast.File) *packages.Package {
	for _, p := range all {
		for _, g := range p.Syntax {
			if g == f {
				return p
			}
		}
	}
	return nil
}

func sortedKeys(m map[string]bool) []string {
	var out []string
	for k := range m {
		out = append(out, k)
	}
	sort.Strings(out)
	return out
}

// paramObj returns the i-th parameter object of a function declaration.
func paramObj(info *types.Info, fd *ast.FuncDecl, i int) types.Object {
	k := 0
	for _, f := range fd.Type.Params.List {
		for _, n := range f.Names {
			if k == i {
				return info.Defs[n]
			}
			k++
		}
	}
	return nil
}

func recvObj(info *types.Info, fd *ast.FuncDecl) types.Object {
	if fd.Recv == nil || len(fd.Recv.List) == 0 || len(fd.Recv.List[0].Names) == 0 {
		return nil
	}
	return info.Defs[fd.Recv.List[0].Names[0]]
}

func identObj(info *types.Info, e ast.Expr) types.Object {
	if id, ok := unparen(e).(*ast.Ident); ok {
		if o := info.Uses[id]; o != nil {
			return o
		}
		return info.Defs[id]
	}
	return nil
}

// mergedOpts: options given by a rule (role names for parameters) completed with the expansions of
// the single-assignment locals of the function that contains e, computed under those role names.
func (c *Ctx) mergedOpts(info *types.Info, e ast.Expr, o *canonOpts) *canonOpts {
	if e == nil || !e.Pos().IsValid() {
		return o
	}
	c.autoOpts(info, e) // fills declSpans
	type mk struct {
		fd *ast.FuncDecl
		o  *canonOpts
		n  int
	}
	if c.mergeCache == nil {
		c.mergeCache = map[interface{}]*canonOpts{}
	}
	for _, fd := range c.declSpans {
		if fd.Pos() <= e.Pos() && e.Pos() < fd.End() {
			k := mk{fd, o, len(o.subst)}
			if m, ok := c.mergeCache[k]; ok {
				if m == nil {
					return o
				}
				return m
			}
			c.mergeCache[k] = nil // busy
			m := c.localExpansionsWith(info, fd.Body, o)
			m.merged = true
			c.mergeCache[k] = m
			return m
		}
	}
	return o
}

// autoOpts: when no options are given, single-assignment locals initialised by a pure getter chain
// (`right := e.Right()`) are expanded, function by function, so that introducing or removing such
// an explanatory local does not change canonical keys.
func (c *Ctx) autoOpts(info *types.Info, e ast.Expr) *canonOpts {
	if e == nil || !e.Pos().IsValid() {
		return nil
	}
	if c.autoCache == nil {
		c.autoCache = map[*ast.FuncDecl]*canonOpts{}
		c.autoBusy = map[*ast.FuncDecl]bool{}
	}
	c.indexDecls()
	if c.declSpans == nil {
		for _, fd := range c.declOf {
			if fd.Body != nil {
				c.declSpans = append(c.declSpans, fd)
			}
		}
	}
	for _, fd := range c.declSpans {
		if fd.Pos() <= e.Pos() && e.Pos() < fd.End() {
			if o, ok := c.autoCache[fd]; ok {
				return o
			}
			if c.autoBusy[fd] {
				return nil
			}
			c.autoBusy[fd] = true
			o := c.localExpansions(info, fd.Body)
			c.autoBusy[fd] = false
			c.autoCache[fd] = o
			return o
		}
	}
	return nil
}

// isIndexLoop: `for v := e; v <op> bound; v++ / v-- / v += k` - a counting loop whose condition only bounds the counter.
func isIndexLoop(info *types.Info, p *ast.ForStmt) bool {
	as, ok := p.Init.(*ast.AssignStmt)
	if !ok || as.Tok != token.DEFINE || len(as.Lhs) < 1 {
		return false
	}
	v := identObj(info, as.Lhs[0])
	// `for i, xs := 0, f(); i < len(xs); i++`: the counter is the variable the post statement steps
	if len(as.Lhs) > 1 {
		var stepped types.Object
		switch post := p.Post.(type) {
		case *ast.IncDecStmt:
			stepped = identObj(info, post.X)
		case *ast.AssignStmt:
			if len(post.Lhs) == 1 {
				stepped = identObj(info, post.Lhs[0])
			}
		}
		v = nil
		for _, l := range as.Lhs {
			if o := identObj(info, l); o != nil && o == stepped {
				v = o
			}
		}
	}
	if v == nil {
		return false
	}
	switch post := p.Post.(type) {
	case *ast.IncDecStmt:
		if identObj(info, post.X) != v {
			return false
		}
	case *ast.AssignStmt:
		if len(post.Lhs) != 1 || identObj(info, post.Lhs[0]) != v || (post.Tok != token.ADD_ASSIGN && post.Tok != token.SUB_ASSIGN) {
			return false
		}
	default:
		return false
	}
	be, ok := unparen(p.Cond).(*ast.BinaryExpr)
	if !ok {
		return false
	}
	switch be.Op {
	case token.LSS, token.LEQ, token.GTR, token.GEQ, token.NEQ:
	default:
		return false
	}
	return identObj(info, be.X) == v || identObj(info, be.Y) == v
}

// loopElement: e denotes the current element of the innermost loop enclosing `at`, whatever the loop
// form: the value variable of `for _, x := range C`, `C[i]` with i the key of `for i := range C` or
// the counter of `for i := 0; i < len(C); i++`, or a local defined once as one of these. Returns the
// canonical text of the container C.
func (c *Ctx) loopElement(info *types.Info, body *ast.BlockStmt, at ast.Node, e ast.Expr, o *canonOpts) (container string, ok bool) {
	var loop ast.Node
	for _, a := range stackTo(body, at) {
		switch a.(type) {
		case *ast.RangeStmt, *ast.ForStmt:
			loop = a
		}
	}
	if loop == nil {
		return "", false
	}
	var idx, val, listObj types.Object
	listInit := ""
	switch l := loop.(type) {
	case *ast.RangeStmt:
		container = c.canon(info, l.X, o)
		if l.Key != nil {
			idx = identObj(info, l.Key)
		}
		if l.Value != nil {
			val = identObj(info, l.Value)
		}
	case *ast.ForStmt:
		if !isIndexLoop(info, l) {
			return "", false
		}
		init := l.Init.(*ast.AssignStmt)
		idx = identObj(info, init.Lhs[0])
		be := unparen(l.Cond).(*ast.BinaryExpr)
		if len(init.Lhs) > 1 {
			// `for i, xs := 0, f(); i < len(xs); i++`: the counter is the variable the condition bounds
			for _, lh := range init.Lhs {
				if ob := identObj(info, lh); ob != nil && (ob == identObj(info, be.X) || ob == identObj(info, be.Y)) {
					idx = ob
				}
			}
		}
		bound := be.Y
		if identObj(info, be.Y) == idx {
			bound = be.X
		}
		bk := c.canon(info, bound, o)
		if !strings.HasPrefix(bk, "len(") || !strings.HasSuffix(bk, ")") {
			return "", false
		}
		container = bk[4 : len(bk)-1]
		// the list declared in the loop's own init stands for what it is initialised with
		if lc, isCall := unparen(bound).(*ast.CallExpr); isCall && len(lc.Args) == 1 && len(init.Lhs) == len(init.Rhs) {
			for i, lh := range init.Lhs {
				if ob := identObj(info, lh); ob != nil && ob == identObj(info, lc.Args[0]) {
					listObj, listInit = ob, c.canon(info, init.Rhs[i], o)
				}
			}
		}
	}
	var is func(e ast.Expr, depth int) bool
	is = func(e ast.Expr, depth int) bool {
		e = unparen(e)
		if id, isId := e.(*ast.Ident); isId {
			ob := identObj(info, id)
			if ob != nil && ob == val {
				return true
			}
			if depth > 0 && ob != nil {
				n, def := 0, ast.Expr(nil)
				forAssignsTo(info, loop, ob, func(rhs ast.Expr, multi, incdec bool) {
					n++
					def = rhs
				})
				if n == 1 && def != nil {
					return is(def, depth-1)
				}
			}
			return false
		}
		if ie, isIx := e.(*ast.IndexExpr); isIx && idx != nil {
			if listObj != nil && identObj(info, ie.X) == listObj {
				return identObj(info, ie.Index) == idx
			}
			return identObj(info, ie.Index) == idx && c.canon(info, ie.X, o) == container
		}
		return false
	}
	if listObj != nil {
		return listInit, is(e, 2)
	}
	return container, is(e, 2)
}
