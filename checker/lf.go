package main

import (
	"fmt"
	"go/ast"
	"go/constant"
	"go/token"
	"go/types"
	"math/big"
	"sort"
	"strings"
)

// LF — rational normal forms.
//
// A numeric expression is folded into  Σ q · Π atom^k  (q rational, k integer). Atoms are canonical
// expression keys (getters unified with their field, single-assignment locals expanded), plus the
// sanctioned functions pos(x)=math.Max(0,x), max(a,b), int(x), and bracketed polynomials that occur
// as denominators. Two expressions that are equal as rational functions of their atoms get the
// same normal form (float rounding order is deliberately ignored: x/2, x*0.5, 0.5*x agree).

type mono struct {
	coef *big.Rat
	exps map[string]int
}

type poly struct{ terms []mono }

func (m mono) key() string {
	var ks []string
	for a, k := range m.exps {
		if k != 0 {
			if k == 1 {
				ks = append(ks, a)
			} else {
				ks = append(ks, fmt.Sprintf("%s^%d", a, k))
			}
		}
	}
	sort.Strings(ks)
	return strings.Join(ks, "·")
}

func pConst(r *big.Rat) *poly {
	if r.Sign() == 0 {
		return &poly{}
	}
	return &poly{terms: []mono{{coef: new(big.Rat).Set(r), exps: map[string]int{}}}}
}
func pInt(i int64) *poly { return pConst(new(big.Rat).SetInt64(i)) }
func pAtom(a string) *poly {
	return &poly{terms: []mono{{coef: big.NewRat(1, 1), exps: map[string]int{a: 1}}}}
}

func (p *poly) norm() *poly {
	acc := map[string]mono{}
	for _, t := range p.terms {
		k := t.key()
		if o, ok := acc[k]; ok {
			o.coef = new(big.Rat).Add(o.coef, t.coef)
			acc[k] = o
		} else {
			e := map[string]int{}
			for a, x := range t.exps {
				if x != 0 {
					e[a] = x
				}
			}
			acc[k] = mono{coef: new(big.Rat).Set(t.coef), exps: e}
		}
	}
	var ks []string
	for k, t := range acc {
		if t.coef.Sign() != 0 {
			ks = append(ks, k)
		}
	}
	sort.Strings(ks)
	out := &poly{}
	for _, k := range ks {
		out.terms = append(out.terms, acc[k])
	}
	return out
}

func (p *poly) add(q *poly) *poly {
	return (&poly{terms: append(append([]mono{}, p.terms...), q.terms...)}).norm()
}
func (p *poly) neg() *poly {
	out := &poly{}
	for _, t := range p.terms {
		out.terms = append(out.terms, mono{coef: new(big.Rat).Neg(t.coef), exps: t.exps})
	}
	return out
}
func (p *poly) sub(q *poly) *poly { return p.add(q.neg()) }
func (p *poly) mul(q *poly) *poly {
	out := &poly{}
	for _, a := range p.terms {
		for _, b := range q.terms {
			e := map[string]int{}
			for k, v := range a.exps {
				e[k] += v
			}
			for k, v := range b.exps {
				e[k] += v
			}
			out.terms = append(out.terms, mono{coef: new(big.Rat).Mul(a.coef, b.coef), exps: e})
		}
	}
	return out.norm()
}

// inv returns 1/p: exact for a monomial, otherwise the polynomial becomes a bracketed atom.
func (p *poly) inv() (*poly, error) {
	p = p.norm()
	if len(p.terms) == 0 {
		return nil, fmt.Errorf("division by zero")
	}
	if len(p.terms) == 1 {
		t := p.terms[0]
		e := map[string]int{}
		for k, v := range t.exps {
			e[k] = -v
		}
		return &poly{terms: []mono{{coef: new(big.Rat).Inv(t.coef), exps: e}}}, nil
	}
	return &poly{terms: []mono{{coef: big.NewRat(1, 1), exps: map[string]int{"[" + p.String() + "]": -1}}}}, nil
}

func (p *poly) String() string {
	p = p.norm()
	if len(p.terms) == 0 {
		return "0"
	}
	var parts []string
	for _, t := range p.terms {
		k := t.key()
		c := t.coef.RatString()
		switch {
		case k == "":
			parts = append(parts, c)
		case c == "1":
			parts = append(parts, k)
		case c == "-1":
			parts = append(parts, "-"+k)
		default:
			parts = append(parts, c+"·"+k)
		}
	}
	return strings.Join(parts, " + ")
}

func (p *poly) equal(q *poly) bool { return p.String() == q.String() }

// isConst reports whether p is the constant v.
func (p *poly) isConst() (*big.Rat, bool) {
	p = p.norm()
	if len(p.terms) == 0 {
		return new(big.Rat), true
	}
	if len(p.terms) == 1 && p.terms[0].key() == "" {
		return p.terms[0].coef, true
	}
	return nil, false
}

// singleAtom: p == q·a for one atom a with exponent 1.
func (p *poly) singleAtom() (atom string, coef *big.Rat, ok bool) {
	p = p.norm()
	if len(p.terms) != 1 {
		return "", nil, false
	}
	t := p.terms[0]
	if len(t.exps) != 1 {
		return "", nil, false
	}
	for a, k := range t.exps {
		if k == 1 {
			return a, t.coef, true
		}
	}
	return "", nil, false
}

func (p *poly) atoms() []string {
	s := map[string]bool{}
	for _, t := range p.norm().terms {
		for a := range t.exps {
			s[a] = true
		}
	}
	return sortedKeys(s)
}

// ---------------------------------------------------------------------------------------

type lfEnv struct {
	c    *Ctx
	info *types.Info
	o    *canonOpts
	// exprs of expanded locals (object -> initialiser) so that arithmetic locals fold too
	inits map[types.Object]ast.Expr
	depth int
	// values of locals during sequential symbolic execution (symexec.go); consulted first
	vals map[types.Object]*poly
}

// newLFEnv prepares folding inside a function body: single-assignment locals (any initialiser) are
// expanded into their initialiser's normal form.
func (c *Ctx) newLFEnv(info *types.Info, body *ast.BlockStmt) *lfEnv {
	env := &lfEnv{c: c, info: info, o: c.localExpansions(info, body), inits: map[types.Object]ast.Expr{}}
	count := map[types.Object]int{}
	ast.Inspect(body, func(n ast.Node) bool {
		switch s := n.(type) {
		case *ast.AssignStmt:
			for i, l := range s.Lhs {
				o := identObj(info, l)
				if o == nil {
					continue
				}
				count[o]++
				if s.Tok == token.DEFINE && len(s.Lhs) == len(s.Rhs) {
					env.inits[o] = s.Rhs[i]
				} else {
					count[o]++
				}
			}
		case *ast.IncDecStmt:
			if o := identObj(info, s.X); o != nil {
				count[o] += 2
			}
		case *ast.UnaryExpr:
			if s.Op == token.AND {
				if o := identObj(info, s.X); o != nil {
					count[o] += 2
				}
			}
		case *ast.RangeStmt:
			for _, e := range []ast.Expr{s.Key, s.Value} {
				if e != nil {
					if o := identObj(info, e); o != nil {
						count[o] += 2
					}
				}
			}
		}
		return true
	})
	for o := range env.inits {
		if count[o] != 1 {
			delete(env.inits, o)
		}
	}
	return env
}

func isNumeric(t types.Type) bool {
	if t == nil {
		return false
	}
	b, ok := t.Underlying().(*types.Basic)
	return ok && b.Info()&types.IsNumeric != 0
}

// fold computes the normal form of e.
func (env *lfEnv) fold(e ast.Expr) (*poly, error) {
	e = unparen(e)
	info := env.info
	if tv, ok := info.Types[e]; ok && tv.Value != nil {
		// repository sentinels keep their name
		switch x := e.(type) {
		case *ast.Ident:
			if cn, ok := info.Uses[x].(*types.Const); ok && inRepoObj(cn) && strings.HasPrefix(cn.Name(), "NIL_") {
				return pAtom(cn.Name()), nil
			}
		case *ast.SelectorExpr:
			if cn, ok := info.Uses[x.Sel].(*types.Const); ok && inRepoObj(cn) && strings.HasPrefix(cn.Name(), "NIL_") {
				return pAtom(cn.Name()), nil
			}
		}
		if tv.Value.Kind() == constant.Int || tv.Value.Kind() == constant.Float {
			r := new(big.Rat)
			if _, ok := r.SetString(tv.Value.ExactString()); ok {
				return pConst(r), nil
			}
		}
	}
	switch x := e.(type) {
	case *ast.Ident:
		if o := identObj(info, x); o != nil {
			if v, ok := env.vals[o]; ok {
				return v, nil
			}
			if init, ok := env.inits[o]; ok && env.depth < 12 && isNumeric(o.Type()) {
				env.depth++
				p, err := env.fold(init)
				env.depth--
				return p, err
			}
		}
		return pAtom(env.c.canon(info, x, env.o)), nil
	case *ast.BinaryExpr:
		l, err := env.fold(x.X)
		if err != nil {
			return nil, err
		}
		r, err := env.fold(x.Y)
		if err != nil {
			return nil, err
		}
		switch x.Op {
		case token.ADD:
			return l.add(r), nil
		case token.SUB:
			return l.sub(r), nil
		case token.MUL:
			return l.mul(r), nil
		case token.QUO:
			// integer division is not rational division
			if isIntType(info, x.X) && isIntType(info, x.Y) {
				return pAtom("intdiv(" + l.String() + "," + r.String() + ")"), nil
			}
			ri, err := r.inv()
			if err != nil {
				return nil, err
			}
			return l.mul(ri), nil
		}
		return nil, fmt.Errorf("operator %s not in the rational fragment", x.Op)
	case *ast.UnaryExpr:
		if x.Op == token.SUB {
			p, err := env.fold(x.X)
			if err != nil {
				return nil, err
			}
			return p.neg(), nil
		}
		if x.Op == token.ADD {
			return env.fold(x.X)
		}
	case *ast.CallExpr:
		// conversions
		if tv, ok := info.Types[x.Fun]; ok && tv.IsType() && len(x.Args) == 1 {
			inner, err := env.fold(x.Args[0])
			if err != nil {
				return nil, err
			}
			to := tv.Type.Underlying()
			if b, ok := to.(*types.Basic); ok {
				if b.Info()&types.IsFloat != 0 {
					return inner, nil // widening: value preserved
				}
				if b.Info()&types.IsInteger != 0 {
					if isIntType(info, x.Args[0]) {
						return inner, nil
					}
					return pAtom("int(" + inner.String() + ")"), nil // truncation is an operation
				}
			}
			return inner, nil
		}
		if fn := calleeOf(info, x); fn != nil && fn.Pkg() != nil && fn.Pkg().Path() == "math" && len(x.Args) == 2 && (fn.Name() == "Max" || fn.Name() == "Min") {
			a, err := env.fold(x.Args[0])
			if err != nil {
				return nil, err
			}
			b, err := env.fold(x.Args[1])
			if err != nil {
				return nil, err
			}
			as, bs := a.String(), b.String()
			if fn.Name() == "Max" {
				if as == "0" {
					return pAtom("pos(" + bs + ")"), nil
				}
				if bs == "0" {
					return pAtom("pos(" + as + ")"), nil
				}
			}
			if bs < as {
				as, bs = bs, as
			}
			return pAtom(strings.ToLower(fn.Name()) + "(" + as + "," + bs + ")"), nil
		}
		if id, ok := x.Fun.(*ast.Ident); ok && id.Name == "len" && len(x.Args) == 1 {
			return pAtom("len(" + env.c.canon(info, x.Args[0], env.o) + ")"), nil
		}
		return pAtom(env.c.canon(info, x, env.o)), nil
	}
	return pAtom(env.c.canon(info, e, env.o)), nil
}

// setterCalls lists calls `X.Setter(arg)` of trivial setters for the given field name in body.
type setCall struct {
	call *ast.CallExpr
	recv string
	arg  ast.Expr
}

func (c *Ctx) setterCalls(info *types.Info, body ast.Node, field string, o *canonOpts) []setCall {
	c.indexAccessors()
	var out []setCall
	ast.Inspect(body, func(n ast.Node) bool {
		call, ok := n.(*ast.CallExpr)
		if !ok {
			return true
		}
		fn := calleeOf(info, call)
		if fn == nil {
			return true
		}
		if fv, ok := c.setters[fn]; ok && fv.Name() == field && len(call.Args) == 1 {
			if sel, ok := unparen(call.Fun).(*ast.SelectorExpr); ok {
				out = append(out, setCall{call, c.canon(info, sel.X, o), call.Args[0]})
			}
		}
		return true
	})
	return out
}

// rename maps atoms through f.
func (p *poly) rename(f func(string) string) *poly {
	out := &poly{}
	for _, t := range p.norm().terms {
		e := map[string]int{}
		for a, k := range t.exps {
			e[f(a)] += k
		}
		out.terms = append(out.terms, mono{coef: new(big.Rat).Set(t.coef), exps: e})
	}
	return out.norm()
}

// incrementDelta recognises the forms `x++`, `x += d`, `x = x + d`, `x = d + x` (and the
// decrement / subtraction counterparts) and returns the canonical target and the polynomial d.
func (c *Ctx) incrementDelta(env *lfEnv, s ast.Stmt) (target string, delta *poly, ok bool) {
	info := env.info
	switch x := s.(type) {
	case *ast.IncDecStmt:
		d := pInt(1)
		if x.Tok == token.DEC {
			d = pInt(-1)
		}
		return c.canon(info, x.X, nil), d, true
	case *ast.AssignStmt:
		if len(x.Lhs) != 1 || len(x.Rhs) != 1 {
			return "", nil, false
		}
		t := c.canon(info, x.Lhs[0], nil)
		switch x.Tok {
		case token.ADD_ASSIGN, token.SUB_ASSIGN:
			p, err := env.fold(x.Rhs[0])
			if err != nil {
				return "", nil, false
			}
			if x.Tok == token.SUB_ASSIGN {
				p = p.neg()
			}
			return t, p, true
		case token.ASSIGN:
			// x = x + d : fold both sides with x as an atom
			lp := pAtom(t)
			saved := env.inits
			env.inits = map[types.Object]ast.Expr{}
			rp, err := env.fold(x.Rhs[0])
			env.inits = saved
			if err != nil {
				return "", nil, false
			}
			d := rp.sub(lp)
			for _, a := range d.atoms() {
				if a == t {
					return "", nil, false
				}
			}
			// the right-hand side must really contain the target
			has := false
			for _, a := range rp.atoms() {
				if a == t {
					has = true
				}
			}
			if !has {
				return "", nil, false
			}
			return t, d, true
		}
	}
	return "", nil, false
}

// lfUnit is a function body with the folding environment to read it in.
type lfUnit struct {
	fi  *FuncInfo
	env *lfEnv
}

// lfUnits returns fi with its own environment, followed by the unexported helpers of the same
// package fi calls (depth 1), each with an environment in which its parameters stand for the
// caller's argument expressions: numeric parameters take the folded argument, the others its
// canonical text. A computation moved into a helper then folds to the same normal form.
func (c *Ctx) lfUnits(fi *FuncInfo) []lfUnit {
	info := fi.Pkg.TypesInfo
	env := c.newLFEnv(info, fi.Decl.Body)
	units := []lfUnit{{fi, env}}
	c.indexAccessors()
	for _, call := range callsIn(fi.Decl.Body, true) {
		g := calleeOf(info, call)
		if g == nil || g == fi.Obj || g.Exported() || g.Pkg() != fi.Obj.Pkg() {
			continue
		}
		if _, isGetter := c.getters[g]; isGetter {
			continue
		}
		if _, isSetter := c.setters[g]; isSetter {
			continue
		}
		gi := c.FuncOfObj(g)
		if gi == nil || gi.Decl.Body == nil {
			continue
		}
		ginfo := gi.Pkg.TypesInfo
		henv := c.newLFEnv(ginfo, gi.Decl.Body)
		if henv.vals == nil {
			henv.vals = map[types.Object]*poly{}
		}
		sig := g.Type().(*types.Signature)
		if sig.Variadic() || sig.Params().Len() != len(call.Args) {
			continue
		}
		for i, a := range call.Args {
			p := paramObj(ginfo, gi.Decl, i)
			if p == nil {
				continue
			}
			if b, ok := p.Type().Underlying().(*types.Basic); ok && b.Info()&types.IsNumeric != 0 {
				if v, err := env.fold(a); err == nil {
					henv.vals[p] = v
					if at, q, ok := v.singleAtom(); ok && q.Cmp(big.NewRat(1, 1)) == 0 {
						henv.o.subst[p] = at // the parameter is just a name for that value: guards on it read the same
					}
					continue
				}
			}
			henv.o.subst[p] = c.canon(info, a, env.o)
		}
		if sig.Recv() != nil && gi.Decl.Recv != nil && len(gi.Decl.Recv.List) == 1 && len(gi.Decl.Recv.List[0].Names) == 1 {
			if sel, ok := unparen(call.Fun).(*ast.SelectorExpr); ok {
				henv.o.subst[ginfo.Defs[gi.Decl.Recv.List[0].Names[0]]] = c.canon(info, sel.X, env.o)
			}
		}
		units = append(units, lfUnit{gi, henv})
	}
	return units
}
