package main

import (
	"fmt"
	"go/ast"
	"go/constant"
	"go/token"
	"go/types"
	"sort"
	"strings"

	"golang.org/x/tools/go/cfg"
)

// BLANKS-AGREE: the splitter of a multi-tree Newick stream (fileutils.ReadUntilSemiColon) decides
// where a tree ends by looking at the last character of a line that is not a blank. The single-tree
// reader skips whatever the lexer calls white space after the ';'. The two agree only if every
// in-line white-space character of the lexer (isWhitespace minus the line terminators ReadLine
// removes) is a blank for the splitter too: otherwise `(a,b);<TAB>` followed by another tree is one
// text for the multi-tree reader (the second tree is never delivered) and two for everything else.
//
// The splitter's blank set is read from the function and the in-repo helpers it calls: the character
// constants a byte/rune is compared with (`==`, `!=`, `case`), the constant cut sets of
// bytes/strings Trim, TrimRight, TrimSuffix-free forms, and TrimSpace / unicode.IsSpace (all white
// space). The end-of-tree character itself (';') is not a blank.
func (c *Ctx) blanksAgree(rule string, splitter, lexerWS *FuncInfo, clause string) {
	if splitter == nil || splitter.Decl.Body == nil {
		c.Undecided(rule, "fileutils.ReadUntilSemiColon", token.NoPos, "the multi-tree splitter was not found")
		return
	}
	key := funcName(splitter.Obj) + "/blanks"
	// required: what the lexer skips inside a line
	required := map[rune]bool{}
	if lexerWS != nil {
		ai := c.newAbsInt()
		okAll := true
		for r := rune(1); r < 127 && okAll; r++ {
			sm := ai.summary(lexerWS, []aval{aOf(constAtom(constant.MakeInt64(int64(r))))})
			if sm == nil || len(sm.results) != 1 || !(sm.results[0].is("true") || sm.results[0].is("false")) {
				okAll = false
				break
			}
			if sm.results[0].is("true") && r != '\n' && r != '\r' {
				required[r] = true
			}
		}
		if !okAll {
			required = map[rune]bool{}
		}
	}
	if len(required) == 0 {
		required = map[rune]bool{' ': true, '\t': true}
	}
	found := map[rune]bool{}
	all := false
	seen := map[*types.Func]bool{splitter.Obj: true}
	work := []*FuncInfo{splitter}
	for i := 0; i < len(work) && i < 8; i++ {
		fi := work[i]
		info := fi.Pkg.TypesInfo
		addConst := func(e ast.Expr) {
			tv, ok := info.Types[e]
			if !ok || tv.Value == nil {
				return
			}
			switch tv.Value.Kind() {
			case constant.Int:
				if bt, isB := tv.Type.Underlying().(*types.Basic); isB && (bt.Kind() == types.Byte || bt.Kind() == types.Rune || bt.Kind() == types.UntypedRune || bt.Kind() == types.Uint8 || bt.Kind() == types.Int32) {
					if v, exact := constant.Int64Val(tv.Value); exact && v > 0 && v < 128 {
						found[rune(v)] = true
					}
				}
			case constant.String:
				for _, r := range constant.StringVal(tv.Value) {
					found[r] = true
				}
			}
		}
		ast.Inspect(fi.Decl.Body, func(n ast.Node) bool {
			switch x := n.(type) {
			case *ast.BinaryExpr:
				if x.Op == token.EQL || x.Op == token.NEQ {
					for _, side := range []ast.Expr{x.X, x.Y} {
						if tv, ok := info.Types[side]; ok && tv.Value != nil && tv.Value.Kind() == constant.Int {
							addConst(side)
						}
					}
				}
			case *ast.CaseClause:
				for _, e := range x.List {
					if tv, ok := info.Types[e]; ok && tv.Value != nil && tv.Value.Kind() == constant.Int {
						addConst(e)
					}
				}
			case *ast.CallExpr:
				g := calleeOf(info, x)
				if g == nil {
					return true
				}
				if g.Pkg() != nil && (g.Pkg().Path() == "bytes" || g.Pkg().Path() == "strings") {
					switch g.Name() {
					case "TrimSpace":
						all = true
					case "Trim", "TrimRight", "TrimLeft", "ContainsRune", "IndexByte", "ContainsAny", "IndexAny", "LastIndexAny":
						if len(x.Args) == 2 {
							addConst(x.Args[1])
						}
					}
				}
				if g.Pkg() != nil && g.Pkg().Path() == "unicode" && g.Name() == "IsSpace" {
					all = true
				}
				if inRepo(g) && !seen[g] {
					if gi := c.FuncOfObj(g); gi != nil && gi.Decl.Body != nil {
						seen[g] = true
						work = append(work, gi)
					}
				}
			case *ast.SelectorExpr:
				// unicode.IsSpace handed over as a function value
				if f, ok := info.Uses[x.Sel].(*types.Func); ok && f.Pkg() != nil && f.Pkg().Path() == "unicode" && f.Name() == "IsSpace" {
					all = true
				}
			}
			return true
		})
	}
	delete(found, ';')
	if !all && len(found) == 0 {
		c.Undecided(rule, key, splitter.Decl.Pos(), "no blank character is named in the end-of-tree test of the splitter: cannot compare it with the lexer's white space")
		return
	}
	var missing []string
	for r := range required {
		if !all && !found[r] {
			missing = append(missing, strconvQuoteRune(r))
		}
	}
	sort.Strings(missing)
	var have []string
	for r := range found {
		have = append(have, strconvQuoteRune(r))
	}
	sort.Strings(have)
	hs := strings.Join(have, " ")
	if all {
		hs = "all white space"
	}
	c.Check(len(missing) == 0, rule, key, splitter.Decl.Pos(),
		"the splitter's end-of-tree test steps back over every in-line white-space character of the lexer ("+hs+")",
		"the lexer skips "+strings.Join(missing, " ")+" after a ';' but the multi-tree splitter does not step back over it (blanks: "+hs+"): a tree followed by that character and a line end is glued to the next tree, which is never delivered").Clause = clause
}

func strconvQuoteRune(r rune) string {
	switch r {
	case ' ':
		return "' '"
	case '\t':
		return `'\t'`
	case '\n':
		return `'\n'`
	case '\r':
		return `'\r'`
	}
	return "'" + string(r) + "'"
}

// DUP-NAME: a TipBag is keyed by tip name. AddTip must tell "this very tip again" (nothing to do)
// from "another tip of the tree with the same name" (an error: the bag would silently stand for one
// of them only and the partition of the tips would lose the other). Structurally: the value the
// bag's map holds under the tip's name is compared with the tip given, and a return under the
// "they differ" side of that comparison hands back an error that is not nil.
func (c *Ctx) tipBagDupName(rule string, clause string) {
	fi := c.Func("tree", "TipBag", "AddTip")
	if fi == nil || fi.Decl.Body == nil {
		c.Undecided(rule, "tree.TipBag.AddTip", token.NoPos, "TipBag.AddTip not found")
		return
	}
	info := fi.Pkg.TypesInfo
	key := "tree.TipBag.AddTip/same-name-other-tip"
	tip := paramObj(info, fi.Decl, 0)
	// locals holding the looked-up value: `n, ok := tb.tips[..]` / `n := tb.tips[..]`
	held := map[types.Object]bool{}
	isLookup := func(e ast.Expr) bool {
		ix, ok := unparen(e).(*ast.IndexExpr)
		if !ok {
			return false
		}
		_, isMap := info.TypeOf(ix.X).Underlying().(*types.Map)
		return isMap
	}
	ast.Inspect(fi.Decl.Body, func(n ast.Node) bool {
		if as, ok := n.(*ast.AssignStmt); ok && len(as.Rhs) == 1 && isLookup(as.Rhs[0]) && len(as.Lhs) >= 1 {
			if o := identObj(info, as.Lhs[0]); o != nil {
				held[o] = true
			}
		}
		return true
	})
	// a comparison of the held value (or the lookup itself) with the tip
	comparesWithTip := func(e ast.Expr) (found bool, differ token.Token) {
		ast.Inspect(e, func(n ast.Node) bool {
			be, ok := n.(*ast.BinaryExpr)
			if !ok || (be.Op != token.EQL && be.Op != token.NEQ) {
				return true
			}
			a, b := unparen(be.X), unparen(be.Y)
			isHeld := func(x ast.Expr) bool {
				if o := identObj(info, x); o != nil && held[o] {
					return true
				}
				return isLookup(x)
			}
			if (isHeld(a) && identObj(info, b) == tip) || (isHeld(b) && identObj(info, a) == tip) {
				found, differ = true, be.Op
			}
			return true
		})
		return
	}
	ok := false
	var where token.Pos = fi.Decl.Pos()
	ast.Inspect(fi.Decl.Body, func(n ast.Node) bool {
		ret, isRet := n.(*ast.ReturnStmt)
		if !isRet || len(ret.Results) != 1 {
			return true
		}
		if id, isId := unparen(ret.Results[0]).(*ast.Ident); isId && id.Name == "nil" {
			return true
		}
		conds, okc := c.pathConds(info, fi.Decl.Body, ret, false)
		if !okc {
			return true
		}
		for _, cd := range conds {
			if cd.Expr == nil {
				continue
			}
			if f, op := comparesWithTip(cd.Expr); f {
				// `n != t` taken, or `n == t` not taken
				if (op == token.NEQ && !cd.Neg) || (op == token.EQL && cd.Neg) {
					ok, where = true, ret.Pos()
				}
			}
		}
		return true
	})
	c.Check(ok, rule, key, where, "another tip recorded under the same name is told from the same tip given again, and refused with an error",
		"no error return of TipBag.AddTip sits under a test that the tip already recorded under this name differs from the tip given: two tips with one name are merged silently into one bag entry and the other tip disappears from the groups").Clause = clause
}

// REVISIT: removeTip moves its working node up a chain of emptied single-child nodes
// (`internal = internalparent` inside a loop). The node it stops at has just lost a neighbour, so it
// must be examined like the first one: if it is left with exactly two neighbours it is suppressed.
// On the control-flow graph: every path from such a re-assignment to a `return nil` evaluates a test
// of the node's neighbour count against 2 (directly, or in an in-repo callee the node is handed to),
// unless the return sits under a test that the count equals some other number (the degree-1 root
// that is deleted). A test that is only on the path that never entered the chain loop (`else if`)
// leaves a degree-2 node behind.
func (c *Ctx) revisitAfterMove(rule string, fi *FuncInfo, clause string) int {
	if fi == nil || fi.Decl.Body == nil {
		return 0
	}
	info := fi.Pkg.TypesInfo
	body := fi.Decl.Body
	// the re-assignments of a *Node local inside a loop
	type move struct {
		as  *ast.AssignStmt
		obj types.Object
	}
	var moves []move
	walkStack(body, func(n ast.Node, stack []ast.Node) bool {
		as, ok := n.(*ast.AssignStmt)
		if !ok || as.Tok != token.ASSIGN {
			return true
		}
		// the walk up the chain: `internal = internalparent`, `internal, err = t.detach(internal)`,
		// `internal, done, err = t.removeChain(internal)` - in a loop or through a helper
		for _, l := range as.Lhs {
			o := identObj(info, l)
			if o == nil || !isNodePtr(o.Type()) {
				continue
			}
			if v, isVar := o.(*types.Var); !isVar || v.IsField() || v.Parent() == nil || v.Parent() == fi.Pkg.Types.Scope() {
				continue
			}
			moves = append(moves, move{as, o})
		}
		return true
	})
	if len(moves) == 0 {
		return 0
	}
	g := c.cfgOf(info, body)
	// does e compare something that mentions obj with the constant k? returns (found, k, op)
	countTest := func(e ast.Node, obj types.Object) (found2 bool) {
		ast.Inspect(e, func(m ast.Node) bool {
			switch x := m.(type) {
			case *ast.FuncLit:
				return false
			case *ast.BinaryExpr:
				switch x.Op {
				case token.EQL, token.NEQ, token.LSS, token.LEQ, token.GTR, token.GEQ:
					for _, pr := range [][2]ast.Expr{{x.X, x.Y}, {x.Y, x.X}} {
						if tv, ok := info.Types[pr[1]]; ok && tv.Value != nil && mentions(info, pr[0], obj) {
							if v, exact := constant.Int64Val(tv.Value); exact && (v == 2 || ((x.Op == token.LSS || x.Op == token.GEQ || x.Op == token.GTR || x.Op == token.LEQ) && (v == 1 || v == 3))) {
								found2 = true
							}
						}
					}
				}
			case *ast.CaseClause:
				for _, ce := range x.List {
					if tv, ok := info.Types[ce]; ok && tv.Value != nil {
						if v, exact := constant.Int64Val(tv.Value); exact && v == 2 {
							found2 = true
						}
					}
				}
			}
			return true
		})
		return
	}
	// a call that hands obj to an in-repo function testing its parameter's count against 2
	calleeTests := func(n ast.Node, obj types.Object) bool {
		hit := false
		ast.Inspect(n, func(m ast.Node) bool {
			call, ok := m.(*ast.CallExpr)
			if !ok || hit {
				return !hit
			}
			fn := calleeOf(info, call)
			if fn == nil || !inRepo(fn) {
				return true
			}
			gi := c.FuncOfObj(fn)
			if gi == nil || gi.Decl.Body == nil {
				return true
			}
			ginfo := gi.Pkg.TypesInfo
			for k, a := range call.Args {
				if identObj(info, a) == obj {
					if p := paramObj(ginfo, gi.Decl, k); p != nil {
						found := false
						ast.Inspect(gi.Decl.Body, func(q ast.Node) bool {
							if be, ok := q.(*ast.BinaryExpr); ok {
								for _, pr := range [][2]ast.Expr{{be.X, be.Y}, {be.Y, be.X}} {
									if tv, ok := ginfo.Types[pr[1]]; ok && tv.Value != nil && mentions(ginfo, pr[0], p) {
										if v, exact := constant.Int64Val(tv.Value); exact && v == 2 {
											found = true
										}
									}
								}
							}
							return true
						})
						if found {
							hit = true
						}
					}
				}
			}
			return true
		})
		return hit
	}
	n := 0
	for mi, mv := range moves {
		blk, idx := locate(g.g, mv.as.Pos())
		if blk == nil {
			continue
		}
		n++
		key := fmt.Sprintf("%s/%s#%d", funcName(fi.Obj), mv.obj.Name(), mi+1)
		var bad *ast.ReturnStmt
		seen := map[*cfg.Block]bool{}
		var walk func(b *cfg.Block, start int)
		walk = func(b *cfg.Block, start int) {
			if bad != nil {
				return
			}
			for i := start; i < len(b.Nodes); i++ {
				nd := b.Nodes[i]
				if nd == ast.Node(mv.as) {
					continue
				}
				if ret, isRet := nd.(*ast.ReturnStmt); isRet {
					success := true
					for _, r := range ret.Results {
						if id, isId := unparen(r).(*ast.Ident); isErrorType(info.TypeOf(r)) && !(isId && id.Name == "nil") {
							success = false
						}
					}
					if !success {
						return
					}
					// exempt: the return sits under `count == k`, k != 2
					conds, _ := c.pathConds(info, body, ret, false)
					exempt := false
					for _, cd := range flattenConds(conds) {
						be, ok := unparen0(cd.Expr).(*ast.BinaryExpr)
						if !ok || cd.Neg || be.Op != token.EQL {
							continue
						}
						for _, pr := range [][2]ast.Expr{{be.X, be.Y}, {be.Y, be.X}} {
							if tv, ok := info.Types[pr[1]]; ok && tv.Value != nil && mentions(info, pr[0], mv.obj) {
								if v, exact := constant.Int64Val(tv.Value); exact && v != 2 {
									exempt = true
								}
							}
						}
					}
					if !exempt {
						bad = ret
					}
					return
				}
				if countTest(nd, mv.obj) || calleeTests(nd, mv.obj) {
					return
				}
			}
			for _, s := range b.Succs {
				if !seen[s] {
					seen[s] = true
					walk(s, 0)
				}
			}
		}
		walk(blk, idx+1)
		if bad != nil {
			c.Violation(rule, key, bad.Pos(), fmt.Sprintf("after `%s` the walk can reach this successful return without testing whether the node it stopped at is left with exactly two neighbours: a node that lost its only emptied child chain stays in the tree with one child", c.src(mv.as))).Clause = clause
		} else {
			c.OK(rule, key, mv.as.Pos(), "every successful path after the move tests the new node's neighbour count against 2 (or returns under a test that it is another number)").Clause = clause
		}
	}
	return n
}

func unparen0(e ast.Expr) ast.Expr {
	if e == nil {
		return nil
	}
	return unparen(e)
}

// INDEX-VALUE: EdgeIndex.Value hands back what was stored for the branch - the record itself, or a
// copy whose fields are the stored fields. Compare / CompareWeighted keep a branch's rank or length
// in that record and Consensus its count and summed length: a look-up that derives anything (a mean,
// a rounded value) from the stored fields gives every reader a different number from the one written.
func (c *Ctx) indexValueIsStored(rule, clause string) {
	fi := c.Func("tree", "EdgeIndex", "Value")
	if fi == nil || fi.Decl.Body == nil {
		c.Undecided(rule, "tree.EdgeIndex.Value", token.NoPos, "EdgeIndex.Value not found")
		return
	}
	info := fi.Pkg.TypesInfo
	// values that are "the stored record": results of hash.Value, type assertions of them, locals defined from those
	stored := map[types.Object]bool{}
	isStored := func(e ast.Expr) bool { return false }
	isStored = func(e ast.Expr) bool {
		switch x := unparen(e).(type) {
		case *ast.Ident:
			return stored[identObj(info, x)]
		case *ast.TypeAssertExpr:
			return isStored(x.X)
		case *ast.StarExpr:
			return isStored(x.X)
		}
		return false
	}
	for pass := 0; pass < 3; pass++ {
		ast.Inspect(fi.Decl.Body, func(n ast.Node) bool {
			as, ok := n.(*ast.AssignStmt)
			if !ok || len(as.Rhs) != 1 {
				return true
			}
			if call, isCall := unparen(as.Rhs[0]).(*ast.CallExpr); isCall {
				if g := calleeOf(info, call); g != nil && g.Name() == "Value" && g.Pkg() != nil && strings.HasSuffix(g.Pkg().Path(), "/hashmap") {
					if o := identObj(info, as.Lhs[0]); o != nil {
						stored[o] = true
					}
				}
				return true
			}
			if isStored(as.Rhs[0]) && len(as.Lhs) >= 1 {
				if o := identObj(info, as.Lhs[0]); o != nil {
					stored[o] = true
				}
			}
			return true
		})
	}
	n := 0
	ast.Inspect(fi.Decl.Body, func(nd ast.Node) bool {
		if _, isLit := nd.(*ast.FuncLit); isLit {
			return false
		}
		ret, ok := nd.(*ast.ReturnStmt)
		if !ok || len(ret.Results) != 2 {
			return true
		}
		r0 := unparen(ret.Results[0])
		if id, isId := r0.(*ast.Ident); isId && id.Name == "nil" {
			return true
		}
		n++
		key := fmt.Sprintf("tree.EdgeIndex.Value/return#%d", n)
		good, why := false, ""
		switch {
		case isStored(r0):
			good = true
		default:
			// &T{stored.F1, stored.F2} / T{F1: stored.F1, ...}: field for field
			lit := r0
			if u, isU := r0.(*ast.UnaryExpr); isU && u.Op == token.AND {
				lit = unparen(u.X)
			}
			if cl, isCl := lit.(*ast.CompositeLit); isCl {
				st, _ := info.TypeOf(cl).Underlying().(*types.Struct)
				good = st != nil && len(cl.Elts) == st.NumFields()
				for i, el := range cl.Elts {
					fname, val := "", el
					if kv, isKV := el.(*ast.KeyValueExpr); isKV {
						if kid, isId := kv.Key.(*ast.Ident); isId {
							fname = kid.Name
						}
						val = kv.Value
					} else if st != nil && i < st.NumFields() {
						fname = st.Field(i).Name()
					}
					sel, isSel := unparen(val).(*ast.SelectorExpr)
					if !isSel || !isStored(sel.X) || sel.Sel.Name != fname {
						good = false
						why = "field " + fname + " is given `" + c.src(val) + "`"
					}
				}
			} else {
				why = "`" + c.src(r0) + "` is not the stored record"
			}
		}
		c.Check(good, rule, key, ret.Pos(), "the look-up returns the stored record (or its fields unchanged)",
			"EdgeIndex.Value does not hand back what was stored: "+why+"; Compare reads the rank / length it wrote there and Consensus the count and the summed length").Clause = clause
		return true
	})
	if n == 0 {
		c.Undecided(rule, "tree.EdgeIndex.Value", fi.Decl.Pos(), "no return of a found record seen in EdgeIndex.Value")
	}
}

// DUP-REFUSED: NewNodeIndex maps names to nodes; the functions that look nodes up by name (outgroup
// LCA, pruning by name, grafting) rely on a name standing for one node. The constructor therefore
// refuses a tree in which a non-empty name occurs twice - whatever kind of node carries it. The
// error return sits under the "name already present" result of the map look-up and under nothing
// else than tests of the name against "".
func (c *Ctx) dupNameRefused(rule string, fi *FuncInfo, clause string) {
	if fi == nil || fi.Decl.Body == nil {
		c.Undecided(rule, "tree.NewNodeIndex", token.NoPos, "NewNodeIndex not found")
		return
	}
	info := fi.Pkg.TypesInfo
	key := funcName(fi.Obj) + "/repeated-name"
	// ok variables of two-value map look-ups
	lookupOK := map[types.Object]bool{}
	ast.Inspect(fi.Decl.Body, func(n ast.Node) bool {
		as, ok := n.(*ast.AssignStmt)
		if !ok || len(as.Lhs) != 2 || len(as.Rhs) != 1 {
			return true
		}
		ix, isIx := unparen(as.Rhs[0]).(*ast.IndexExpr)
		if isIx {
			if _, isMap := info.TypeOf(ix.X).Underlying().(*types.Map); isMap {
				if o := identObj(info, as.Lhs[1]); o != nil {
					lookupOK[o] = true
				}
			}
		}
		// or a two-value getter of the index (GetNode)
		if call, isCall := unparen(as.Rhs[0]).(*ast.CallExpr); isCall {
			if g := calleeOf(info, call); g != nil && inRepo(g) && g.Name() == "GetNode" {
				if o := identObj(info, as.Lhs[1]); o != nil {
					lookupOK[o] = true
				}
			}
		}
		return true
	})
	found := false
	ast.Inspect(fi.Decl.Body, func(n ast.Node) bool {
		ret, ok := n.(*ast.ReturnStmt)
		if !ok || len(ret.Results) == 0 {
			return true
		}
		last := unparen(ret.Results[len(ret.Results)-1])
		if id, isId := last.(*ast.Ident); isId && id.Name == "nil" {
			return true
		}
		if !isErrorType(info.TypeOf(last)) {
			return true
		}
		conds, okc := c.pathConds(info, fi.Decl.Body, ret, false)
		if !okc {
			return true
		}
		present, other := false, ""
		for _, cd := range flattenConds(conds) {
			if cd.Expr == nil {
				continue
			}
			e := unparen(cd.Expr)
			if o := identObj(info, e); o != nil && lookupOK[o] {
				if !cd.Neg {
					present = true
				}
				continue
			}
			if be, isBin := e.(*ast.BinaryExpr); isBin && (be.Op == token.EQL || be.Op == token.NEQ) {
				isEmpty := func(x ast.Expr) bool {
					tv, has := info.Types[x]
					return has && tv.Value != nil && tv.Value.Kind() == constant.String && constant.StringVal(tv.Value) == ""
				}
				if isEmpty(be.X) || isEmpty(be.Y) {
					continue
				}
				// len(name) == 0 / != 0
			}
			if errGuard(info, e) {
				continue
			}
			other = c.src(e)
		}
		if !present {
			return true
		}
		found = true
		c.Check(other == "", rule, key, ret.Pos(), "a non-empty name already in the index is refused, whatever node carries it",
			"the refusal of a repeated name also depends on `"+other+"`: some repeated names are accepted and the later node silently replaces the earlier one in the index, so a look-up by name finds the wrong node").Clause = clause
		return true
	})
	if !found {
		c.Violation(rule, key, fi.Decl.Pos(), "no error return under \"the name is already in the index\": a repeated name silently replaces the earlier node").Clause = clause
	}
}

// benignEarlyCond: a condition under which leaving early cannot drop work: an error test, a nil
// test, or a test that a count is zero (`len(x) == 0`, `< 1`, `n <= 0`).
func benignEarlyCond(info *types.Info, cd cond) bool {
	if cd.Expr == nil {
		return false
	}
	e := unparen(cd.Expr)
	if errGuard(info, e) {
		return true
	}
	be, ok := e.(*ast.BinaryExpr)
	if !ok {
		return false
	}
	isNil := func(x ast.Expr) bool {
		id, isId := unparen(x).(*ast.Ident)
		return isId && id.Name == "nil"
	}
	if (be.Op == token.EQL || be.Op == token.NEQ) && (isNil(be.X) || isNil(be.Y)) {
		return true
	}
	constOf := func(x ast.Expr) (int64, bool) {
		tv, has := info.Types[x]
		if !has || tv.Value == nil {
			return 0, false
		}
		return constant.Int64Val(tv.Value)
	}
	// the condition as taken (cd.Neg flips it): count == 0, count < 1, count <= 0 (and mirrored)
	op := be.Op
	if cd.Neg {
		switch op {
		case token.EQL:
			op = token.NEQ
		case token.NEQ:
			op = token.EQL
		case token.LSS:
			op = token.GEQ
		case token.GEQ:
			op = token.LSS
		case token.GTR:
			op = token.LEQ
		case token.LEQ:
			op = token.GTR
		}
	}
	if v, isC := constOf(be.Y); isC {
		return (op == token.EQL && v == 0) || (op == token.LSS && v == 1) || (op == token.LEQ && v == 0)
	}
	if v, isC := constOf(be.X); isC {
		return (op == token.EQL && v == 0) || (op == token.GTR && v == 1) || (op == token.GEQ && v == 0)
	}
	return false
}

// NO-PREFILTER: an enumeration that must visit every element of a list (Rearrange: every branch)
// is not cut short by a return placed before its loop, other than under an error / nil / "the list
// is empty" test. A size threshold in front of the loop (`if len(edges) < 6 { return }`) silently
// yields nothing for the inputs below it.
func (c *Ctx) noPrefilter(rule string, fi *FuncInfo, clause string) int {
	if fi == nil || fi.Decl.Body == nil {
		return 0
	}
	info := fi.Pkg.TypesInfo
	// the first loop at the top level of the body (or nested in plain blocks)
	var loop ast.Stmt
	for _, s := range fi.Decl.Body.List {
		switch s.(type) {
		case *ast.RangeStmt, *ast.ForStmt:
			if loop == nil {
				loop = s
			}
		}
	}
	if loop == nil {
		return 0
	}
	key := funcName(fi.Obj) + "/before-loop"
	var bad *ast.ReturnStmt
	badCond := ""
	ast.Inspect(fi.Decl.Body, func(n ast.Node) bool {
		if _, isLit := n.(*ast.FuncLit); isLit {
			return false
		}
		ret, ok := n.(*ast.ReturnStmt)
		if !ok || ret.Pos() > loop.Pos() {
			return true
		}
		conds, _ := c.pathConds(info, fi.Decl.Body, ret, false)
		for _, cd := range flattenConds(conds) {
			if !benignEarlyCond(info, cd) && bad == nil {
				bad = ret
				if cd.Expr != nil {
					badCond = c.src(cd.Expr)
				}
			}
		}
		return true
	})
	if bad != nil {
		c.Violation(rule, key, bad.Pos(), fmt.Sprintf("%s returns before its loop under `%s`: for the inputs that satisfy it nothing is enumerated at all", funcName(fi.Obj), badCond)).Clause = clause
	} else {
		c.OK(rule, key, loop.Pos(), "no return in front of the loop other than under an error / nil / empty-list test").Clause = clause
	}
	return 1
}

// CMD-REACHES: in the run function of a command that applies one operation to every input tree,
// nothing between the head of the loop over the input trees and the call of the operation leaves
// the iteration (return / continue / break / goto) except under an error test. A pre-check that
// rejects some trees (a wrong "is binary" test in front of Rearrange) removes inputs the property
// covers.
func (c *Ctx) cmdReaches(rule string, file string, ops []string, clause string) int {
	n := 0
	for _, fi := range c.funcsInFiles(file) {
		info := fi.Pkg.TypesInfo
		walkStack(fi.Decl.Body, func(nd ast.Node, stack []ast.Node) bool {
			rs, ok := nd.(*ast.RangeStmt)
			if !ok {
				return true
			}
			if _, isChan := info.TypeOf(rs.X).Underlying().(*types.Chan); !isChan {
				return true
			}
			var op *ast.CallExpr
			for _, call := range callsIn(rs.Body, true) {
				if fn := calleeOf(info, call); fn != nil && inRepo(fn) {
					for _, o := range ops {
						if fn.Name() == o && op == nil {
							op = call
						}
					}
				}
			}
			if op == nil {
				// the operation applied through a helper of the command (`pruneOneTree(t.Tree, ...)`)
				for _, call := range callsIn(rs.Body, true) {
					fn := calleeOf(info, call)
					if fn == nil || !inRepo(fn) || op != nil {
						continue
					}
					gi := c.FuncOfObj(fn)
					if gi == nil || gi.Decl.Body == nil || gi.Pkg != fi.Pkg {
						continue
					}
					for _, inner := range callsIn(gi.Decl.Body, true) {
						if g := calleeOf(gi.Pkg.TypesInfo, inner); g != nil && inRepo(g) {
							for _, o := range ops {
								if g.Name() == o {
									op = call
								}
							}
						}
					}
				}
			}
			if op == nil {
				// the operation applied through a local closure (`neighbors := func(t *tree.Tree) ..; neighbors(t.Tree)`)
				for _, call := range callsIn(rs.Body, true) {
					id, isId := call.Fun.(*ast.Ident)
					if !isId || op != nil {
						continue
					}
					v := identObj(info, id)
					if v == nil {
						continue
					}
					for _, d := range localDefs(info, fi.Decl.Body, v) {
						fl, isLit := unparen(d).(*ast.FuncLit)
						if !isLit {
							continue
						}
						for _, inner := range callsIn(fl.Body, true) {
							if g := calleeOf(info, inner); g != nil && inRepo(g) {
								for _, o := range ops {
									if g.Name() == o {
										op = call
									}
								}
							}
						}
					}
				}
			}
			if op == nil {
				return true
			}
			n++
			key := fmt.Sprintf("%s/%s", funcName(fi.Obj), ops[0])
			var bad ast.Node
			badCond := ""
			ast.Inspect(rs.Body, func(m ast.Node) bool {
				if _, isLit := m.(*ast.FuncLit); isLit {
					return false
				}
				if m == nil || m.Pos() >= op.Pos() {
					return m == nil || m.Pos() < op.Pos()
				}
				leaves := false
				switch x := m.(type) {
				case *ast.ReturnStmt:
					leaves = true
				case *ast.BranchStmt:
					// a break/continue of an inner loop does not leave the iteration over the trees
					inner := false
					for _, s := range stackTo(rs.Body, x) {
						switch s.(type) {
						case *ast.ForStmt, *ast.RangeStmt, *ast.SwitchStmt, *ast.SelectStmt, *ast.TypeSwitchStmt:
							inner = true
						}
					}
					leaves = !inner || x.Label != nil || x.Tok == token.GOTO
				}
				if !leaves || bad != nil {
					return true
				}
				conds, _ := c.pathConds(info, rs.Body, m, false)
				allErr := len(conds) > 0
				for _, cd := range flattenConds(conds) {
					if cd.Expr == nil || !errGuard(info, unparen(cd.Expr)) {
						// the condition of an enclosing inner loop (`for _, n := range nodes`) is no guard at all
						if cd.Expr != nil {
							allErr = false
							if badCond == "" {
								badCond = c.src(cd.Expr)
							}
						}
					}
				}
				hasErr := false
				for _, cd := range flattenConds(conds) {
					if cd.Expr != nil && errGuard(info, unparen(cd.Expr)) {
						hasErr = true
					}
				}
				if !allErr || !hasErr {
					bad = m
				}
				return true
			})
			if bad != nil {
				c.Violation(rule, key, bad.Pos(), fmt.Sprintf("the command leaves the iteration over the input trees before %s is called, under `%s`, which is not an error test: trees that satisfy it never reach the operation", ops[0], badCond)).Clause = clause
			} else {
				c.OK(rule, key, op.Pos(), "every input tree that was read without error reaches the operation").Clause = clause
			}
			return true
		})
	}
	return n
}

// READLINE-PREFIX: (*bufio.Reader).ReadLine hands a long line back in pieces and says so through
// its second result. A line reader that drops that result treats a piece boundary as a line end:
// its end-of-record test (last character is ';', end of the line) then looks at the last byte of a
// piece. Every ReadLine call of the repository binds isPrefix to a variable that the condition of
// the enclosing loop reads.
func (c *Ctx) readLinePrefix(rule string, funcs []*FuncInfo, clause string) int {
	n := 0
	perFunc := map[string]int{}
	for _, fi := range funcs {
		if fi.Decl.Body == nil {
			continue
		}
		info := fi.Pkg.TypesInfo
		walkStack(fi.Decl.Body, func(nd ast.Node, stack []ast.Node) bool {
			as, ok := nd.(*ast.AssignStmt)
			if !ok || len(as.Rhs) != 1 || len(as.Lhs) != 3 {
				return true
			}
			call, isCall := unparen(as.Rhs[0]).(*ast.CallExpr)
			if !isCall {
				return true
			}
			fn := calleeOf(info, call)
			if fn == nil || fn.Name() != "ReadLine" || fn.Pkg() == nil || fn.Pkg().Path() != "bufio" {
				return true
			}
			n++
			perFunc[funcName(fi.Obj)]++
			key := fmt.Sprintf("%s/ReadLine#%d", funcName(fi.Obj), perFunc[funcName(fi.Obj)])
			pre := identObj(info, as.Lhs[1])
			if id, isId := as.Lhs[1].(*ast.Ident); isId && id.Name == "_" {
				pre = nil
			}
			if pre == nil {
				c.Violation(rule, key, as.Pos(), "the isPrefix result of ReadLine is dropped: a line longer than the reader's buffer comes back in pieces and every piece is taken for a whole line").Clause = clause
				return true
			}
			// read by the condition of an enclosing loop, or by a condition that leaves / continues it
			used := false
			for _, s := range stack {
				if f, isFor := s.(*ast.ForStmt); isFor && f.Cond != nil && mentions(info, f.Cond, pre) {
					used = true
				}
			}
			if !used {
				for _, s := range stack {
					if f, isFor := s.(*ast.ForStmt); isFor {
						ast.Inspect(f.Body, func(m ast.Node) bool {
							if is, isIf := m.(*ast.IfStmt); isIf && mentions(info, is.Cond, pre) {
								used = true
							}
							return true
						})
					}
				}
			}
			c.Check(used, rule, key, as.Pos(), "isPrefix decides whether the loop goes on reading the same line",
				"the isPrefix result of ReadLine is stored in `"+pre.Name()+"` but no loop condition reads it: the pieces of a long line are taken for whole lines").Clause = clause
			return true
		})
	}
	return n
}

// UNREAD-RESCAN: a lexer's Scan reads one rune and either turns it into a token itself or hands
// over to a helper (scanIdent, scanWhitespace, ...) that reads the token from its first rune again.
// Every path from the read to such a hand-over puts the rune back first (unread): otherwise the
// helper starts one rune late and the first character of the token is lost.
func (c *Ctx) unreadBeforeRescan(rule string, scan *FuncInfo, clause string) int {
	if scan == nil || scan.Decl.Body == nil {
		return 0
	}
	info := scan.Pkg.TypesInfo
	recvT := recvNamed(scan.Obj)
	isRead := func(fn *types.Func) bool {
		return fn != nil && fn.Name() == "read" && recvNamed(fn) == recvT && recvT != nil
	}
	isUnread := func(fn *types.Func) bool {
		return fn != nil && fn.Name() == "unread" && recvNamed(fn) == recvT && recvT != nil
	}
	// helpers of the same scanner that read runes themselves
	rescans := func(fn *types.Func) bool {
		if fn == nil || !inRepo(fn) || recvNamed(fn) != recvT || recvT == nil || isRead(fn) || isUnread(fn) || fn == scan.Obj {
			return false
		}
		return c.reaches(fn, isRead, 3, map[*types.Func]bool{})
	}
	var first *ast.AssignStmt
	ast.Inspect(scan.Decl.Body, func(n ast.Node) bool {
		if as, ok := n.(*ast.AssignStmt); ok && first == nil && len(as.Rhs) == 1 {
			if call, isCall := unparen(as.Rhs[0]).(*ast.CallExpr); isCall && isRead(calleeOf(info, call)) {
				first = as
			}
		}
		return true
	})
	if first == nil {
		return 0
	}
	g := c.cfgOf(info, scan.Decl.Body)
	b0, i0 := locate(g.g, first.Pos())
	if b0 == nil {
		return 0
	}
	key := funcName(scan.Obj) + "/hand-over"
	var bad ast.Node
	nh := 0
	seen := map[*cfg.Block]bool{}
	var walk func(b *cfg.Block, start int)
	walk = func(b *cfg.Block, start int) {
		for i := start; i < len(b.Nodes); i++ {
			nd := b.Nodes[i]
			if containsCall(info, nd, func(_ *ast.CallExpr, fn *types.Func) bool { return isUnread(fn) }) {
				return
			}
			if containsCall(info, nd, func(_ *ast.CallExpr, fn *types.Func) bool { return isRead(fn) }) {
				return // a further rune is read here: another token's business
			}
			if containsCall(info, nd, func(_ *ast.CallExpr, fn *types.Func) bool { return rescans(fn) }) {
				if bad == nil {
					bad = nd
				}
				return
			}
			if _, isRet := nd.(*ast.ReturnStmt); isRet {
				return
			}
		}
		for _, s := range b.Succs {
			if !seen[s] {
				seen[s] = true
				walk(s, 0)
			}
		}
	}
	walk(b0, i0+1)
	ast.Inspect(scan.Decl.Body, func(n ast.Node) bool {
		if call, ok := n.(*ast.CallExpr); ok && rescans(calleeOf(info, call)) {
			nh++
		}
		return true
	})
	if nh == 0 {
		return 0
	}
	if bad != nil {
		c.Violation(rule, key, bad.Pos(), fmt.Sprintf("`%s` is reached from the read of the current rune without putting the rune back: the helper reads the token from the next rune on and the first character is lost", c.src(bad))).Clause = clause
	} else {
		c.OK(rule, key, first.Pos(), fmt.Sprintf("the rune read is put back on every path to the %d hand-overs to helpers that read the token again", nh)).Clause = clause
	}
	return 1
}

func recvNamed(fn *types.Func) *types.Named {
	if fn == nil {
		return nil
	}
	sig, ok := fn.Type().(*types.Signature)
	if !ok || sig.Recv() == nil {
		return nil
	}
	t := sig.Recv().Type()
	if p, isP := t.(*types.Pointer); isP {
		t = p.Elem()
	}
	n, _ := t.(*types.Named)
	return n
}

// ROOT-WRITE: the field Tree.root is written in few places. A write that moves the root of a tree
// whose branches exist already must be followed by a re-orientation of all branches away from the
// new root: ReorderEdges(<the new root>, nil, ...) - starting anywhere else leaves the part of the
// tree between the old and the new root pointing the wrong way (Edges(), bitsets and every
// traversal that follows left->right then lose that part). Writes that are known not to need it
// are listed with the reason.
var rootWriteExempt = map[string]string{
	"tree.Tree.SetRoot": "the setter itself; callers are the constructors and the functions below",
}

func (c *Ctx) rootWrites(rule string, clause string) int {
	n := 0
	perFunc := map[string]int{}
	for _, fi := range c.AllFuncs("tree") {
		if fi.Decl.Body == nil {
			continue
		}
		info := fi.Pkg.TypesInfo
		walkStack(fi.Decl.Body, func(nd ast.Node, stack []ast.Node) bool {
			as, ok := nd.(*ast.AssignStmt)
			if !ok || as.Tok != token.ASSIGN {
				return true
			}
			for li, l := range as.Lhs {
				sel, isSel := unparen(l).(*ast.SelectorExpr)
				if !isSel || sel.Sel.Name != "root" {
					continue
				}
				fv, _ := info.Uses[sel.Sel].(*types.Var)
				if fv == nil || !fv.IsField() || !isTreePtr(info.TypeOf(sel.X)) && !isTreeStruct(info.TypeOf(sel.X)) {
					continue
				}
				n++
				name := funcName(fi.Obj)
				perFunc[name]++
				key := fmt.Sprintf("%s/root-write#%d", name, perFunc[name])
				if why, ex := rootWriteExempt[name]; ex {
					c.OK(rule, key, as.Pos(), "listed: "+why).Clause = clause
					continue
				}
				var newRoot ast.Expr
				if len(as.Rhs) == len(as.Lhs) {
					newRoot = as.Rhs[li]
				}
				// the root replaced by its only neighbour (`t.root = N.neigh[0]` under `len(N.neigh) == 1`):
				// every branch already points away from that neighbour's side, nothing to re-orient
				if ix, isIx := unparen0(newRoot).(*ast.IndexExpr); isIx {
					if sel, isSel2 := unparen(ix.X).(*ast.SelectorExpr); isSel2 && sel.Sel.Name == "neigh" {
						if tv, has := info.Types[ix.Index]; has && tv.Value != nil && constKey(tv.Value) == "0" {
							node := c.src(sel.X)
							conds, _ := c.pathConds(info, fi.Decl.Body, as, false)
							only := false
							for _, cd := range flattenConds(conds) {
								if cd.Expr == nil || cd.Neg {
									continue
								}
								be, isBin := unparen(cd.Expr).(*ast.BinaryExpr)
								if !isBin || be.Op != token.EQL {
									continue
								}
								for _, pr := range [][2]ast.Expr{{be.X, be.Y}, {be.Y, be.X}} {
									tv, has := info.Types[pr[1]]
									if !has || tv.Value == nil || constKey(tv.Value) != "1" {
										continue
									}
									if lc, isCall := unparen(pr[0]).(*ast.CallExpr); isCall && len(lc.Args) == 1 {
										if id, isId := lc.Fun.(*ast.Ident); isId && id.Name == "len" && c.canon(info, lc.Args[0], nil) == c.canon(info, ix.X, nil) {
											only = true
										}
									}
								}
							}
							if only {
								c.OK(rule, key, as.Pos(), "the root is replaced by its only neighbour (under len("+node+".neigh) == 1): nothing to re-orient").Clause = clause
								continue
							}
						}
					}
				}
				// the statements that follow in the same list
				var rest []ast.Stmt
				for i := len(stack) - 1; i >= 0; i-- {
					if blk, isBlk := stack[i].(*ast.BlockStmt); isBlk {
						for k, s := range blk.List {
							if s == ast.Stmt(as) {
								rest = blk.List[k+1:]
							}
						}
						break
					}
				}
				good := false
				for _, s := range rest {
					ast.Inspect(s, func(m ast.Node) bool {
						call, isCall := m.(*ast.CallExpr)
						if !isCall {
							return true
						}
						fn := calleeOf(info, call)
						if fn == nil || !isRepoFunc(fn, "tree", "Tree", "ReorderEdges") || len(call.Args) < 2 {
							return true
						}
						if id, isId := unparen(call.Args[1]).(*ast.Ident); !isId || id.Name != "nil" {
							return true
						}
						if newRoot != nil && c.canon(info, call.Args[0], nil) == c.canon(info, newRoot, nil) {
							good = true
						}
						if c.canon(info, call.Args[0], nil) == c.canon(info, l, nil) {
							good = true
						}
						return true
					})
				}
				c.Check(good, rule, key, as.Pos(), "the root move is followed by ReorderEdges(new root, nil, ...)",
					fmt.Sprintf("%s writes the root (`%s`) and does not re-orient the branches from that node with no previous node (ReorderEdges(<new root>, nil, ...)): the branches between the former root and the new one keep pointing at the former root", name, c.src(as))).Clause = clause
			}
			return true
		})
	}
	return n
}

func isTreeStruct(t types.Type) bool {
	n, ok := t.(*types.Named)
	return ok && n.Obj().Name() == "Tree" && n.Obj().Pkg() != nil && strings.HasSuffix(n.Obj().Pkg().Path(), "/tree")
}

// NO-RENAME: the functions that contract or resolve branches never give a node a name: no call path
// from them reaches Node.SetName (or a write of the name field).
func (c *Ctx) noRename(rule string, roots []*FuncInfo, clause string) int {
	n := 0
	isSetName := func(fn *types.Func) bool { return isRepoFunc(fn, "tree", "Node", "SetName") }
	for _, fi := range roots {
		if fi == nil || fi.Decl.Body == nil {
			continue
		}
		n++
		key := funcName(fi.Obj) + "/names"
		var via string
		info := fi.Pkg.TypesInfo
		for _, call := range callsIn(fi.Decl.Body, true) {
			fn := calleeOf(info, call)
			if fn == nil || !inRepo(fn) {
				continue
			}
			if c.reaches(fn, isSetName, 4, map[*types.Func]bool{}) && via == "" {
				via = c.src(call)
			}
		}
		// direct writes of the field
		ast.Inspect(fi.Decl.Body, func(m ast.Node) bool {
			if as, ok := m.(*ast.AssignStmt); ok {
				for _, l := range as.Lhs {
					if sel, isSel := unparen(l).(*ast.SelectorExpr); isSel && sel.Sel.Name == "name" && isNodePtr(info.TypeOf(sel.X)) && via == "" {
						via = c.src(as)
					}
				}
			}
			return true
		})
		c.Check(via == "", rule, key, fi.Decl.Pos(), "no node is renamed", fmt.Sprintf("%s names a node (`%s`): contracting or resolving a branch leaves every name where it was", funcName(fi.Obj), via)).Clause = clause
	}
	return n
}

// PREFILTER-SOUND: the linear search FindEdge may skip a candidate before comparing bitsets only on
// grounds that equal splits necessarily share: being a tip branch or not, and the hash code of the
// split. The skip conditions read nothing else of the two branches (degree of the node below,
// length, support, name, id are not functions of the split).
func (c *Ctx) prefilterSound(rule string, fi *FuncInfo, clause string) int {
	if fi == nil || fi.Decl.Body == nil {
		return 0
	}
	info := fi.Pkg.TypesInfo
	n := 0
	allowedCall := map[string]bool{"Tip": true, "HashCode": true, "Right": true, "Left": true, "Equal": true, "EqualOrComplement": true, "None": true, "Any": true, "Count": true, "Len": true, "Bitset": true, "len": true}
	walkStack(fi.Decl.Body, func(nd ast.Node, stack []ast.Node) bool {
		br, ok := nd.(*ast.BranchStmt)
		if !ok || br.Tok != token.CONTINUE {
			return true
		}
		// the innermost enclosing if
		var guard *ast.IfStmt
		for i := len(stack) - 1; i >= 0; i-- {
			if is, isIf := stack[i].(*ast.IfStmt); isIf {
				guard = is
				break
			}
			if _, isLoop := stack[i].(*ast.RangeStmt); isLoop {
				break
			}
			if _, isLoop := stack[i].(*ast.ForStmt); isLoop {
				break
			}
		}
		if guard == nil {
			return true
		}
		n++
		key := fmt.Sprintf("%s/skip#%d", funcName(fi.Obj), n)
		bad := ""
		ast.Inspect(guard.Cond, func(m ast.Node) bool {
			switch x := m.(type) {
			case *ast.CallExpr:
				name := ""
				switch f := unparen(x.Fun).(type) {
				case *ast.SelectorExpr:
					name = f.Sel.Name
				case *ast.Ident:
					name = f.Name
				}
				if !allowedCall[name] && bad == "" {
					bad = c.src(x)
				}
			case *ast.SelectorExpr:
				if fv, isVar := info.Uses[x.Sel].(*types.Var); isVar && fv.IsField() {
					ln := strings.ToLower(fv.Name())
					if !(strings.Contains(ln, "bitset") || strings.Contains(ln, "hash") || ln == "right" || ln == "left" || ln == "neigh") && bad == "" {
						bad = c.src(x)
					}
				}
			}
			return true
		})
		// len(x.neigh) only as a tip test: compared with 1
		ast.Inspect(guard.Cond, func(m ast.Node) bool {
			call, isCall := m.(*ast.CallExpr)
			if !isCall || bad != "" {
				return true
			}
			if id, isId := unparen(call.Fun).(*ast.Ident); isId && id.Name == "len" && len(call.Args) == 1 {
				if sel, isSel := unparen(call.Args[0]).(*ast.SelectorExpr); isSel && sel.Sel.Name == "neigh" {
					okTip := false
					for _, s := range stackTo(guard.Cond, call) {
						if be, isBin := s.(*ast.BinaryExpr); isBin {
							for _, side := range []ast.Expr{be.X, be.Y} {
								if tv, has := info.Types[side]; has && tv.Value != nil {
									if v, exact := constant.Int64Val(tv.Value); exact && v == 1 && (be.Op == token.EQL || be.Op == token.NEQ) {
										okTip = true
									}
								}
							}
						}
					}
					if !okTip {
						bad = c.src(call)
					}
				}
			}
			return true
		})
		c.Check(bad == "", rule, key, guard.Pos(), "candidates are skipped only on tip-ness, hash code or bitsets",
			fmt.Sprintf("the search skips a candidate under `%s`, which reads `%s`: two branches that define the same split need not agree on it, so a shared split can be reported as missing", c.src(guard.Cond), bad)).Clause = clause
		return true
	})
	return n
}

// SIBLING-ARGS: where one function calls two sibling launchers (Compare and CompareWeighted), the
// parameters the two have in common (same name and type) receive the same argument.
func (c *Ctx) siblingArgs(rule string, funcs []*FuncInfo, a, b func(*types.Func) bool, clause string) int {
	n := 0
	for _, fi := range funcs {
		if fi.Decl.Body == nil {
			continue
		}
		info := fi.Pkg.TypesInfo
		var ca, cb *ast.CallExpr
		for _, call := range callsIn(fi.Decl.Body, true) {
			fn := calleeOf(info, call)
			if fn == nil {
				continue
			}
			if a(fn) && ca == nil {
				ca = call
			}
			if b(fn) && cb == nil {
				cb = call
			}
		}
		if ca == nil || cb == nil {
			continue
		}
		sa := calleeOf(info, ca).Type().(*types.Signature)
		sb := calleeOf(info, cb).Type().(*types.Signature)
		for i := 0; i < sa.Params().Len() && i < len(ca.Args); i++ {
			pa := sa.Params().At(i)
			for j := 0; j < sb.Params().Len() && j < len(cb.Args); j++ {
				pb := sb.Params().At(j)
				if pa.Name() == "" || pa.Name() != pb.Name() || !types.Identical(pa.Type(), pb.Type()) {
					continue
				}
				// option values only: booleans and numbers (the trees and channels differ by design)
				if bt, isB := pa.Type().Underlying().(*types.Basic); !isB || bt.Info()&(types.IsBoolean|types.IsNumeric) == 0 {
					continue
				}
				n++
				key := fmt.Sprintf("%s/%s", funcName(fi.Obj), pa.Name())
				xa, xb := c.canon(info, ca.Args[i], nil), c.canon(info, cb.Args[j], nil)
				c.Check(xa == xb, rule, key, cb.Args[j].Pos(), "both launchers receive `"+xa+"` for "+pa.Name(),
					fmt.Sprintf("%s receives `%s` for its parameter %s and %s receives `%s`: the same option of the command selects different behaviour in the two modes", calleeOf(info, ca).Name(), xa, pa.Name(), calleeOf(info, cb).Name(), xb)).Clause = clause
			}
		}
	}
	return n
}

// COUNTER-STEP: the readers number nodes and branches with a running counter handed to SetId. In
// the statement list of every such call the counter is stepped after the call (c++ / c += 1 /
// (*c)++): a lost step gives two branches one id, and the per-branch tallies of the support
// computations (indexed by Edge.Id, written by several workers) then share a slot.
func (c *Ctx) counterStep(rule string, funcs []*FuncInfo, clause string) int {
	n := 0
	for _, fi := range funcs {
		if fi.Decl.Body == nil {
			continue
		}
		info := fi.Pkg.TypesInfo
		perFunc := 0
		walkStack(fi.Decl.Body, func(nd ast.Node, stack []ast.Node) bool {
			es, ok := nd.(*ast.ExprStmt)
			if !ok {
				return true
			}
			call, isCall := es.X.(*ast.CallExpr)
			if !isCall || len(call.Args) != 1 {
				return true
			}
			fn := calleeOf(info, call)
			if fn == nil || fn.Name() != "SetId" || !inRepo(fn) {
				return true
			}
			arg := unparen(call.Args[0])
			if st, isStar := arg.(*ast.StarExpr); isStar {
				arg = unparen(st.X)
			}
			cnt := identObj(info, arg)
			if cnt == nil {
				return true
			}
			if _, isConst := cnt.(*types.Const); isConst {
				return true
			}
			var rest []ast.Stmt
			for i := len(stack) - 1; i >= 0; i-- {
				var list []ast.Stmt
				switch b := stack[i].(type) {
				case *ast.BlockStmt:
					list = b.List
				case *ast.CaseClause:
					list = b.Body
				default:
					continue
				}
				for k, s := range list {
					if s == ast.Stmt(es) {
						rest = list[k+1:]
					}
				}
				break
			}
			n++
			perFunc++
			key := fmt.Sprintf("%s/SetId(%s)#%d", funcName(fi.Obj), cnt.Name(), perFunc)
			stepped := false
			for _, s := range rest {
				switch x := s.(type) {
				case *ast.IncDecStmt:
					t := unparen(x.X)
					if st, isStar := t.(*ast.StarExpr); isStar {
						t = unparen(st.X)
					}
					if x.Tok == token.INC && identObj(info, t) == cnt {
						stepped = true
					}
				case *ast.AssignStmt:
					if len(x.Lhs) == 1 && (x.Tok == token.ADD_ASSIGN || x.Tok == token.ASSIGN) {
						t := unparen(x.Lhs[0])
						if st, isStar := t.(*ast.StarExpr); isStar {
							t = unparen(st.X)
						}
						if identObj(info, t) == cnt {
							stepped = true
						}
					}
				}
			}
			c.Check(stepped, rule, key, call.Pos(), "the counter is stepped after the id is given",
				fmt.Sprintf("after `%s` the counter %s is not stepped in the same statement list: the next node or branch numbered gets the same id", c.src(call), cnt.Name())).Clause = clause
			return true
		})
	}
	return n
}

// STATE-ALIAS: the per-node state tables of the parsimony code (one entry per node id) never share
// storage: no element of one table is assigned from an element of another table (or of itself at
// another index) when the element type holds slices. A pass that writes one table would otherwise
// overwrite the other (tip states altered by the up pass).
func (c *Ctx) stateAlias(rule string, funcs []*FuncInfo, clause string) (sites, viol int) {
	refLike := func(t types.Type) bool {
		switch u := t.Underlying().(type) {
		case *types.Slice, *types.Map, *types.Pointer:
			return true
		case *types.Struct:
			for i := 0; i < u.NumFields(); i++ {
				switch u.Field(i).Type().Underlying().(type) {
				case *types.Slice, *types.Map, *types.Pointer:
					return true
				}
			}
		}
		return false
	}
	for _, fi := range funcs {
		if fi.Decl.Body == nil {
			continue
		}
		info := fi.Pkg.TypesInfo
		ast.Inspect(fi.Decl.Body, func(nd ast.Node) bool {
			as, ok := nd.(*ast.AssignStmt)
			if !ok || len(as.Lhs) != len(as.Rhs) {
				return true
			}
			for i := range as.Lhs {
				lx, isL := unparen(as.Lhs[i]).(*ast.IndexExpr)
				if !isL {
					continue
				}
				lt := info.TypeOf(lx.X)
				if lt == nil {
					continue
				}
				sl, isSl := lt.Underlying().(*types.Slice)
				if !isSl || !refLike(sl.Elem()) {
					continue
				}
				sites++
				rx, isR := unparen(as.Rhs[i]).(*ast.IndexExpr)
				if !isR {
					continue
				}
				rt := info.TypeOf(rx.X)
				if rt == nil || !types.Identical(rt, lt) {
					continue
				}
				viol++
				c.Violation(rule, fmt.Sprintf("%s/%s", funcName(fi.Obj), c.src(as.Lhs[i])), as.Pos(), fmt.Sprintf("`%s` makes an entry of one per-node state table share its storage with an entry of `%s`: whatever a pass writes into one shows in the other", c.src(as), c.src(rx.X))).Clause = clause
			}
			return true
		})
	}
	return
}

// FRESH-PER-ITER: an iterator that hands one tree per source element to its callback creates the
// tree for that element: the tree passed to the callback is defined inside the loop over the
// elements (a tree allocated once before the loop is the same object in every record).
func (c *Ctx) freshPerIter(rule string, fi *FuncInfo, clause string) int {
	if fi == nil || fi.Decl.Body == nil {
		return 0
	}
	info := fi.Pkg.TypesInfo
	cb := paramObj(info, fi.Decl, 0)
	n := 0
	walkStack(fi.Decl.Body, func(nd ast.Node, stack []ast.Node) bool {
		call, ok := nd.(*ast.CallExpr)
		if !ok || identObj(info, call.Fun) != cb || cb == nil || len(call.Args) == 0 {
			return true
		}
		var loop ast.Node
		for _, s := range stack {
			switch s.(type) {
			case *ast.RangeStmt, *ast.ForStmt:
				if loop == nil {
					loop = s
				}
			}
		}
		if loop == nil {
			return true // one element, no loop: nothing can be shared between iterations
		}
		n++
		key := fmt.Sprintf("%s/callback#%d", funcName(fi.Obj), n)
		t := identObj(info, call.Args[0])
		good := false
		if t != nil {
			good = t.Pos() > loop.Pos() && t.Pos() < loop.End()
			if !good {
				// assigned afresh inside the loop before the call: `t = tree.NewTree()`
				ast.Inspect(loop, func(m ast.Node) bool {
					if as, isAs := m.(*ast.AssignStmt); isAs && as.Pos() < call.Pos() {
						for i, l := range as.Lhs {
							if identObj(info, l) == t && i < len(as.Rhs) {
								if _, isCall := unparen(as.Rhs[i]).(*ast.CallExpr); isCall {
									good = true
								}
							}
						}
					}
					return true
				})
			}
		} else if _, isCall := unparen(call.Args[0]).(*ast.CallExpr); isCall {
			good = true
		}
		c.Check(good, rule, key, call.Pos(), "the tree handed to the callback is created inside the loop, one per element",
			"the tree handed to the callback is created outside the loop over the elements: every record of the stream carries the same object, which ends up describing the last element").Clause = clause
		return true
	})
	return n
}

// KEY-RAW: the name index of a tree (nodeIndex) is keyed by names as they are: every key used with
// its map is a name variable or a Name() call, on the storing and on the looking-up side alike (a
// key transformed on one side only is never found from the other).
func (c *Ctx) indexKeysRaw(rule string, clause string) int {
	n := 0
	for _, fi := range c.funcsInFiles("tree/nodeindex.go") {
		if fi.Decl.Body == nil {
			continue
		}
		info := fi.Pkg.TypesInfo
		per := 0
		ast.Inspect(fi.Decl.Body, func(nd ast.Node) bool {
			ix, ok := nd.(*ast.IndexExpr)
			if !ok {
				return true
			}
			if _, isMap := info.TypeOf(ix.X).Underlying().(*types.Map); !isMap {
				return true
			}
			n++
			per++
			key := fmt.Sprintf("%s/key#%d", funcName(fi.Obj), per)
			k := unparen(ix.Index)
			raw := false
			switch x := k.(type) {
			case *ast.Ident:
				raw = true
			case *ast.CallExpr:
				if sel, isSel := unparen(x.Fun).(*ast.SelectorExpr); isSel && sel.Sel.Name == "Name" && len(x.Args) == 0 {
					raw = true
				}
			case *ast.SelectorExpr:
				raw = x.Sel.Name == "name"
			}
			c.Check(raw, rule, key, ix.Pos(), "keyed by the name as it is", fmt.Sprintf("the name index is accessed under `%s`, a transformed name: entries stored under one form are not found under the other", c.src(k))).Clause = clause
			return true
		})
	}
	return n
}

// TWIN-ARMS: `if names given { X.SetName(given) } else { Y.SetName(default) }` names one node: the
// two arms call SetName on the same receiver.
func (c *Ctx) twinArms(rule string, funcs []*FuncInfo, method string, clause string) int {
	n := 0
	for _, fi := range funcs {
		if fi.Decl.Body == nil {
			continue
		}
		info := fi.Pkg.TypesInfo
		per := 0
		ast.Inspect(fi.Decl.Body, func(nd ast.Node) bool {
			is, ok := nd.(*ast.IfStmt)
			if !ok || is.Else == nil {
				return true
			}
			eb, isBlk := is.Else.(*ast.BlockStmt)
			if !isBlk {
				return true
			}
			// one arm names a node and the other does nothing of the kind: the node stays unnamed on that arm
			strip := func(list []ast.Stmt) []ast.Stmt {
				var out []ast.Stmt
				for _, st := range list {
					if b, isB := st.(*ast.BlockStmt); isB && len(b.List) == 0 {
						continue
					}
					if _, isE := st.(*ast.EmptyStmt); isE {
						continue
					}
					out = append(out, st)
				}
				return out
			}
			thenL, elseL := strip(is.Body.List), strip(eb.List)
			if len(thenL) <= 1 && len(elseL) <= 1 && len(thenL)+len(elseL) == 1 {
				only := thenL
				if len(only) == 0 {
					only = elseL
				}
				if es, isEs := only[0].(*ast.ExprStmt); isEs {
					if call, isCall := es.X.(*ast.CallExpr); isCall {
						if sel, isSel := unparen(call.Fun).(*ast.SelectorExpr); isSel && sel.Sel.Name == method {
							n++
							per++
							c.Violation(rule, fmt.Sprintf("%s/%s#%d", funcName(fi.Obj), method, per), is.Pos(), fmt.Sprintf("one arm of this choice calls %s on `%s` and the other arm is empty: the node stays unnamed whenever that arm is taken", method, c.src(sel.X))).Clause = clause
						}
					}
				}
				return true
			}
			if len(is.Body.List) != 1 || len(eb.List) != 1 {
				return true
			}
			recv := func(s ast.Stmt) ast.Expr {
				es, ok := s.(*ast.ExprStmt)
				if !ok {
					return nil
				}
				call, ok := es.X.(*ast.CallExpr)
				if !ok {
					return nil
				}
				sel, ok := unparen(call.Fun).(*ast.SelectorExpr)
				if !ok || sel.Sel.Name != method {
					return nil
				}
				return sel.X
			}
			ra, rb := recv(is.Body.List[0]), recv(eb.List[0])
			if ra == nil || rb == nil {
				return true
			}
			n++
			per++
			key := fmt.Sprintf("%s/%s#%d", funcName(fi.Obj), method, per)
			xa, xb := c.canon(info, ra, nil), c.canon(info, rb, nil)
			c.Check(xa == xb, rule, key, is.Pos(), "both arms name the same node", fmt.Sprintf("the two arms of this choice call %s on different nodes (`%s` and `%s`): one of the two nodes stays unnamed on one arm", method, c.src(ra), c.src(rb))).Clause = clause
			return true
		})
	}
	return n
}

// SEPARATOR: the Newick writer puts a comma between the children it writes. The neighbour list of a
// node also holds its parent, at any position (after a re-rooting or an NNI it need not be the
// first or the last), so "is this the first/last child written" cannot be read off the position in
// the neighbour list: the guard of the comma reads a counter of children written (stepped only
// where a child is written), never the loop's position.
func (c *Ctx) separatorByCount(rule string, fi *FuncInfo, clause string) int {
	if fi == nil || fi.Decl.Body == nil {
		return 0
	}
	info := fi.Pkg.TypesInfo
	n := 0
	walkStack(fi.Decl.Body, func(nd ast.Node, stack []ast.Node) bool {
		call, ok := nd.(*ast.CallExpr)
		if !ok || len(call.Args) < 1 {
			return true
		}
		fn := calleeOf(info, call)
		if fn == nil || !(fn.Name() == "WriteString" || fn.Name() == "WriteByte" || fn.Name() == "WriteRune") {
			return true
		}
		tv, has := info.Types[call.Args[len(call.Args)-1]]
		if !has || tv.Value == nil {
			return true
		}
		isComma := false
		switch tv.Value.Kind() {
		case constant.String:
			isComma = constant.StringVal(tv.Value) == ","
		case constant.Int:
			v, _ := constant.Int64Val(tv.Value)
			isComma = v == ','
		}
		if !isComma {
			return true
		}
		var loopBody *ast.BlockStmt
		var pos types.Object
		for _, s := range stack {
			switch l := s.(type) {
			case *ast.RangeStmt:
				loopBody = l.Body
				pos = nil
				if l.Key != nil {
					pos = identObj(info, l.Key)
				}
			case *ast.ForStmt:
				loopBody = l.Body
				pos = nil
				if init, isAs := l.Init.(*ast.AssignStmt); isAs && len(init.Lhs) > 0 {
					pos = identObj(info, init.Lhs[0])
				}
			}
		}
		if loopBody == nil {
			return true
		}
		n++
		key := fmt.Sprintf("%s/comma#%d", funcName(fi.Obj), n)
		conds, _ := c.pathConds(info, loopBody, call, false)
		bad := ""
		for _, cd := range flattenConds(conds) {
			if cd.Expr != nil && pos != nil && mentions(info, cd.Expr, pos) {
				bad = c.src(cd.Expr)
			}
		}
		c.Check(bad == "", rule, key, call.Pos(), "the comma is guarded by a count of children written, not by the position in the neighbour list",
			fmt.Sprintf("the comma is written under `%s`, which reads the position in the neighbour list: the parent sits in that list too, at a position that re-rooting and NNI change, so a comma is missing or dangling for such nodes", bad)).Clause = clause
		return true
	})
	return n
}

// WHO-MAY-CALL: a raw token read (Parser.scan, which returns white space as a token) is used only
// by the helpers that deal with white space themselves; the grammar functions read tokens through
// scanIgnoreWhitespace. The callers of today's tree are the frozen list.
func (c *Ctx) whoMayCall(rule string, target *FuncInfo, allowed map[string]string, clause string) int {
	if target == nil {
		return 0
	}
	n := 0
	for _, fi := range c.AllFuncs(strings.TrimPrefix(target.Pkg.PkgPath, modPath+"/")) {
		if fi.Decl.Body == nil || fi.Obj == target.Obj {
			continue
		}
		info := fi.Pkg.TypesInfo
		var at *ast.CallExpr
		for _, call := range callsIn(fi.Decl.Body, true) {
			if calleeOf(info, call) == target.Obj && at == nil {
				at = call
			}
		}
		if at == nil {
			continue
		}
		n++
		key := fmt.Sprintf("%s<-%s", funcName(target.Obj), funcName(fi.Obj))
		why, ok := allowed[fi.Obj.Name()]
		c.Check(ok, rule, key, at.Pos(), "listed caller: "+why, fmt.Sprintf("%s reads a raw token (%s), which may be white space; the grammar functions read through scanIgnoreWhitespace, so a blank at this place of the input is now taken for a token", funcName(fi.Obj), c.src(at))).Clause = clause
	}
	return n
}

// ABSENT-USE: lengths, supports and p-values have an "absent" sentinel (NIL_LENGTH, NIL_SUPPORT,
// NIL_PVALUE = -1). In the branch taken when a value equals its sentinel, that value is not an
// operand of arithmetic: half of an absent length is -0.5, a length the writer then prints. (A
// guard with the wrong polarity - `if length == NIL_LENGTH { halves = length / 2 }` - is the usual
// way to get there.)
func (c *Ctx) absentUse(rule string, funcs []*FuncInfo, clause string) (sites, viol int) {
	isSentinel := func(info *types.Info, e ast.Expr) bool {
		var id *ast.Ident
		switch x := unparen(e).(type) {
		case *ast.Ident:
			id = x
		case *ast.SelectorExpr:
			id = x.Sel
		}
		if id == nil {
			return false
		}
		cn, ok := info.Uses[id].(*types.Const)
		return ok && strings.HasPrefix(cn.Name(), "NIL_") && cn.Pkg() != nil && strings.HasSuffix(cn.Pkg().Path(), "/tree")
	}
	for _, fi := range funcs {
		if fi.Decl.Body == nil {
			continue
		}
		info := fi.Pkg.TypesInfo
		per := 0
		ast.Inspect(fi.Decl.Body, func(nd ast.Node) bool {
			is, ok := nd.(*ast.IfStmt)
			if !ok {
				return true
			}
			// conjuncts of the condition (positive), or the whole condition
			var conj []ast.Expr
			var split func(e ast.Expr)
			split = func(e ast.Expr) {
				if be, isBin := unparen(e).(*ast.BinaryExpr); isBin && be.Op == token.LAND {
					split(be.X)
					split(be.Y)
					return
				}
				conj = append(conj, unparen(e))
			}
			split(is.Cond)
			for _, cj := range conj {
				be, isBin := cj.(*ast.BinaryExpr)
				if !isBin || (be.Op != token.EQL && be.Op != token.NEQ) {
					continue
				}
				var val ast.Expr
				switch {
				case isSentinel(info, be.Y):
					val = be.X
				case isSentinel(info, be.X):
					val = be.Y
				default:
					continue
				}
				var absent ast.Node
				if be.Op == token.EQL {
					absent = is.Body
				} else if len(conj) == 1 && is.Else != nil {
					absent = is.Else
				}
				if absent == nil {
					continue
				}
				sites++
				per++
				vk := c.canon(info, val, nil)
				// re-assigned in the branch: the sentinel is being replaced, later uses are of the new value
				reassigned := false
				ast.Inspect(absent, func(m ast.Node) bool {
					if as, isAs := m.(*ast.AssignStmt); isAs {
						for _, l := range as.Lhs {
							if c.canon(info, l, nil) == vk {
								reassigned = true
							}
						}
					}
					return true
				})
				if reassigned {
					continue
				}
				var bad *ast.BinaryExpr
				ast.Inspect(absent, func(m ast.Node) bool {
					ar, isAr := m.(*ast.BinaryExpr)
					if !isAr || bad != nil {
						return true
					}
					switch ar.Op {
					case token.ADD, token.SUB, token.MUL, token.QUO:
						if !isFloat(info.TypeOf(ar)) {
							return true
						}
						if c.canon(info, ar.X, nil) == vk || c.canon(info, ar.Y, nil) == vk {
							bad = ar
						}
					}
					return true
				})
				if bad != nil {
					viol++
					c.Violation(rule, fmt.Sprintf("%s/%s#%d", funcName(fi.Obj), vk, per), bad.Pos(), fmt.Sprintf("`%s` is computed in the branch taken when `%s` is the 'absent' value (%s): arithmetic on the sentinel -1 produces a negative number that is then stored or written as if it were a measurement", c.src(bad), c.src(val), c.src(cj))).Clause = clause
				}
			}
			return true
		})
	}
	return
}

// REINDEX-LAST: the operations of package tree that change the structure of a tree and refresh its
// derived data themselves (bitsets, hash codes, depths: ReinitInternalIndexes / ReinitIndexes) do so
// after their last edit: from every call that reaches a structural primitive (ConnectNodes,
// delNode, delNeighbor, addChild, unconnectNode, ReorderEdges, Edge.Inverse), every path to a
// successful exit passes a call that reaches UpdateBitSet. The functions are the ones that satisfy
// this on the reference tree (frozen list); the others leave the refresh to their callers.
var reindexLastFuncs = []string{"RerootOutGroup", "RerootMidPoint", "RemoveTips", "Reroot", "Resolve", "ResolveNamedInternalNodes", "RemoveSingleNodes", "RemoveEdges", "UnRoot", "SubTree", "Merge"}

func (c *Ctx) reindexLast(rule string, names []string, clause string, discover bool) int {
	n := 0
	isPrim := func(fn *types.Func) bool {
		if fn == nil || !inRepo(fn) {
			return false
		}
		switch fn.Name() {
		case "ConnectNodes", "delNode", "delNeighbor", "addChild", "unconnectNode", "ReorderEdges", "Inverse":
			return strings.HasSuffix(fn.Pkg().Path(), "/tree")
		}
		return false
	}
	isRefresh := func(fn *types.Func) bool { return isRepoFunc(fn, "tree", "Tree", "UpdateBitSet") }
	want := map[string]bool{}
	for _, nm := range names {
		want[nm] = true
	}
	for _, fi := range c.AllFuncs("tree") {
		if fi.Decl.Body == nil || fi.Decl.Recv == nil || recvNamed(fi.Obj) == nil || recvNamed(fi.Obj).Obj().Name() != "Tree" {
			continue
		}
		if !discover && !want[fi.Obj.Name()] {
			continue
		}
		info := fi.Pkg.TypesInfo
		var edits []*ast.CallExpr
		refreshes := 0
		for _, call := range callsIn(fi.Decl.Body, false) {
			fn := calleeOf(info, call)
			if fn == nil || !inRepo(fn) || fn == fi.Obj {
				continue
			}
			if c.reaches(fn, isRefresh, 4, map[*types.Func]bool{}) {
				refreshes++
				continue // a call that refreshes is not an edit left unrefreshed
			}
			if c.reaches(fn, isPrim, 3, map[*types.Func]bool{}) {
				edits = append(edits, call)
			}
		}
		if len(edits) == 0 || (refreshes == 0 && discover) {
			continue
		}
		if refreshes == 0 {
			n++
			c.Violation(rule, funcName(fi.Obj)+"/refresh-after-last-edit", edits[len(edits)-1].Pos(), fmt.Sprintf("%s edits the structure of the tree (`%s`) and no longer recomputes bitsets, hash codes and depths: the branches it created have none and the others describe the tree as it was", fi.Obj.Name(), c.src(edits[len(edits)-1]))).Clause = clause
			continue
		}
		g := c.cfgOf(info, fi.Decl.Body)
		var bad *ast.CallExpr
		var esc token.Pos
		for _, e := range edits {
			res := mustPass(g, e.Pos(), func(m ast.Node) bool {
				return containsCall(info, m, func(_ *ast.CallExpr, fn *types.Func) bool {
					return fn != nil && inRepo(fn) && fn != fi.Obj && c.reaches(fn, isRefresh, 4, map[*types.Func]bool{})
				})
			}, func(ret *ast.ReturnStmt) bool { return c.succeedsOnPath(info, fi.Decl.Body, ret) })
			if !res.ok && bad == nil {
				bad, esc = e, res.escape
			}
		}
		if discover {
			if bad == nil {
				n++
				c.Note(rule, "discover/"+fi.Obj.Name(), fi.Decl.Pos(), fmt.Sprintf("%d edits, all followed by a refresh", len(edits)))
			}
			continue
		}
		n++
		key := funcName(fi.Obj) + "/refresh-after-last-edit"
		if bad != nil {
			_, ln := c.pos(esc)
			c.Violation(rule, key, bad.Pos(), fmt.Sprintf("after `%s` %s can return successfully (line %d) without recomputing bitsets, hash codes and depths: the branches it created have none and the others describe the tree as it was", c.src(bad), fi.Obj.Name(), ln)).Clause = clause
		} else {
			c.OK(rule, key, fi.Decl.Pos(), fmt.Sprintf("every successful exit after each of the %d structural edits passes a refresh of the derived data", len(edits))).Clause = clause
		}
	}
	return n
}

// GUARD-LEN: a writer loop `for .. range X` that sits under a test of len(X) must run whenever X is
// not empty: len(X) >= 1 implies the test (a redundant `if len(X) != 0` is fine; `== 0`, `!= 1`,
// `> 1` silently drop comments of some trees).
func (c *Ctx) guardLen(rule string, funcs []*FuncInfo, clause string) int {
	n := 0
	for _, fi := range funcs {
		if fi == nil || fi.Decl.Body == nil {
			continue
		}
		info := fi.Pkg.TypesInfo
		per := 0
		walkStack(fi.Decl.Body, func(nd ast.Node, stack []ast.Node) bool {
			rs, ok := nd.(*ast.RangeStmt)
			if !ok {
				return true
			}
			xk := c.canon(info, rs.X, nil)
			lenKey := "len(" + xk + ")"
			conds, okc := c.pathConds(info, fi.Decl.Body, rs, true)
			if !okc {
				return true
			}
			var rel []cond
			for _, cd := range flattenConds(conds) {
				if cd.Expr != nil && strings.Contains(strings.ReplaceAll(c.canon(info, cd.Expr, nil), " ", ""), strings.ReplaceAll(lenKey, " ", "")) {
					rel = append(rel, cd)
				}
			}
			if len(rel) == 0 {
				return true
			}
			n++
			per++
			key := fmt.Sprintf("%s/range %s#%d", funcName(fi.Obj), xk, per)
			code := c.condsToBexpr(info, rel, nil)
			imp, wit, _, err := gfImplies(bCmp(lenKey, token.GEQ, "1"), code)
			if err != nil {
				c.Undecided(rule, key, rs.Pos(), "guard shape not understood: "+err.Error())
				return true
			}
			c.Check(imp, rule, key, rs.Pos(), "the loop runs whenever "+xk+" is not empty",
				fmt.Sprintf("the loop over %s sits under `%s`, which is false for some non-empty %s (%s): their elements are never written", xk, code.String(), xk, wit)).Clause = clause
			return true
		})
	}
	return n
}

// COMMENT-STORED (go/cfg): in the Newick parser a comment text that was read without error is
// attached to a node or a branch (AddComment with that text), or an error is raised, on every
// path: no comment of the input is dropped silently.
func (c *Ctx) commentStored(rule string, fi *FuncInfo, clause string) int {
	if fi == nil || fi.Decl.Body == nil {
		return 0
	}
	info := fi.Pkg.TypesInfo
	n := 0
	var g *fcfg
	ast.Inspect(fi.Decl.Body, func(nd ast.Node) bool {
		as, ok := nd.(*ast.AssignStmt)
		if !ok || len(as.Rhs) != 1 || len(as.Lhs) != 2 {
			return true
		}
		call, isCall := unparen(as.Rhs[0]).(*ast.CallExpr)
		if !isCall {
			return true
		}
		fn := calleeOf(info, call)
		if fn == nil || fn.Name() != "consumeComment" || !inRepo(fn) {
			return true
		}
		cv := identObj(info, as.Lhs[0])
		if id, isId := as.Lhs[0].(*ast.Ident); isId && id.Name == "_" {
			cv = nil
		}
		if cv == nil {
			return true // the comment in front of the tree is not part of it
		}
		ev := identObj(info, as.Lhs[1])
		n++
		key := fmt.Sprintf("%s/comment#%d", funcName(fi.Obj), n)
		if g == nil {
			g = c.cfgOf(info, fi.Decl.Body)
		}
		res := mustPass(g, as.Pos(), func(m ast.Node) bool {
			// stored
			if containsCall(info, m, func(cl *ast.CallExpr, h *types.Func) bool {
				if h == nil {
					return false
				}
				// AddComment itself, or a helper of the repository that receives the comment and
				// attaches it (and reports whether it could)
				if h.Name() != "AddComment" && !(inRepo(h) && c.reaches(h, func(q *types.Func) bool { return q.Name() == "AddComment" && inRepo(q) }, 2, map[*types.Func]bool{})) {
					return false
				}
				for _, a := range cl.Args {
					if identObj(info, a) == cv {
						return true
					}
				}
				return false
			}) {
				return true
			}
			// or an error raised: `err = errors.New(..)` / fmt.Errorf
			if as2, isAs := m.(*ast.AssignStmt); isAs && m != ast.Node(as) {
				for i, l := range as2.Lhs {
					if identObj(info, l) == ev && ev != nil && i < len(as2.Rhs) {
						if _, isCall2 := unparen(as2.Rhs[i]).(*ast.CallExpr); isCall2 {
							return true
						}
					}
				}
			}
			return false
		}, func(ret *ast.ReturnStmt) bool { return c.succeedsOnPath(info, fi.Decl.Body, ret) })
		if res.ok {
			c.OK(rule, key, as.Pos(), "the comment read here is attached to a node or a branch, or an error is raised, on every path").Clause = clause
		} else {
			_, ln := c.pos(res.escape)
			c.Violation(rule, key, as.Pos(), fmt.Sprintf("the comment read here can reach the successful return at line %d without being attached to a node or a branch and without an error: it disappears from the tree", ln)).Clause = clause
		}
		return true
	})
	return n
}

// PARSED-STORED (go/cfg): a number parsed from the text (strconv.ParseFloat) in the Newick parser
// can reach a setter of the tree (SetLength / SetSupport / SetPValue) that receives it, before the
// variable is assigned again: no parsed value is computed for nothing.
func (c *Ctx) parsedStored(rule string, fi *FuncInfo, clause string) int {
	if fi == nil || fi.Decl.Body == nil {
		return 0
	}
	info := fi.Pkg.TypesInfo
	n := 0
	var g *fcfg
	ast.Inspect(fi.Decl.Body, func(nd ast.Node) bool {
		as, ok := nd.(*ast.AssignStmt)
		if !ok || len(as.Rhs) != 1 || len(as.Lhs) != 2 {
			return true
		}
		call, isCall := unparen(as.Rhs[0]).(*ast.CallExpr)
		if !isCall || !isFunc(calleeOf(info, call), "strconv", "", "ParseFloat") {
			return true
		}
		v := identObj(info, as.Lhs[0])
		if v == nil {
			return true
		}
		n++
		key := fmt.Sprintf("%s/%s#%d", funcName(fi.Obj), v.Name(), n)
		if g == nil {
			g = c.cfgOf(info, fi.Decl.Body)
		}
		b0, i0 := locate(g.g, as.Pos())
		stored := false
		if b0 != nil {
			seen := map[*cfg.Block]bool{}
			var walk func(b *cfg.Block, start int)
			walk = func(b *cfg.Block, start int) {
				for i := start; i < len(b.Nodes) && !stored; i++ {
					m := b.Nodes[i]
					if m == ast.Node(as) {
						return
					}
					if containsCall(info, m, func(cl *ast.CallExpr, h *types.Func) bool {
						if h == nil || !inRepo(h) || !strings.HasPrefix(h.Name(), "Set") {
							return false
						}
						for _, a := range cl.Args {
							if identObj(info, a) == v {
								return true
							}
						}
						return false
					}) {
						stored = true
						return
					}
					if as2, isAs := m.(*ast.AssignStmt); isAs {
						for _, l := range as2.Lhs {
							if identObj(info, l) == v {
								return
							}
						}
					}
				}
				for _, s := range b.Succs {
					if !seen[s] && !stored {
						seen[s] = true
						walk(s, 0)
					}
				}
			}
			walk(b0, i0+1)
		}
		// `a/b` labels: the part parsed decides the setter (part 0 is the support, part 1 the p-value)
		if ix, isIx := unparen(call.Args[0]).(*ast.IndexExpr); isIx && stored {
			if tv, has := info.Types[ix.Index]; has && tv.Value != nil {
				part := constKey(tv.Value)
				want := map[string]string{"0": "SetSupport", "1": "SetPValue"}[part]
				got := ""
				ast.Inspect(fi.Decl.Body, func(q ast.Node) bool {
					if cl, isCl := q.(*ast.CallExpr); isCl && cl.Pos() > as.Pos() && got == "" {
						if h := calleeOf(info, cl); h != nil && inRepo(h) && strings.HasPrefix(h.Name(), "Set") {
							for _, a := range cl.Args {
								if identObj(info, a) == v {
									got = h.Name()
								}
							}
						}
					}
					return true
				})
				if want != "" && got != "" && got != want {
					c.Violation(rule, key+"/part", as.Pos(), fmt.Sprintf("part %s of a `support/p-value` label is parsed into `%s`, which is handed to %s: the writer puts the support first and the p-value second", part, v.Name(), got)).Clause = clause
				}
			}
		}
		c.Check(stored, rule, key, as.Pos(), "the parsed value can reach a setter of the tree",
			fmt.Sprintf("the number parsed into `%s` here is never handed to a setter of the tree before `%s` is assigned again: the value written in the text is lost", v.Name(), v.Name())).Clause = clause
		return true
	})
	return n
}

// TREE-ON-SUCCESS (go/cfg): a reader's Parse with a named tree result never returns "no error"
// without having assigned the tree: every return reached where the error is nil (bare, or
// `return tree, nil`) is preceded by a store into the tree result.
func (c *Ctx) treeOnSuccess(rule string, fi *FuncInfo, clause string) int {
	if fi == nil || fi.Decl.Body == nil || fi.Decl.Type.Results == nil {
		return 0
	}
	info := fi.Pkg.TypesInfo
	var treeRes types.Object
	for _, f := range fi.Decl.Type.Results.List {
		for _, nm := range f.Names {
			if o := info.Defs[nm]; o != nil && !isErrorType(o.Type()) {
				if _, isPtr := o.Type().(*types.Pointer); isPtr && treeRes == nil {
					treeRes = o
				}
			}
		}
	}
	if treeRes == nil {
		return 0
	}
	g := c.cfgOf(info, fi.Decl.Body)
	key := funcName(fi.Obj) + "/result-set-before-success"
	res := mustPassFromEntryEx(g, func(m ast.Node) bool {
		if as, ok := m.(*ast.AssignStmt); ok {
			for _, l := range as.Lhs {
				if identObj(info, l) == treeRes {
					return true
				}
			}
		}
		return false
	}, func(ret *ast.ReturnStmt) bool {
		if ret != nil && len(ret.Results) > 0 {
			// explicit results: only `return <treeRes>, ...` is the named result handed out
			if identObj(info, ret.Results[0]) != treeRes {
				return false
			}
		}
		if ret != nil && errorJustRaised(info, fi.Decl.Body, ret) {
			return false
		}
		return c.succeedsOnPath(info, fi.Decl.Body, ret) && c.errNilOnPath(info, fi.Decl.Body, ret)
	})
	if res.ok {
		c.OK(rule, key, fi.Decl.Pos(), "every return reached with a nil error follows a store into "+treeRes.Name()).Clause = clause
	} else {
		_, ln := c.pos(res.escape)
		c.Violation(rule, key, fi.Decl.Pos(), fmt.Sprintf("the return at line %d is reached with a nil error before %s is assigned: the caller receives neither a tree nor an error", ln, treeRes.Name())).Clause = clause
	}
	return 1
}

// errNilOnPath: for a bare return of a function with a named error result: the closest test of that
// error on the path says it is nil, or there is no test at all after the last assignment... kept
// simple: true unless the closest test says the error is non-nil.
func (c *Ctx) errNilOnPath(info *types.Info, body *ast.BlockStmt, ret *ast.ReturnStmt) bool {
	conds, ok := c.pathConds(info, body, ret, false)
	if !ok {
		return true
	}
	verdict := true
	for _, cd := range flattenConds(conds) {
		be, isBin := unparen0(cd.Expr).(*ast.BinaryExpr)
		if !isBin || (be.Op != token.EQL && be.Op != token.NEQ) {
			continue
		}
		isNil := func(x ast.Expr) bool { id, isId := unparen(x).(*ast.Ident); return isId && id.Name == "nil" }
		var ev ast.Expr
		switch {
		case isNil(be.Y):
			ev = be.X
		case isNil(be.X):
			ev = be.Y
		default:
			continue
		}
		if !isErrorType(info.TypeOf(ev)) {
			continue
		}
		verdict = (be.Op == token.EQL) != cd.Neg
	}
	return verdict
}

// errorJustRaised: in the statement list of ret, a statement before it assigns an error variable
// from a constructor call (errors.New / fmt.Errorf / any call) and nothing in between tests it.
func errorJustRaised(info *types.Info, body *ast.BlockStmt, ret *ast.ReturnStmt) bool {
	st := stackTo(body, ret)
	for i := len(st) - 2; i >= 0; i-- {
		var list []ast.Stmt
		switch b := st[i].(type) {
		case *ast.BlockStmt:
			list = b.List
		case *ast.CaseClause:
			list = b.Body
		default:
			continue
		}
		for k := len(list) - 1; k >= 0; k-- {
			if list[k].Pos() >= ret.Pos() {
				continue
			}
			as, ok := list[k].(*ast.AssignStmt)
			if !ok {
				return false
			}
			for j, l := range as.Lhs {
				if isErrorType(info.TypeOf(l)) && j < len(as.Rhs) {
					if _, isCall := unparen(as.Rhs[j]).(*ast.CallExpr); isCall {
						return true
					}
				}
			}
			return false
		}
		return false
	}
	return false
}

// MUST-EOT (go/cfg): the Newick Parse function does not report success before it has seen the end
// of the tree: every return reached with a nil error passes a test of the current token against
// EOT (trailing text is an error, the clean-up after the tree is not skipped).
func (c *Ctx) mustSeeEOT(rule string, fi *FuncInfo, clause string) int {
	if fi == nil || fi.Decl.Body == nil {
		return 0
	}
	info := fi.Pkg.TypesInfo
	g := c.cfgOf(info, fi.Decl.Body)
	key := funcName(fi.Obj) + "/end-of-tree-before-success"
	res := mustPassFromEntryEx(g, func(m ast.Node) bool {
		found := false
		ast.Inspect(m, func(q ast.Node) bool {
			if be, ok := q.(*ast.BinaryExpr); ok && (be.Op == token.EQL || be.Op == token.NEQ) {
				for _, side := range []ast.Expr{be.X, be.Y} {
					if cn := constObj(info, side); cn != nil && cn.Name() == "EOT" {
						found = true
					}
				}
			}
			return !found
		})
		return found
	}, func(ret *ast.ReturnStmt) bool { return c.succeedsOnPath(info, fi.Decl.Body, ret) })
	if res.ok {
		c.OK(rule, key, fi.Decl.Pos(), "every return reached with a nil error has tested the token that follows the tree against EOT").Clause = clause
	} else {
		_, ln := c.pos(res.escape)
		c.Violation(rule, key, fi.Decl.Pos(), fmt.Sprintf("the return at line %d reports success without the token after the tree having been tested against EOT: what follows the tree in the text is not looked at and the final clean-up of the tree is skipped", ln)).Clause = clause
	}
	return 1
}

// ID-GIVEN: the readers number the nodes and branches they create (the ids index the per-node and
// per-branch tables of the library: distances to the root, transfer tallies). Every node obtained
// from NewNode and every branch obtained from ConnectNodes in a reader receives SetId in the
// statement list that creates it.
func (c *Ctx) idGiven(rule string, funcs []*FuncInfo, clause string) int {
	n := 0
	for _, fi := range funcs {
		if fi.Decl.Body == nil {
			continue
		}
		info := fi.Pkg.TypesInfo
		per := 0
		walkStack(fi.Decl.Body, func(nd ast.Node, stack []ast.Node) bool {
			as, ok := nd.(*ast.AssignStmt)
			if !ok || len(as.Rhs) != 1 || len(as.Lhs) < 1 {
				return true
			}
			call, isCall := unparen(as.Rhs[0]).(*ast.CallExpr)
			if !isCall {
				return true
			}
			fn := calleeOf(info, call)
			if !(isRepoFunc(fn, "tree", "Tree", "NewNode") || isRepoFunc(fn, "tree", "Tree", "ConnectNodes")) {
				return true
			}
			x := identObj(info, as.Lhs[0])
			if x == nil {
				return true
			}
			var rest []ast.Stmt
			for i := len(stack) - 1; i >= 0; i-- {
				var list []ast.Stmt
				switch b := stack[i].(type) {
				case *ast.BlockStmt:
					list = b.List
				case *ast.CaseClause:
					list = b.Body
				default:
					continue
				}
				for k, s := range list {
					if s == ast.Stmt(as) {
						rest = list[k+1:]
					}
				}
				if rest != nil {
					break
				}
				// the creation may sit in an `if x = ...; cond {` header: look one level further out
				for k, s := range list {
					if nodeContains(s, as.Pos()) {
						rest = append([]ast.Stmt{s}, list[k+1:]...)
					}
				}
				break
			}
			n++
			per++
			key := fmt.Sprintf("%s/%s:=%s#%d", funcName(fi.Obj), x.Name(), fn.Name(), per)
			given := false
			for _, s := range rest {
				ast.Inspect(s, func(m ast.Node) bool {
					cl, isCl := m.(*ast.CallExpr)
					if !isCl {
						return true
					}
					sel, isSel := unparen(cl.Fun).(*ast.SelectorExpr)
					if isSel && sel.Sel.Name == "SetId" && identObj(info, sel.X) == x {
						given = true
					}
					return true
				})
			}
			c.Check(given, rule, key, as.Pos(), "the new "+map[bool]string{true: "node", false: "branch"}[fn.Name() == "NewNode"]+" is numbered where it is created",
				fmt.Sprintf("`%s` creates a %s that receives no id in this statement list: it keeps the 'no id' value -1, and the tables of the library indexed by id (distance to the root, per-branch tallies) are indexed out of range or share slot -1", c.src(as), map[bool]string{true: "node", false: "branch"}[fn.Name() == "NewNode"])).Clause = clause
			return true
		})
	}
	return n
}

// ROOT-REPLACED (go/cfg): where a function of package tree has established that a node X is the
// root (`if t.Root() != X { return error }`) and later deletes X (delNode(X)), every path from
// that test to a successful return installs another root first (SetRoot / a write of Tree.root):
// otherwise the tree keeps pointing at a node that is no longer part of it.
func (c *Ctx) rootReplaced(rule string, funcs []*FuncInfo, clause string) int {
	n := 0
	for _, fi := range funcs {
		if fi.Decl.Body == nil {
			continue
		}
		info := fi.Pkg.TypesInfo
		var g *fcfg
		per := 0
		ast.Inspect(fi.Decl.Body, func(nd ast.Node) bool {
			is, ok := nd.(*ast.IfStmt)
			if !ok || is.Else != nil {
				return true
			}
			be, isBin := unparen(is.Cond).(*ast.BinaryExpr)
			if !isBin || be.Op != token.NEQ {
				return true
			}
			isRootOf := func(e ast.Expr) bool {
				if call, isCall := unparen(e).(*ast.CallExpr); isCall {
					return isRepoFunc(calleeOf(info, call), "tree", "Tree", "Root")
				}
				if sel, isSel := unparen(e).(*ast.SelectorExpr); isSel {
					return sel.Sel.Name == "root"
				}
				return false
			}
			var x types.Object
			switch {
			case isRootOf(be.X):
				x = identObj(info, be.Y)
			case isRootOf(be.Y):
				x = identObj(info, be.X)
			}
			if x == nil || !isNodePtr(x.Type()) {
				return true
			}
			// the body leaves with an error
			leaves := false
			for _, s := range is.Body.List {
				if ret, isRet := s.(*ast.ReturnStmt); isRet && !returnsNilError(info, ret) {
					leaves = true
				}
			}
			if !leaves {
				return true
			}
			// X deleted later in the function
			deleted := false
			for _, call := range callsIn(fi.Decl.Body, false) {
				if call.Pos() > is.End() && isRepoFunc(calleeOf(info, call), "tree", "Tree", "delNode") && len(call.Args) == 1 && identObj(info, call.Args[0]) == x {
					deleted = true
				}
			}
			if !deleted {
				return true
			}
			n++
			per++
			key := fmt.Sprintf("%s/%s#%d", funcName(fi.Obj), x.Name(), per)
			if g == nil {
				g = c.cfgOf(info, fi.Decl.Body)
			}
			res := mustPass(g, is.Cond.Pos(), func(m ast.Node) bool {
				if containsCall(info, m, func(_ *ast.CallExpr, h *types.Func) bool { return isRepoFunc(h, "tree", "Tree", "SetRoot") }) {
					return true
				}
				if as, isAs := m.(*ast.AssignStmt); isAs {
					for _, l := range as.Lhs {
						if sel, isSel := unparen(l).(*ast.SelectorExpr); isSel && sel.Sel.Name == "root" {
							return true
						}
					}
				}
				return false
			}, func(ret *ast.ReturnStmt) bool { return c.succeedsOnPath(info, fi.Decl.Body, ret) })
			if res.ok {
				c.OK(rule, key, is.Pos(), "the root, which is deleted further down, is replaced on every successful path").Clause = clause
			} else {
				_, ln := c.pos(res.escape)
				c.Violation(rule, key, is.Pos(), fmt.Sprintf("%s is the root here and is deleted further down, but the successful return at line %d can be reached without another node having been installed as the root: the tree keeps a root that is no longer part of it", x.Name(), ln)).Clause = clause
			}
			return true
		})
	}
	return n
}

// NAMED: the generators name the tips they create. One obligation per node created by NewNode in a
// generator that is given a name (SetName with that node as receiver later in the function); the
// number of such obligations per generator is a reference count (a deleted SetName lowers it).
func (c *Ctx) namedCreations(rule string, funcs []*FuncInfo, clause string) int {
	n := 0
	for _, fi := range funcs {
		if fi.Decl.Body == nil {
			continue
		}
		info := fi.Pkg.TypesInfo
		per := 0
		ast.Inspect(fi.Decl.Body, func(nd ast.Node) bool {
			as, ok := nd.(*ast.AssignStmt)
			if !ok || len(as.Rhs) != 1 || len(as.Lhs) != 1 {
				return true
			}
			call, isCall := unparen(as.Rhs[0]).(*ast.CallExpr)
			if !isCall || !isRepoFunc(calleeOf(info, call), "tree", "Tree", "NewNode") {
				return true
			}
			x := identObj(info, as.Lhs[0])
			if x == nil {
				return true
			}
			names := 0
			ast.Inspect(fi.Decl.Body, func(m ast.Node) bool {
				cl, isCl := m.(*ast.CallExpr)
				if !isCl || cl.Pos() < as.Pos() {
					return true
				}
				if sel, isSel := unparen(cl.Fun).(*ast.SelectorExpr); isSel && sel.Sel.Name == "SetName" && identObj(info, sel.X) == x {
					// a name, not the "" that turns a former tip into an inner node
					if tv, has := info.Types[cl.Args[0]]; !(has && tv.Value != nil && tv.Value.Kind() == constant.String && constant.StringVal(tv.Value) == "") {
						names++
					}
				}
				return true
			})
			for k := 0; k < names; k++ {
				n++
				per++
				c.OK(rule, fmt.Sprintf("%s/%s#%d", funcName(fi.Obj), x.Name(), per), as.Pos(), "the node created here is given a name").Clause = clause
			}
			return true
		})
	}
	return n
}

// FILL-STEP: a loop that fills a slice through a running position (`a[perm[nb]] = x; nb++`,
// `a[k] = x; k++`) steps the position in the statement list of the store: a position that is never
// stepped puts every element into the same slot and leaves the others nil.
func (c *Ctx) fillStep(rule string, funcs []*FuncInfo, clause string) int {
	n := 0
	for _, fi := range funcs {
		if fi.Decl.Body == nil {
			continue
		}
		info := fi.Pkg.TypesInfo
		per := 0
		walkStack(fi.Decl.Body, func(nd ast.Node, stack []ast.Node) bool {
			as, ok := nd.(*ast.AssignStmt)
			if !ok || as.Tok != token.ASSIGN || len(as.Lhs) != 1 {
				return true
			}
			ix, isIx := unparen(as.Lhs[0]).(*ast.IndexExpr)
			if !isIx {
				return true
			}
			if _, isSl := info.TypeOf(ix.X).Underlying().(*types.Slice); !isSl {
				return true
			}
			// the enclosing loop and its own variables
			var loop ast.Node
			loopVars := map[types.Object]bool{}
			for _, s := range stack {
				switch l := s.(type) {
				case *ast.RangeStmt:
					loop = l
					if o := identObj(info, l.Key); o != nil {
						loopVars[o] = true
					}
					if l.Value != nil {
						if o := identObj(info, l.Value); o != nil {
							loopVars[o] = true
						}
					}
				case *ast.ForStmt:
					loop = l
					if init, isAs := l.Init.(*ast.AssignStmt); isAs {
						for _, lh := range init.Lhs {
							if o := identObj(info, lh); o != nil {
								loopVars[o] = true
							}
						}
					}
				}
			}
			if loop == nil {
				return true
			}
			// the running position: an int local mentioned in the index, declared outside the loop,
			// and stepped somewhere in the loop (otherwise it is a fixed position, not a cursor)
			var pos types.Object
			ast.Inspect(ix.Index, func(m ast.Node) bool {
				if id, isId := m.(*ast.Ident); isId {
					if o, isVar := info.Uses[id].(*types.Var); isVar && !o.IsField() && !loopVars[o] && isInteger(o.Type()) && !(o.Pos() > loop.Pos() && o.Pos() < loop.End()) {
						if o.Parent() != nil && o.Parent() != fi.Pkg.Types.Scope() {
							pos = o
						}
					}
				}
				return true
			})
			if pos == nil {
				return true
			}
			steppedInFunc := false
			ast.Inspect(fi.Decl.Body, func(m ast.Node) bool {
				switch x := m.(type) {
				case *ast.IncDecStmt:
					if identObj(info, x.X) == pos {
						steppedInFunc = true
					}
				case *ast.AssignStmt:
					if len(x.Lhs) == 1 && identObj(info, x.Lhs[0]) == pos && (x.Tok == token.ADD_ASSIGN || x.Tok == token.SUB_ASSIGN) {
						steppedInFunc = true
					}
				}
				return true
			})
			// parameters and constants of the function are positions given from outside, not cursors
			isParam := false
			for k := 0; ; k++ {
				p := paramObj(info, fi.Decl, k)
				if p == nil {
					break
				}
				if p == pos {
					isParam = true
				}
			}
			if isParam {
				return true
			}
			var list []ast.Stmt
			for i := len(stack) - 1; i >= 0 && list == nil; i-- {
				switch b := stack[i].(type) {
				case *ast.BlockStmt:
					list = b.List
				case *ast.CaseClause:
					list = b.Body
				}
			}
			stepped := false
			for _, s := range list {
				switch x := s.(type) {
				case *ast.IncDecStmt:
					if identObj(info, x.X) == pos {
						stepped = true
					}
				case *ast.AssignStmt:
					if len(x.Lhs) == 1 && identObj(info, x.Lhs[0]) == pos && x != as {
						stepped = true
					}
				}
			}
			if !stepped && !steppedInFunc {
				// never stepped anywhere: only a cursor if it starts at a constant and the store is in a loop
				defs := localDefs(info, fi.Decl.Body, pos)
				if len(defs) != 1 {
					return true
				}
				if tv, has := info.Types[defs[0]]; !has || tv.Value == nil {
					return true
				}
			}
			n++
			per++
			key := fmt.Sprintf("%s/%s[%s]#%d", funcName(fi.Obj), c.src(ix.X), pos.Name(), per)
			c.Check(stepped, rule, key, as.Pos(), "the running position is stepped where the element is stored",
				fmt.Sprintf("`%s` stores through the running position %s inside a loop, and %s is not stepped in the statement list of the store: every element lands in the same slot and the other slots stay empty", c.src(as), pos.Name(), pos.Name())).Clause = clause
			return true
		})
	}
	return n
}
