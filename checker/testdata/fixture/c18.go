// Package fixture holds tiny positive controls: constructs every zero-expected rule must match on
// each run, so that a rule which went blind cannot pass vacuously. Never part of gotree.
package fixture

import (
	"fmt"
	"math/rand"
	"os"
	"time"
)

// C18PrintMap writes in map order (MAPRANGE S1 control).
func C18PrintMap(m map[string]int) {
	for k, v := range m {
		fmt.Fprintf(os.Stdout, "%s %d\n", k, v)
	}
}

// C18OwnSource creates a private random source (RANDSRC control) seeded from the clock.
func C18OwnSource() int {
	r := rand.New(rand.NewSource(time.Now().UnixNano()))
	return r.Intn(10)
}

// C18Pointer prints an address (RANDSRC %p control).
func C18Pointer(p *int) string {
	return fmt.Sprintf("%p", p)
}
