package fixture

// C11NilChan ranges over a channel variable that only one branch assigns (GO-NILCHAN control).
func C11NilChan(weighted bool) int {
	var stats <-chan int
	if !weighted {
		ch := make(chan int)
		close(ch)
		stats = ch
	}
	n := 0
	for range stats {
		n++
	}
	return n
}

type c11rec struct{ Err error }

// C11Swallow logs the error of a record and leaves with the (nil) named result (ERR-SWALLOW control).
func C11Swallow(recs []c11rec) (err error) {
	for _, r := range recs {
		if r.Err != nil {
			println(r.Err.Error())
			return
		}
	}
	return
}
