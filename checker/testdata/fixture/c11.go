package fixture

// C11NilChan ranges over a channel variable that only one branch assigns (GO-NILCHAN control).
func C11NilChan(weighted bool) int {
	var stats <-chan int
	if !weighted {
		ch := make(chan int)
		close(ch)
		stats = ch
	}
	n := 0
	for range stats {
		n++
	}
	return n
}
