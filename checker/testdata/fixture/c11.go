package fixture

import "sync/atomic"

// C11NilChan ranges over a channel variable that only one branch assigns (GO-NILCHAN control).
func C11NilChan(weighted bool) int {
	var stats <-chan int
	if !weighted {
		ch := make(chan int)
		close(ch)
		stats = ch
	}
	n := 0
	for range stats {
		n++
	}
	return n
}

type c11rec struct{ Err error }

// C11Swallow logs the error of a record and leaves with the (nil) named result (ERR-SWALLOW control).
func C11Swallow(recs []c11rec) (err error) {
	for _, r := range recs {
		if r.Err != nil {
			println(r.Err.Error())
			return
		}
	}
	return
}

// C18ArrivalOrder numbers its outputs by the order in which the workers arrive (ARRIVAL-ORDER control).
func C18ArrivalOrder(items []string, out []string) {
	var next int32
	done := make(chan bool)
	for _, it := range items {
		go func(it string) {
			out[atomic.AddInt32(&next, 1)-1] = it
			done <- true
		}(it)
	}
	for range items {
		<-done
	}
}
