package fixture

import (
	"log"
	"os"
)

type c02node struct {
	val  int
	next *c02node
}

// C02ExitDeep reaches os.Exit through a helper (EXIT control).
func C02ExitDeep(b []byte) int {
	if len(b) == 0 {
		c02fatal("empty")
	}
	return len(b)
}

func c02fatal(msg string) {
	log.Print(msg)
	os.Exit(1)
}

// C02IdxAfterLenTest indexes after a length test whose failing branch does not leave (CONTRA-IDX-1 control).
func C02IdxAfterLenTest(s string) (r rune, err error) {
	if len(s) != 1 {
		err = os.ErrInvalid
	}
	r = []rune(s)[0]
	return
}

// C02IdxAfterDecrement decrements past its guard (CONTRA-IDX-2 control).
func C02IdxAfterDecrement(ln []byte) byte {
	i := len(ln) - 1
	last := byte(' ')
	for last == ' ' && i >= 0 {
		i--
		last = ln[i]
	}
	return last
}

// C02NilBelief tests a pointer for nil and then dereferences it unguarded (CONTRA-NIL control).
func C02NilBelief(n *c02node, tip bool) int {
	if n != nil {
		n.val = 0
	}
	if tip {
		n.val++
	}
	return 1
}

// C02Spin never leaves at end of input (EOFLOOP control is exercised through gotree itself; this
// one is for the progress rule): it pushes back what it read on every iteration.

// C06StaleTip asks a node whether it is a tip after detaching it (STALE control).
type c06node struct{ neigh []*c06node }

func (n *c06node) Tip() bool { return len(n.neigh) == 1 }
func (n *c06node) delNeighbor(o *c06node) {
	for i, x := range n.neigh {
		if x == o {
			n.neigh = append(n.neigh[:i], n.neigh[i+1:]...)
		}
	}
}
func C06StaleTip(a, b *c06node) bool {
	a.delNeighbor(b)
	return !a.Tip()
}
