package fixture

import (
	"bufio"
	"io"
	"log"
	"os"
	"strings"
)

type c02node struct {
	val  int
	next *c02node
}

// C02ExitDeep reaches os.Exit through a helper (EXIT control).
func C02ExitDeep(b []byte) int {
	if len(b) == 0 {
		c02fatal("empty")
	}
	return len(b)
}

func c02fatal(msg string) {
	log.Print(msg)
	os.Exit(1)
}

// C02IdxAfterLenTest indexes after a length test whose failing branch does not leave (CONTRA-IDX-1 control).
func C02IdxAfterLenTest(s string) (r rune, err error) {
	if len(s) != 1 {
		err = os.ErrInvalid
	}
	r = []rune(s)[0]
	return
}

// C02IdxAfterDecrement decrements past its guard (CONTRA-IDX-2 control).
func C02IdxAfterDecrement(ln []byte) byte {
	i := len(ln) - 1
	last := byte(' ')
	for last == ' ' && i >= 0 {
		i--
		last = ln[i]
	}
	return last
}

// C02NilBelief tests a pointer for nil and then dereferences it unguarded (CONTRA-NIL control).
func C02NilBelief(n *c02node, tip bool) int {
	if n != nil {
		n.val = 0
	}
	if tip {
		n.val++
	}
	return 1
}

// C02Spin never leaves at end of input (EOFLOOP control is exercised through gotree itself; this
// one is for the progress rule): it pushes back what it read on every iteration.

// C06StaleTip asks a node whether it is a tip after detaching it (STALE control).
type c06node struct{ neigh []*c06node }

func (n *c06node) Tip() bool { return len(n.neigh) == 1 }
func (n *c06node) delNeighbor(o *c06node) {
	for i, x := range n.neigh {
		if x == o {
			n.neigh = append(n.neigh[:i], n.neigh[i+1:]...)
		}
	}
}
func C06StaleTip(a, b *c06node) bool {
	a.delNeighbor(b)
	return !a.Tip()
}

// ROOT-ONCE controls.
type c02tree struct{ root *c02node }

func (t *c02tree) SetRoot(n *c02node) { t.root = n }

type c02stack struct{ elt []*c02node }

func (s *c02stack) Head() (*c02node, error) {
	if len(s.elt) == 0 {
		return nil, nil
	}
	return s.elt[len(s.elt)-1], nil
}

func c02newnode() *c02node { return &c02node{} }

// C02RootTwice: `node` is refilled from the stack (nil when empty): the root can be set again.
func C02RootTwice(t *c02tree, toks []int, st *c02stack) {
	var node *c02node
	for _, tok := range toks {
		switch tok {
		case 0:
			if node == nil {
				node = c02newnode()
				t.SetRoot(node)
			}
		case 1:
			node, _ = st.Head()
		}
	}
}

// C02RootLatched: same loop, guarded by a counter that only grows.
func C02RootLatched(t *c02tree, toks []int, st *c02stack) {
	var node *c02node
	n := 0
	for _, tok := range toks {
		switch tok {
		case 0:
			if node == nil {
				if n > 0 {
					return
				}
				node = c02newnode()
				n++
				t.SetRoot(node)
			}
		case 1:
			node, _ = st.Head()
		}
	}
}

// LOSTWRITE control (C04).
type c04kv struct {
	k string
	v int
}

func C04LostWrite(b []c04kv, k string, v int) {
	for _, kv := range b {
		if kv.k == k {
			kv.v = v
			return
		}
	}
}

func C04KeptWrite(b []c04kv, k string, v int) (out []c04kv) {
	for _, kv := range b {
		if kv.k == k {
			kv.v = v
		}
		out = append(out, kv)
	}
	return
}

// FMT-CONST control (C01).
func c01text() string { return "100%" }

func C01FormatText() {
	text := c01text()
	log.Printf(text + "\n")
	log.Printf("%s\n", text)
}

// SCANNER-ERR controls (C06).
func C06ScanNoErr(r io.Reader) (out []string) {
	sc := bufio.NewScanner(r)
	for sc.Scan() {
		out = append(out, sc.Text())
	}
	return
}

func C06ScanErr(r io.Reader) (out []string, err error) {
	sc := bufio.NewScanner(r)
	for sc.Scan() {
		out = append(out, sc.Text())
	}
	return out, sc.Err()
}

// MAKE-APPEND controls (C15).
type c15edge struct{ comment []string }

func (e *c15edge) AddComment(s string) { e.comment = append(e.comment, s) }

func C15MakeAppend(src, dst *c15edge) {
	dst.comment = make([]string, len(src.comment))
	for _, s := range src.comment {
		dst.AddComment(s)
	}
}

func C15MakeIndex(src, dst *c15edge) {
	dst.comment = make([]string, len(src.comment))
	for i, s := range src.comment {
		dst.comment[i] = s
	}
}

// PEEK-IDX controls (C02).
func C02PeekIndex(r *bufio.Reader) bool {
	magic, err := r.Peek(2)
	if err != nil && err != io.EOF {
		return false
	}
	return magic[0] == 0x1f && magic[1] == 0x8b
}

func C02PeekChecked(r *bufio.Reader) bool {
	magic, err := r.Peek(2)
	if err != nil {
		return false
	}
	return magic[0] == 0x1f && magic[1] == 0x8b
}

// C13FoldedKey: positive control of NAME-EXACT (a taxon label folded before it is used as a key).
func C13FoldedKey(labels map[string]bool, name string) bool {
	switch strings.ToUpper(name) {
	case "BEGIN", "END":
		return false
	}
	return labels[strings.ToLower(name)]
}

// C16ErrDead: positive control of ERR-DEAD (the error of Open is overwritten by WriteString's
// before the loop condition reads it).
func C16ErrDead(n int) error {
	var err error
	var f *os.File
	for i := 0; i < n && err == nil; i++ {
		f, err = os.Open("x")
		_, err = f.WriteString("y")
	}
	return err
}
