package fixture

// Edge mimics the sentinel convention of gotree's tree.Edge for the SENTINEL control.
type Edge struct {
	length, support, pvalue float64
}

const NIL_LENGTH = -1.0

func (e *Edge) Length() float64     { return e.length }
func (e *Edge) SetLength(l float64) { e.length = l }

// C05ZeroAsAbsent tests presence with an ordered comparison against 0 (SENTINEL control).
func C05ZeroAsAbsent(from, to *Edge) {
	length := from.Length()
	if length > 0 {
		to.SetLength(length / 2)
	}
}
