package fixture

import (
	"bufio"
	"io"
	"strings"
)

// Edge mimics the sentinel convention of gotree's tree.Edge for the SENTINEL control.
type Edge struct {
	length, support, pvalue float64
}

const NIL_LENGTH = -1.0

func (e *Edge) Length() float64     { return e.length }
func (e *Edge) SetLength(l float64) { e.length = l }

// C05ZeroAsAbsent tests presence with an ordered comparison against 0 (SENTINEL control).
func C05ZeroAsAbsent(from, to *Edge) {
	length := from.Length()
	if length > 0 {
		to.SetLength(length / 2)
	}
}

// C05ReadString: positive control of LASTLINE.
func C05ReadString(r *bufio.Reader) []string {
	var out []string
	line, err := r.ReadString('\n')
	for err == nil {
		out = append(out, line)
		line, err = r.ReadString('\n')
	}
	return out
}

// C09AdjPairs: positive control of ADJ-PAIRS (the last adjacent pair is never compared).
func C09AdjPairs(names []string) bool {
	for i := 1; i < len(names)-1; i++ {
		if names[i] == names[i-1] {
			return true
		}
	}
	return false
}

// C09AdjPairsOK: all pairs are visited (must stay silent).
func C09AdjPairsOK(names []string) bool {
	for i := 0; i < len(names)-1; i++ {
		if names[i] == names[i+1] {
			return true
		}
	}
	return false
}

// C12KeepsCR: second positive control of LASTLINE (io.EOF handled, carriage return kept).
func C12KeepsCR(r *bufio.Reader) (string, error) {
	line, err := r.ReadString('\n')
	if err == io.EOF && len(line) > 0 {
		err = nil
	}
	return strings.TrimSuffix(line, "\n"), err
}
