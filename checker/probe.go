package main

import (
	"fmt"
	"go/ast"
	"go/types"
)

func init() { props["PROBE-MAPRANGE"] = probeMapRange }

func probeMapRange(c *Ctx) {
	for _, p := range c.All {
		for _, f := range p.Syntax {
			ast.Inspect(f, func(n ast.Node) bool {
				if rs, ok := n.(*ast.RangeStmt); ok {
					if tv, ok := p.TypesInfo.Types[rs.X]; ok {
						if _, ok := tv.Type.Underlying().(*types.Map); ok {
							fl, ln := c.pos(rs.Pos())
							fmt.Printf("%s:%d range %s\n", fl, ln, types.ExprString(rs.X))
						}
					}
				}
				return true
			})
		}
	}
}
