package main

import (
	"fmt"
	"go/ast"
	"go/constant"
	"go/token"
	"go/types"
	"strings"
)

// IDX-IMPLIED: where a constant index x[k] sits on a path that tests len(x), the tests taken imply
// len(x) > k. (`if len(r) > 1 { error } else { use r[0] }` lets the empty value through.)
func (c *Ctx) idxImplied(rule string, funcs []*FuncInfo, clause string) (sites, viol int) {
	for _, fi := range funcs {
		if fi.Decl.Body == nil {
			continue
		}
		info := fi.Pkg.TypesInfo
		per := 0
		ast.Inspect(fi.Decl.Body, func(nd ast.Node) bool {
			if _, isLit := nd.(*ast.FuncLit); isLit {
				return false
			}
			ix, ok := nd.(*ast.IndexExpr)
			if !ok {
				return true
			}
			tv, has := info.Types[ix.Index]
			if !has || tv.Value == nil || tv.Value.Kind() != constant.Int {
				return true
			}
			k, exact := constant.Int64Val(tv.Value)
			if !exact || k < 0 {
				return true
			}
			switch info.TypeOf(ix.X).Underlying().(type) {
			case *types.Slice:
			case *types.Basic:
			default:
				return true
			}
			xk := c.canon(info, ix.X, nil)
			lenKey := "len(" + xk + ")"
			conds, okc := c.pathConds(info, fi.Decl.Body, ix, false)
			if !okc {
				return true
			}
			var rel []cond
			for _, cd := range flattenConds(conds) {
				if cd.Expr != nil && strings.Contains(strings.ReplaceAll(c.canon(info, cd.Expr, nil), " ", ""), strings.ReplaceAll(lenKey, " ", "")) {
					rel = append(rel, cd)
				}
			}
			if len(rel) == 0 {
				return true
			}
			sites++
			per++
			code := c.condsToBexpr(info, rel, nil)
			// a length is never negative
			imp, wit, _, err := gfImplies(bAnd(code, bCmp(lenKey, token.GEQ, "0")), bCmp(lenKey, token.GEQ, fmt.Sprint(k+1)))
			if err != nil {
				return true // a length test the engine does not read: nothing is claimed for this site
			}
			if !imp {
				viol++
				c.Violation(rule, fmt.Sprintf("%s/%s[%d]#%d", funcName(fi.Obj), xk, k, per), ix.Pos(), fmt.Sprintf("`%s` is evaluated where the tests of len(%s) on the path (%s) do not establish len(%s) > %d (%s): an input for which the value is shorter makes the reader panic instead of reporting an error", c.src(ix), xk, code.String(), xk, k, wit)).Clause = clause
			}
			return true
		})
	}
	return
}

// ERR-FALLTHROUGH: `v, err := f(..)` followed by an `if err != nil` whose body does not leave
// (no return / continue / break / exit), after which v - a pointer, map or interface that f hands
// back as nil together with its error - is used: the failure is logged and then dereferenced.
func (c *Ctx) errFallthrough(rule string, funcs []*FuncInfo, clause string) (sites, viol int) {
	leavesList := func(list []ast.Stmt) bool {
		if len(list) == 0 {
			return false
		}
		switch x := list[len(list)-1].(type) {
		case *ast.ReturnStmt, *ast.BranchStmt:
			return true
		case *ast.ExprStmt:
			if call, ok := x.X.(*ast.CallExpr); ok {
				if id, isId := call.Fun.(*ast.Ident); isId && id.Name == "panic" {
					return true
				}
				if sel, isSel := call.Fun.(*ast.SelectorExpr); isSel && (sel.Sel.Name == "Exit" || sel.Sel.Name == "ExitWithMessage" || strings.HasPrefix(sel.Sel.Name, "Fatal")) {
					return true
				}
			}
		}
		return false
	}
	for _, fi := range funcs {
		if fi.Decl.Body == nil {
			continue
		}
		info := fi.Pkg.TypesInfo
		walkStack(fi.Decl.Body, func(nd ast.Node, stack []ast.Node) bool {
			as, ok := nd.(*ast.AssignStmt)
			if !ok || len(as.Lhs) != 2 || len(as.Rhs) != 1 {
				return true
			}
			call, isCall := unparen(as.Rhs[0]).(*ast.CallExpr)
			if !isCall {
				return true
			}
			fn := calleeOf(info, call)
			if fn == nil || !inRepo(fn) {
				return true
			}
			v, ev := identObj(info, as.Lhs[0]), identObj(info, as.Lhs[1])
			if v == nil || ev == nil || !isErrorType(ev.Type()) {
				return true
			}
			switch v.Type().Underlying().(type) {
			case *types.Pointer, *types.Map, *types.Interface:
			default:
				return true
			}
			// the statement list holding the assignment, and the `if err != nil` right after it
			var list []ast.Stmt
			for i := len(stack) - 1; i >= 0 && list == nil; i-- {
				switch b := stack[i].(type) {
				case *ast.BlockStmt:
					list = b.List
				case *ast.CaseClause:
					list = b.Body
				}
			}
			for k, s := range list {
				if s != ast.Stmt(as) || k+1 >= len(list) {
					continue
				}
				is, isIf := list[k+1].(*ast.IfStmt)
				if !isIf || is.Else != nil || is.Init != nil {
					continue
				}
				be, isBin := unparen(is.Cond).(*ast.BinaryExpr)
				if !isBin || be.Op != token.NEQ || !(identObj(info, be.X) == ev || identObj(info, be.Y) == ev) {
					continue
				}
				sites++
				if leavesList(is.Body.List) {
					continue
				}
				// v re-assigned in the body (a fallback value) is fine
				fallback := false
				ast.Inspect(is.Body, func(m ast.Node) bool {
					if a2, isAs := m.(*ast.AssignStmt); isAs {
						for _, l := range a2.Lhs {
							if identObj(info, l) == v {
								fallback = true
							}
						}
					}
					return true
				})
				if fallback {
					continue
				}
				used := false
				for _, later := range list[k+2:] {
					if mentions(info, later, v) {
						used = true
					}
				}
				if used {
					viol++
					c.Violation(rule, fmt.Sprintf("%s/%s", funcName(fi.Obj), v.Name()), is.Pos(), fmt.Sprintf("when `%s` fails the error is only reported and the function goes on to use `%s`, which %s hands back as nil together with its error: the failure becomes a nil dereference", c.src(call), v.Name(), fn.Name())).Clause = clause
				}
			}
			return true
		})
	}
	return
}

// ARG-INPLACE: a function does not filter a slice it received as a parameter in place
// (`known := names[:0]` followed by `append(known, ..)`): the survivors are written over the
// caller's elements, and a caller that uses the same slice again (the next tree of the input, the
// next call) sees a compacted, partly duplicated list.
func (c *Ctx) argInplace(rule string, funcs []*FuncInfo, clause string) (sites, viol int) {
	for _, fi := range funcs {
		if fi.Decl.Body == nil {
			continue
		}
		info := fi.Pkg.TypesInfo
		params := map[types.Object]bool{}
		for k := 0; ; k++ {
			p := paramObj(info, fi.Decl, k)
			if p == nil {
				break
			}
			if _, isSl := p.Type().Underlying().(*types.Slice); isSl {
				params[p] = true
			}
		}
		if len(params) == 0 {
			continue
		}
		sites++
		ast.Inspect(fi.Decl.Body, func(nd ast.Node) bool {
			as, ok := nd.(*ast.AssignStmt)
			if !ok || len(as.Lhs) != 1 || len(as.Rhs) != 1 {
				return true
			}
			se, isSl := unparen(as.Rhs[0]).(*ast.SliceExpr)
			if !isSl || !params[identObj(info, se.X)] || se.High == nil {
				return true
			}
			if tv, has := info.Types[se.High]; !has || tv.Value == nil || constKey(tv.Value) != "0" {
				return true
			}
			dst := identObj(info, as.Lhs[0])
			if dst == nil {
				return true
			}
			appended := false
			ast.Inspect(fi.Decl.Body, func(m ast.Node) bool {
				if call, isCall := m.(*ast.CallExpr); isCall {
					if id, isId := call.Fun.(*ast.Ident); isId && id.Name == "append" && len(call.Args) > 0 && identObj(info, call.Args[0]) == dst {
						appended = true
					}
				}
				return true
			})
			if appended {
				viol++
				c.Violation(rule, fmt.Sprintf("%s/%s", funcName(fi.Obj), dst.Name()), as.Pos(), fmt.Sprintf("`%s` starts an in-place filter of the parameter `%s`: what is appended to `%s` overwrites the caller's own elements, and the caller's slice is used again for the next tree or the next call", c.src(as), c.src(se.X), dst.Name())).Clause = clause
			}
			return true
		})
	}
	return
}

// UNCOND-PREP: the per-tree preparation calls of the computations over a stream of trees
// (ReinitIndexes, CompareTipIndexes on every tree received) are reached whenever the tree was
// received without error: the conditions between the head of the loop over the stream and the call
// are tests of error values, of the item's Err, or of cancellation - nothing about the tree itself
// or about which tree of the stream it is (an "already done for the first tree" shortcut).
func (c *Ctx) uncondPrep(rule string, fi *FuncInfo, callees []string, clause string) int {
	if fi == nil || fi.Decl.Body == nil {
		return 0
	}
	info := fi.Pkg.TypesInfo
	n := 0
	bodies := []*ast.BlockStmt{fi.Decl.Body}
	for _, fl := range funcLits(fi.Decl.Body) {
		bodies = append(bodies, fl.Body)
	}
	seen := map[*ast.CallExpr]bool{}
	for _, body := range bodies {
		walkStack(body, func(nd ast.Node, stack []ast.Node) bool {
			if fl, isLit := nd.(*ast.FuncLit); isLit && fl.Body != body {
				return false
			}
			call, ok := nd.(*ast.CallExpr)
			if !ok || seen[call] {
				return true
			}
			fn := calleeOf(info, call)
			if fn == nil || !inRepo(fn) {
				return true
			}
			var reached []string
			for _, nm := range callees {
				if fn.Name() == nm {
					reached = []string{nm}
				}
			}
			if reached == nil && !fn.Exported() && fn.Pkg() == fi.Pkg.Types {
				// a preparation helper of the package (`prepareBootTree(ref, boot) error`) stands for the
				// calls it makes
				for _, nm := range callees {
					nm := nm
					if c.reaches(fn, func(h *types.Func) bool { return h.Name() == nm && inRepo(h) && h != fn }, 2, map[*types.Func]bool{}) {
						reached = append(reached, nm)
					}
				}
			}
			if reached == nil {
				return true
			}
			// inside a loop over a channel
			var loop *ast.RangeStmt
			for _, s := range stack {
				if rs, isR := s.(*ast.RangeStmt); isR {
					if _, isChan := info.TypeOf(rs.X).Underlying().(*types.Chan); isChan {
						loop = rs
					}
				}
			}
			if loop == nil {
				return true
			}
			seen[call] = true
			n += len(reached)
			key := fmt.Sprintf("%s/%s#%d", funcName(fi.Obj), strings.Join(reached, "+"), n)
			for extra := 1; extra < len(reached); extra++ {
				c.OK(rule, fmt.Sprintf("%s/%s#%d(same call)", funcName(fi.Obj), reached[extra], n-extra), call.Pos(), "made by the same preparation helper").Clause = clause
			}
			conds, _ := c.pathConds(info, loop.Body, call, false)
			bad := ""
			for _, cd := range flattenConds(conds) {
				if cd.Expr == nil {
					continue
				}
				e := unparen(cd.Expr)
				if errGuard(info, e) {
					continue
				}
				txt := c.src(e)
				if strings.Contains(txt, "Canceled()") || strings.Contains(txt, ".Err") {
					continue
				}
				// the condition of the `if x = call(); ..` the call itself sits in
				if nodeContains(e, call.Pos()) {
					continue
				}
				bad = txt
			}
			c.Check(bad == "", rule, key, call.Pos(), "reached for every tree received without error",
				fmt.Sprintf("%s is called only under `%s`: for the trees of the stream that do not satisfy it the step is skipped, and what it establishes (fresh indexes, same taxa as the reference) is assumed without having been checked", fn.Name(), bad)).Clause = clause
			return true
		})
	}
	return n
}

// SEND-KEY: FBP's workers tell the collector which reference branches were found by sending
// positions in the slice of reference branches (the collector counts per position and SetSupport is
// applied by position): what is sent on that channel is the key of a range over that slice.
func (c *Ctx) sendKey(rule string, fi *FuncInfo, clause string) int {
	if fi == nil || fi.Decl.Body == nil {
		return 0
	}
	info := fi.Pkg.TypesInfo
	n := 0
	walkStack(fi.Decl.Body, func(nd ast.Node, stack []ast.Node) bool {
		ss, ok := nd.(*ast.SendStmt)
		if !ok {
			return true
		}
		ch, isChan := info.TypeOf(ss.Chan).Underlying().(*types.Chan)
		if !isChan || !isInteger(ch.Elem()) {
			return true
		}
		n++
		key := fmt.Sprintf("%s/%s<-#%d", funcName(fi.Obj), c.src(ss.Chan), n)
		v := identObj(info, ss.Value)
		good := false
		for _, s := range stack {
			if rs, isR := s.(*ast.RangeStmt); isR && rs.Key != nil && v != nil && identObj(info, rs.Key) == v {
				good = true
			}
			if fs, isF := s.(*ast.ForStmt); isF && v != nil {
				if init, isAs := fs.Init.(*ast.AssignStmt); isAs {
					for _, l := range init.Lhs {
						if identObj(info, l) == v {
							good = true
						}
					}
				}
			}
		}
		c.Check(good, rule, key, ss.Pos(), "a position of the enclosing loop is sent",
			fmt.Sprintf("`%s` sends `%s`, which is not the position of the enclosing loop: the collector counts and applies supports by position in the slice of reference branches, and an id equals the position only for a tree straight from a reader", c.src(ss), c.src(ss.Value))).Clause = clause
		return true
	})
	return n
}

// CHUNK-REMAINDER: work split between workers as `x[c*k:(c+1)*k]` with k = len(x)/n loses the last
// len(x) % n elements unless the remainder is dealt with: a function that slices by a quotient of a
// length also mentions the remainder (`%`) or bounds a slice by the length itself.
func (c *Ctx) chunkRemainder(rule string, funcs []*FuncInfo, clause string) (sites, viol int) {
	for _, fi := range funcs {
		if fi.Decl.Body == nil {
			continue
		}
		info := fi.Pkg.TypesInfo
		// quotient locals: k := len(x) / n
		quot := map[types.Object]*ast.AssignStmt{}
		ast.Inspect(fi.Decl.Body, func(nd ast.Node) bool {
			as, ok := nd.(*ast.AssignStmt)
			if !ok || len(as.Lhs) != 1 || len(as.Rhs) != 1 {
				return true
			}
			be, isBin := unparen(as.Rhs[0]).(*ast.BinaryExpr)
			if !isBin || be.Op != token.QUO || !isInteger(info.TypeOf(be)) {
				return true
			}
			if call, isCall := unparen(be.X).(*ast.CallExpr); isCall {
				if id, isId := call.Fun.(*ast.Ident); isId && id.Name == "len" {
					if o := identObj(info, as.Lhs[0]); o != nil {
						quot[o] = as
					}
				}
			}
			return true
		})
		if len(quot) == 0 {
			continue
		}
		for q, as := range quot {
			usedInSlice := false
			ast.Inspect(fi.Decl.Body, func(nd ast.Node) bool {
				if se, ok := nd.(*ast.SliceExpr); ok {
					for _, b := range []ast.Expr{se.Low, se.High} {
						if b != nil && mentions(info, b, q) {
							usedInSlice = true
						}
					}
				}
				return true
			})
			if !usedInSlice {
				continue
			}
			sites++
			handled := false
			ast.Inspect(fi.Decl.Body, func(nd ast.Node) bool {
				switch x := nd.(type) {
				case *ast.BinaryExpr:
					if x.Op == token.REM {
						handled = true
					}
				case *ast.SliceExpr:
					if x.High == nil {
						handled = true // x[lo:] takes everything that is left
					} else if call, isCall := unparen(x.High).(*ast.CallExpr); isCall {
						if id, isId := call.Fun.(*ast.Ident); isId && (id.Name == "len" || id.Name == "min") {
							handled = true
						}
					}
				}
				return true
			})
			if !handled {
				viol++
				c.Violation(rule, fmt.Sprintf("%s/%s", funcName(fi.Obj), q.Name()), as.Pos(), fmt.Sprintf("the work is cut into pieces of `%s` elements and nothing takes the remainder of the division: the last elements are given to no worker and keep their initial value, how many depends on the number of workers", c.src(as.Rhs[0]))).Clause = clause
			}
		}
	}
	return
}

// NIL-ON-ERR: an item received from a stream of trees carries either a tree or an error. Its Tree is
// touched only where the path has established that its Err is nil (directly, or through a local
// the Err was copied into).
func (c *Ctx) nilOnErr(rule string, funcs []*FuncInfo, clause string) (sites, viol int) {
	for _, fi := range funcs {
		if fi == nil || fi.Decl.Body == nil {
			continue
		}
		info := fi.Pkg.TypesInfo
		walkStack(fi.Decl.Body, func(nd ast.Node, stack []ast.Node) bool {
			rs, ok := nd.(*ast.RangeStmt)
			if !ok || rs.Key == nil {
				return true
			}
			ch, isChan := info.TypeOf(rs.X).Underlying().(*types.Chan)
			if !isChan || !strings.HasSuffix(ch.Elem().String(), "tree.Trees") {
				return true
			}
			item := identObj(info, rs.Key)
			if item == nil {
				return true
			}
			// locals the item's Err is copied into
			alias := map[types.Object]bool{}
			ast.Inspect(rs.Body, func(m ast.Node) bool {
				if as, isAs := m.(*ast.AssignStmt); isAs && len(as.Lhs) == len(as.Rhs) {
					for i, r := range as.Rhs {
						if sel, isSel := unparen(r).(*ast.SelectorExpr); isSel && sel.Sel.Name == "Err" && identObj(info, sel.X) == item {
							if o := identObj(info, as.Lhs[i]); o != nil {
								alias[o] = true
							}
						}
					}
				}
				return true
			})
			isItemErr := func(e ast.Expr) bool {
				if sel, isSel := unparen(e).(*ast.SelectorExpr); isSel && sel.Sel.Name == "Err" && identObj(info, sel.X) == item {
					return true
				}
				o := identObj(info, e)
				return o != nil && alias[o]
			}
			ast.Inspect(rs.Body, func(m ast.Node) bool {
				sel, isSel := m.(*ast.SelectorExpr)
				if !isSel {
					return true
				}
				inner, isInner := unparen(sel.X).(*ast.SelectorExpr)
				if !isInner || inner.Sel.Name != "Tree" || identObj(info, inner.X) != item {
					return true
				}
				sites++
				conds, _ := c.pathConds(info, rs.Body, sel, false)
				// `if x.Err != nil { ...; return } else { ... }` earlier in an enclosing list says as much as
				// the same test without an else
				st := stackTo(rs.Body, sel)
				for i := 0; i+1 < len(st); i++ {
					var list []ast.Stmt
					switch b := st[i].(type) {
					case *ast.BlockStmt:
						list = b.List
					case *ast.CaseClause:
						list = b.Body
					}
					for _, s2 := range list {
						if s2 == st[i+1] {
							break
						}
						if is, isIf := s2.(*ast.IfStmt); isIf && is.Else != nil && c.leaves(info, is.Body.List) {
							conds = append(conds, cond{Expr: is.Cond, Neg: true})
						}
					}
				}
				okNil := false
				for _, cd := range flattenConds(conds) {
					be, isBin := unparen0(cd.Expr).(*ast.BinaryExpr)
					if !isBin || (be.Op != token.EQL && be.Op != token.NEQ) {
						continue
					}
					isNil := func(x ast.Expr) bool { id, isId := unparen(x).(*ast.Ident); return isId && id.Name == "nil" }
					if !((isItemErr(be.X) && isNil(be.Y)) || (isItemErr(be.Y) && isNil(be.X))) {
						continue
					}
					if (be.Op == token.EQL) != cd.Neg {
						okNil = true
					}
				}
				// the use may itself be part of a condition `x.Err == nil && x.Tree...`: covered by flattenConds
				if !okNil {
					viol++
					c.Violation(rule, fmt.Sprintf("%s/%s", funcName(fi.Obj), c.src(sel)), sel.Pos(), fmt.Sprintf("`%s` is evaluated where nothing on the path says that %s.Err is nil: an item that carries an error carries no tree, and a malformed tree in the stream then crashes the worker instead of reaching the caller as an error", c.src(sel), item.Name())).Clause = clause
					return false
				}
				return true
			})
			return true
		})
	}
	return
}

// NO-READ-AFTER-EOT: the Newick Parse function stops at the end of the first tree: after the test
// of the token against EOT it reads no further token. (The single-tree entry point hands it the
// whole stream; the multi-tree reader hands it one tree at a time: both must see the same first
// tree.)
func (c *Ctx) noReadAfterEOT(rule string, fi *FuncInfo, clause string) int {
	if fi == nil || fi.Decl.Body == nil {
		return 0
	}
	info := fi.Pkg.TypesInfo
	var eot token.Pos
	ast.Inspect(fi.Decl.Body, func(m ast.Node) bool {
		if be, ok := m.(*ast.BinaryExpr); ok && (be.Op == token.EQL || be.Op == token.NEQ) {
			for _, side := range []ast.Expr{be.X, be.Y} {
				if cn := constObj(info, side); cn != nil && cn.Name() == "EOT" && be.Pos() > eot {
					eot = be.Pos()
				}
			}
		}
		return true
	})
	if !eot.IsValid() {
		return 0
	}
	var bad *ast.CallExpr
	for _, call := range callsIn(fi.Decl.Body, true) {
		if call.Pos() < eot {
			continue
		}
		fn := calleeOf(info, call)
		if fn != nil && inRepo(fn) && recvNamed(fn) == recvNamed(fi.Obj) && strings.HasPrefix(fn.Name(), "scan") && bad == nil {
			bad = call
		}
	}
	key := funcName(fi.Obj) + "/stops-at-end-of-tree"
	if bad != nil {
		c.Violation(rule, key, bad.Pos(), fmt.Sprintf("`%s` reads a token after the end of the tree has been seen: the single-tree reader, which hands Parse the whole stream, now depends on what follows the first tree, the multi-tree reader does not", c.src(bad))).Clause = clause
	} else {
		c.OK(rule, key, eot, "no token is read after the test against EOT").Clause = clause
	}
	return 1
}

// RETURNS-FRESH: SubTree and Clone hand back a tree they created (NewTree), never the receiver or
// another tree that already exists: every returned tree is a local defined from NewTree().
func (c *Ctx) returnsNewTree(rule string, funcs []*FuncInfo, clause string) int {
	n := 0
	for _, fi := range funcs {
		if fi == nil || fi.Decl.Body == nil {
			continue
		}
		info := fi.Pkg.TypesInfo
		fresh := map[types.Object]bool{}
		ast.Inspect(fi.Decl.Body, func(m ast.Node) bool {
			if as, ok := m.(*ast.AssignStmt); ok && len(as.Lhs) == len(as.Rhs) {
				for i, r := range as.Rhs {
					if call, isCall := unparen(r).(*ast.CallExpr); isCall {
						if fn := calleeOf(info, call); fn != nil && inRepo(fn) && fn.Name() == "NewTree" {
							if o := identObj(info, as.Lhs[i]); o != nil {
								fresh[o] = true
							}
						}
					}
				}
			}
			return true
		})
		per := 0
		ast.Inspect(fi.Decl.Body, func(m ast.Node) bool {
			if _, isLit := m.(*ast.FuncLit); isLit {
				return false
			}
			ret, ok := m.(*ast.ReturnStmt)
			if !ok || len(ret.Results) == 0 {
				return true
			}
			r0 := unparen(ret.Results[0])
			if !isTreePtr(info.TypeOf(r0)) {
				return true
			}
			if id, isId := r0.(*ast.Ident); isId && id.Name == "nil" {
				return true
			}
			n++
			per++
			key := fmt.Sprintf("%s/return#%d", funcName(fi.Obj), per)
			o := identObj(info, r0)
			c.Check(o != nil && fresh[o], rule, key, ret.Pos(), "the tree returned was created in the call",
				fmt.Sprintf("`%s` hands back a tree that was not created in this call: the caller's copy and the source are one object, and an edit of either shows in the other", c.src(ret))).Clause = clause
			return true
		})
		// named result assigned from NewTree and bare return
		if per == 0 && fi.Decl.Type.Results != nil {
			for _, f := range fi.Decl.Type.Results.List {
				for _, nm := range f.Names {
					if o := info.Defs[nm]; o != nil && isTreePtr(o.Type()) {
						n++
						c.Check(fresh[o], rule, funcName(fi.Obj)+"/named-result", fi.Decl.Pos(), "the named result is a tree created in the call", "the named tree result is never assigned from NewTree()").Clause = clause
					}
				}
			}
		}
	}
	return n
}

// RANK-ALWAYS (go/cfg): UpdateTipIndex gives every tip its rank: no return with a nil error is
// reached before the loop that assigns the ranks has been entered (no "index already in sync"
// shortcut: the map being right says nothing about the ranks stored in the tips).
func (c *Ctx) rankAlways(rule string, fi *FuncInfo, clause string) int {
	if fi == nil || fi.Decl.Body == nil {
		return 0
	}
	info := fi.Pkg.TypesInfo
	g := c.cfgOf(info, fi.Decl.Body)
	key := funcName(fi.Obj) + "/ranks-assigned-before-success"
	res := mustPassFromEntryEx(g, func(m ast.Node) bool {
		// the range statement over the sorted tips is represented by its parts; the assignment of a
		// rank (`tip.tipid = i`) or the head of a loop whose body contains one
		found := false
		ast.Inspect(m, func(q ast.Node) bool {
			if as, ok := q.(*ast.AssignStmt); ok {
				for _, l := range as.Lhs {
					if sel, isSel := unparen(l).(*ast.SelectorExpr); isSel && sel.Sel.Name == "tipid" {
						found = true
					}
				}
			}
			return !found
		})
		return found
	}, func(ret *ast.ReturnStmt) bool {
		if !c.succeedsOnPath(info, fi.Decl.Body, ret) {
			return false
		}
		// the regular end of the function (after the ranking loop, which may run zero times for a
		// tree without tips) is lexically after every rank assignment
		last := token.NoPos
		ast.Inspect(fi.Decl.Body, func(q ast.Node) bool {
			if as, ok := q.(*ast.AssignStmt); ok {
				for _, l := range as.Lhs {
					if sel, isSel := unparen(l).(*ast.SelectorExpr); isSel && sel.Sel.Name == "tipid" && as.Pos() > last {
						last = as.Pos()
					}
				}
			}
			return true
		})
		if ret != nil && last.IsValid() && ret.Pos() > last {
			return false
		}
		return true
	})
	if res.ok {
		c.OK(rule, key, fi.Decl.Pos(), "no successful return in front of the loop that ranks the tips").Clause = clause
	} else {
		_, ln := c.pos(res.escape)
		c.Violation(rule, key, fi.Decl.Pos(), fmt.Sprintf("the return at line %d reports success before any tip has been given its rank: the name map being in sync says nothing about the ranks stored in the tips, which are the bit positions of every bitset", ln)).Clause = clause
	}
	return 1
}

// RUNE-NARROW: the lexers handle text rune by rune; no rune is narrowed to a byte on its way into a
// token (`byte(ch)` of a rune keeps the low 8 bits of every character beyond ASCII).
func (c *Ctx) runeNarrow(rule string, funcs []*FuncInfo, clause string) (sites, viol int) {
	for _, fi := range funcs {
		if fi.Decl.Body == nil {
			continue
		}
		info := fi.Pkg.TypesInfo
		sites++
		ast.Inspect(fi.Decl.Body, func(nd ast.Node) bool {
			call, ok := nd.(*ast.CallExpr)
			if !ok || len(call.Args) != 1 {
				return true
			}
			tv, has := info.Types[call.Fun]
			if !has || !tv.IsType() {
				return true
			}
			dst, isB := tv.Type.Underlying().(*types.Basic)
			if !isB || !(dst.Kind() == types.Byte || dst.Kind() == types.Uint8 || dst.Kind() == types.Int8) {
				return true
			}
			src, isS := info.TypeOf(call.Args[0]).Underlying().(*types.Basic)
			if !isS || !(src.Kind() == types.Rune || src.Kind() == types.Int32) {
				return true
			}
			if av, hasV := info.Types[call.Args[0]]; hasV && av.Value != nil {
				return true // a constant
			}
			viol++
			c.Violation(rule, fmt.Sprintf("%s/%s", funcName(fi.Obj), c.src(call)), call.Pos(), fmt.Sprintf("`%s` narrows a rune to a byte: every character beyond ASCII is replaced by another one, and the label read is not the label written", c.src(call))).Clause = clause
			return true
		})
	}
	return
}

// DEFVALUE-PATCH: the default a help text shows is the one the registration call gave; nothing
// assigns the DefValue of a flag afterwards.
func (c *Ctx) defValuePatch(rule string, clause string) (sites, viol int) {
	for _, fi := range append(c.AllFuncs("cmd"), c.PkgLevelClosures()...) {
		if fi.Decl.Body == nil {
			continue
		}
		info := fi.Pkg.TypesInfo
		sites++
		ast.Inspect(fi.Decl.Body, func(nd ast.Node) bool {
			as, ok := nd.(*ast.AssignStmt)
			if !ok {
				return true
			}
			for _, l := range as.Lhs {
				sel, isSel := unparen(l).(*ast.SelectorExpr)
				if !isSel || sel.Sel.Name != "DefValue" {
					continue
				}
				if fv, isVar := info.Uses[sel.Sel].(*types.Var); isVar && fv.IsField() && fv.Pkg() != nil && strings.HasSuffix(fv.Pkg().Path(), "spf13/pflag") {
					viol++
					c.Violation(rule, fmt.Sprintf("%s/%s", funcName(fi.Obj), c.src(l)), as.Pos(), fmt.Sprintf("`%s` overwrites the default shown by the help text after the registration: the value the option holds when it is left out is the registered one, not the one displayed", c.src(as))).Clause = clause
				}
			}
			return true
		})
	}
	return
}

// ALL-MEMBERS: a compressed input is read to its end: gzip.Reader.Multistream is never switched
// off (a file made of several gzip members - `cat a.gz b.gz` - would stop after the first one and
// the trees of the others would never be delivered).
func (c *Ctx) gzipAllMembers(rule string, clause string) (sites, viol int) {
	for _, fi := range c.AllFuncs() {
		if fi.Decl.Body == nil {
			continue
		}
		info := fi.Pkg.TypesInfo
		for _, call := range callsIn(fi.Decl.Body, true) {
			fn := calleeOf(info, call)
			if fn == nil || fn.Pkg() == nil || fn.Pkg().Path() != "compress/gzip" {
				continue
			}
			if fn.Name() == "NewReader" {
				sites++
			}
			if fn.Name() == "Multistream" {
				off := true
				if len(call.Args) == 1 {
					if tv, has := info.Types[call.Args[0]]; has && tv.Value != nil && tv.Value.String() == "true" {
						off = false
					}
				}
				if off {
					viol++
					c.Violation(rule, funcName(fi.Obj)+"/Multistream", call.Pos(), "the gzip reader is told to stop after the first member: the rest of a compressed input made of several members is silently not read, and the trees it holds are never delivered nor drawn").Clause = clause
				}
			}
		}
	}
	return
}

// DESCEND-ALL: a recursive walk over the neighbours of a node (MaxLengthPath) goes into every
// neighbour but the one it came from: nothing between the head of the loop over the neighbours and
// the recursive call skips a neighbour (continue / break) except a test against the previous node.
func (c *Ctx) descendAll(rule string, fi *FuncInfo, clause string) int {
	if fi == nil || fi.Decl.Body == nil {
		return 0
	}
	info := fi.Pkg.TypesInfo
	n := 0
	walkStack(fi.Decl.Body, func(nd ast.Node, stack []ast.Node) bool {
		var loopBody *ast.BlockStmt
		var child types.Object
		switch l := nd.(type) {
		case *ast.RangeStmt:
			loopBody = l.Body
			if l.Value != nil {
				child = identObj(info, l.Value)
			}
		case *ast.ForStmt:
			loopBody = l.Body
		default:
			return true
		}
		rs := struct{ Body *ast.BlockStmt }{loopBody}
		var rec *ast.CallExpr
		for _, call := range callsIn(rs.Body, true) {
			if calleeOf(info, call) == fi.Obj && rec == nil {
				rec = call
			}
		}
		if rec == nil {
			return true
		}
		if child == nil {
			// counting loop: the neighbour is the node local the body takes from a slice (`child := cur.neigh[i]`)
			ast.Inspect(rs.Body, func(m ast.Node) bool {
				if as, isAs := m.(*ast.AssignStmt); isAs && as.Tok == token.DEFINE && len(as.Lhs) == 1 && len(as.Rhs) == 1 && child == nil {
					if _, isIx := unparen(as.Rhs[0]).(*ast.IndexExpr); isIx {
						if o := identObj(info, as.Lhs[0]); o != nil && isNodePtr(o.Type()) {
							child = o
						}
					}
				}
				return true
			})
		}
		n++
		key := fmt.Sprintf("%s/descent#%d", funcName(fi.Obj), n)
		var bad ast.Node
		badCond := ""
		ast.Inspect(rs.Body, func(m ast.Node) bool {
			if m == nil || m.Pos() >= rec.Pos() {
				return m == nil || m.Pos() < rec.Pos()
			}
			br, isBr := m.(*ast.BranchStmt)
			if !isBr || (br.Tok != token.CONTINUE && br.Tok != token.BREAK) || bad != nil {
				return true
			}
			conds, _ := c.pathConds(info, rs.Body, br, false)
			for _, cd := range flattenConds(conds) {
				if cd.Expr == nil {
					continue
				}
				// a comparison of the neighbour with another node (the one we came from) is the only
				// legitimate reason to skip it
				if be, isBin := unparen(cd.Expr).(*ast.BinaryExpr); isBin && (be.Op == token.EQL || be.Op == token.NEQ) && child != nil {
					if (identObj(info, be.X) == child && isNodePtr(info.TypeOf(be.Y))) || (identObj(info, be.Y) == child && isNodePtr(info.TypeOf(be.X))) {
						continue
					}
				}
				bad, badCond = br, c.src(cd.Expr)
			}
			return true
		})
		// the call itself: the conditions of the if statements it is nested in (a guard that leaves with
		// an error before the call is not a skip, and a `continue` before it was looked at above)
		st := stackTo(rs.Body, rec)
		for k := 0; k+1 < len(st) && bad == nil; k++ {
			is, isIf := st[k].(*ast.IfStmt)
			if !isIf || st[k+1] == ast.Node(is.Init) || nodeContains(is.Cond, rec.Pos()) {
				continue
			}
			inElse := is.Else != nil && st[k+1] == ast.Node(is.Else)
			for _, cd := range flattenConds([]cond{{Expr: is.Cond, Neg: inElse}}) {
				if cd.Expr == nil || errGuard(info, unparen(cd.Expr)) {
					continue
				}
				if be, isBin := unparen(cd.Expr).(*ast.BinaryExpr); isBin && (be.Op == token.EQL || be.Op == token.NEQ) && child != nil {
					if (identObj(info, be.X) == child && isNodePtr(info.TypeOf(be.Y))) || (identObj(info, be.Y) == child && isNodePtr(info.TypeOf(be.X))) {
						continue
					}
				}
				// the other branch of this if leaves with an error: a validity test, not a skip
				other := ast.Stmt(is.Else)
				if inElse {
					other = is.Body
				}
				if blk, isBlk := other.(*ast.BlockStmt); isBlk && c.leaves(info, blk.List) {
					continue
				}
				bad, badCond = rec, c.src(cd.Expr)
			}
		}
		if bad != nil {
			c.Violation(rule, key, bad.Pos(), fmt.Sprintf("the walk skips a neighbour under `%s`: everything behind that neighbour is left out of the search, although a longest path may run through it", badCond)).Clause = clause
		} else {
			c.OK(rule, key, rec.Pos(), "the walk goes into every neighbour but the one it came from").Clause = clause
		}
		return true
	})
	return n
}

// RANGE-CLOSED / WG-WAITED: inside one function, a channel created there and ranged over by some
// goroutine is closed somewhere in that function (otherwise the goroutines that range over it never
// end and whoever waits for them hangs), and a WaitGroup that is Add-ed to is waited on after the
// goroutines are launched (otherwise the function goes on while its workers still write).
func (c *Ctx) rangeClosedAndWaited(rule string, funcs []*FuncInfo, clause string) (sites int) {
	for _, fi := range funcs {
		if fi == nil || fi.Decl.Body == nil {
			continue
		}
		info := fi.Pkg.TypesInfo
		// channels made in this function
		chans := map[types.Object]token.Pos{}
		wgs := map[types.Object]token.Pos{}
		ast.Inspect(fi.Decl.Body, func(n ast.Node) bool {
			switch x := n.(type) {
			case *ast.AssignStmt:
				for i, r := range x.Rhs {
					if call, ok := unparen(r).(*ast.CallExpr); ok && i < len(x.Lhs) {
						if id, isId := call.Fun.(*ast.Ident); isId && id.Name == "make" && len(call.Args) > 0 {
							if _, isChan := info.TypeOf(call.Args[0]).Underlying().(*types.Chan); isChan {
								if o := identObj(info, x.Lhs[i]); o != nil {
									chans[o] = x.Pos()
								}
							}
						}
					}
				}
			case *ast.CallExpr:
				if o := methodCallOn(info, x, "Add"); o != nil && isWaitGroup(o.Type()) {
					if _, seen := wgs[o]; !seen {
						wgs[o] = x.Pos()
					}
				}
			}
			return true
		})
		for ch, pos := range chans {
			ranged := false
			ast.Inspect(fi.Decl.Body, func(n ast.Node) bool {
				if rs, ok := n.(*ast.RangeStmt); ok && identObj(info, rs.X) == ch {
					ranged = true
				}
				return true
			})
			if !ranged {
				continue
			}
			sites++
			closed := false
			ast.Inspect(fi.Decl.Body, func(n ast.Node) bool {
				call, ok := n.(*ast.CallExpr)
				if !ok {
					return true
				}
				if id, isId := call.Fun.(*ast.Ident); isId && id.Name == "close" && len(call.Args) == 1 && identObj(info, call.Args[0]) == ch {
					closed = true
				}
				// handed to a function of the repository that closes its parameter, or to a callback that closes it
				for k, a := range call.Args {
					if identObj(info, a) != ch {
						continue
					}
					if g := calleeOf(info, call); g != nil && inRepo(g) {
						if gi := c.FuncOfObj(g); gi != nil && gi.Decl.Body != nil {
							p := paramObj(gi.Pkg.TypesInfo, gi.Decl, k)
							ast.Inspect(gi.Decl.Body, func(m ast.Node) bool {
								if cl, isCall := m.(*ast.CallExpr); isCall {
									if id, isId := cl.Fun.(*ast.Ident); isId && id.Name == "close" && len(cl.Args) == 1 && identObj(gi.Pkg.TypesInfo, cl.Args[0]) == p && p != nil {
										closed = true
									}
								}
								return true
							})
						}
					}
				}
				return true
			})
			// returned to the caller: the caller ranges, this function's goroutines close (handled by GO-CLOSE)
			c.Check(closed, rule, fmt.Sprintf("%s/close(%s)", funcName(fi.Obj), ch.Name()), pos, "the channel some goroutine ranges over is closed in this function",
				fmt.Sprintf("channel %s is ranged over but nothing in %s closes it: the goroutines reading it never leave their loop, and the wait for them never ends", ch.Name(), funcName(fi.Obj))).Clause = clause
		}
		for wg, pos := range wgs {
			sites++
			waited := false
			ast.Inspect(fi.Decl.Body, func(n ast.Node) bool {
				call, ok := n.(*ast.CallExpr)
				if !ok {
					return true
				}
				if o := methodCallOn(info, call, "Wait"); o == wg && call.Pos() > pos {
					waited = true
				}
				// &wg handed to a function of the repository that waits on it
				for k, a := range call.Args {
					u, isU := unparen(a).(*ast.UnaryExpr)
					if !(isU && u.Op == token.AND && identObj(info, u.X) == wg) && identObj(info, a) != wg {
						continue
					}
					if g := calleeOf(info, call); g != nil && inRepo(g) {
						if gi := c.FuncOfObj(g); gi != nil && gi.Decl.Body != nil {
							p := paramObj(gi.Pkg.TypesInfo, gi.Decl, k)
							for _, cl := range callsIn(gi.Decl.Body, true) {
								if o := methodCallOn(gi.Pkg.TypesInfo, cl, "Wait"); o != nil && o == p {
									waited = true
								}
							}
						}
					}
				}
				return true
			})
			c.Check(waited, rule, fmt.Sprintf("%s/%s.Wait", funcName(fi.Obj), wg.Name()), pos, "the WaitGroup is waited on after the goroutines are launched",
				fmt.Sprintf("%s.Add is called in %s but nothing waits on %s afterwards: the function goes on (and reads or resets what the workers write) while they are still running", wg.Name(), funcName(fi.Obj), wg.Name())).Clause = clause
		}
	}
	return
}

// NIL-NIL: a function of the readers that returns (pointer, error) does not return `nil, err`
// where the closest test of err on the path says that err is nil (`if err == nil { return nil, err }`
// - an inverted error test): the caller would receive neither a result nor an error.
func (c *Ctx) nilNil(rule string, funcs []*FuncInfo, clause string) (sites, viol int) {
	for _, fi := range funcs {
		if fi.Decl.Body == nil || fi.Decl.Type.Results == nil {
			continue
		}
		sig := fi.Obj.Type().(*types.Signature)
		if sig.Results().Len() != 2 || !isErrorType(sig.Results().At(1).Type()) {
			continue
		}
		switch sig.Results().At(0).Type().Underlying().(type) {
		case *types.Pointer, *types.Map, *types.Slice, *types.Interface:
		default:
			continue
		}
		info := fi.Pkg.TypesInfo
		ast.Inspect(fi.Decl.Body, func(n ast.Node) bool {
			if _, isLit := n.(*ast.FuncLit); isLit {
				return false
			}
			ret, ok := n.(*ast.ReturnStmt)
			if !ok || len(ret.Results) != 2 {
				return true
			}
			if id, isId := unparen(ret.Results[0]).(*ast.Ident); !isId || id.Name != "nil" {
				return true
			}
			ev := identObj(info, ret.Results[1])
			if ev == nil || !isErrorType(ev.Type()) {
				return true
			}
			sites++
			if c.succeedsOnPath(info, fi.Decl.Body, ret) {
				viol++
				c.Violation(rule, fmt.Sprintf("%s/return nil,%s", funcName(fi.Obj), ev.Name()), ret.Pos(), fmt.Sprintf("`%s` is reached where the test of %s closest to it says that %s is nil: the caller receives no result and no error", c.src(ret), ev.Name(), ev.Name())).Clause = clause
			}
			return true
		})
	}
	return
}

// WRITES: reference count of the write calls of the Nexus and PhyloXML writers, per function (a
// deleted write - a keyword, a closing tag, the trees themselves - lowers it).
func (c *Ctx) writerWrites(rule string, funcs []*FuncInfo, clause string) int {
	n := 0
	for _, fi := range funcs {
		if fi == nil || fi.Decl.Body == nil {
			continue
		}
		info := fi.Pkg.TypesInfo
		per := 0
		for _, call := range callsIn(fi.Decl.Body, true) {
			fn := calleeOf(info, call)
			if fn == nil {
				continue
			}
			if fn.Name() == "WriteString" || fn.Name() == "Write" || fn.Name() == "WriteByte" || fn.Name() == "WriteRune" || strings.HasPrefix(fn.Name(), "Fprint") {
				n++
				per++
				c.OK(rule, fmt.Sprintf("%s/write#%d", funcName(fi.Obj), per), call.Pos(), "a piece of the document is written here").Clause = clause
			}
		}
	}
	return n
}

// DISPATCH (sibling): ParsimonyAcr and ParsimonyAsr run the same passes for the same algorithm
// constant, in the same order and with the same use of the random-resolution option, and both end
// by writing the result onto the tree. The two dispatchers are reduced to `case -> pass(last
// argument), ...` plus the assign call after the switch, and compared.
func (c *Ctx) parsDispatch(rule, clause string) {
	reduce := func(fi *FuncInfo) (map[string]string, string, bool) {
		if fi == nil || fi.Decl.Body == nil {
			return nil, "", false
		}
		info := fi.Pkg.TypesInfo
		out := map[string]string{}
		tail := ""
		found := false
		ast.Inspect(fi.Decl.Body, func(n ast.Node) bool {
			sw, ok := n.(*ast.SwitchStmt)
			if !ok || sw.Tag == nil {
				return true
			}
			isAlgo := false
			for _, cs := range sw.Body.List {
				cc := cs.(*ast.CaseClause)
				for _, e := range cc.List {
					if cn := constObj(info, e); cn != nil && strings.HasPrefix(cn.Name(), "ALGO_") {
						isAlgo = true
					}
				}
			}
			if !isAlgo {
				return true
			}
			found = true
			for _, cs := range sw.Body.List {
				cc := cs.(*ast.CaseClause)
				var seq []string
				for _, call := range callsIn(&ast.BlockStmt{List: cc.Body}, true) {
					fn := calleeOf(info, call)
					if fn == nil || !inRepo(fn) || !strings.HasPrefix(fn.Name(), "parsimony") || len(call.Args) == 0 {
						continue
					}
					seq = append(seq, fn.Name()+"("+c.canon(info, call.Args[len(call.Args)-1], nil)+")")
				}
				for _, e := range cc.List {
					if cn := constObj(info, e); cn != nil {
						out[cn.Name()] = strings.Join(seq, " ; ")
					}
				}
			}
			// after the switch: the call that writes the result onto the tree
			for _, call := range callsIn(fi.Decl.Body, true) {
				if fn := calleeOf(info, call); fn != nil && inRepo(fn) && strings.HasPrefix(fn.Name(), "assign") && call.Pos() > sw.End() {
					tail = "assign"
				}
			}
			return true
		})
		return out, tail, found
	}
	a, ta, oka := reduce(c.Func("acr", "", "ParsimonyAcr"))
	b, tb, okb := reduce(c.Func("asr", "", "ParsimonyAsr"))
	if !oka || !okb {
		c.Undecided(rule, "parsimony/dispatch", token.NoPos, "the switch over the algorithm constants was not found in ParsimonyAcr / ParsimonyAsr")
		return
	}
	for _, k := range []string{"ALGO_DOWNPASS", "ALGO_DELTRAN", "ALGO_ACCTRAN"} {
		c.Check(a[k] == b[k] && a[k] != "", rule, "parsimony/dispatch/"+k, token.NoPos, k+": "+a[k]+" in both packages",
			fmt.Sprintf("for %s the character reconstruction runs `%s` and the sequence reconstruction `%s`: the two no longer apply the same passes", k, a[k], b[k])).Clause = clause
	}
	c.Check(ta == "assign" && tb == "assign", rule, "parsimony/dispatch/result-written", token.NoPos, "both write the reconstructed states onto the tree after the passes",
		"one of the two reconstructions no longer writes its result onto the tree after the passes (assign* call missing after the switch)").Clause = clause
}
