package main

import (
	"fmt"
	"go/ast"
	"go/constant"
	"go/token"
	"go/types"
	"sort"
	"strings"
)

func init() { props["C01"] = checkC01 }

func checkC01(c *Ctx) {
	c.Decides("FIELDS: the node/branch attributes the Newick writer reads are exactly those the parser stores (name, node comments, length, support, p-value, branch comments; ids aside) - an attribute printed but not parsed, or parsed but not printed, cannot survive the trip")
	c.Decides("TABLE: the runes the lexer turns into dedicated tokens are the runes isIdent rejects (';' conditional in both) and are exactly the one-rune delimiters the writer emits; the support/p-value separator the writer emits is the one the parser splits on; the lexer classifies a literal as numeric exactly when strconv.ParseFloat(literal, 64) accepts it")
	c.Decides("ORDER: per child the writer emits subtree < support[/p-value] < node comments < ':'length < branch comments, once each, and the node's own name after its children; the tree writer emits root subtree < root comments < ';' - the order in which the parser's previous-token logic attaches them back")
	c.Decides("GF: support is written iff present and the child is unnamed, the p-value iff additionally present, the length iff present (sentinel = absent); FLOATFMT: every number is written by strconv.FormatFloat(x, f|g|e, -1, 64) and parsed by ParseFloat(.,64), no Sprintf formats a float (exact round trip of numeric values given the strconv guarantee)")
	c.DoesNotDecide("that the parser's stack discipline rebuilds the same shape and child order; behaviour for names outside the property's quantifier (names containing delimiters, numeric-looking names)")
	wt := c.Func("tree", "Tree", "Newick")
	wn := c.Func("tree", "Node", "Newick")
	pi := c.Func("io/newick", "Parser", "parseIter")
	pp := c.Func("io/newick", "Parser", "Parse")
	sc := c.Func("io/newick", "Scanner", "Scan")
	si := c.Func("io/newick", "Scanner", "scanIdent")
	ii := c.Func("io/newick", "", "isIdent")
	if wt == nil || wn == nil || pi == nil || pp == nil || sc == nil || si == nil || ii == nil {
		return
	}
	c.newickFields(wt, wn, pi, pp)
	c.newickTables(wt, wn, pi, sc, si, ii)
	c.newickOrder(wt, wn)
	c.newickGuards(wn)
	c.newickParens(wn)
	c.newickFloats([]*FuncInfo{wt, wn}, []*FuncInfo{pi, pp, si})
	c.Decides("UNREAD-RESCAN: the Newick lexer puts the rune it has read back before handing over to a helper that reads the token again (no first character of a label, number or comment word is lost); READLINE-PREFIX: the line readers the Newick text goes through treat the pieces of a long line as one line")
	c.unreadBeforeRescan("UNREAD-RESCAN", c.Func("io/newick", "Scanner", "Scan"), "the same tip and internal-node names")
	c.Floor("UNREAD-RESCAN", 1)
	c.readLinePrefix("READLINE-PREFIX", c.AllFuncs("io/fileutils", "io/utils"), "writing that tree again gives byte-identical text")
	c.Floor("READLINE-PREFIX", 2)
	c.Decides("SEPARATOR: the comma between the children the Newick writer writes is guarded by a count of children written, never by the position in the neighbour list (which also holds the parent, anywhere); WHO-MAY-CALL: the raw token read of the Newick parser (white space included) is called only by scanIgnoreWhitespace and consumeComment")
	c.separatorByCount("SEPARATOR", c.Func("tree", "Node", "Newick"), "writing that tree again gives byte-identical text")
	c.Floor("SEPARATOR", 1)
	c.whoMayCall("WHO-MAY-CALL", c.Func("io/newick", "Parser", "scan"), map[string]string{"scanIgnoreWhitespace": "skips the white-space token itself", "consumeComment": "a comment's text keeps its blanks"}, "reading back gives the same tree")
	c.Floor("WHO-MAY-CALL", 2)
	c.Decides("GUARD-LEN: a writer loop over a slice that sits under a test of that slice's length runs whenever the slice is not empty (no comment list is skipped because of its size); COMMENT-STORED (go/cfg): a comment the Newick parser has read is attached to a node or a branch, or an error is raised, on every path; PARSED-STORED (go/cfg): every number the Newick parser parses can reach a setter of the tree before its variable is assigned again")
	c.guardLen("GUARD-LEN", []*FuncInfo{c.Func("tree", "Node", "Newick"), c.Func("tree", "Tree", "Newick")}, "the same comments")
	c.Floor("GUARD-LEN", 1)
	c.commentStored("COMMENT-STORED", c.Func("io/newick", "Parser", "parseIter"), "the same comments")
	c.Floor("COMMENT-STORED", 1)
	c.parsedStored("PARSED-STORED", c.Func("io/newick", "Parser", "parseIter"), "the same lengths and supports")
	c.Floor("PARSED-STORED", 3)
	c.Decides("PAIR-VALID (go/cfg): a setter fed from one part of a split `support/p-value` label is dominated by the parse of every part and cannot be reached from the failure branch of any of them: a half-numeric label is a name and nothing else")
	c.pairValid("PAIR-VALID", c.Func("io/newick", "Parser", "parseIter"), "the same lengths and supports")
	c.Floor("PAIR-VALID", 2)
	c.Decides("NO-UNIQ-IN-READ: the Newick Parse function does not reach Tree.UpdateTipIndex (statically resolved calls, depth 8): tip names need not be unique in the property's trees and the index refuses repeated names")
	c.noUniqInRead("NO-UNIQ-IN-READ", []*FuncInfo{c.Func("io/newick", "Parser", "Parse")}, "reading back gives the same tree")
	c.Floor("NO-UNIQ-IN-READ", 1)
	c.Decides("TOKENS-ALIKE: every enumeration of token kinds in the Newick reader that names one of the kinds its token switch handles in one clause (IDENT, NUMERIC: a label) names them all")
	c.tokensAlike("TOKENS-ALIKE", c.Func("io/newick", "Parser", "parseIter"), c.AllFuncs("io/newick"), "the same comments")
	c.Floor("TOKENS-ALIKE", 1)
	c.Decides("MUST-EOT (go/cfg): the Newick Parse function reports success only after testing the token that follows the tree against EOT")
	c.mustSeeEOT("MUST-EOT", c.Func("io/newick", "Parser", "Parse"), "reading back gives the same tree")
	c.Floor("MUST-EOT", 1)
	c.Decides("RUNE-NARROW: the Newick lexer and parser never narrow a rune to a byte on its way into a token")
	if sites, _ := c.runeNarrow("RUNE-NARROW", c.AllFuncs("io/newick"), "the same tip and internal-node names"); sites > 0 {
		c.Trivial("RUNE-NARROW", "scan", 0, fmt.Sprintf("%d functions of io/newick scanned", sites))
	}
	c.Decides("TRIM-WS: the Newick reader (package io/newick) removes nothing but white space from the texts it reads: every strings.Trim*/Replace* call there is TrimSpace or has a constant white-space cut set")
	if nt, _ := c.trimWhiteSpaceOnly("TRIM-WS", c.AllFuncs("io/newick"), "the same tip and internal-node names"); nt == 0 {
		c.Undecided("TRIM-WS", "scan", token.NoPos, "no trimming call seen in io/newick (the TrimSpace of tip names was the instance confirmed by hand)")
	}
	c.Decides("FMT-CONST: no text computed from a tree (Newick, names, comments) is used as a printf format string anywhere in the repository (a '%' in a label would be rewritten)")
	nf, _ := c.fmtConst("FMT-CONST", c.All, "the same tip names, internal-node names ... comments", nil)
	c.Extra["printf_like_calls"] = nf
	if nf < 100 {
		c.Undecided("FMT-CONST", "scan-count", 0, fmt.Sprintf("only %d printf-like calls seen (at least 100 confirmed by hand): the analysis no longer sees its subject", nf))
	}
	if fx := c.Fixture(); fx != nil {
		sub := c.subCtx(fx)
		_, nv := sub.fmtConst("FMT-CONST", fx, "", func(g *types.Func) bool { return g.Name() == "c01text" })
		c.Control("FMT-CONST", nv == 1, "fixture.C01FormatText uses a computed text as format string")
	}
	c.Decides("LEX-LOSSLESS: the Newick scanner functions that consume a run of runes return the buffer they filled as the token literal (whitespace inside comments included)")
	c.lexLossless("LEX-LOSSLESS", "io/newick")
	c.Floor("LEX-LOSSLESS", 1)
	c.Floor("COMMENT-FORM", 1)
	c.Floor("FIELDS", 6)
	c.Floor("TABLE", 5)
	c.Floor("ORDER", 4)
	c.Floor("GF", 3)
	c.Floor("FLOATFMT", 5)
}

var structuralFields = map[string]bool{"Node.neigh": true, "Node.br": true, "Edge.left": true, "Edge.right": true, "Tree.root": true, "Tree.tipIndex": true}

// ownerField: "Node.name" for a field variable selected from expression x.
func ownerField(info *types.Info, x ast.Expr, fv *types.Var) string {
	t := info.TypeOf(x)
	for {
		if p, ok := t.(*types.Pointer); ok {
			t = p.Elem()
			continue
		}
		break
	}
	if n, ok := t.(*types.Named); ok {
		return n.Obj().Name() + "." + fv.Name()
	}
	return "?." + fv.Name()
}

// fieldsRead: attributes of tree.Node/Edge/Tree read in the function (direct selectors and trivial getters).
func (c *Ctx) fieldsRead(fi *FuncInfo) map[string]token.Pos {
	c.indexAccessors()
	info := fi.Pkg.TypesInfo
	out := map[string]token.Pos{}
	ast.Inspect(fi.Decl.Body, func(n ast.Node) bool {
		switch x := n.(type) {
		case *ast.SelectorExpr:
			if fv, b := fieldOfSel(info, x); fv != nil && fv.Pkg() != nil && fv.Pkg().Path() == modPath+"/tree" {
				k := ownerField(info, b, fv)
				if _, ok := out[k]; !ok {
					out[k] = x.Pos()
				}
			}
		case *ast.CallExpr:
			if fn := calleeOf(info, x); fn != nil {
				if fv, ok := c.getters[fn]; ok && fv.Pkg() != nil && fv.Pkg().Path() == modPath+"/tree" {
					if sel, ok := unparen(x.Fun).(*ast.SelectorExpr); ok {
						k := ownerField(info, sel.X, fv)
						if _, ok := out[k]; !ok {
							out[k] = x.Pos()
						}
					}
				}
			}
		}
		return true
	})
	return out
}

// fieldsWrittenByCalls: attributes of tree.Node/Edge stored by the tree-package methods the function calls.
func (c *Ctx) fieldsWrittenByCalls(fi *FuncInfo) map[string]token.Pos {
	info := fi.Pkg.TypesInfo
	out := map[string]token.Pos{}
	for _, call := range callsIn(fi.Decl.Body, true) {
		fn := calleeOf(info, call)
		if fn == nil || fn.Pkg() == nil || fn.Pkg().Path() != modPath+"/tree" {
			continue
		}
		g := c.FuncOfObj(fn)
		if g == nil || g.Decl.Recv == nil {
			continue
		}
		switch recvTypeName(g.Decl.Recv.List[0].Type) {
		case "Node", "Edge":
		default:
			continue
		}
		ginfo := g.Pkg.TypesInfo
		r := recvObj(ginfo, g.Decl)
		for _, st := range c.fieldStores(ginfo, g.Decl.Body, nil) {
			if identObj(ginfo, st.recvE) == r {
				k := ownerField(ginfo, st.recvE, st.field)
				if _, ok := out[k]; !ok {
					out[k] = call.Pos()
				}
			}
		}
	}
	return out
}

func (c *Ctx) newickFields(wt, wn, pi, pp *FuncInfo) {
	clause := "the same tip and internal-node names, branch lengths, supports (with p-values) and node/branch comments"
	// the writer and the parser, each with the unexported helpers of its package it calls (a block
	// moved into a helper still belongs to the writer / parser)
	withHelpers := func(roots []*FuncInfo) []*FuncInfo {
		out := append([]*FuncInfo{}, roots...)
		seen := map[*types.Func]bool{}
		for _, r := range roots {
			seen[r.Obj] = true
		}
		for i := 0; i < len(out) && len(out) < 24; i++ {
			for _, call := range callsIn(out[i].Decl.Body, true) {
				g := calleeOf(out[i].Pkg.TypesInfo, call)
				if g == nil || seen[g] || g.Exported() || g.Pkg() != out[i].Obj.Pkg() {
					continue
				}
				c.indexAccessors()
				if _, isGetter := c.getters[g]; isGetter {
					continue
				}
				if gi := c.FuncOfObj(g); gi != nil && gi.Decl.Body != nil {
					seen[g] = true
					out = append(out, gi)
				}
			}
		}
		return out
	}
	printed := map[string]token.Pos{}
	for _, fi := range withHelpers([]*FuncInfo{wt, wn}) {
		for k, p := range c.fieldsRead(fi) {
			if !structuralFields[k] {
				if _, ok := printed[k]; !ok {
					printed[k] = p
				}
			}
		}
	}
	parsed := map[string]token.Pos{}
	for _, fi := range withHelpers([]*FuncInfo{pi, pp}) {
		for k, p := range c.fieldsWrittenByCalls(fi) {
			if !structuralFields[k] {
				if _, ok := parsed[k]; !ok {
					parsed[k] = p
				}
			}
		}
	}
	var ks []string
	for k := range printed {
		ks = append(ks, k)
	}
	sort.Strings(ks)
	for _, k := range ks {
		_, ok := parsed[k]
		c.Check(ok, "FIELDS", "newick/printed→parsed/"+k, printed[k], "printed and parsed back", k+" is printed by the Newick writer but never stored by the parser: it is lost by write+parse").Clause = clause
	}
	ks = ks[:0]
	for k := range parsed {
		ks = append(ks, k)
	}
	sort.Strings(ks)
	for _, k := range ks {
		if strings.HasSuffix(k, ".id") {
			continue // numbering assigned by the parser itself, not part of the text
		}
		_, ok := printed[k]
		c.Check(ok, "FIELDS", "newick/parsed→printed/"+k, parsed[k], "parsed and printed", k+" is stored by the parser but never printed by the writer: writing the parsed tree again loses it (text not byte-identical)").Clause = clause
	}
	c.Extra["newick_attributes"] = len(printed)
}

// runeConsts lists the rune constants used as case values / comparison operands on variable v.
// runeCases: the runes to which the scanner gives a dedicated token. For every `return TOKEN, ..`
// of body, the conditions on its path (switch cases on v, if / else-if chains, early returns) are
// collected; a condition `v == 'x'` names the rune; a further condition that does not mention v
// (`!ignoreSemiColumn`) makes the token conditional.
func (c *Ctx) runeCases(info *types.Info, body *ast.BlockStmt, v types.Object) (plain map[string]bool, conditional map[string]bool) {
	plain, conditional = map[string]bool{}, map[string]bool{}
	mentions := func(e ast.Expr, o types.Object) bool {
		f := false
		ast.Inspect(e, func(n ast.Node) bool {
			if id, ok := n.(*ast.Ident); ok && identObj(info, id) == o {
				f = true
			}
			return !f
		})
		return f
	}
	lit := func(e ast.Expr) (string, bool) {
		tv, ok := info.Types[e]
		if !ok || tv.Value == nil || tv.Value.Kind() != constant.Int {
			return "", false
		}
		if _, isLit := unparen(e).(*ast.BasicLit); !isLit {
			return "", false // named constant such as eof
		}
		r, _ := constant.Int64Val(tv.Value)
		return string(rune(r)), true
	}
	ast.Inspect(body, func(n ast.Node) bool {
		if _, isLit := n.(*ast.FuncLit); isLit {
			return false
		}
		rs, ok := n.(*ast.ReturnStmt)
		if !ok || len(rs.Results) == 0 {
			return true
		}
		conds, okc := c.pathConds(info, body, rs, false)
		if !okc {
			return true
		}
		var runes []string
		cond := false
		for _, cd := range flattenConds(conds) {
			if cd.Tag != nil {
				if identObj(info, cd.Tag) == v && !cd.Neg {
					for _, e := range cd.Vals {
						if r, ok := lit(e); ok {
							runes = append(runes, r)
						}
					}
				}
				continue
			}
			if cd.Expr == nil {
				continue
			}
			if be, ok := unparen(cd.Expr).(*ast.BinaryExpr); ok && be.Op == token.EQL && !cd.Neg {
				for _, side := range [][2]ast.Expr{{be.X, be.Y}, {be.Y, be.X}} {
					if identObj(info, side[0]) == v {
						if r, ok := lit(side[1]); ok {
							runes = append(runes, r)
						}
					}
				}
			}
			if !mentions(cd.Expr, v) {
				cond = true
			}
		}
		for _, r := range runes {
			if cond {
				conditional[r] = true
			} else {
				plain[r] = true
			}
		}
		return true
	})
	return
}

func (c *Ctx) tokenRunesByEvaluation(sc *FuncInfo, chObj types.Object) (plain, cond map[string]bool, ok bool) {
	if chObj == nil || sc == nil || sc.Decl.Body == nil {
		return nil, nil, false
	}
	info := sc.Pkg.TypesInfo
	// the top-level statement that reads the rune
	k := -1
	for i, s := range sc.Decl.Body.List {
		if as, isAs := s.(*ast.AssignStmt); isAs && len(as.Lhs) == 1 && identObj(info, as.Lhs[0]) == chObj {
			k = i
			break
		}
	}
	if k < 0 {
		return nil, nil, false
	}
	rest := sc.Decl.Body.List[k+1:]
	flag := paramObj(info, sc.Decl, 0)
	recvT := recvNamed(sc.Obj)
	isRead := func(fn *types.Func) bool {
		return fn != nil && fn.Name() == "read" && recvNamed(fn) == recvT && recvT != nil
	}
	rescans := func(fn *types.Func) bool {
		if fn == nil || !inRepo(fn) || recvNamed(fn) != recvT || recvT == nil || isRead(fn) || fn.Name() == "unread" || fn == sc.Obj {
			return false
		}
		return c.reaches(fn, isRead, 3, map[*types.Func]bool{})
	}
	plain, cond = map[string]bool{}, map[string]bool{}
	for r := rune(9); r < 127; r++ {
		var ded [2]bool
		for fi, fv := range []string{"false", "true"} {
			ai := c.newAbsInt()
			st := newState()
			st.vars[chObj] = aOf(constAtom(constant.MakeInt64(int64(r))))
			if flag != nil {
				st.vars[flag] = aOf(fv)
			}
			reached, direct := 0, 0
			ai.onReturn = func(ret *ast.ReturnStmt, depth int) {
				if depth != 0 {
					return
				}
				reached++
				if !containsCall(info, ret, func(_ *ast.CallExpr, fn *types.Func) bool { return rescans(fn) }) {
					direct++
				}
			}
			ai.execList(info, sc, rest, st)
			if ai.gaveUp != "" || reached == 0 || (direct != 0 && direct != reached) {
				return nil, nil, false
			}
			ded[fi] = direct == reached
		}
		switch {
		case ded[0] && ded[1]:
			plain[string(r)] = true
		case ded[0] && !ded[1]:
			cond[string(r)] = true
		case !ded[0] && ded[1]:
			return nil, nil, false
		}
	}
	return plain, cond, true
}

func (c *Ctx) newickTables(wt, wn, pi, sc, si, ii *FuncInfo) {
	clause := "writing that tree again gives byte-identical text"
	linfo := sc.Pkg.TypesInfo
	// the scanned rune variable: the switch tag in Scan
	var chObj types.Object
	ast.Inspect(sc.Decl.Body, func(n ast.Node) bool {
		// the rune read first: ch := s.read()
		if as, ok := n.(*ast.AssignStmt); ok && chObj == nil && len(as.Lhs) == 1 && len(as.Rhs) == 1 {
			if call, ok := unparen(as.Rhs[0]).(*ast.CallExpr); ok {
				if g := calleeOf(linfo, call); g != nil && g.Name() == "read" {
					chObj = identObj(linfo, as.Lhs[0])
				}
			}
		}
		return true
	})
	if chObj == nil {
		ast.Inspect(sc.Decl.Body, func(n ast.Node) bool {
			if sw, ok := n.(*ast.SwitchStmt); ok && sw.Tag != nil && chObj == nil {
				chObj = identObj(linfo, sw.Tag)
			}
			return true
		})
	}
	plain, cond := c.runeCases(linfo, sc.Decl.Body, chObj)
	// the same table by evaluation: Scan is run abstractly from the statement after the read, once
	// per ASCII rune and value of the flag; a rune has a dedicated token when the return reached
	// hands the token over itself instead of calling a helper that reads the token again. Any way of
	// writing the dispatch (switch, if chain, look-up helper) gives the same table.
	how := "read off the rune switch of Scan"
	if p2, c2, ok := c.tokenRunesByEvaluation(sc, chObj); ok {
		plain, cond = p2, c2
		how = "Scan evaluated on every ASCII rune and both values of its flag"
	}
	c.Extra["token_rune_table"] = how
	// isIdent: ch != 'x' conjuncts; the one or-ed with the flag is conditional
	iplain, icond := map[string]bool{}, map[string]bool{}
	chI := paramObj(linfo, ii.Decl, 0)
	var walk func(e ast.Expr, underOr bool)
	walk = func(e ast.Expr, underOr bool) {
		switch x := unparen(e).(type) {
		case *ast.BinaryExpr:
			switch x.Op {
			case token.LAND:
				walk(x.X, underOr)
				walk(x.Y, underOr)
			case token.LOR:
				walk(x.X, true)
				walk(x.Y, true)
			case token.NEQ:
				if identObj(linfo, x.X) == chI {
					if tv, ok := linfo.Types[x.Y]; ok && tv.Value != nil {
						r, _ := constant.Int64Val(tv.Value)
						if underOr {
							icond[string(rune(r))] = true
						} else {
							iplain[string(rune(r))] = true
						}
					}
				}
			}
		}
	}
	// isIdent is a pure predicate of (rune, flag): evaluate it on every ASCII rune and both flag values
	// (abstract interpreter on singleton values: any way of writing the predicate gives the same table)
	evaluated := false
	{
		ai := c.newAbsInt()
		okAll := true
		tp, tc := map[string]bool{}, map[string]bool{}
		for r := rune(9); r < 127 && okAll; r++ {
			var res [2]string
			for k, flag := range []string{"false", "true"} {
				sm := ai.summary(ii, []aval{aOf(constAtom(constant.MakeInt64(int64(r)))), aOf(flag)})
				if sm == nil || len(sm.results) != 1 || !(sm.results[0].is("true") || sm.results[0].is("false")) {
					okAll = false
					break
				}
				if sm.results[0].is("true") {
					res[k] = "true"
				} else {
					res[k] = "false"
				}
			}
			if !okAll {
				break
			}
			switch {
			case res[0] == "false" && res[1] == "false":
				tp[string(r)] = true
			case res[0] == "false" && res[1] == "true":
				tc[string(r)] = true
			}
		}
		if okAll {
			evaluated = true
			iplain, icond = tp, tc
		}
	}
	if !evaluated {
		ast.Inspect(ii.Decl.Body, func(n ast.Node) bool {
			if r, ok := n.(*ast.ReturnStmt); ok && len(r.Results) == 1 {
				walk(r.Results[0], false)
			}
			return true
		})
	}
	k1, k2 := strings.Join(sortedKeys(plain), "")+"|"+strings.Join(sortedKeys(cond), ""), strings.Join(sortedKeys(iplain), "")+"|"+strings.Join(sortedKeys(icond), "")
	if len(plain) < 5 {
		c.Undecided("TABLE", "newick/token-runes", sc.Decl.Pos(), "fewer than 5 dedicated token runes found in Scanner.Scan: the writer's delimiters cannot be compared with the lexer's table")
		return // what follows compares with that table: without it every delimiter would read as unknown
	} else {
		c.Check(k1 == k2, "TABLE", "newick/token-runes=isIdent-rejects", sc.Decl.Pos(), "dedicated token runes "+k1+" are exactly the runes isIdent rejects", "Scanner.Scan gives dedicated tokens to "+k1+" but isIdent rejects "+k2+" (plain|only-when-';'-matters): a rune in one set only is either swallowed into identifiers or never tokenised").Clause = clause
	}
	// writer delimiters
	_ = wn
	wdel := map[string]token.Pos{}
	sep := map[string]token.Pos{}
	// the writer = Tree.Newick, Node.Newick and the helpers they hand their buffer to
	writers := []*FuncInfo{wt, wn}
	seenW := map[*types.Func]bool{wt.Obj: true, wn.Obj: true}
	for i := 0; i < len(writers) && i < 12; i++ {
		fi := writers[i]
		for _, call := range callsIn(fi.Decl.Body, true) {
			g := calleeOf(fi.Pkg.TypesInfo, call)
			if g == nil || seenW[g] || !inRepo(g) {
				continue
			}
			takesBuffer := false
			sig := g.Type().(*types.Signature)
			for k := 0; k < sig.Params().Len(); k++ {
				ts := sig.Params().At(k).Type().String()
				if ts == "*bytes.Buffer" || ts == "*strings.Builder" || ts == "io.Writer" {
					takesBuffer = true
				}
			}
			if !takesBuffer {
				continue
			}
			if gi := c.FuncOfObj(g); gi != nil && gi.Decl.Body != nil {
				seenW[g] = true
				writers = append(writers, gi)
			}
		}
	}
	for _, fi := range writers {
		winfo := fi.Pkg.TypesInfo
		ast.Inspect(fi.Decl.Body, func(n ast.Node) bool {
			bl, ok := n.(*ast.BasicLit)
			if !ok || bl.Kind != token.STRING && bl.Kind != token.CHAR {
				return true
			}
			tv := winfo.Types[bl]
			if tv.Value == nil {
				return true
			}
			s := ""
			if tv.Value.Kind() == constant.String {
				s = constant.StringVal(tv.Value)
			} else if r, ok := constant.Int64Val(tv.Value); ok {
				// rune literals used as FormatFloat's format are not output
				return r < 0
			}
			s = strings.NewReplacer("%s", "", "%v", "", "%d", "").Replace(s)
			for _, r := range s {
				if plain[string(r)] || cond[string(r)] {
					wdel[string(r)] = bl.Pos()
				} else {
					sep[string(r)] = bl.Pos()
				}
			}
			return true
		})
	}
	all := map[string]bool{}
	for k := range plain {
		all[k] = true
	}
	for k := range cond {
		all[k] = true
	}
	var missing []string
	for k := range all {
		if _, ok := wdel[k]; !ok {
			missing = append(missing, k)
		}
	}
	sort.Strings(missing)
	c.Check(len(missing) == 0, "TABLE", "newick/writer-delimiters", wn.Decl.Pos(), fmt.Sprintf("the writer emits all %d token runes", len(all)), "token runes never emitted by the writer: "+strings.Join(missing, " ")+" (what they delimit cannot be written)").Clause = clause
	// any other literal character the writer emits must be the separator the parser splits on
	pinfo := pi.Pkg.TypesInfo
	splitOn := map[string]bool{}
	for _, call := range callsIn(pi.Decl.Body, true) {
		if isFunc(calleeOf(pinfo, call), "strings", "", "Split") && len(call.Args) == 2 {
			if tv := pinfo.Types[call.Args[1]]; tv.Value != nil {
				splitOn[constant.StringVal(tv.Value)] = true
			}
		}
	}
	for _, k := range sortedPosKeys(sep) {
		c.Check(splitOn[k], "TABLE", "newick/separator "+k, sep[k], "the parser splits support/p-value on the same separator", "the writer emits the literal "+k+" which is neither a token rune nor the separator the parser splits support/p-value on ("+strings.Join(sortedKeys(splitOn), " ")+")").Clause = "supports (with p-values)"
	}
	if len(sep) == 0 {
		c.Violation("TABLE", "newick/separator", wn.Decl.Pos(), "the writer emits no support/p-value separator").Clause = "supports (with p-values)"
	}
	// lexer: NUMERIC iff ParseFloat(literal, 64) == nil
	var pf *ast.CallExpr
	var errObj types.Object
	ast.Inspect(si.Decl.Body, func(n ast.Node) bool {
		if as, ok := n.(*ast.AssignStmt); ok && len(as.Rhs) == 1 && len(as.Lhs) == 2 {
			if call, ok := unparen(as.Rhs[0]).(*ast.CallExpr); ok && isFunc(calleeOf(linfo, call), "strconv", "", "ParseFloat") {
				pf = call
				errObj = identObj(linfo, as.Lhs[1])
			}
		}
		return true
	})
	if pf == nil || errObj == nil {
		c.Violation("TABLE", "newick/numeric-iff-ParseFloat", si.Decl.Pos(), "scanIdent does not decide NUMERIC vs IDENT with strconv.ParseFloat").Clause = "Numeric values survive exactly"
		return
	}
	litKey := c.canon(linfo, pf.Args[0], nil)
	nNum := 0
	ast.Inspect(si.Decl.Body, func(n ast.Node) bool {
		ret, ok := n.(*ast.ReturnStmt)
		if !ok || len(ret.Results) != 2 {
			return true
		}
		cn := constObj(linfo, ret.Results[0])
		if cn == nil || (cn.Name() != "NUMERIC" && cn.Name() != "IDENT") {
			return true
		}
		conds, okc := c.pathConds(linfo, si.Decl.Body, ret, false)
		code := c.condsToBexpr(linfo, conds, nil)
		spec := bCmp(errObj.Name(), token.EQL, "nil")
		if cn.Name() == "IDENT" {
			spec = bCmp(errObj.Name(), token.NEQ, "nil")
		} else {
			nNum++
		}
		eq, wit, _, err := gfEquiv(code, spec)
		key := "newick/" + cn.Name() + "-iff-ParseFloat"
		if !okc || err != nil {
			c.Undecided("TABLE", key, ret.Pos(), fmt.Sprintf("guard shape not understood: %v", err))
			return true
		}
		c.Check(eq && c.canon(linfo, ret.Results[1], nil) == litKey, "TABLE", key, ret.Pos(), cn.Name()+" returned iff "+spec.String()+" for the whole literal",
			"the lexer returns "+cn.Name()+" under "+code.String()+" (expected exactly "+spec.String()+" on the whole literal): a number the writer can print ("+"FormatFloat 'f' -1 prints arbitrarily long decimals"+") would come back as a name, or a name as a number: "+wit).Clause = "Numeric values survive exactly"
		return true
	})
	if nNum == 0 {
		c.Violation("TABLE", "newick/NUMERIC-iff-ParseFloat", si.Decl.Pos(), "scanIdent never returns NUMERIC").Clause = "Numeric values survive exactly"
	}
}

func sortedPosKeys(m map[string]token.Pos) []string {
	var out []string
	for k := range m {
		out = append(out, k)
	}
	sort.Strings(out)
	return out
}

// attribute read by a statement of the writer: "subtree", "support", "pvalue", "ncomment", "length", "bcomment", "name"
func (c *Ctx) writerEvents(info *types.Info, s ast.Node, self *types.Func) []string {
	seen := map[string]bool{}
	var out []string
	add := func(k string) {
		if !seen[k] {
			seen[k] = true
			out = append(out, k)
		}
	}
	c.indexAccessors()
	ast.Inspect(s, func(n ast.Node) bool {
		switch x := n.(type) {
		case *ast.CallExpr:
			fn := calleeOf(info, x)
			if fn == self {
				add("subtree")
				return false
			}
			if fv, ok := c.getters[fn]; ok {
				if sel, ok := unparen(x.Fun).(*ast.SelectorExpr); ok {
					add(eventOf(ownerField(info, sel.X, fv)))
				}
			}
		case *ast.SelectorExpr:
			if fv, b := fieldOfSel(info, x); fv != nil && fv.Pkg() != nil && fv.Pkg().Path() == modPath+"/tree" {
				add(eventOf(ownerField(info, b, fv)))
			}
		}
		return true
	})
	var r []string
	for _, e := range out {
		if e != "" {
			r = append(r, e)
		}
	}
	return r
}

func eventOf(k string) string {
	switch k {
	case "Edge.support":
		return "support"
	case "Edge.pvalue":
		return "pvalue"
	case "Node.comment":
		return "ncomment"
	case "Edge.length":
		return "length"
	case "Edge.comment":
		return "bcomment"
	case "Node.name":
		return "name"
	}
	return ""
}

func (c *Ctx) newickOrder(wt, wn *FuncInfo) {
	info := wn.Pkg.TypesInfo
	clause := "supports (with p-values) and node/branch comments ... writing that tree again gives byte-identical text"
	// the per-child block: body of `if child != parent` inside the range over n.neigh
	r := recvObj(info, wn.Decl)
	var blk *ast.BlockStmt
	var child types.Object
	if loopBody, ch := c.neighLoop(info, wn.Decl.Body, r.Name()); loopBody != nil {
		child = ch
		for _, s := range loopBody.List {
			if is, ok := s.(*ast.IfStmt); ok && is.Else == nil && mentions(info, is.Cond, child) {
				blk = is.Body
			}
		}
	}
	if blk == nil {
		c.Undecided("ORDER", "tree.Node.Newick/per-child-block", wn.Decl.Pos(), "the per-child block (range over the node's neighbours, `if child != parent`) was not found")
		return
	}
	type ev struct {
		name string
		pos  token.Pos
		stmt ast.Stmt
	}
	var seq []ev
	for _, s := range blk.List {
		es := c.writerEvents(info, s, wn.Obj)
		// name of the child may be read by the support guard: not an output event there
		var outs []string
		for _, e := range es {
			if e == "name" {
				continue
			}
			outs = append(outs, e)
		}
		switch {
		case len(outs) == 0:
		case len(outs) == 1:
			seq = append(seq, ev{outs[0], s.Pos(), s})
		case len(outs) == 2 && outs[0] == "support" && outs[1] == "pvalue":
			seq = append(seq, ev{"support", s.Pos(), s})
			// nested order: the support write precedes the p-value write
			var ps, pp token.Pos
			ast.Inspect(s, func(n ast.Node) bool {
				if call, ok := n.(*ast.CallExpr); ok && isFunc(calleeOf(info, call), "strconv", "", "FormatFloat") {
					k := c.writerEvents(info, call.Args[0], wn.Obj)
					if len(k) == 1 && k[0] == "support" && !ps.IsValid() {
						ps = call.Pos()
					}
					if len(k) == 1 && k[0] == "pvalue" && !pp.IsValid() {
						pp = call.Pos()
					}
				}
				return true
			})
			c.Check(ps.IsValid() && pp.IsValid() && ps < pp, "ORDER", "tree.Node.Newick/support<pvalue", s.Pos(), "support written before /p-value", "the p-value is not written after the support inside the same block").Clause = clause
		default:
			c.Undecided("ORDER", "tree.Node.Newick/per-child-block", s.Pos(), fmt.Sprintf("one statement of the per-child block writes several attributes %v: order cannot be read off the statement list", outs))
			return
		}
	}
	want := []string{"subtree", "support", "ncomment", "length", "bcomment"}
	var got []string
	for _, e := range seq {
		got = append(got, e.name)
	}
	ok := len(got) == len(want)
	for i := range want {
		if ok && got[i] != want[i] {
			ok = false
		}
	}
	p := blk.Pos()
	c.Check(ok, "ORDER", "tree.Node.Newick/per-child-order", p, strings.Join(want, " < "), "per child the writer emits "+strings.Join(got, " < ")+"; the parser attaches by position and needs "+strings.Join(want, " < ")+" (e.g. a node comment written before the support is rejected or re-attached elsewhere; after the length it comes back as a branch comment)").Clause = clause
	// own name after the children: last statement of the function writes n.name and nothing else writes it
	last := wn.Decl.Body.List[len(wn.Decl.Body.List)-1]
	le := c.writerEvents(info, last, wn.Obj)
	c.Check(len(le) == 1 && le[0] == "name", "ORDER", "tree.Node.Newick/name-last", last.Pos(), "the node's own name is written after its children", "the node's own name is not the last thing Node.Newick writes").Clause = "the same tip and internal-node names"
	// no other statement of Node.Newick writes comments/lengths of the node itself
	for _, s := range wn.Decl.Body.List {
		if s == last {
			continue
		}
		if _, isIf := s.(*ast.IfStmt); isIf {
			continue // the block holding the loop
		}
		if es := c.writerEvents(info, s, wn.Obj); len(es) > 0 {
			c.Violation("ORDER", "tree.Node.Newick/stray-write", s.Pos(), fmt.Sprintf("attribute %v is written outside the per-child block", es)).Clause = clause
		}
	}
	// tree writer: root subtree < root comments < ';'
	tinfo := wt.Pkg.TypesInfo
	var seqT []string
	for _, s := range wt.Decl.Body.List {
		hasSub := false
		for _, call := range callsIn(s, false) {
			if calleeOf(tinfo, call) == wn.Obj {
				hasSub = true
			}
		}
		semi := false
		ast.Inspect(s, func(n ast.Node) bool {
			if bl, ok := n.(*ast.BasicLit); ok {
				if tv := tinfo.Types[bl]; tv.Value != nil && tv.Value.Kind() == constant.String && constant.StringVal(tv.Value) == ";" {
					semi = true
				}
			}
			return true
		})
		switch {
		case hasSub:
			seqT = append(seqT, "subtree")
		case semi:
			seqT = append(seqT, ";")
		default:
			for _, e := range c.writerEvents(tinfo, s, wn.Obj) {
				seqT = append(seqT, e)
			}
		}
	}
	c.commentForm("COMMENT-FORM", wt, wn)
	c.Check(strings.Join(seqT, " < ") == "subtree < ncomment < ;", "ORDER", "tree.Tree.Newick/order", wt.Decl.Pos(), "root subtree < root comments < ;", "the tree writer emits "+strings.Join(seqT, " < ")+", expected subtree < ncomment < ;").Clause = clause
}

func (c *Ctx) newickGuards(wn *FuncInfo) {
	info := wn.Pkg.TypesInfo
	clause := "supports (with p-values) ... an inner node carries either a name or a support; -1 is the 'absent' sentinel"
	var child types.Object
	r := recvObj(info, wn.Decl)
	_, child = c.neighLoop(info, wn.Decl.Body, r.Name())
	o := &canonOpts{subst: map[types.Object]string{}}
	if child != nil {
		o.subst[child] = "$C"
	}
	done := map[string]bool{}
	for _, call := range callsIn(wn.Decl.Body, false) {
		if !isFunc(calleeOf(info, call), "strconv", "", "FormatFloat") || len(call.Args) != 4 {
			continue
		}
		ev := c.writerEvents(info, call.Args[0], wn.Obj)
		if len(ev) != 1 || done[ev[0]] {
			continue
		}
		attr := ev[0]
		done[attr] = true
		// the branch expression: X in X.support
		var bkey string
		ast.Inspect(call.Args[0], func(n ast.Node) bool {
			if sel, ok := n.(*ast.SelectorExpr); ok {
				if fv, b := fieldOfSel(info, sel); fv != nil && bkey == "" {
					bkey = c.canon(info, b, o)
				}
			}
			return true
		})
		conds, okc := c.pathConds(info, wn.Decl.Body, call, true)
		var rel []cond
		for _, cd := range conds {
			if cd.Expr == nil {
				continue
			}
			k := c.canon(info, cd.Expr, o)
			if strings.Contains(k, bkey+".") || strings.Contains(k, "$C.name") {
				rel = append(rel, cd)
			}
		}
		code := c.condsToBexpr(info, rel, o)
		var spec *bexpr
		sup := bAnd(bCmp(bkey+".support", token.NEQ, "NIL_SUPPORT"), bCmp("$C.name", token.EQL, `""`))
		switch attr {
		case "support":
			spec = sup
		case "pvalue":
			spec = bAnd(sup, bCmp(bkey+".pvalue", token.NEQ, "NIL_PVALUE"))
		case "length":
			spec = bCmp(bkey+".length", token.NEQ, "NIL_LENGTH")
		default:
			continue
		}
		eq, wit, _, err := gfEquiv(code, spec)
		key := "tree.Node.Newick/" + attr + "-written"
		if !okc || err != nil {
			c.Undecided("GF", key, call.Pos(), fmt.Sprintf("guard shape not understood: %v", err))
			continue
		}
		c.Check(eq, "GF", key, call.Pos(), attr+" written iff "+spec.String(), attr+" is written under "+code.String()+", expected "+spec.String()+": "+wit).Clause = clause
	}
	for _, a := range []string{"support", "pvalue", "length"} {
		if !done[a] {
			c.Violation("GF", "tree.Node.Newick/"+a+"-written", wn.Decl.Pos(), "the "+a+" is never written with strconv.FormatFloat").Clause = clause
		}
	}
}

func (c *Ctx) newickFloats(writers, readers []*FuncInfo) {
	clause := "Numeric values survive exactly"
	n := 0
	for _, fi := range writers {
		info := fi.Pkg.TypesInfo
		for _, call := range callsIn(fi.Decl.Body, true) {
			fn := calleeOf(info, call)
			switch {
			case isFunc(fn, "strconv", "", "FormatFloat") && len(call.Args) == 4:
				n++
				f, _ := constant.Int64Val(info.Types[call.Args[1]].Value)
				pv := info.Types[call.Args[2]].Value
				bv := info.Types[call.Args[3]].Value
				good := (f == 'f' || f == 'g' || f == 'e' || f == 'G' || f == 'E') && pv != nil && pv.String() == "-1" && bv != nil && bv.String() == "64"
				c.Check(good, "FLOATFMT", fmt.Sprintf("%s/FormatFloat#%d", funcName(fi.Obj), n), call.Pos(), "shortest representation that parses back to the same float64", "number written with "+c.src(call)+": only format f/e/g with precision -1 and bitSize 64 prints a decimal that ParseFloat maps back to the same float64").Clause = clause
			case fn != nil && fn.Pkg() != nil && fn.Pkg().Path() == "fmt" && strings.Contains(fn.Name(), "rintf"):
				for _, a := range call.Args[1:] {
					if isFloat(info.TypeOf(a)) {
						n++
						c.Violation("FLOATFMT", fmt.Sprintf("%s/Sprintf-float#%d", funcName(fi.Obj), n), call.Pos(), "a float is formatted by "+fn.Name()+" ("+c.src(call.Args[0])+"): fmt verbs round or pad, the value does not survive the trip").Clause = clause
					}
				}
			}
		}
	}
	for _, fi := range readers {
		info := fi.Pkg.TypesInfo
		for _, call := range callsIn(fi.Decl.Body, true) {
			if isFunc(calleeOf(info, call), "strconv", "", "ParseFloat") && len(call.Args) == 2 {
				n++
				bv := info.Types[call.Args[1]].Value
				c.Check(bv != nil && bv.String() == "64", "FLOATFMT", fmt.Sprintf("%s/ParseFloat#%d", funcName(fi.Obj), n), call.Pos(), "parsed as float64", "number parsed with bitSize "+c.src(call.Args[1])+": not the float64 that was printed").Clause = clause
			}
		}
	}
}

// newickParens: a node with at least two neighbours (one of them its parent, or a root with two
// children) has children and must be written as a parenthesised group; '(' and ')' are written
// under the same condition.
func (c *Ctx) newickParens(wn *FuncInfo) {
	info := wn.Pkg.TypesInfo
	r := recvObj(info, wn.Decl)
	clause := "the same rooted shape ... whatever the tree size, degree of multifurcation or rootedness"
	guards := map[string]*bexpr{}
	pos := map[string]token.Pos{}
	for _, call := range callsIn(wn.Decl.Body, false) {
		if len(call.Args) != 1 {
			continue
		}
		tv, ok := info.Types[call.Args[0]]
		if !ok || tv.Value == nil || tv.Value.Kind() != constant.String {
			continue
		}
		lit := constant.StringVal(tv.Value)
		if lit != "(" && lit != ")" {
			continue
		}
		conds, okc := c.pathConds(info, wn.Decl.Body, call, false)
		if !okc {
			c.Undecided("GF", "tree.Node.Newick/paren "+lit, call.Pos(), "guard shape not understood")
			return
		}
		guards[lit] = c.condsToBexpr(info, conds, nil)
		pos[lit] = call.Pos()
	}
	if guards["("] == nil || guards[")"] == nil {
		c.Violation("GF", "tree.Node.Newick/parens", wn.Decl.Pos(), "the writer does not emit both '(' and ')'").Clause = clause
		return
	}
	spec := intCmp("len("+r.Name()+".neigh)", token.GTR, 1)
	imp, wit, _, err := gfImplies(spec, guards["("])
	if err != nil {
		c.Undecided("GF", "tree.Node.Newick/inner-node-parenthesised", pos["("], err.Error())
	} else {
		c.Check(imp, "GF", "tree.Node.Newick/inner-node-parenthesised", pos["("], "every node with at least two neighbours is written as a parenthesised group", "'(' is written under "+guards["("].String()+", which does not follow from `the node has at least two neighbours`: an inner node with a single child (left by a re-rooting) is written without parentheses and the text no longer describes the tree ("+wit+")").Clause = clause
	}
	eq, wit2, _, err := gfEquiv(guards["("], guards[")"])
	if err != nil {
		c.Undecided("GF", "tree.Node.Newick/parens-balanced", pos[")"], err.Error())
	} else {
		c.Check(eq, "GF", "tree.Node.Newick/parens-balanced", pos[")"], "'(' and ')' are written under the same condition", "'(' is written under "+guards["("].String()+" but ')' under "+guards[")"].String()+": "+wit2).Clause = clause
	}
}

// neighLoop: the loop of a writer over the neighbours of its receiver - `for _, child := range
// n.neigh` or the counting form `for i := 0; i < len(n.neigh); i++ { child := n.neigh[i] ..` -
// with the variable that holds the current neighbour.
func (c *Ctx) neighLoop(info *types.Info, body *ast.BlockStmt, recv string) (loopBody *ast.BlockStmt, child types.Object) {
	ast.Inspect(body, func(n ast.Node) bool {
		if loopBody != nil {
			return false
		}
		switch x := n.(type) {
		case *ast.RangeStmt:
			if x.Value != nil && c.canon(info, x.X, nil) == recv+".neigh" {
				loopBody, child = x.Body, identObj(info, x.Value)
			}
		case *ast.ForStmt:
			if !isIndexLoop(info, x) || len(x.Body.List) == 0 {
				return true
			}
			as, ok := x.Body.List[0].(*ast.AssignStmt)
			if !ok || as.Tok != token.DEFINE || len(as.Lhs) != 1 || len(as.Rhs) != 1 {
				return true
			}
			ix, isIx := unparen(as.Rhs[0]).(*ast.IndexExpr)
			if isIx && c.canon(info, ix.X, nil) == recv+".neigh" {
				loopBody, child = x.Body, identObj(info, as.Lhs[0])
			}
		}
		return true
	})
	return
}
