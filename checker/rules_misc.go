package main

import (
	"fmt"
	"go/ast"
	"go/token"
	"go/types"
	"sort"
	"strings"
)

// ARGSWAP — a call passes two of the caller's identifiers whose names are the callee's parameter
// names, but at each other's positions (same type): RemoveEdges(removeTips, removeRoot, ...).
func (c *Ctx) argSwap(rule string, pkgRels []string, clause string) int {
	return c.argSwapFuncs(rule, c.AllFuncs(pkgRels...), nil, clause)
}

// argSwapFuncs: the same over a list of functions (declared ones or command closures); only calls
// of callees accepted by `only` (nil = every repository function) are looked at. The second
// identifier may carry a prefix (`compareTips` for parameter `tips`).
func (c *Ctx) argSwapFuncs(rule string, funcs []*FuncInfo, only func(*types.Func) bool, clause string) int {
	n := 0
	namedLike := func(arg, param string) bool {
		return arg == param || (len(param) >= 3 && strings.Contains(strings.ToLower(arg), strings.ToLower(param)))
	}
	for _, fi := range funcs {
		info := fi.Pkg.TypesInfo
		ord := map[string]int{}
		for _, call := range callsIn(fi.Decl.Body, true) {
			fn := calleeOf(info, call)
			if fn == nil || !inRepo(fn) || (only != nil && !only(fn)) {
				continue
			}
			sig := fn.Type().(*types.Signature)
			np := sig.Params().Len()
			if sig.Variadic() {
				np--
			}
			if np < 2 || len(call.Args) < np {
				continue
			}
			// positions whose argument is a plain identifier named like some parameter of the callee
			pname := map[string]int{}
			for i := 0; i < np; i++ {
				pname[sig.Params().At(i).Name()] = i
			}
			// an argument handed over through a local defined once from another identifier
			// (`withTips := compareTips`) also answers to that identifier's name
			argNames := func(e ast.Expr) []string {
				id, ok := unparen(e).(*ast.Ident)
				if !ok {
					return nil
				}
				names := []string{id.Name}
				if lo, ok := info.Uses[id].(*types.Var); ok && !lo.IsField() {
					if defs := localDefs(info, fi.Decl.Body, lo); len(defs) == 1 {
						if src, ok := unparen(defs[0]).(*ast.Ident); ok {
							names = append(names, src.Name)
						}
					}
				}
				return names
			}
			named := 0
			for i := 0; i < np; i++ {
				id, ok := unparen(call.Args[i]).(*ast.Ident)
				if !ok {
					continue
				}
				j, ok := pname[id.Name]
				if !ok {
					for _, alt := range argNames(call.Args[i])[1:] {
						if jj, has := pname[alt]; has {
							j, ok = jj, true
							id = &ast.Ident{NamePos: id.NamePos, Name: alt}
						}
					}
				}
				if !ok {
					continue
				}
				named++
				if j == i {
					continue
				}
				// arg i is named like parameter j: is arg j named like parameter i ?
				if j < len(call.Args) {
					id2, ok2 := unparen(call.Args[j]).(*ast.Ident)
					like := false
					for _, nm := range argNames(call.Args[j]) {
						if namedLike(nm, sig.Params().At(i).Name()) {
							like = true
						}
					}
					if ok2 && like && types.Identical(sig.Params().At(i).Type(), sig.Params().At(j).Type()) && i < j {
						n++
						c.Violation(rule, fmt.Sprintf("%s/%s(%s↔%s)", funcName(fi.Obj), fn.Name(), id.Name, id2.Name), call.Pos(), fmt.Sprintf("%s is called with `%s` in the position of parameter `%s` and `%s` in the position of parameter `%s` (same type): the two arguments are exchanged", fn.Name(), id.Name, sig.Params().At(i).Name(), id2.Name, sig.Params().At(j).Name())).Clause = clause
					}
				}
			}
			if named >= 2 {
				ok := true
				for i := 0; i < np; i++ {
					for _, nm := range argNames(call.Args[i]) {
						if j, has := pname[nm]; has && j != i {
							ok = false
						}
					}
				}
				if ok {
					n++
					ord[fn.Name()]++
					c.OK(rule, fmt.Sprintf("%s/%s#%d", funcName(fi.Obj), fn.Name(), ord[fn.Name()]), call.Pos(), "same-named arguments are in their parameters' positions")
				}
			}
		}
	}
	return n
}

// noEarlySuccess — an operation whose work is done by a designated worker (a callee or a loop
// calling it) has no successful return that skips the worker, except under an accepted
// "nothing to do" guard.
func (c *Ctx) noEarlySuccess(rule string, fi *FuncInfo, worker string, accept func(info *types.Info, conds []cond) bool, clause string) {
	info := fi.Pkg.TypesInfo
	name := funcName(fi.Obj)
	// the worker statement: the top-level statement of the body containing the first call of worker
	var wstmt ast.Stmt
	for _, s := range fi.Decl.Body.List {
		if wstmt != nil {
			break
		}
		for _, call := range callsIn(s, false) {
			if fn := calleeOf(info, call); fn != nil && fn.Name() == worker && inRepo(fn) {
				wstmt = s
				break
			}
		}
	}
	if wstmt == nil {
		c.Violation(rule, name+"/reaches-"+worker, fi.Decl.Pos(), name+" no longer calls "+worker+": its work is not done").Clause = clause
		return
	}
	bad := token.NoPos
	var badConds string
	ast.Inspect(fi.Decl.Body, func(n ast.Node) bool {
		if _, isLit := n.(*ast.FuncLit); isLit {
			return false
		}
		ret, ok := n.(*ast.ReturnStmt)
		if !ok || ret.Pos() > wstmt.Pos() {
			return true
		}
		if !returnsNilError(info, ret) {
			return true
		}
		conds, okc := c.pathConds(info, fi.Decl.Body, ret, false)
		// a return inside an `err != nil` block with a bare return of a named error is an error exit
		for _, cd := range conds {
			if cd.Expr != nil && !cd.Neg && errGuard(info, cd.Expr) {
				return true
			}
		}
		if okc && accept != nil && accept(info, conds) {
			return true
		}
		if !bad.IsValid() {
			bad = ret.Pos()
			badConds = c.condsToBexpr(info, conds, nil).String()
		}
		return true
	})
	if bad.IsValid() {
		c.Violation(rule, name+"/no-early-success", bad, fmt.Sprintf("%s returns success under `%s` before %s has run: the checker cannot show that this condition means 'nothing to do', and when it does not the operation is silently skipped", name, badConds, worker)).Clause = clause
	} else {
		c.OK(rule, name+"/no-early-success", wstmt.Pos(), "every successful return comes after "+worker)
	}
}

// staleTip — Tip() is `exactly one neighbour`. Asked of a node after delNeighbor was applied to it
// in the same function (and before it is attached again), it no longer tells whether the node is a
// leaf of the tree: a former tip has 0 neighbours and reads as an inner node.
func (c *Ctx) staleTip(rule string, fns []*FuncInfo, clause string) (sites, hits int) {
	for _, fi := range fns {
		info := fi.Pkg.TypesInfo
		o := c.localExpansions(info, fi.Decl.Body)
		type ev struct {
			kind string
			x    string
			pos  token.Pos
		}
		var evs []ev
		blockOf := func(p token.Pos) ast.Node {
			var b ast.Node = fi.Decl.Body
			ast.Inspect(fi.Decl.Body, func(n ast.Node) bool {
				switch n.(type) {
				case *ast.BlockStmt, *ast.CaseClause:
					if nodeContains(n, p) {
						b = n
					}
				}
				return true
			})
			return b
		}
		for _, call := range callsIn(fi.Decl.Body, false) {
			sel, ok := unparen(call.Fun).(*ast.SelectorExpr)
			fn := calleeOf(info, call)
			if fn == nil {
				continue
			}
			switch fn.Name() {
			case "delNeighbor":
				if ok {
					evs = append(evs, ev{"del", c.canon(info, sel.X, o), call.Pos()})
				}
			case "addChild":
				if ok {
					evs = append(evs, ev{"add", c.canon(info, sel.X, o), call.Pos()})
				}
			case "ConnectNodes":
				for _, a := range call.Args {
					evs = append(evs, ev{"add", c.canon(info, a, o), call.Pos()})
					// a local that holds one of several nodes (`newroot, other := n1, n2`, exchanged in
					// a branch): each of the nodes it may hold
					if lo := identObj(info, a); lo != nil {
						for _, v := range localValues(info, fi.Decl.Body, lo) {
							evs = append(evs, ev{"add", c.canon(info, v, o), call.Pos()})
						}
					}
				}
			case "Tip":
				if ok && len(call.Args) == 0 {
					evs = append(evs, ev{"tip", c.canon(info, sel.X, o), call.Pos()})
				}
			}
		}
		// an if/else chain all of whose branches attach x again counts as an attachment at its end
		ast.Inspect(fi.Decl.Body, func(n ast.Node) bool {
			is, ok := n.(*ast.IfStmt)
			if !ok || is.Else == nil {
				return true
			}
			var branches []ast.Node
			cur := is
			complete := false
			for {
				branches = append(branches, cur.Body)
				switch e := cur.Else.(type) {
				case *ast.IfStmt:
					cur = e
					continue
				case *ast.BlockStmt:
					branches = append(branches, e)
					complete = true
				}
				break
			}
			if !complete {
				return true
			}
			xs := map[string]int{}
			for _, b := range branches {
				seen := map[string]bool{}
				for _, d := range evs {
					if d.kind == "add" && nodeContains(b, d.pos) && !seen[d.x] {
						seen[d.x] = true
						xs[d.x]++
					}
				}
			}
			for x, k := range xs {
				if k == len(branches) {
					evs = append(evs, ev{"add", x, is.End()})
				}
			}
			return true
		})
		for _, e := range evs {
			if e.kind != "tip" {
				continue
			}
			detached := false
			sort.SliceStable(evs, func(i, j int) bool { return evs[i].pos < evs[j].pos })
			for _, d := range evs {
				if d.pos >= e.pos || d.x != e.x || !nodeContains(blockOf(d.pos), e.pos) {
					continue
				}
				switch d.kind {
				case "del":
					detached = true
				case "add":
					detached = false
				}
			}
			hasDel := false
			for _, d := range evs {
				if d.kind == "del" && d.x == e.x {
					hasDel = true
				}
			}
			if !hasDel {
				continue
			}
			sites++
			key := funcName(fi.Obj) + "/" + e.x + ".Tip()"
			if detached {
				hits++
				c.Violation(rule, key, e.pos, fmt.Sprintf("%s.Tip() is asked after %s.delNeighbor(...) in the same function and before %s is attached again: Tip() means 'exactly one neighbour', so a node that was a tip (now 0 neighbours) reads as an inner node and one that had two reads as a tip", e.x, e.x, e.x)).Clause = clause
			} else {
				c.OK(rule, key, e.pos, "asked while the node is still / again attached")
			}
		}
	}
	return
}

// accumAgree — inside a loop, counters that are updated from the results of one and the same
// (recursive) call must all be accumulated: `common += com; different += diff`. One of them being
// overwritten (`=`) keeps only the last child's contribution: the result depends on child order.
func (c *Ctx) accumAgree(rule string, fi *FuncInfo, clause string) int {
	info := fi.Pkg.TypesInfo
	n := 0
	ast.Inspect(fi.Decl.Body, func(m ast.Node) bool {
		var body *ast.BlockStmt
		switch l := m.(type) {
		case *ast.RangeStmt:
			body = l.Body
		case *ast.ForStmt:
			body = l.Body
		}
		if body == nil {
			return true
		}
		// results of a multi-value self call inside this loop
		res := map[types.Object]bool{}
		ast.Inspect(body, func(q ast.Node) bool {
			if as, ok := q.(*ast.AssignStmt); ok && len(as.Rhs) == 1 && len(as.Lhs) > 1 {
				if call, ok := unparen(as.Rhs[0]).(*ast.CallExpr); ok && calleeOf(info, call) == fi.Obj {
					for _, l := range as.Lhs {
						if o := identObj(info, l); o != nil && isNumeric(o.Type()) {
							res[o] = true
						}
					}
				}
			}
			return true
		})
		if len(res) == 0 {
			return true
		}
		ops := map[string][]token.Pos{}
		var names []string
		ast.Inspect(body, func(q ast.Node) bool {
			as, ok := q.(*ast.AssignStmt)
			if !ok || len(as.Lhs) != 1 || len(as.Rhs) != 1 {
				return true
			}
			r := identObj(info, as.Rhs[0])
			l := identObj(info, as.Lhs[0])
			if r == nil || l == nil || !res[r] || res[l] {
				return true
			}
			// the accumulator outlives the loop
			if declaredIn(info, body)[l] {
				return true
			}
			ops[as.Tok.String()] = append(ops[as.Tok.String()], as.Pos())
			names = append(names, l.Name()+as.Tok.String()+r.Name())
			return true
		})
		if len(names) == 0 {
			return true
		}
		n++
		key := fmt.Sprintf("%s/accumulators#%d", funcName(fi.Obj), n)
		if len(ops["="]) > 0 && len(ops["+="]) > 0 {
			c.Violation(rule, key, ops["="][0], fmt.Sprintf("counters fed by the results of the same recursive call are updated inconsistently (%v): the one assigned with `=` keeps only the last child's contribution, so the result depends on the order of the children", names)).Clause = clause
		} else {
			c.OK(rule, key, body.Pos(), fmt.Sprintf("counters fed by the recursive call are all accumulated the same way (%v)", names))
		}
		return false
	})
	return n
}

// memoStale — inside a loop over items, `if v == nil { v = f(item) }` with v declared outside the
// loop caches a function of the first item for all later items.
func (c *Ctx) memoStale(rule string, pkgRel string, fileSuffix string, clause string) int {
	n := 0
	p := c.Pkg(pkgRel)
	if p == nil {
		return 0
	}
	for _, file := range p.Syntax {
		if f, _ := c.pos(file.Pos()); !strings.HasSuffix(f, fileSuffix) {
			continue
		}
		info := p.TypesInfo
		owner := strings.TrimSuffix(fileSuffix, ".go")
		ast.Inspect(file, func(m ast.Node) bool {
			rs, ok := m.(*ast.RangeStmt)
			if !ok {
				return true
			}
			var items []types.Object
			for _, e := range []ast.Expr{rs.Key, rs.Value} {
				if e != nil {
					if o := identObj(info, e); o != nil {
						items = append(items, o)
					}
				}
			}
			inner := declaredIn(info, rs.Body)
			// locals derived from the item count as the item
			derived := map[types.Object]bool{}
			for _, o := range items {
				derived[o] = true
			}
			n++
			bad := token.NoPos
			var bname string
			ast.Inspect(rs.Body, func(q ast.Node) bool {
				is, ok := q.(*ast.IfStmt)
				if !ok {
					return true
				}
				v, nonNil, ok := nilTest(info, is.Cond)
				if !ok || nonNil || inner[v] {
					// also `len(v) == 0`
					if lv, op, k, ok2 := lenTest(info, is.Cond); ok2 && op == token.EQL && k == 0 && !inner[lv] {
						v = lv
					} else {
						return true
					}
				}
				for _, s := range is.Body.List {
					as, ok := s.(*ast.AssignStmt)
					if !ok {
						continue
					}
					for i, l := range as.Lhs {
						if identObj(info, l) != v {
							continue
						}
						var r ast.Expr
						if len(as.Rhs) == len(as.Lhs) {
							r = as.Rhs[i]
						} else if len(as.Rhs) == 1 {
							r = as.Rhs[0]
						}
						if r == nil {
							continue
						}
						for o := range derived {
							if mentions(info, r, o) {
								bad = as.Pos()
								bname = v.Name()
							}
						}
					}
				}
				return true
			})
			key := fmt.Sprintf("%s/range %s", owner, c.src(rs.X))
			if bad.IsValid() {
				c.Violation(rule, key, bad, fmt.Sprintf("`%s` is computed from the current item only while it is still empty and then reused for every later item of the loop: later trees are processed with what was computed for the first one", bname)).Clause = clause
			} else {
				c.Trivial(rule, key, rs.Pos(), "no value derived from the item is cached across iterations")
			}
			return true
		})
	}
	return n
}

// freshPerItem — a container that is filled from the current item inside a loop over a channel of
// items must be created inside that loop (otherwise what earlier items put in it is still there).
func (c *Ctx) freshPerItem(rule string, fi *FuncInfo, fillMethods map[string]bool, ctor string, clause string) int {
	info := fi.Pkg.TypesInfo
	n := 0
	ast.Inspect(fi.Decl.Body, func(m ast.Node) bool {
		rs, ok := m.(*ast.RangeStmt)
		if !ok {
			return true
		}
		if _, isChan := info.TypeOf(rs.X).Underlying().(*types.Chan); !isChan {
			return true
		}
		inner := declaredIn(info, rs.Body)
		seen := map[types.Object]bool{}
		for _, call := range callsIn(rs.Body, true) {
			fn := calleeOf(info, call)
			if fn == nil {
				continue
			}
			var x types.Object
			if sel, ok := unparen(call.Fun).(*ast.SelectorExpr); ok && fillMethods[fn.Name()] {
				x = identObj(info, sel.X)
			} else if gi := c.FuncOfObj(fn); gi != nil && gi.Decl.Body != nil && inRepo(fn) {
				// filled through a helper that receives the container: `indexInnerEdges(edgeIndex, edges)`
				ginfo := gi.Pkg.TypesInfo
				for k, a := range call.Args {
					p := paramObj(ginfo, gi.Decl, k)
					if p == nil || identObj(info, a) == nil {
						continue
					}
					for _, inner := range callsIn(gi.Decl.Body, true) {
						if isel, isSel := unparen(inner.Fun).(*ast.SelectorExpr); isSel && identObj(ginfo, isel.X) == p {
							if g := calleeOf(ginfo, inner); g != nil && fillMethods[g.Name()] {
								x = identObj(info, a)
							}
						}
					}
				}
				if x != nil {
					fn = gi.Obj
				}
			}
			if x == nil || seen[x] {
				continue
			}
			seen[x] = true
			n++
			key := fmt.Sprintf("%s/%s.%s", funcName(fi.Obj), x.Name(), fn.Name())
			// created inside the loop body: declared there, or assigned from the constructor there
			fresh := inner[x]
			if !fresh {
				ast.Inspect(rs.Body, func(q ast.Node) bool {
					if as, ok := q.(*ast.AssignStmt); ok && as.Pos() < call.Pos() {
						for i, l := range as.Lhs {
							if identObj(info, l) == x && i < len(as.Rhs) {
								if cl, ok := unparen(as.Rhs[i]).(*ast.CallExpr); ok {
									if g := calleeOf(info, cl); g != nil && (g.Name() == ctor || c.returnsFreshFrom(g, ctor)) {
										fresh = true
									}
								}
							}
						}
					}
					return true
				})
			}
			c.Check(fresh, rule, key, call.Pos(), x.Name()+" is created anew for each item", fmt.Sprintf("`%s` is filled from each item of the channel (%s) but created outside the loop: what earlier trees put in it is still there when later trees are looked up", x.Name(), fn.Name())).Clause = clause
		}
		return true
	})
	return n
}

// returnsFreshFrom: g is an in-repo function all of whose returns hand back a call of ctor
// (`func newSplitIndex(n int) *EdgeIndex { return NewEdgeIndex(..) }`).
func (c *Ctx) returnsFreshFrom(g *types.Func, ctor string) bool {
	gi := c.FuncOfObj(g)
	if gi == nil || gi.Decl.Body == nil || !inRepo(g) {
		return false
	}
	n, ok := 0, true
	ast.Inspect(gi.Decl.Body, func(m ast.Node) bool {
		if _, isLit := m.(*ast.FuncLit); isLit {
			return false
		}
		if ret, isRet := m.(*ast.ReturnStmt); isRet {
			n++
			if len(ret.Results) != 1 {
				ok = false
				return true
			}
			cl, isCall := unparen(ret.Results[0]).(*ast.CallExpr)
			if !isCall {
				ok = false
				return true
			}
			if h := calleeOf(gi.Pkg.TypesInfo, cl); h == nil || h.Name() != ctor {
				ok = false
			}
		}
		return true
	})
	return ok && n > 0
}

// localValues: the right-hand sides assigned to local v anywhere in body (definitions and plain
// assignments, tuple forms included); nil when some assignment cannot be matched to a value.
func localValues(info *types.Info, body ast.Node, v types.Object) []ast.Expr {
	var out []ast.Expr
	ok := true
	ast.Inspect(body, func(n ast.Node) bool {
		as, isAs := n.(*ast.AssignStmt)
		if !isAs {
			return true
		}
		for i, l := range as.Lhs {
			if identObj(info, l) != v {
				continue
			}
			if len(as.Lhs) != len(as.Rhs) {
				ok = false
				continue
			}
			out = append(out, as.Rhs[i])
		}
		return true
	})
	if !ok || len(out) < 2 {
		return nil
	}
	return out
}
