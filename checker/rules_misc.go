package main

import (
	"fmt"
	"sort"
	"go/ast"
	"go/token"
	"go/types"
)

// ARGSWAP — a call passes two of the caller's identifiers whose names are the callee's parameter
// names, but at each other's positions (same type): RemoveEdges(removeTips, removeRoot, ...).
func (c *Ctx) argSwap(rule string, pkgRels []string, clause string) int {
	n := 0
	for _, fi := range c.AllFuncs(pkgRels...) {
		info := fi.Pkg.TypesInfo
		ord := map[string]int{}
		for _, call := range callsIn(fi.Decl.Body, true) {
			fn := calleeOf(info, call)
			if fn == nil || !inRepo(fn) {
				continue
			}
			sig := fn.Type().(*types.Signature)
			np := sig.Params().Len()
			if sig.Variadic() {
				np--
			}
			if np < 2 || len(call.Args) < np {
				continue
			}
			// positions whose argument is a plain identifier named like some parameter of the callee
			pname := map[string]int{}
			for i := 0; i < np; i++ {
				pname[sig.Params().At(i).Name()] = i
			}
			named := 0
			for i := 0; i < np; i++ {
				id, ok := unparen(call.Args[i]).(*ast.Ident)
				if !ok {
					continue
				}
				j, ok := pname[id.Name]
				if !ok {
					continue
				}
				named++
				if j == i {
					continue
				}
				// arg i is named like parameter j: is arg j named like parameter i ?
				if j < len(call.Args) {
					if id2, ok := unparen(call.Args[j]).(*ast.Ident); ok && id2.Name == sig.Params().At(i).Name() && types.Identical(sig.Params().At(i).Type(), sig.Params().At(j).Type()) && i < j {
						n++
						c.Violation(rule, fmt.Sprintf("%s/%s(%s↔%s)", funcName(fi.Obj), fn.Name(), id.Name, id2.Name), call.Pos(), fmt.Sprintf("%s is called with `%s` in the position of parameter `%s` and `%s` in the position of parameter `%s` (same type): the two arguments are exchanged", fn.Name(), id.Name, sig.Params().At(i).Name(), id2.Name, sig.Params().At(j).Name())).Clause = clause
					}
				}
			}
			if named >= 2 {
				ok := true
				for i := 0; i < np; i++ {
					if id, isId := unparen(call.Args[i]).(*ast.Ident); isId {
						if j, has := pname[id.Name]; has && j != i {
							ok = false
						}
					}
				}
				if ok {
					n++
					ord[fn.Name()]++
					c.OK(rule, fmt.Sprintf("%s/%s#%d", funcName(fi.Obj), fn.Name(), ord[fn.Name()]), call.Pos(), "same-named arguments are in their parameters' positions")
				}
			}
		}
	}
	return n
}

// noEarlySuccess — an operation whose work is done by a designated worker (a callee or a loop
// calling it) has no successful return that skips the worker, except under an accepted
// "nothing to do" guard.
func (c *Ctx) noEarlySuccess(rule string, fi *FuncInfo, worker string, accept func(info *types.Info, conds []cond) bool, clause string) {
	info := fi.Pkg.TypesInfo
	name := funcName(fi.Obj)
	// the worker statement: the top-level statement of the body containing the first call of worker
	var wstmt ast.Stmt
	for _, s := range fi.Decl.Body.List {
		if wstmt != nil {
			break
		}
		for _, call := range callsIn(s, false) {
			if fn := calleeOf(info, call); fn != nil && fn.Name() == worker && inRepo(fn) {
				wstmt = s
				break
			}
		}
	}
	if wstmt == nil {
		c.Violation(rule, name+"/reaches-"+worker, fi.Decl.Pos(), name+" no longer calls "+worker+": its work is not done").Clause = clause
		return
	}
	bad := token.NoPos
	var badConds string
	ast.Inspect(fi.Decl.Body, func(n ast.Node) bool {
		if _, isLit := n.(*ast.FuncLit); isLit {
			return false
		}
		ret, ok := n.(*ast.ReturnStmt)
		if !ok || ret.Pos() > wstmt.Pos() {
			return true
		}
		if !returnsNilError(info, ret) {
			return true
		}
		conds, okc := c.pathConds(info, fi.Decl.Body, ret, false)
		// a return inside an `err != nil` block with a bare return of a named error is an error exit
		for _, cd := range conds {
			if cd.Expr != nil && !cd.Neg && errGuard(info, cd.Expr) {
				return true
			}
		}
		if okc && accept != nil && accept(info, conds) {
			return true
		}
		if !bad.IsValid() {
			bad = ret.Pos()
			badConds = c.condsToBexpr(info, conds, nil).String()
		}
		return true
	})
	if bad.IsValid() {
		c.Violation(rule, name+"/no-early-success", bad, fmt.Sprintf("%s returns success under `%s` before %s has run: the checker cannot show that this condition means 'nothing to do', and when it does not the operation is silently skipped", name, badConds, worker)).Clause = clause
	} else {
		c.OK(rule, name+"/no-early-success", wstmt.Pos(), "every successful return comes after "+worker)
	}
}

// staleTip — Tip() is `exactly one neighbour`. Asked of a node after delNeighbor was applied to it
// in the same function (and before it is attached again), it no longer tells whether the node is a
// leaf of the tree: a former tip has 0 neighbours and reads as an inner node.
func (c *Ctx) staleTip(rule string, fns []*FuncInfo, clause string) (sites, hits int) {
	for _, fi := range fns {
		info := fi.Pkg.TypesInfo
		o := c.localExpansions(info, fi.Decl.Body)
		type ev struct {
			kind string
			x    string
			pos  token.Pos
		}
		var evs []ev
		blockOf := func(p token.Pos) ast.Node {
			var b ast.Node = fi.Decl.Body
			ast.Inspect(fi.Decl.Body, func(n ast.Node) bool {
				switch n.(type) {
				case *ast.BlockStmt, *ast.CaseClause:
					if nodeContains(n, p) {
						b = n
					}
				}
				return true
			})
			return b
		}
		for _, call := range callsIn(fi.Decl.Body, false) {
			sel, ok := unparen(call.Fun).(*ast.SelectorExpr)
			fn := calleeOf(info, call)
			if fn == nil {
				continue
			}
			switch fn.Name() {
			case "delNeighbor":
				if ok {
					evs = append(evs, ev{"del", c.canon(info, sel.X, o), call.Pos()})
				}
			case "addChild":
				if ok {
					evs = append(evs, ev{"add", c.canon(info, sel.X, o), call.Pos()})
				}
			case "ConnectNodes":
				for _, a := range call.Args {
					evs = append(evs, ev{"add", c.canon(info, a, o), call.Pos()})
				}
			case "Tip":
				if ok && len(call.Args) == 0 {
					evs = append(evs, ev{"tip", c.canon(info, sel.X, o), call.Pos()})
				}
			}
		}
		// an if/else chain all of whose branches attach x again counts as an attachment at its end
		ast.Inspect(fi.Decl.Body, func(n ast.Node) bool {
			is, ok := n.(*ast.IfStmt)
			if !ok || is.Else == nil {
				return true
			}
			var branches []ast.Node
			cur := is
			complete := false
			for {
				branches = append(branches, cur.Body)
				switch e := cur.Else.(type) {
				case *ast.IfStmt:
					cur = e
					continue
				case *ast.BlockStmt:
					branches = append(branches, e)
					complete = true
				}
				break
			}
			if !complete {
				return true
			}
			xs := map[string]int{}
			for _, b := range branches {
				seen := map[string]bool{}
				for _, d := range evs {
					if d.kind == "add" && nodeContains(b, d.pos) && !seen[d.x] {
						seen[d.x] = true
						xs[d.x]++
					}
				}
			}
			for x, k := range xs {
				if k == len(branches) {
					evs = append(evs, ev{"add", x, is.End()})
				}
			}
			return true
		})
		for _, e := range evs {
			if e.kind != "tip" {
				continue
			}
			detached := false
			sort.SliceStable(evs, func(i, j int) bool { return evs[i].pos < evs[j].pos })
			for _, d := range evs {
				if d.pos >= e.pos || d.x != e.x || !nodeContains(blockOf(d.pos), e.pos) {
					continue
				}
				switch d.kind {
				case "del":
					detached = true
				case "add":
					detached = false
				}
			}
			hasDel := false
			for _, d := range evs {
				if d.kind == "del" && d.x == e.x {
					hasDel = true
				}
			}
			if !hasDel {
				continue
			}
			sites++
			key := funcName(fi.Obj) + "/" + e.x + ".Tip()"
			if detached {
				hits++
				c.Violation(rule, key, e.pos, fmt.Sprintf("%s.Tip() is asked after %s.delNeighbor(...) in the same function and before %s is attached again: Tip() means 'exactly one neighbour', so a node that was a tip (now 0 neighbours) reads as an inner node and one that had two reads as a tip", e.x, e.x, e.x)).Clause = clause
			} else {
				c.OK(rule, key, e.pos, "asked while the node is still / again attached")
			}
		}
	}
	return
}
