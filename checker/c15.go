package main

import (
	"fmt"
	"go/ast"
	"go/token"
	"go/types"
	"math/big"
	"strings"
)

func init() { props["C15"] = checkC15 }

// fields that a copy legitimately does not transfer, each with the reason (DESIGN.md A.6)
var copyExempt = map[string]string{
	"Node.neigh":     "rebuilt by ConnectNodes on the copy",
	"Node.br":        "rebuilt by ConnectNodes on the copy",
	"Edge.left":      "set by ConnectNodes on the copy",
	"Edge.right":     "set by ConnectNodes on the copy",
	"Node.tipid":     "tip rank, rebuilt by UpdateTipIndex on the copy",
	"Node.rootdepth": "root distance, rebuilt by ComputeDepths; never printed",
}

func checkC15(c *Ctx) {
	c.Decides("FIELDS: CopyNode/CopyEdge transfer every field of Node/Edge (exemptions are the fields the copy rebuilds itself: neigh, br, left, right, tipid, rootdepth) - a field that is not transferred is lost by Clone/SubTree for every tree that carries it (e.g. branch comments in the clone's text)")
	c.Decides("ALIAS: no slice/map/pointer field of a copy is assigned the source's storage (only make+element copy, Clone(), append to a fresh slice): otherwise editing one tree changes the other")
	c.Decides("SKELETON: copyTreeRecur copies the child node and the branch it descends through, attaches only copies to the copy, and recurses over the child's branches in order; Clone/SubTree start from a new Tree, never share the name index, and re-index the copy")
	c.Decides("LF: InsertIdenticalTip gives every branch it creates the constant length 0 and writes no length of a pre-existing branch; GraftTreeOnTip/Merge write no length/support at all; removeSingleNodesRecur gives the surviving branch child+parent length (only when both are present) and max(child,parent) support")
	c.Decides("ERRFLOW/GF: Merge returns a non-nil error iff one tree is unrooted, and for every name of one index found in the other; PAIR: the adjacency edits of these functions are two-sided")
	c.Decides("LASTLINE: the list-file readers shared by the commands (cmd/root.go, io/fileutils, io/utils) do not read lines with bufio ReadString/ReadBytes unless they handle io.EOF themselves: these return the last unterminated line together with io.EOF, which the `for err == nil` line loops never look at")
	c.lastLineIn("add exactly the requested tips", "cmd/repopulate.go")
	c.Decides("OPT-OWN (shared with C05): the graft/merge/repopulate/subtree commands, like every command, read only option storage they register (or one of the few cross-command reads confirmed on the reference tree): a pre-check written against another command's variable never sees what the user passed")
	if ncm, _ := c.optOwn("OPT-OWN", "add exactly the requested tips"); ncm < 80 {
		c.Undecided("OPT-OWN", "scan-count", 0, fmt.Sprintf("only %d command literals seen (more than 80 confirmed by hand)", ncm))
	}
	c.DoesNotDecide("path-length preservation as such, exact placement of grafted/inserted tips, independence under arbitrary later edits beyond 'no shared mutable storage at copy time'")
	c.Decides("ERR-DEAD: in tree/tree.go, the graft/merge/repopulate/subtree commands and the command helpers of cmd/root.go (the group-file reader included), the error a call stores in a variable is read before that variable is assigned again on every path: a request that cannot be read is reported, not carried out as an empty one")
	c.Decides("ERR-SWALLOW: in the same files, a branch entered because an error value is non-nil does not leave the function with a nil error (no `return nil`, no bare return with an unset named result)")
	c.errDeadIn("add exactly the requested tips", 40, "tree/tree.go", "cmd/root.go", "cmd/repopulate.go", "cmd/graft.go", "cmd/merge.go", "cmd/subtree.go", "cmd/collapsesingle.go")
	c.copyFields("Node", "CopyNode")
	c.copyFields("Edge", "CopyEdge")
	c.cloneSkeleton()
	c.insertIdenticalForms()
	c.removeSingleForms()
	c.mergeRefusal()
	c.graftIndexAfterEdit()
	c.checkPair("PAIR", map[string]bool{"InsertIdenticalTip": true, "GraftTreeOnTip": true, "removeSingleNodesRecur": true, "Merge": true, "copyTreeRecur": true})
	c.Decides("MAKE-APPEND: no slice of package tree (the comment slices of CopyNode/CopyEdge included) is created with make(.., n) and then filled with append, directly or through an appending method such as AddComment: the copy would carry n empty elements in front of the real ones")
	nm, _ := c.makeAppend("MAKE-APPEND", c.AllFuncs("tree"), "a clone is an exact copy")
	c.Extra["make_with_length_sites"] = nm
	if fx := c.Fixture(); fx != nil {
		sub := c.subCtx(fx)
		_, nv := sub.makeAppend("MAKE-APPEND", sub.AllFuncs(), "")
		c.Control("MAKE-APPEND", nv == 1, "fixture.C15MakeAppend fills a slice made with a length through an appending method")
	}
	c.Decides("INDEX-SYNC: a loop of package tree that looks names up in a NodeIndex built before it and inserts nodes into the tree adds each inserted node to that index")
	c.indexSync("INDEX-SYNC", c.AllFuncs("tree"))
	c.Decides("KEY-RAW (shared with C05): every access to the name index's map in tree/nodeindex.go is keyed by a name as it is, on the storing and on the looking-up side alike (InsertIdenticalTips finds the model tip it was given)")
	c.indexKeysRaw("KEY-RAW", "add exactly the requested tips")
	c.Floor("KEY-RAW", 4)
	c.Decides("RETURNS-NEW: every tree SubTree and Clone return is a tree created in the call (a local assigned from NewTree()), never the receiver")
	c.returnsNewTree("RETURNS-NEW", []*FuncInfo{c.Func("tree", "Tree", "SubTree"), c.Func("tree", "Tree", "Clone")}, "an extracted subtree is fully independent of its source")
	c.Floor("RETURNS-NEW", 2)
	c.Decides("CMD-REACHES: in the repopulate command nothing between the head of the loop over the input trees and the call of InsertIdenticalTips leaves the iteration except under an error test")
	c.cmdReaches("CMD-REACHES", "cmd/repopulate.go", []string{"InsertIdenticalTips"}, "inserting tips")
	c.Floor("CMD-REACHES", 1)
	c.Floor("INDEX-SYNC", 1)
	c.Floor("MAKE-APPEND", 10)
	c.Floor("FIELDS", 12)
	c.Floor("ALIAS", 2)
	c.Floor("SKELETON", 8)
	c.Floor("LF", 5)
	c.Floor("PAIR", 8)
}

// copyFields: FIELDS + ALIAS on one copy function. src = the first parameter of type *T; dst = a
// second parameter of type *T or the local of type *T that is returned.
func (c *Ctx) copyFields(typeName, fnName string) {
	fi := c.Func("tree", "Tree", fnName)
	if fi == nil {
		return
	}
	info := fi.Pkg.TypesInfo
	name := "tree.Tree." + fnName
	isT := func(t types.Type) bool {
		p, ok := t.(*types.Pointer)
		if !ok {
			return false
		}
		n, ok := p.Elem().(*types.Named)
		return ok && n.Obj().Name() == typeName && inRepoObj(n.Obj())
	}
	var src, dst types.Object
	for i := 0; ; i++ {
		p := paramObj(info, fi.Decl, i)
		if p == nil {
			break
		}
		if isT(p.Type()) {
			if src == nil {
				src = p
			} else if dst == nil {
				dst = p
			}
		}
	}
	if dst == nil {
		// the returned local
		ast.Inspect(fi.Decl.Body, func(n ast.Node) bool {
			if r, ok := n.(*ast.ReturnStmt); ok && len(r.Results) == 1 {
				if o := identObj(info, r.Results[0]); o != nil && isT(o.Type()) && o != src {
					dst = o
				}
			}
			return true
		})
	}
	if src == nil || dst == nil {
		c.Undecided("FIELDS", name, fi.Decl.Pos(), "cannot identify source and destination of the copy")
		return
	}
	// range variables over src.F stand for src.F
	alias := map[types.Object]string{}
	ast.Inspect(fi.Decl.Body, func(n ast.Node) bool {
		if rs, ok := n.(*ast.RangeStmt); ok {
			if fv, x := fieldOfSel(info, rs.X); fv != nil && identObj(info, x) == src && rs.Value != nil {
				if o := identObj(info, rs.Value); o != nil {
					alias[o] = fv.Name()
				}
			}
		}
		return true
	})
	readsSrc := func(n ast.Node, f string) bool {
		if n == nil {
			return false
		}
		found := false
		ast.Inspect(n, func(m ast.Node) bool {
			if e, ok := m.(ast.Expr); ok {
				if fv, x := fieldOfSel(info, e); fv != nil && fv.Name() == f && identObj(info, x) == src {
					found = true
				}
				if o := identObj(info, e); o != nil && alias[o] == f {
					found = true
				}
			}
			return !found
		})
		return found
	}
	stores := c.fieldStores(info, fi.Decl.Body, nil)
	// copy(dst.F, src.F)
	copied := map[string]bool{}
	for _, call := range callsIn(fi.Decl.Body, true) {
		if id, ok := call.Fun.(*ast.Ident); ok && id.Name == "copy" && len(call.Args) == 2 {
			if fv, x := fieldOfSel(info, call.Args[0]); fv != nil && identObj(info, x) == dst && readsSrc(call.Args[1], fv.Name()) {
				copied[fv.Name()] = true
			}
		}
	}
	for _, f := range c.structFields("tree", typeName) {
		key := name + "/" + typeName + "." + f.Name()
		if why, ok := copyExempt[typeName+"."+f.Name()]; ok {
			// an exempted field must really not be aliased either
			bad := false
			for _, st := range stores {
				if st.field == f && identObj(info, st.recvE) == dst && !st.elem && st.rhs != nil && readsSrc(st.rhs, f.Name()) && isRefType(f.Type()) {
					bad = true
					c.Violation("ALIAS", key, st.pos, "the copy's "+f.Name()+" is assigned the source's "+f.Name()+": the two trees share structure").Clause = "a clone or extracted subtree is fully independent of its source"
				}
			}
			if !bad {
				c.Trivial("FIELDS", key, fi.Decl.Pos(), "exempt: "+why)
			}
			continue
		}
		transferred := copied[f.Name()]
		var aliasAt token.Pos
		fresh := false
		for _, st := range stores {
			if st.field != f || identObj(info, st.recvE) != dst {
				continue
			}
			if st.rhs != nil && readsSrc(st.rhs, f.Name()) {
				transferred = true
			}
			if !st.elem && st.rhs != nil && isRefType(f.Type()) {
				if c.aliasesSource(info, st.rhs, src, f.Name()) {
					aliasAt = st.pos
				} else {
					fresh = true
				}
			}
		}
		if !transferred {
			c.Violation("FIELDS", key, fi.Decl.Pos(), fmt.Sprintf("%s does not transfer %s.%s: a clone/subtree loses it (the field is not in the exemption list of fields the copy rebuilds)", fnName, typeName, f.Name())).Clause = "A clone is an exact copy (same text, including comments)"
		} else {
			c.OK("FIELDS", key, fi.Decl.Pos(), "transferred from the source")
		}
		if isRefType(f.Type()) {
			if aliasAt.IsValid() {
				c.Violation("ALIAS", key, aliasAt, fmt.Sprintf("the copy's %s is the source's own %s (no make/Clone): editing one tree changes the other", f.Name(), f.Name())).Clause = "a clone or extracted subtree is fully independent of its source"
			} else if transferred && (fresh || copied[f.Name()]) {
				c.OK("ALIAS", key, fi.Decl.Pos(), "copy owns fresh storage")
			} else if transferred {
				// element stores only, into storage that NewNode/NewEdge allocated: fine when dst is fresh
				c.OK("ALIAS", key, fi.Decl.Pos(), "elements stored into the copy's own storage")
			}
		}
	}
}

// aliasesSource: the value is the source's field itself (possibly sliced / parenthesised /
// appended to).
func (c *Ctx) aliasesSource(info *types.Info, e ast.Expr, src types.Object, f string) bool {
	switch x := unparen(e).(type) {
	case *ast.SelectorExpr:
		fv, b := fieldOfSel(info, x)
		return fv != nil && fv.Name() == f && identObj(info, b) == src
	case *ast.SliceExpr:
		return c.aliasesSource(info, x.X, src, f)
	case *ast.CallExpr:
		if id, ok := x.Fun.(*ast.Ident); ok && id.Name == "append" && len(x.Args) > 0 {
			return c.aliasesSource(info, x.Args[0], src, f)
		}
		if fn := calleeOf(info, x); fn != nil {
			c.indexAccessors()
			if fv, ok := c.getters[fn]; ok && fv.Name() == f {
				if sel, ok := unparen(x.Fun).(*ast.SelectorExpr); ok && identObj(info, sel.X) == src {
					return true
				}
			}
		}
	}
	return false
}

func (c *Ctx) cloneSkeleton() {
	rec := c.Func("tree", "Tree", "copyTreeRecur")
	cl := c.Func("tree", "Tree", "Clone")
	sub := c.Func("tree", "Tree", "SubTree")
	if rec == nil || cl == nil || sub == nil {
		return
	}
	info := rec.Pkg.TypesInfo
	clause := "A clone is an exact copy ... fully independent of its source"
	isCall := func(call *ast.CallExpr, recv, name string) bool {
		return isRepoFunc(calleeOf(info, call), "tree", recv, name)
	}
	// parameters by role, whatever their order: the copy (*Tree), the branch descended through
	// (*Edge), the copied parent (the *Node given first to ConnectNodes), and optionally the source
	// node itself (redundant: it is the near end of the branch)
	iCopyTree, iCopyNode, iEdge, iNode := -1, -1, -1, -1
	{
		sig := rec.Obj.Type().(*types.Signature)
		var nodeIdx []int
		for i := 0; i < sig.Params().Len(); i++ {
			ts := sig.Params().At(i).Type().String()
			switch {
			case strings.HasSuffix(ts, "tree.Tree"):
				iCopyTree = i
			case strings.HasSuffix(ts, "tree.Edge"):
				iEdge = i
			case strings.HasSuffix(ts, "tree.Node"):
				nodeIdx = append(nodeIdx, i)
			}
		}
		for _, call := range callsIn(rec.Decl.Body, false) {
			if isCall(call, "Tree", "ConnectNodes") && len(call.Args) == 2 {
				for _, i := range nodeIdx {
					if identObj(info, call.Args[0]) == paramObj(info, rec.Decl, i) {
						iCopyNode = i
					}
				}
			}
		}
		for _, i := range nodeIdx {
			if i != iCopyNode {
				iNode = i
			}
		}
	}
	argAt := func(call *ast.CallExpr, i int) ast.Expr {
		if i < 0 || i >= len(call.Args) {
			return nil
		}
		return call.Args[i]
	}
	nParams := rec.Obj.Type().(*types.Signature).Params().Len()
	// --- copyTreeRecur(copytree, copynode, node, edge)
	{
		name := "tree.Tree.copyTreeRecur"
		pCopyTree, pCopyNode, pEdge := paramObj(info, rec.Decl, iCopyTree), paramObj(info, rec.Decl, iCopyNode), paramObj(info, rec.Decl, iEdge)
		o := c.localExpansions(info, rec.Decl.Body)
		// locals bound to call results
		resOf := map[types.Object]*ast.CallExpr{}
		ast.Inspect(rec.Decl.Body, func(n ast.Node) bool {
			if as, ok := n.(*ast.AssignStmt); ok && len(as.Lhs) == 1 && len(as.Rhs) == 1 {
				if call, ok := unparen(as.Rhs[0]).(*ast.CallExpr); ok {
					if ob := identObj(info, as.Lhs[0]); ob != nil {
						resOf[ob] = call
					}
				}
			}
			return true
		})
		var copyNodeCall, connectCall, copyEdgeCall, recurCall *ast.CallExpr
		n := map[string]int{}
		for _, call := range callsIn(rec.Decl.Body, false) {
			switch {
			case isCall(call, "Tree", "CopyNode"):
				copyNodeCall = call
				n["CopyNode"]++
			case isCall(call, "Tree", "ConnectNodes"):
				connectCall = call
				n["ConnectNodes"]++
			case isCall(call, "Tree", "CopyEdge"):
				copyEdgeCall = call
				n["CopyEdge"]++
			case calleeOf(info, call) == rec.Obj:
				recurCall = call
				n["recur"]++
			}
		}
		if copyNodeCall == nil || connectCall == nil || copyEdgeCall == nil || recurCall == nil || n["CopyNode"] != 1 || n["ConnectNodes"] != 1 || n["CopyEdge"] != 1 || n["recur"] != 1 || pEdge == nil {
			c.Undecided("SKELETON", name, rec.Decl.Pos(), fmt.Sprintf("expected exactly one CopyNode, ConnectNodes, CopyEdge and recursive call, found %v", n))
		} else {
			childKey := pEdge.Name() + ".right"
			c.Check(len(copyNodeCall.Args) == 1 && c.canon(info, copyNodeCall.Args[0], o) == childKey, "SKELETON", name+"/CopyNode(child)", copyNodeCall.Pos(),
				"the node copied is the far end of the branch descended through", "CopyNode is applied to "+c.src(copyNodeCall.Args[0])+", not to the far end of the branch being copied").Clause = clause
			isResOf := func(e ast.Expr, call *ast.CallExpr) bool {
				if unparen(e) == ast.Expr(call) {
					return true
				}
				ob := identObj(info, e)
				return ob != nil && resOf[ob] == call
			}
			okConn := len(connectCall.Args) == 2 && identObj(info, connectCall.Args[0]) == pCopyNode && isResOf(connectCall.Args[1], copyNodeCall)
			if sel, ok := unparen(connectCall.Fun).(*ast.SelectorExpr); !ok || identObj(info, sel.X) != pCopyTree {
				okConn = false
			}
			c.Check(okConn, "SKELETON", name+"/ConnectNodes(copy,copychild)", connectCall.Pos(), "only copies are attached to the copy, parent first",
				"ConnectNodes on the copy must join the copied parent to the freshly copied child (got "+c.src(connectCall)+"): a source node attached to the copy makes the trees share structure").Clause = clause
			c.Check(len(copyEdgeCall.Args) == 2 && identObj(info, copyEdgeCall.Args[0]) == pEdge && isResOf(copyEdgeCall.Args[1], connectCall), "SKELETON", name+"/CopyEdge(edge,copyedge)", copyEdgeCall.Pos(),
				"branch attributes copied from the branch descended through onto the new branch", "CopyEdge must copy the descended branch onto the branch just created (got "+c.src(copyEdgeCall)+")").Clause = clause
			// recursion: inside a range over child.br, guarded by e != edge, args (copytree, copychild, child, e)
			st := stackTo(rec.Decl.Body, recurCall)
			var rs *ast.RangeStmt
			for _, s := range st {
				if r, ok := s.(*ast.RangeStmt); ok {
					rs = r
				}
			}
			_ = rs
			elemKey := ""
			okRec := false
			if len(recurCall.Args) == nParams && argAt(recurCall, iEdge) != nil && argAt(recurCall, iCopyTree) != nil && argAt(recurCall, iCopyNode) != nil {
				cont, isElem := c.loopElement(info, rec.Decl.Body, recurCall, argAt(recurCall, iEdge), o)
				elemKey = c.canon(info, argAt(recurCall, iEdge), o)
				okRec = isElem && cont == childKey+".br" &&
					identObj(info, argAt(recurCall, iCopyTree)) == pCopyTree && isResOf(argAt(recurCall, iCopyNode), copyNodeCall) &&
					(iNode < 0 || c.canon(info, argAt(recurCall, iNode), o) == childKey)
			}
			c.Check(okRec, "SKELETON", name+"/recursion", recurCall.Pos(), "recurses over the child's branches in order with (copy, copied child, child, branch)",
				"the recursion must range over the child's own branches and pass (copytree, copied child, child, that branch); got "+c.src(recurCall)).Clause = clause
			if okRec {
				conds, okc := c.pathConds(info, rec.Decl.Body, recurCall, true)
				code := c.condsToBexpr(info, conds, o)
				spec := bCmp(elemKey, token.NEQ, pEdge.Name())
				eq, wit, _, err := gfEquiv(code, spec)
				if !okc || err != nil {
					c.Undecided("SKELETON", name+"/skip-parent-branch", recurCall.Pos(), "guard shape not understood")
				} else {
					c.Check(eq, "SKELETON", name+"/skip-parent-branch", recurCall.Pos(), "every branch of the child except the one descended through is copied",
						"the recursion is guarded by "+code.String()+"; every branch except the one descended through must be copied: "+wit).Clause = clause
				}
			}
		}
	}
	// --- Clone and SubTree
	for _, fi := range []*FuncInfo{cl, sub} {
		name := funcName(fi.Obj)
		o := c.localExpansions(info, fi.Decl.Body)
		var newTreeObj, rootObj types.Object
		var copyNodeCall *ast.CallExpr
		ast.Inspect(fi.Decl.Body, func(n ast.Node) bool {
			if as, ok := n.(*ast.AssignStmt); ok && len(as.Lhs) == 1 && len(as.Rhs) == 1 {
				if call, ok := unparen(as.Rhs[0]).(*ast.CallExpr); ok {
					if isCall(call, "", "NewTree") {
						newTreeObj = identObj(info, as.Lhs[0])
					}
					if isCall(call, "Tree", "CopyNode") {
						rootObj = identObj(info, as.Lhs[0])
						copyNodeCall = call
					}
				}
			}
			return true
		})
		var ret *ast.ReturnStmt
		ast.Inspect(fi.Decl.Body, func(n ast.Node) bool {
			if r, ok := n.(*ast.ReturnStmt); ok {
				ret = r
			}
			return true
		})
		okNew := newTreeObj != nil && ret != nil && len(ret.Results) == 1 && identObj(info, ret.Results[0]) == newTreeObj
		c.Check(okNew, "SKELETON", name+"/fresh-tree", fi.Decl.Pos(), "returns a tree obtained from NewTree()", "the returned tree is not a fresh NewTree(): the name index / root may be shared with the source").Clause = clause
		if !okNew || rootObj == nil {
			if rootObj == nil {
				c.Undecided("SKELETON", name+"/root-copy", fi.Decl.Pos(), "no `x := CopyNode(...)` for the copy's root found")
			}
			continue
		}
		// no field of the source tree stored into the copy
		recv := recvObj(info, fi.Decl)
		shared := false
		for _, st := range c.fieldStores(info, fi.Decl.Body, nil) {
			if identObj(info, st.recvE) == newTreeObj && st.rhs != nil && mentions(info, st.rhs, recv) {
				shared = true
				c.Violation("ALIAS", name+"/Tree."+st.field.Name(), st.pos, "the copy's "+st.field.Name()+" is taken from the source tree").Clause = clause
			}
		}
		if !shared {
			c.OK("ALIAS", name+"/Tree-fields", fi.Decl.Pos(), "no field of the source Tree is stored into the copy")
		}
		// SetRoot(root copy)
		setRoot, recur, reindex := false, 0, false
		srcRootKey := c.canon(info, copyNodeCall.Args[0], o)
		for _, call := range callsIn(fi.Decl.Body, false) {
			sel, _ := unparen(call.Fun).(*ast.SelectorExpr)
			onCopy := sel != nil && identObj(info, sel.X) == newTreeObj
			switch {
			case isCall(call, "Tree", "SetRoot") && onCopy && len(call.Args) == 1 && identObj(info, call.Args[0]) == rootObj:
				setRoot = true
			case calleeOf(info, call) == rec.Obj:
				recur++
				st := stackTo(fi.Decl.Body, call)
				var rs *ast.RangeStmt
				for _, s := range st {
					if r, ok := s.(*ast.RangeStmt); ok {
						rs = r
					}
				}
				_ = rs
				good, elemKey := false, ""
				if len(call.Args) == nParams && argAt(call, iEdge) != nil && argAt(call, iCopyTree) != nil && argAt(call, iCopyNode) != nil {
					cont, isElem := c.loopElement(info, fi.Decl.Body, call, argAt(call, iEdge), o)
					elemKey = c.canon(info, argAt(call, iEdge), o)
					good = isElem && cont == srcRootKey+".br" &&
						identObj(info, argAt(call, iCopyTree)) == newTreeObj && identObj(info, argAt(call, iCopyNode)) == rootObj &&
						(iNode < 0 || c.canon(info, argAt(call, iNode), o) == srcRootKey)
				}
				c.Check(good, "SKELETON", name+"/descend", call.Pos(), "descends over the branches of the copied root in order with (copy, root copy, source root, branch)",
					"the descent must range over the branches of the node whose copy is the new root and pass (copy, root copy, that node, branch); got "+c.src(call)).Clause = clause
				if good {
					conds, okc := c.pathConds(info, fi.Decl.Body, call, true)
					code := c.condsToBexpr(info, conds, o)
					var spec *bexpr
					if fi == cl {
						spec = bConst(true)
					} else {
						spec = bCmp(elemKey+".left", token.EQL, srcRootKey)
					}
					eq, wit, _, err := gfEquiv(code, spec)
					if !okc || err != nil {
						c.Undecided("SKELETON", name+"/descend-guard", call.Pos(), "guard shape not understood")
					} else {
						c.Check(eq, "SKELETON", name+"/descend-guard", call.Pos(), "descends into "+spec.String(), "descent guarded by "+code.String()+", expected "+spec.String()+": "+wit).Clause = clause
					}
				}
			case (isCall(call, "Tree", "UpdateTipIndex") || isCall(call, "Tree", "ReinitIndexes")) && onCopy:
				reindex = true
			}
		}
		c.Check(setRoot, "SKELETON", name+"/SetRoot", fi.Decl.Pos(), "the copy's root is the copied node", "the copy's root is not set to the copied node").Clause = clause
		if recur == 0 {
			c.Violation("SKELETON", name+"/descend", fi.Decl.Pos(), "no call of copyTreeRecur: nothing below the root is copied").Clause = clause
		}
		c.Check(reindex, "SKELETON", name+"/reindex", fi.Decl.Pos(), "the copy's name index is rebuilt on the copy", "the copy's tip-name index is never rebuilt on the copy (UpdateTipIndex/ReinitIndexes on the new tree)").Clause = clause
	}
}

// insertIdenticalForms: every branch created by InsertIdenticalTip gets constant 0; no other
// branch length is written. GraftTreeOnTip and Merge write no length/support at all.
func (c *Ctx) insertIdenticalForms() {
	fi := c.Func("tree", "Tree", "InsertIdenticalTip")
	if fi == nil {
		return
	}
	info := fi.Pkg.TypesInfo
	name := "tree.Tree.InsertIdenticalTip"
	env := c.newLFEnv(info, fi.Decl.Body)
	clause := "identical tips sitting at distance zero from their model"
	// new branches: locals assigned from NewEdge()/ConnectNodes(), in InsertIdenticalTip and in the
	// unexported helpers of the package it calls (each branch of the function may be a helper)
	units := []*FuncInfo{fi}
	seenU := map[*types.Func]bool{fi.Obj: true}
	for i := 0; i < len(units) && len(units) < 10; i++ {
		for _, call := range callsIn(units[i].Decl.Body, true) {
			g := calleeOf(units[i].Pkg.TypesInfo, call)
			if g == nil || seenU[g] || g.Exported() || g.Pkg() != fi.Obj.Pkg() {
				continue
			}
			c.indexAccessors()
			if _, isSetter := c.setters[g]; isSetter {
				continue
			}
			if _, isGetter := c.getters[g]; isGetter {
				continue
			}
			if gi := c.FuncOfObj(g); gi != nil && gi.Decl.Body != nil && !c.isAdjPrimitive(g) {
				seenU[g] = true
				units = append(units, gi)
			}
		}
	}
	total := 0
	for _, u := range units {
		info := u.Pkg.TypesInfo
		env := c.newLFEnv(info, u.Decl.Body)
		newEdges := map[types.Object]token.Pos{}
		ast.Inspect(u.Decl.Body, func(n ast.Node) bool {
			if as, ok := n.(*ast.AssignStmt); ok && len(as.Lhs) == 1 && len(as.Rhs) == 1 {
				if call, ok := unparen(as.Rhs[0]).(*ast.CallExpr); ok {
					fn := calleeOf(info, call)
					if isRepoFunc(fn, "tree", "Tree", "NewEdge") || isRepoFunc(fn, "tree", "Tree", "ConnectNodes") {
						if o := identObj(info, as.Lhs[0]); o != nil {
							newEdges[o] = as.Pos()
						}
					}
				}
			}
			return true
		})
		total += len(newEdges)
		zeroed := map[types.Object]bool{}
		for _, st := range c.fieldStores(info, u.Decl.Body, nil) {
			if st.field.Name() != "length" {
				continue
			}
			ro := identObj(info, st.recvE)
			if _, isNew := newEdges[ro]; !isNew {
				c.Violation("LF", name+"/"+st.recv+".length", st.pos, "InsertIdenticalTip writes the length of a pre-existing branch ("+st.recv+"): path lengths between existing tips change").Clause = "leave every path length between pre-existing tips unchanged"
				continue
			}
			p, err := env.fold(st.rhs)
			if err != nil {
				c.Undecided("LF", name+"/"+st.recv+".length", st.pos, err.Error())
				continue
			}
			v, isC := p.isConst()
			if isC && v.Sign() == 0 && st.op == token.ASSIGN {
				zeroed[ro] = true
			} else {
				c.Violation("LF", name+"/"+st.recv+".length", st.pos, "new branch "+st.recv+" gets length "+p.String()+", must be the constant 0").Clause = clause
			}
		}
		for o, p := range newEdges {
			// the creation must be followed (post-dominated inside its block) by the zero store: accept same block
			c.Check(zeroed[o], "LF", name+"/"+o.Name()+"=0", p, "created branch gets length 0", "created branch "+o.Name()+" never gets length 0 (it keeps the 'absent' sentinel or another value): the new tip is not at distance zero").Clause = clause
		}
	}
	if total < 2 {
		c.Undecided("LF", name+"/new-branches", fi.Decl.Pos(), "fewer than two created branches found")
	}
	// the polytomy shortcut is taken only for a zero-length parent branch
	for _, n := range []struct{ recv, fn string }{{"Tree", "GraftTreeOnTip"}, {"Tree", "Merge"}} {
		g := c.Func("tree", n.recv, n.fn)
		if g == nil {
			continue
		}
		bad := false
		for _, st := range c.fieldStores(g.Pkg.TypesInfo, g.Decl.Body, nil) {
			switch st.field.Name() {
			case "length", "support", "pvalue":
				bad = true
				c.Violation("LF", "tree.Tree."+n.fn+"/"+st.recv+"."+st.field.Name(), st.pos, n.fn+" writes "+st.field.Name()+" of "+st.recv+": the property lets it change no existing length/support").Clause = "leave every path length between pre-existing tips unchanged"
			}
		}
		if !bad {
			c.OK("LF", "tree.Tree."+n.fn+"/no-length-write", g.Decl.Pos(), "writes no branch length/support")
		}
	}
	// shortcut guard
	var ifs []*ast.IfStmt
	ast.Inspect(fi.Decl.Body, func(n ast.Node) bool {
		if is, ok := n.(*ast.IfStmt); ok && is.Else != nil {
			if strings.Contains(c.canon(info, is.Cond, env.o), ".length") {
				ifs = append(ifs, is)
			}
		}
		return true
	})
	if len(ifs) == 1 {
		code := c.toBexpr(info, ifs[0].Cond, env.o)
		// which branch is the shortcut? the one creating fewer nodes (the general case inserts an
		// internal node as well as the tip); with the branches swapped the guard is the negation
		countNew := func(n ast.Node) int {
			k := 0
			for _, call := range callsIn(n, true) {
				if isRepoFunc(calleeOf(info, call), "tree", "Tree", "NewNode") {
					k++
				}
			}
			return k
		}
		if countNew(ifs[0].Else) < countNew(ifs[0].Body) {
			code = bNot(code)
		}
		var lenTerm string
		terms, atoms := map[string]bool{}, map[string]bool{}
		code.collect(terms, atoms)
		for t := range terms {
			if strings.HasSuffix(t, ".length") {
				lenTerm = t
			}
		}
		eq, wit, _, err := gfEquiv(code, bCmp(lenTerm, token.EQL, "0"))
		if err != nil || lenTerm == "" {
			c.Undecided("GF", name+"/polytomy-shortcut", ifs[0].Pos(), "guard shape not understood")
		} else {
			c.Check(eq, "GF", name+"/polytomy-shortcut", ifs[0].Pos(), "the tip is attached directly to the parent only when the tip's branch has length exactly 0",
				"the new tip is attached directly to the parent under "+code.String()+" (expected length == 0): for other lengths the new tip is not at distance zero from its model: "+wit).Clause = clause
		}
	} else {
		c.Undecided("GF", name+"/polytomy-shortcut", fi.Decl.Pos(), fmt.Sprintf("expected one if/else on the parent branch length, found %d", len(ifs)))
	}
}

// removeSingleForms: surviving branch = child + parent length (both present), support max.
func (c *Ctx) removeSingleForms() {
	fi := c.Func("tree", "Tree", "removeSingleNodesRecur")
	if fi == nil {
		return
	}
	info := fi.Pkg.TypesInfo
	name := "tree.Tree.removeSingleNodesRecur"
	env := c.newLFEnv(info, fi.Decl.Body)
	eParam := paramObj(info, fi.Decl, 2)
	if eParam == nil {
		c.Undecided("LF", name, fi.Decl.Pos(), "no branch parameter")
		return
	}
	clause := "removing single-child nodes ... leave every path length between pre-existing tips unchanged"
	nl, ns := 0, 0
	type unitStore struct {
		st   fieldStore
		info *types.Info
		body *ast.BlockStmt
		env  *lfEnv
	}
	var stores []unitStore
	for _, u := range c.lfUnits(fi) {
		// the function itself, and the helpers it hands the per-child work to (parameters read as the
		// caller's arguments)
		if u.fi != fi && u.fi.Obj == fi.Obj {
			continue
		}
		var o *canonOpts
		if u.fi != fi {
			o = u.env.o
		}
		for _, st := range c.fieldStores(u.fi.Pkg.TypesInfo, u.fi.Decl.Body, o) {
			stores = append(stores, unitStore{st, u.fi.Pkg.TypesInfo, u.fi.Decl.Body, u.env})
		}
	}
	for _, us := range stores {
		st, info, env := us.st, us.info, us.env
		ubody := us.body
		switch st.field.Name() {
		case "length":
			nl++
			p, err := env.fold(st.rhs)
			if err != nil {
				c.Undecided("LF", name+"/length", st.pos, err.Error())
				continue
			}
			want := pAtom(st.recv + ".length").add(pAtom(eParam.Name() + ".length"))
			if st.op == token.ADD_ASSIGN {
				want = pAtom(eParam.Name() + ".length")
			}
			c.Check(p.equal(want), "LF", name+"/length", st.pos, "surviving branch length = "+p.String(), "surviving branch gets "+p.String()+", must be its own length plus the removed branch's ("+want.String()+")").Clause = clause
			// guard: both present
			conds, okc := c.pathConds(info, ubody, st.node, true)
			var rel []cond
			for _, cd := range conds {
				if cd.Expr != nil && strings.Contains(c.canon(info, cd.Expr, env.o), "NIL_LENGTH") {
					rel = append(rel, cd)
				}
			}
			code := c.condsToBexpr(info, rel, env.o)
			spec := bAnd(bCmp(st.recv+".length", token.NEQ, "NIL_LENGTH"), bCmp(eParam.Name()+".length", token.NEQ, "NIL_LENGTH"))
			eq, wit, _, err := gfEquiv(code, spec)
			if !okc || err != nil {
				c.Undecided("GF", name+"/length-present", st.pos, "guard shape not understood")
			} else {
				c.Check(eq, "GF", name+"/length-present", st.pos, "summed only when both lengths are present", "lengths are summed under "+code.String()+", expected both present ("+spec.String()+"): "+wit).Clause = clause
			}
		case "support":
			ns++
			p, err := env.fold(st.rhs)
			if err != nil {
				c.Undecided("LF", name+"/support", st.pos, err.Error())
				continue
			}
			a, q, ok := p.singleAtom()
			good := ok && q.Cmp(big.NewRat(1, 1)) == 0 && strings.HasPrefix(a, "max(") && strings.Contains(a, st.recv+".support") && strings.Contains(a, eParam.Name()+".support")
			c.Check(good, "LF", name+"/support", st.pos, "surviving branch support = "+p.String(), "surviving branch gets support "+p.String()+", must be the max of its own and the removed branch's").Clause = "support = max"
		}
	}
	if nl == 0 {
		c.Violation("LF", name+"/length", fi.Decl.Pos(), "the removed branch's length is added nowhere: path lengths shrink").Clause = clause
	}
	if ns == 0 {
		c.Violation("LF", name+"/support", fi.Decl.Pos(), "the removed branch's support is merged nowhere").Clause = "support = max"
	}
	// the node is removed exactly when it has two neighbours and is not the root
	var first *ast.CallExpr
	for _, call := range callsIn(fi.Decl.Body, false) {
		if isRepoFunc(calleeOf(info, call), "tree", "Node", "delNeighbor") {
			first = call
			break
		}
	}
	if first == nil {
		c.Undecided("GF", name+"/removal-guard", fi.Decl.Pos(), "no delNeighbor found")
		return
	}
	cur := paramObj(info, fi.Decl, 0)
	conds, okc := c.pathConds(info, fi.Decl.Body, first, false)
	code := c.inlineNneigh(c.inlineTip(c.condsToBexpr(info, conds, env.o)))
	rootTerm := recvObj(info, fi.Decl).Name() + ".root"
	spec := bAnd(bCmp("len("+cur.Name()+".neigh)", token.EQL, "2"), bCmp(cur.Name(), token.NEQ, rootTerm))
	eq, wit, _, err := gfEquiv(code, spec)
	if !okc || err != nil {
		c.Undecided("GF", name+"/removal-guard", first.Pos(), fmt.Sprintf("guard shape not understood: %v", err))
	} else {
		c.Check(eq, "GF", name+"/removal-guard", first.Pos(), "a node is suppressed iff it has exactly two neighbours and is not the root", "node suppressed under "+code.String()+", expected "+spec.String()+": "+wit).Clause = "no single-child inner node is left / only single-child nodes are removed"
	}
}

// mergeRefusal: Merge returns non-nil iff a tree is unrooted; and for each name of one index
// present in the other.
func (c *Ctx) mergeRefusal() {
	fi := c.Func("tree", "Tree", "Merge")
	if fi == nil {
		return
	}
	info := fi.Pkg.TypesInfo
	name := "tree.Tree.Merge"
	t1 := recvObj(info, fi.Decl)
	t2 := paramObj(info, fi.Decl, 0)
	clause := "merging two rooted trees ... add exactly the requested tips"
	var rets []*ast.ReturnStmt
	ast.Inspect(fi.Decl.Body, func(n ast.Node) bool {
		if r, ok := n.(*ast.ReturnStmt); ok && !returnsNilError(info, r) {
			rets = append(rets, r)
		}
		return true
	})
	// (1) rootedness
	foundRooted, foundShared := false, false
	for _, r := range rets {
		conds, okc := c.pathConds(info, fi.Decl.Body, r, true)
		if !okc {
			continue
		}
		code := c.condsToBexpr(info, conds, nil)
		k := code.String()
		if strings.Contains(k, "Rooted()") && !foundRooted {
			// only the conjuncts about rootedness
			var rel []cond
			for _, cd := range conds {
				if cd.Expr != nil && strings.Contains(c.canon(info, cd.Expr, nil), "Rooted()") {
					rel = append(rel, cd)
				}
			}
			code = c.condsToBexpr(info, rel, nil)
			a, b := bAtom(t1.Name()+".Rooted()"), bAtom(t2.Name()+".Rooted()")
			eq, wit, _, err := gfEquiv(code, bOr(bNot(a), bNot(b)))
			if err != nil {
				c.Undecided("GF", name+"/unrooted-refused", r.Pos(), err.Error())
			} else {
				c.Check(eq, "GF", name+"/unrooted-refused", r.Pos(), "error iff one of the trees is unrooted", "Merge refuses under "+code.String()+", must refuse iff one of the two trees is unrooted: "+wit).Clause = "merging two rooted trees"
			}
			foundRooted = true
		}
	}
	if !foundRooted {
		c.Violation("GF", name+"/unrooted-refused", fi.Decl.Pos(), "no error return depends on Rooted(): unrooted inputs are merged").Clause = "merging two rooted trees"
	}
	// (2) shared names: range over X.tipIndex, look-up in Y.tipIndex with the range key, found -> return non-nil
	ast.Inspect(fi.Decl.Body, func(n ast.Node) bool {
		rs, ok := n.(*ast.RangeStmt)
		if !ok || rs.Key == nil {
			return true
		}
		fv, x := fieldOfSel(info, rs.X)
		if fv == nil || fv.Name() != "tipIndex" {
			return true
		}
		owner := identObj(info, x)
		other := t2
		if owner == t2 {
			other = t1
		}
		keyObj := identObj(info, rs.Key)
		var okObj types.Object
		ast.Inspect(rs.Body, func(m ast.Node) bool {
			if as, ok := m.(*ast.AssignStmt); ok && len(as.Lhs) == 2 && len(as.Rhs) == 1 {
				if ix, ok := unparen(as.Rhs[0]).(*ast.IndexExpr); ok {
					if fv2, y := fieldOfSel(info, ix.X); fv2 != nil && fv2.Name() == "tipIndex" && identObj(info, y) == other && identObj(info, ix.Index) == keyObj {
						okObj = identObj(info, as.Lhs[1])
					}
				}
			}
			return true
		})
		if okObj == nil {
			return true
		}
		for _, r := range rets {
			if !nodeContains(rs.Body, r.Pos()) {
				continue
			}
			conds, okc := c.pathConds(info, fi.Decl.Body, r, true)
			if !okc {
				continue
			}
			code := c.condsToBexpr(info, conds, nil)
			eq, wit, _, err := gfEquiv(code, bAtom(okObj.Name()))
			if err != nil {
				c.Undecided("ERRFLOW", name+"/shared-name-refused", r.Pos(), err.Error())
			} else {
				c.Check(eq, "ERRFLOW", name+"/shared-name-refused", r.Pos(), "every name of one index found in the other returns an error", "the shared-name error is returned under "+code.String()+", must be returned whenever the look-up succeeds: "+wit).Clause = clause
			}
			foundShared = true
		}
		return true
	})
	// (2') the search extracted into a predicate: `if t.sharesName(t2) { return <error> }` where the
	// predicate ranges over one index, looks each name up in the other and returns true exactly when
	// the look-up succeeds (false at the end)
	if !foundShared {
		for _, r := range rets {
			conds, okc := c.pathConds(info, fi.Decl.Body, r, true)
			if !okc {
				continue
			}
			// the positive conditions on the way to this return (the negations of earlier early
			// returns do not matter here): exactly one, a call
			var pos []cond
			for _, cd := range conds {
				if cd.Expr != nil && !cd.Neg {
					pos = append(pos, cd)
				}
			}
			var call *ast.CallExpr
			ncall := 0
			for _, cd := range pos {
				if cl, ok := unparen(cd.Expr).(*ast.CallExpr); ok {
					if g := calleeOf(info, cl); g != nil && !g.Exported() && g.Pkg() == fi.Obj.Pkg() && c.FuncOfObj(g) != nil {
						call = cl
						ncall++
					}
				}
			}
			if ncall != 1 {
				continue
			}
			g := calleeOf(info, call)
			gi := c.FuncOfObj(g)
			if g == nil || gi == nil || gi.Decl.Body == nil || g.Exported() || g.Pkg() != fi.Obj.Pkg() {
				continue
			}
			// both trees reach the predicate (receiver and/or arguments)
			uses := map[types.Object]bool{}
			ast.Inspect(call, func(m ast.Node) bool {
				if id, ok := m.(*ast.Ident); ok {
					if o := info.Uses[id]; o == t1 || o == t2 {
						uses[o] = true
					}
				}
				return true
			})
			if len(uses) != 2 {
				continue
			}
			ginfo := gi.Pkg.TypesInfo
			good, nTrue, nFalse := true, 0, 0
			var okObj types.Object
			var loop *ast.RangeStmt
			ast.Inspect(gi.Decl.Body, func(m ast.Node) bool {
				if rs, ok := m.(*ast.RangeStmt); ok && rs.Key != nil && loop == nil {
					if fv, _ := fieldOfSel(ginfo, rs.X); fv != nil && fv.Name() == "tipIndex" {
						loop = rs
					}
				}
				return true
			})
			if loop == nil {
				continue
			}
			ownerX := func() types.Object { _, x := fieldOfSel(ginfo, loop.X); return identObj(ginfo, x) }()
			keyObj := identObj(ginfo, loop.Key)
			ast.Inspect(loop.Body, func(m ast.Node) bool {
				if as, ok := m.(*ast.AssignStmt); ok && len(as.Lhs) == 2 && len(as.Rhs) == 1 {
					if ix, ok := unparen(as.Rhs[0]).(*ast.IndexExpr); ok {
						if fv2, y := fieldOfSel(ginfo, ix.X); fv2 != nil && fv2.Name() == "tipIndex" && identObj(ginfo, y) != ownerX && identObj(ginfo, y) != nil && identObj(ginfo, ix.Index) == keyObj {
							okObj = identObj(ginfo, as.Lhs[1])
						}
					}
				}
				return true
			})
			if okObj == nil {
				continue
			}
			ast.Inspect(gi.Decl.Body, func(m ast.Node) bool {
				rt, ok := m.(*ast.ReturnStmt)
				if !ok || len(rt.Results) != 1 {
					return true
				}
				tv, isC := ginfo.Types[rt.Results[0]]
				if !isC || tv.Value == nil {
					good = false
					return true
				}
				if tv.Value.String() == "true" {
					nTrue++
					cds, okc := c.pathConds(ginfo, gi.Decl.Body, rt, true)
					if !okc {
						good = false
						return true
					}
					if eq, _, _, err := gfEquiv(c.condsToBexpr(ginfo, cds, nil), bAtom(okObj.Name())); err != nil || !eq {
						good = false
					}
				} else {
					nFalse++
					if nodeContains(loop, rt.Pos()) {
						good = false
					}
				}
				return true
			})
			c.Check(good && nTrue == 1 && nFalse == 1, "ERRFLOW", name+"/shared-name-refused", r.Pos(), "the error is returned exactly when the predicate "+g.Name()+" finds a name of one index in the other", "the predicate "+g.Name()+" does not answer true exactly when a name of one index is found in the other: a shared tip name is not refused").Clause = clause
			foundShared = true
		}
	}
	if !foundShared {
		c.Violation("ERRFLOW", name+"/shared-name-refused", fi.Decl.Pos(), "Merge does not return an error for a tip name present in both trees (no look-up of each name of one index in the other followed by an error return)").Clause = clause
	}
	// (3) every mutation of the tree comes after those refusals: first ConnectNodes/NewNode dominated by the loop
	// (4) indexes rebuilt and their error returned
	reinit := false
	for _, call := range callsIn(fi.Decl.Body, false) {
		if isRepoFunc(calleeOf(info, call), "tree", "Tree", "ReinitIndexes") {
			reinit = true
		}
	}
	c.Check(reinit, "PATH", name+"/reindex", fi.Decl.Pos(), "indexes rebuilt after the merge", "Merge does not rebuild the indexes: tips of the second tree cannot be looked up").Clause = clause
}
