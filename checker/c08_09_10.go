package main

import (
	"fmt"
	"go/ast"
	"go/token"
	"go/types"
	"strings"
)

func init() {
	props["C08"] = checkC08
	props["C09"] = checkC09
	props["C10"] = checkC10
}

// workerOf returns the closure of fi that ranges over a channel of tree.Trees.
func (c *Ctx) workerOf(fi *FuncInfo) (*ast.FuncLit, *ast.RangeStmt) {
	info := fi.Pkg.TypesInfo
	for _, fl := range funcLits(fi.Decl.Body) {
		var rs *ast.RangeStmt
		ast.Inspect(fl.Body, func(n ast.Node) bool {
			if r, ok := n.(*ast.RangeStmt); ok && rs == nil {
				if ch, ok := info.TypeOf(r.X).Underlying().(*types.Chan); ok && strings.HasSuffix(ch.Elem().String(), "tree.Trees") {
					rs = r
				}
			}
			return true
		})
		if rs != nil {
			return fl, rs
		}
	}
	return nil, nil
}

// ------------------------------------------------------------------------------------ C08

func checkC08(c *Ctx) {
	c.Decides("PATH: Compare re-indexes the reference tree unconditionally before comparing, and leaves the loop over the compared tree's branches early only once the verdict is already false")
	c.compareRules()
	// the split look-up these results rest on is orientation/rooting independent (shared with C04)
	c.Decides("SYM (shared with C04): the hash under which a split is looked up is invariant under exchanging the two sides of the branch, so the result does not depend on where either tree is rooted")
	c.edgeHashSym()
	c.Decides("LF: the record sent by Compare carries (id, total−common, total2−common, common) where total counts the reference branches and total2/common the compared ones; GF: a branch is counted exactly when (tips ∨ it is not a tip branch), at every counting site of Compare and CompareWeighted and in CommonEdges")
	c.Decides("DEP: the 'identical' verdict of Compare depends on the reference-side count as well as on the compared-side look-ups (a verdict that never looks at how many reference splits exist is wrong when the compared tree is a strict contraction of the reference)")
	c.Decides("ERRFLOW: Trees.Err, ReinitIndexes and CompareTipIndexes errors reach the Err field of the record; CompareTipIndexes returns a non-nil error on each of its mismatch branches and tests both sizes and every name")
	c.DoesNotDecide("correctness of the split look-up itself (C04), independence from rooting and child order, the weighted terms' values")
	clause := "reports the trees identical exactly when both 'only' counts are zero"
	for _, name := range []string{"Compare", "CompareWeighted"} {
		fi := c.Func("tree", "", name)
		if fi == nil {
			continue
		}
		info := fi.Pkg.TypesInfo
		fl, _ := c.workerOf(fi)
		if fl == nil {
			c.Undecided("ANCHOR", "tree."+name+"#worker", fi.Decl.Pos(), "worker closure not found")
			continue
		}
		tips := paramObj(info, fi.Decl, 2)
		// GF counting sites: `X++` or append(...) guarded by a condition that mentions tips
		n := 0
		// the function itself, and the unexported helpers it hands the tips option to (the loops
		// over the branches may have been extracted): (body, the option as seen there)
		type cunit struct {
			body *ast.BlockStmt
			tips types.Object
		}
		units := []cunit{{fi.Decl.Body, tips}}
		for _, call := range callsIn(fi.Decl.Body, true) {
			g := calleeOf(info, call)
			gi := c.FuncOfObj(g)
			if g == nil || gi == nil || gi.Decl.Body == nil || g.Exported() || g.Pkg() != fi.Obj.Pkg() {
				continue
			}
			for i, a := range call.Args {
				if identObj(info, a) == tips {
					if p := paramObj(info, gi.Decl, i); p != nil {
						units = append(units, cunit{gi.Decl.Body, p})
					}
				}
			}
		}
		var curBody *ast.BlockStmt
		countSite := func(nd ast.Node, what string) {
			body, tips := curBody, tips
			for _, u := range units {
				if u.body == curBody {
					tips = u.tips
				}
			}
			conds, okc := c.pathConds(info, body, nd, true)
			if !okc {
				return
			}
			var rel []cond
			var elem string
			for _, cd := range conds {
				if cd.Expr != nil && mentions(info, cd.Expr, tips) {
					rel = append(rel, cd)
					// the branch: the X in X.Right().Tip()
					ast.Inspect(cd.Expr, func(m ast.Node) bool {
						if call, ok := m.(*ast.CallExpr); ok {
							if g := calleeOf(info, call); g != nil && isRepoFunc(g, "tree", "Node", "Tip") {
								k := c.canon(info, call, nil)
								elem = strings.TrimSuffix(k, ".right.Tip()")
							}
						}
						return true
					})
				}
			}
			if len(rel) == 0 {
				return
			}
			n++
			key := fmt.Sprintf("tree.%s/count-guard#%d(%s)", name, n, what)
			code := c.inlineTip(c.condsToBexpr(info, rel, nil))
			if elem == "" {
				// the tip test sits in a predicate (`countedEdge(e, tips)`): the branch is the X of the
				// len(X.right.neigh) term the inlined condition compares with 1
				terms, atoms := map[string]bool{}, map[string]bool{}
				code.collect(terms, atoms)
				for t := range terms {
					if strings.HasPrefix(t, "len(") && strings.HasSuffix(t, ".right.neigh)") {
						elem = strings.TrimSuffix(strings.TrimPrefix(t, "len("), ".right.neigh)")
					}
				}
			}
			spec := bOr(bAtom(tips.Name()), bNot(bCmp("len("+elem+".right.neigh)", token.EQL, "1")))
			// other conjuncts (ok &&) may strengthen the guard: require code restricted to tips/tip terms ⇔ spec
			code = dropAtomsExcept(code, map[string]bool{tips.Name(): true}, "len("+elem+".right.neigh)")
			ok2, wit, _, err := gfEquiv(code, spec)
			if err != nil {
				c.Undecided("GF", key, nd.Pos(), err.Error())
			} else if ok2 {
				c.OK("GF", key, nd.Pos(), "counted iff tips || !tip-branch")
			} else {
				c.Violation("GF", key, nd.Pos(), "branch counted under "+code.String()+"; property: optionally counting tip branches, i.e. "+spec.String()+" ("+wit+")").Clause = "optionally counting tip branches"
			}
		}
		seenBody := map[*ast.BlockStmt]bool{}
		for _, u := range units {
			if seenBody[u.body] {
				continue
			}
			seenBody[u.body] = true
			curBody = u.body
			ast.Inspect(u.body, func(nd ast.Node) bool {
				switch x := nd.(type) {
				case *ast.IncDecStmt:
					if x.Tok == token.INC {
						countSite(x, types.ExprString(x.X))
					}
				case *ast.AssignStmt:
					if len(x.Rhs) == 1 {
						if call, ok := unparen(x.Rhs[0]).(*ast.CallExpr); ok {
							if id, ok := call.Fun.(*ast.Ident); ok && id.Name == "append" {
								countSite(x, types.ExprString(x.Lhs[0]))
							}
						}
					}
				}
				return true
			})
		}
		if n == 0 {
			c.Undecided("GF", "tree."+name+"/count-guard", fi.Decl.Pos(), "no counting site guarded by the tips option found")
		}
		// the record
		var lit *ast.CompositeLit
		ast.Inspect(fl.Body, func(nd ast.Node) bool {
			if snd, ok := nd.(*ast.SendStmt); ok {
				if cl, ok := unparen(snd.Value).(*ast.CompositeLit); ok {
					lit = cl
				}
			}
			return true
		})
		if lit == nil {
			c.Undecided("LF", "tree."+name+"/record", fl.Pos(), "no record literal sent on the result channel")
			continue
		}
		fields := c.litFields(info, lit)
		c.compareEntryGuards(fi, fl, name)
		if name == "Compare" {
			c.compareRecord(fi, fl, fields, lit)
			c.sametreeDep(fi, fl, clause)
			c.compareDeep(fi, fl)
		} else {
			c.compareWeightedTerms(fi, fl, fields)
		}
		// Err field: carries the accumulated error variable
		if e, ok := fields["Err"]; ok {
			v := identObj(info, e)
			c.Check(v != nil && isErrorType(v.Type()), "ERRFLOW", "tree."+name+"/record.Err", e.Pos(), "record carries the per-tree error variable", "the Err field of the record is not the per-tree error variable").Clause = "trees on different taxa are rejected with an error"
		} else {
			c.Violation("ERRFLOW", "tree."+name+"/record.Err", lit.Pos(), "the record has no Err field value").Clause = "trees on different taxa are rejected with an error"
		}
		c.workerErrFlow("tree", name, nil, "trees on different taxa are rejected with an error")
	}
	c.compareTipIndexesRule()
	c.Decides("SIDES: CommonEdges (function and method), Compare and CompareWeighted never assign to the parameter of one side a value built from the parameter of the other side (their results are reported per side)")
	for _, fi := range []*FuncInfo{c.Func("tree", "", "CommonEdges"), c.Func("tree", "Tree", "CommonEdges"), c.Func("tree", "", "Compare"), c.Func("tree", "", "CompareWeighted")} {
		if fi != nil {
			c.sidesKept("SIDES", fi, "the per-side counts are those of the side they are named after")
		}
	}
	c.Floor("SIDES", 2)
	c.Decides("ARGSWAP: the compare command hands its two boolean options (count tip branches / identical-only) to Compare and CompareWeighted in the positions of the parameters they are named after")
	c.argSwapFuncs("ARGSWAP", c.funcsInFiles("cmd/comparetrees.go", "cmd/compareedges.go", "cmd/compare.go"), func(fn *types.Func) bool {
		return isRepoFunc(fn, "tree", "", "Compare") || isRepoFunc(fn, "tree", "", "CompareWeighted")
	}, "optionally counting tip branches")
	c.Floor("ARGSWAP", 1)
	c.Decides("BREAK-IDENTICAL: every break that leaves a loop over branches in Compare / CompareWeighted (worker closures included) sits under the un-negated identical-only parameter")
	c.breakIdentical("BREAK-IDENTICAL", []*FuncInfo{c.Func("tree", "", "Compare"), c.Func("tree", "", "CompareWeighted")}, "the common / reference-only / compared-only counts are exact")
	c.Floor("BREAK-IDENTICAL", 4)
	c.Decides("PREFILTER-SOUND: the linear search FindEdge skips a candidate before the bitset comparison only on tip-ness, hash code or bitsets (nothing that two branches defining the same split may disagree on); SIBLING-ARGS: the compare trees command hands Compare and CompareWeighted the same option variables for the parameters they share")
	if c.prefilterSound("PREFILTER-SOUND", c.Func("tree", "Edge", "FindEdge"), "counts exactly the splits present in both / only in one") == 0 {
		c.Undecided("PREFILTER-SOUND", "tree.Edge.FindEdge", token.NoPos, "no skipped candidate found in FindEdge (the tip-ness and hash code shortcuts were the instances confirmed by hand)")
	}
	c.siblingArgs("SIBLING-ARGS", c.funcsInFiles("cmd/comparetrees.go"), func(fn *types.Func) bool { return isRepoFunc(fn, "tree", "", "Compare") }, func(fn *types.Func) bool { return isRepoFunc(fn, "tree", "", "CompareWeighted") }, "optionally counting tip branches")
	c.Floor("SIBLING-ARGS", 3)
	c.Decides("INDEX-VALUE: EdgeIndex.Value returns the record stored for the branch, or a copy with its fields unchanged (the lengths and ranks the comparison reads are the ones it wrote)")
	c.indexValueIsStored("INDEX-VALUE", "the weighted variant's three sums are Σ over the corresponding classes of the recorded lengths")
	c.Floor("INDEX-VALUE", 1)
	// CommonEdges (pairwise variant)
	if fi := c.Func("tree", "", "CommonEdges"); fi != nil {
		info := fi.Pkg.TypesInfo
		tips := paramObj(info, fi.Decl, 2)
		ast.Inspect(fi.Decl.Body, func(nd ast.Node) bool {
			inc, ok := nd.(*ast.IncDecStmt)
			if !ok || c.canon(info, inc.X, nil) != "tree1" {
				return true
			}
			conds, okc := c.pathConds(info, fi.Decl.Body, inc, true)
			if !okc {
				return true
			}
			code := c.inlineTip(c.condsToBexpr(info, conds, nil))
			spec := bOr(bAtom(tips.Name()), bNot(bCmp("len(e.right.neigh)", token.EQL, "1")))
			ok2, wit, _, err := gfEquiv(code, spec)
			if err == nil {
				c.Check(ok2, "GF", "tree.CommonEdges/count-guard", inc.Pos(), "counted iff tips || !tip-branch", "reference branch counted under "+code.String()+": "+wit).Clause = "optionally counting tip branches"
			}
			return true
		})
		c.Require("GF/tree.CommonEdges/count-guard", "LF/tree.CommonEdges/only-reference", "GF/tree.CommonEdges/common-iff-found")
		// common++ exactly when FindEdge found the split among the other tree's branches
		ast.Inspect(fi.Decl.Body, func(nd ast.Node) bool {
			inc, ok := nd.(*ast.IncDecStmt)
			if !ok || inc.Tok != token.INC || c.canon(info, inc.X, nil) != "common" {
				return true
			}
			// the variable that receives FindEdge's result
			var found types.Object
			ast.Inspect(fi.Decl.Body, func(m ast.Node) bool {
				if as, ok := m.(*ast.AssignStmt); ok && len(as.Rhs) == 1 && len(as.Lhs) >= 1 {
					if cl, ok := unparen(as.Rhs[0]).(*ast.CallExpr); ok && isRepoFunc(calleeOf(info, cl), "tree", "Edge", "FindEdge") {
						found = identObj(info, as.Lhs[0])
					}
				}
				return true
			})
			good := false
			if conds, okc := c.pathConds(info, fi.Decl.Body, inc, true); okc && found != nil {
				for _, cd := range conds {
					if cd.Expr == nil {
						continue
					}
					if o, nonNil, isNil := nilTest(info, cd.Expr); isNil && o == found && (nonNil != cd.Neg) {
						good = true
					}
				}
			}
			c.Check(good, "GF", "tree.CommonEdges/common-iff-found", inc.Pos(), "common counted when FindEdge returned a branch", "`common` is not incremented exactly where FindEdge has returned a branch (non-nil)").Clause = "in both"
			return true
		})
		env := c.newLFEnv(info, fi.Decl.Body)
		// tree1 = tree1 - common
		nOnly := 0
		ast.Inspect(fi.Decl.Body, func(nd ast.Node) bool {
			as, ok := nd.(*ast.AssignStmt)
			if ok && len(as.Lhs) == 1 && len(as.Rhs) == 1 && c.canon(info, as.Lhs[0], nil) == "tree1" {
				switch as.Tok {
				case token.ASSIGN:
					p, err := env.fold(as.Rhs[0])
					if err == nil {
						nOnly++
						c.Check(p.String() == "-common + tree1", "LF", "tree.CommonEdges/only-reference", as.Pos(), "tree1 = total − common", "reference-only count computed as "+p.String()).Clause = "exactly the number of splits found only in the reference"
					}
				case token.SUB_ASSIGN:
					p, err := env.fold(as.Rhs[0])
					if err == nil {
						nOnly++
						c.Check(p.String() == "common", "LF", "tree.CommonEdges/only-reference", as.Pos(), "tree1 -= common", "reference-only count computed as tree1 - ("+p.String()+")").Clause = "exactly the number of splits found only in the reference"
					}
				}
			}
			return true
		})
		if nOnly == 0 {
			// no update of the counter: the successful return computes the difference itself
			ast.Inspect(fi.Decl.Body, func(nd ast.Node) bool {
				r, ok := nd.(*ast.ReturnStmt)
				if !ok || len(r.Results) != 3 || !isNilIdent(info, r.Results[2]) {
					return true
				}
				if p, err := env.fold(r.Results[0]); err == nil {
					c.Check(p.String() == "-common + tree1", "LF", "tree.CommonEdges/only-reference", r.Pos(), "returns total − common", "reference-only count returned as "+p.String()).Clause = "exactly the number of splits found only in the reference"
				}
				return true
			})
		}
	}
	c.Decides("CMP: the tip order behind the bit sets of both trees (SortedTips) is a strict comparison of plain names, so the same taxa get the same bit positions in both trees whatever their child order or rooting")
	if fi := c.Func("tree", "Tree", "SortedTips"); fi != nil {
		c.cmpTotal("CMP", []*FuncInfo{fi}, "independent of child order and rooting")
	}
	c.Floor("CMP", 1)
	c.Floor("GF", 5)
	c.Floor("LF", 3)
	c.Floor("ERRFLOW", 6)
}

// dropAtomsExcept keeps only sub-formulas over the given atoms / term; other conjuncts of a
// conjunction are dropped (they can only strengthen a guard).
func dropAtomsExcept(b *bexpr, atoms map[string]bool, term string) *bexpr {
	var rel func(x *bexpr) bool
	rel = func(x *bexpr) bool {
		switch x.op {
		case "atom":
			return atoms[x.atom]
		case "cmp":
			return x.a == term || x.b == term
		case "not":
			return rel(x.l)
		case "and", "or":
			return rel(x.l) || rel(x.r)
		}
		return true
	}
	if b.op == "and" {
		l, r := rel(b.l), rel(b.r)
		switch {
		case l && r:
			return bAnd(dropAtomsExcept(b.l, atoms, term), dropAtomsExcept(b.r, atoms, term))
		case l:
			return dropAtomsExcept(b.l, atoms, term)
		case r:
			return dropAtomsExcept(b.r, atoms, term)
		}
		return bConst(true)
	}
	return b
}

// litFields maps field names to value expressions for keyed and positional struct literals.
func (c *Ctx) litFields(info *types.Info, lit *ast.CompositeLit) map[string]ast.Expr {
	out := map[string]ast.Expr{}
	t := info.TypeOf(lit)
	if p, ok := t.(*types.Pointer); ok {
		t = p.Elem()
	}
	st, ok := t.Underlying().(*types.Struct)
	if !ok {
		return out
	}
	for i, e := range lit.Elts {
		if kv, ok := e.(*ast.KeyValueExpr); ok {
			if id, ok := kv.Key.(*ast.Ident); ok {
				out[id.Name] = kv.Value
			}
		} else if i < st.NumFields() {
			out[st.Field(i).Name()] = e
		}
	}
	return out
}

// recordFields: the fields of a record given as a composite literal, or built by a constructor helper
// of the repository whose body is a single `return T{...}` (or a call of another such helper): the
// helper's parameters are replaced by the arguments of the call.
func (c *Ctx) recordFields(info *types.Info, e ast.Expr, depth int) map[string]ast.Expr {
	e = unparen(e)
	if u, ok := e.(*ast.UnaryExpr); ok && u.Op == token.AND {
		e = unparen(u.X)
	}
	if lit, ok := e.(*ast.CompositeLit); ok {
		return c.litFields(info, lit)
	}
	call, ok := e.(*ast.CallExpr)
	if !ok || depth == 0 {
		return nil
	}
	g := calleeOf(info, call)
	if g == nil || !inRepo(g) {
		return nil
	}
	gi := c.FuncOfObj(g)
	if gi == nil || gi.Decl.Body == nil || len(gi.Decl.Body.List) != 1 {
		return nil
	}
	ret, ok := gi.Decl.Body.List[0].(*ast.ReturnStmt)
	if !ok || len(ret.Results) != 1 {
		return nil
	}
	ginfo := gi.Pkg.TypesInfo
	inner := c.recordFields(ginfo, ret.Results[0], depth-1)
	if inner == nil {
		return nil
	}
	out := map[string]ast.Expr{}
	for k, v := range inner {
		out[k] = v
		if po := identObj(ginfo, v); po != nil {
			for i := range call.Args {
				if paramObj(ginfo, gi.Decl, i) == po {
					out[k] = call.Args[i]
				}
			}
		}
	}
	return out
}

func (c *Ctx) compareRecord(fi *FuncInfo, fl *ast.FuncLit, fields map[string]ast.Expr, lit *ast.CompositeLit) {
	info := fi.Pkg.TypesInfo
	env := c.newLFEnv(info, fl.Body)
	// counters: total (launcher, reference), total2 / common (worker)
	// identify by where they are incremented
	incIn := func(body ast.Node, skip ast.Node) map[string]bool {
		out := map[string]bool{}
		ast.Inspect(body, func(n ast.Node) bool {
			if n == skip {
				return false
			}
			if inc, ok := n.(*ast.IncDecStmt); ok && inc.Tok == token.INC {
				out[c.canon(info, inc.X, nil)] = true
			}
			return true
		})
		return out
	}
	launcherInc := incIn(fi.Decl.Body, fl)
	workerInc := incIn(fl.Body, nil)
	want := map[string]func(p *poly) (bool, string){
		"Tree1": func(p *poly) (bool, string) {
			ts := p.norm().terms
			if len(ts) != 2 {
				return false, "a difference of two counters"
			}
			var pos, neg string
			for _, t := range ts {
				if t.coef.Sign() > 0 {
					pos = t.key()
				} else {
					neg = t.key()
				}
			}
			return launcherInc[pos] && workerInc[neg], "(reference branches counted before the workers start) − (common branches counted by the worker)"
		},
		"Tree2": func(p *poly) (bool, string) {
			ts := p.norm().terms
			if len(ts) != 2 {
				return false, "a difference of two counters"
			}
			var pos, neg string
			for _, t := range ts {
				if t.coef.Sign() > 0 {
					pos = t.key()
				} else {
					neg = t.key()
				}
			}
			return workerInc[pos] && workerInc[neg] && pos != neg, "(compared branches counted by the worker) − (common branches)"
		},
		"Common": func(p *poly) (bool, string) {
			a, q, ok := p.singleAtom()
			return ok && q.Num().Int64() == 1 && q.IsInt() && workerInc[a], "the common counter"
		},
	}
	var t1neg, t2neg, com string
	for _, f := range []string{"Tree1", "Tree2", "Common"} {
		e, ok := fields[f]
		if !ok {
			c.Violation("LF", "tree.Compare/record."+f, lit.Pos(), "field "+f+" missing from the record").Clause = "exactly the number of splits found only in the reference, in both, and only in the compared tree"
			continue
		}
		p, err := env.fold(e)
		if err != nil {
			c.Undecided("LF", "tree.Compare/record."+f, e.Pos(), err.Error())
			continue
		}
		good, desc := want[f](p)
		c.Check(good, "LF", "tree.Compare/record."+f, e.Pos(), f+" = "+p.String(), f+" = "+p.String()+", expected "+desc).Clause = "exactly the number of splits found only in the reference, in both, and only in the compared tree"
		for _, t := range p.norm().terms {
			if t.coef.Sign() < 0 {
				if f == "Tree1" {
					t1neg = t.key()
				} else if f == "Tree2" {
					t2neg = t.key()
				}
			} else if f == "Common" {
				com = t.key()
			}
		}
	}
	c.Check(t1neg == t2neg && t1neg == com && com != "", "LF", "tree.Compare/record.same-common", lit.Pos(), "the three fields use the same common counter", "the three fields do not subtract/report the same common counter").Clause = "swapping the two trees swaps the counts"
	// Id
	if e, ok := fields["Id"]; ok {
		c.Check(strings.HasSuffix(c.canon(info, e, nil), ".Id"), "LF", "tree.Compare/record.Id", e.Pos(), "record carries the input item's identifier", "record Id is not the identifier of the input item").Clause = "tree by tree"
	}
}

// sametreeDep: the value sent as Sametree must depend on the reference-side counter too.
func (c *Ctx) sametreeDep(fi *FuncInfo, fl *ast.FuncLit, clause string) {
	info := fi.Pkg.TypesInfo
	var lit *ast.CompositeLit
	ast.Inspect(fl.Body, func(nd ast.Node) bool {
		if snd, ok := nd.(*ast.SendStmt); ok {
			if cl, ok := unparen(snd.Value).(*ast.CompositeLit); ok {
				lit = cl
			}
		}
		return true
	})
	fields := c.litFields(info, lit)
	e, ok := fields["Sametree"]
	if !ok {
		c.Undecided("DEP", "tree.Compare/Sametree", fl.Pos(), "no Sametree field in the record")
		return
	}
	// reference-side counter: incremented in the launcher outside the worker
	ref := map[types.Object]bool{}
	ast.Inspect(fi.Decl.Body, func(n ast.Node) bool {
		if n == ast.Node(fl) {
			return false
		}
		if inc, ok := n.(*ast.IncDecStmt); ok {
			if o := identObj(info, inc.X); o != nil {
				ref[o] = true
			}
		}
		return true
	})
	// backward slice (data + control) of the Sametree expression inside the worker
	dep := map[types.Object]bool{}
	var work []types.Object
	addExpr := func(x ast.Node) {
		ast.Inspect(x, func(n ast.Node) bool {
			if id, ok := n.(*ast.Ident); ok {
				if o, ok := info.Uses[id].(*types.Var); ok && !dep[o] {
					dep[o] = true
					work = append(work, o)
				}
			}
			return true
		})
	}
	addExpr(e)
	for len(work) > 0 {
		o := work[len(work)-1]
		work = work[:len(work)-1]
		ast.Inspect(fl.Body, func(n ast.Node) bool {
			as, ok := n.(*ast.AssignStmt)
			if !ok {
				return true
			}
			for i, l := range as.Lhs {
				if identObj(info, l) != o {
					continue
				}
				if len(as.Rhs) == len(as.Lhs) {
					addExpr(as.Rhs[i])
				} else {
					for _, r := range as.Rhs {
						addExpr(r)
					}
				}
				// control dependence: conditions on the path to this assignment
				if conds, okc := c.pathConds(info, fl.Body, as, false); okc {
					for _, cd := range conds {
						if cd.Expr != nil {
							addExpr(cd.Expr)
						}
						if cd.Tag != nil {
							addExpr(cd.Tag)
						}
					}
				}
			}
			return true
		})
	}
	usesRef := false
	for o := range dep {
		if ref[o] {
			usesRef = true
		}
	}
	if usesRef {
		c.OK("DEP", "tree.Compare/Sametree", e.Pos(), "the verdict depends on the reference-side branch count and on the compared-side look-ups")
	} else {
		var names []string
		for o := range dep {
			names = append(names, o.Name())
		}
		c.Violation("DEP", "tree.Compare/Sametree", e.Pos(), "the 'identical' verdict depends only on {"+strings.Join(sortedStrs(names), ", ")+"}: it never looks at how many reference splits exist, so a compared tree that is a strict contraction of the reference (all its splits found) is reported identical although 'only in reference' > 0").Clause = clause
	}
}

func sortedStrs(xs []string) []string {
	m := map[string]bool{}
	for _, x := range xs {
		m[x] = true
	}
	return sortedKeys(m)
}

// compareTipIndexesRule: both sizes compared, every name of one index looked up in the other,
// constant non-nil error on each mismatch.
func (c *Ctx) compareTipIndexesRule() {
	fi := c.Func("tree", "Tree", "CompareTipIndexes")
	if fi == nil {
		return
	}
	info := fi.Pkg.TypesInfo
	r, p0 := recvObj(info, fi.Decl), paramObj(info, fi.Decl, 0)
	sizeCmp, lookup := false, false
	nErr := 0
	ast.Inspect(fi.Decl.Body, func(n ast.Node) bool {
		switch x := n.(type) {
		case *ast.BinaryExpr:
			if x.Op == token.NEQ {
				a, b := c.canon(info, x.X, nil), c.canon(info, x.Y, nil)
				w1, w2 := "len("+r.Name()+".tipIndex)", "len("+p0.Name()+".tipIndex)"
				if (a == w1 && b == w2) || (a == w2 && b == w1) {
					sizeCmp = true
				}
			}
		case *ast.RangeStmt:
			if c.canon(info, x.X, nil) == r.Name()+".tipIndex" || c.canon(info, x.X, nil) == p0.Name()+".tipIndex" {
				other := p0.Name()
				if c.canon(info, x.X, nil) == p0.Name()+".tipIndex" {
					other = r.Name()
				}
				k := identObj(info, x.Key)
				ast.Inspect(x.Body, func(m ast.Node) bool {
					if ix, ok := m.(*ast.IndexExpr); ok && c.canon(info, ix.X, nil) == other+".tipIndex" && identObj(info, ix.Index) == k {
						lookup = true
					}
					return true
				})
			}
		case *ast.ReturnStmt:
			if len(x.Results) == 1 {
				if call, ok := unparen(x.Results[0]).(*ast.CallExpr); ok {
					if g := calleeOf(info, call); g != nil && (isFunc(g, "errors", "", "New") || isFunc(g, "fmt", "", "Errorf")) {
						nErr++
					}
				}
			}
		}
		return true
	})
	if !lookup {
		// the inclusion loop extracted into a helper given the two indexes: in the helper, a range over
		// one parameter looks every key up in the other parameter
		for _, call := range callsIn(fi.Decl.Body, true) {
			g := calleeOf(info, call)
			if g == nil || g.Pkg() != fi.Obj.Pkg() || len(call.Args) != 2 {
				continue
			}
			a0, a1 := c.canon(info, call.Args[0], nil), c.canon(info, call.Args[1], nil)
			w1, w2 := r.Name()+".tipIndex", p0.Name()+".tipIndex"
			if !((a0 == w1 && a1 == w2) || (a0 == w2 && a1 == w1)) {
				continue
			}
			gi := c.FuncOfObj(g)
			if gi == nil || gi.Decl.Body == nil {
				continue
			}
			ginfo := gi.Pkg.TypesInfo
			q0, q1 := paramObj(ginfo, gi.Decl, 0), paramObj(ginfo, gi.Decl, 1)
			ast.Inspect(gi.Decl.Body, func(n ast.Node) bool {
				rs, ok := n.(*ast.RangeStmt)
				if !ok || rs.Key == nil {
					return true
				}
				ranged := identObj(ginfo, rs.X)
				var other types.Object
				switch ranged {
				case q0:
					other = q1
				case q1:
					other = q0
				default:
					return true
				}
				k := identObj(ginfo, rs.Key)
				ast.Inspect(rs.Body, func(m ast.Node) bool {
					if ix, ok := m.(*ast.IndexExpr); ok && identObj(ginfo, ix.X) == other && identObj(ginfo, ix.Index) == k {
						lookup = true
					}
					return true
				})
				return true
			})
		}
	}
	c.Check(sizeCmp && lookup && nErr >= 2, "ERRFLOW", "tree.Tree.CompareTipIndexes/mismatch-branches", fi.Decl.Pos(), "sizes compared, every name looked up in the other index, constant error on each mismatch", fmt.Sprintf("taxon-set check incomplete (sizes compared: %v, names looked up: %v, error returns: %d)", sizeCmp, lookup, nErr)).Clause = "trees on different taxa are rejected with an error"
}

// ------------------------------------------------------------------------------------ C09

func checkC09(c *Ctx) {
	// the split look-up these results rest on is orientation/rooting independent (shared with C04)
	c.Decides("SYM (shared with C04): the hash under which a split is looked up is invariant under exchanging the two sides of the branch, so the result does not depend on where either tree is rooted")
	c.Decides("UNCOND-PREP: Consensus re-indexes every tree it receives without error (the call of ReinitIndexes sits under tests of errors only); NIL-ON-ERR: the Tree of a received item is touched only where its Err is known to be nil")
	c.uncondPrep("UNCOND-PREP", c.Func("tree", "", "Consensus"), []string{"ReinitIndexes"}, "exactly the splits whose frequency exceeds the threshold")
	c.Floor("UNCOND-PREP", 1)
	c.nilOnErr("NIL-ON-ERR", []*FuncInfo{c.Func("tree", "", "Consensus")}, "an error in a tree of the collection is reported")
	c.edgeHashSym()
	c.Decides("GF: the split index keeps an entry iff (count > min ∧ count ≤ max) ∨ count = max and Consensus calls it with (int(cutoff·n), n); thresholds are rejected iff cutoff < 0.5 ∨ cutoff > 1")
	c.Decides("LF: AddEdgeCount starts an entry at (1, length) and adds (1, length) to an existing one; the consensus branch gets length Len/Count and support Count/n, tip branches Len/Count; ERRFLOW: a tree carrying an error, failing to index, of different size or with an unknown name makes Consensus return a non-nil error")
	c.DoesNotDecide("placement of the kept splits (LCA / AddBipartition semantics), rooted inputs counting the root split twice, order independence of the result")
	clause := "exactly the splits whose frequency is strictly greater than the threshold or that occur in every tree"
	if fi := c.Func("tree", "EdgeIndex", "Edges"); fi != nil {
		info := fi.Pkg.TypesInfo
		p0, p1 := paramObj(info, fi.Decl, 0), paramObj(info, fi.Decl, 1)
		found := false
		ast.Inspect(fi.Decl.Body, func(nd ast.Node) bool {
			as, ok := nd.(*ast.AssignStmt)
			if !ok || len(as.Rhs) != 1 {
				return true
			}
			call, ok := unparen(as.Rhs[0]).(*ast.CallExpr)
			if !ok {
				return true
			}
			if id, ok := call.Fun.(*ast.Ident); !ok || id.Name != "append" {
				return true
			}
			conds, okc := c.pathConds(info, fi.Decl.Body, as, true)
			if !okc {
				return true
			}
			code := c.condsToBexpr(info, conds, nil)
			terms, atoms := map[string]bool{}, map[string]bool{}
			code.collect(terms, atoms)
			cnt := ""
			for t := range terms {
				if strings.HasSuffix(t, ".Count") {
					cnt = t
				}
			}
			if cnt == "" {
				return true
			}
			found = true
			spec := bOr(bAnd(bCmp(cnt, token.GTR, p0.Name()), bCmp(cnt, token.LEQ, p1.Name())), bCmp(cnt, token.EQL, p1.Name()))
			ok2, wit, vals, err := gfEquiv(code, spec)
			if err != nil {
				c.Undecided("GF", "tree.EdgeIndex.Edges/selection", as.Pos(), err.Error())
			} else if ok2 {
				c.OK("GF", "tree.EdgeIndex.Edges/selection", as.Pos(), fmt.Sprintf("kept iff %s (%d orderings)", spec.String(), vals))
			} else {
				c.Violation("GF", "tree.EdgeIndex.Edges/selection", as.Pos(), "entry kept under "+code.String()+"; property: "+spec.String()+" ("+wit+")").Clause = clause
			}
			return true
		})
		if !found {
			c.Undecided("GF", "tree.EdgeIndex.Edges/selection", fi.Decl.Pos(), "no append guarded by a comparison of .Count found")
		}
	}
	if fi := c.Func("tree", "EdgeIndex", "AddEdgeCount"); fi != nil {
		info := fi.Pkg.TypesInfo
		env := c.newLFEnv(info, fi.Decl.Body)
		e := paramObj(info, fi.Decl, 0)
		newOK, incOK, lenOK := false, false, false
		ast.Inspect(fi.Decl.Body, func(nd ast.Node) bool {
			switch x := nd.(type) {
			case *ast.CompositeLit:
				f := c.litFields(info, x)
				if cn, ok := f["Count"]; ok {
					pc, _ := env.fold(cn)
					pl, _ := env.fold(f["Len"])
					if pc != nil && pl != nil && pc.String() == "1" && pl.String() == e.Name()+".length" {
						newOK = true
					}
				}
			case ast.Stmt:
				if t, d, ok := c.incrementDelta(env, x); ok {
					if strings.HasSuffix(t, ".Count") && d.String() == "1" {
						incOK = true
					}
					if strings.HasSuffix(t, ".Len") && d.String() == e.Name()+".length" {
						lenOK = true
					}
				}
			}
			return true
		})
		c.Check(newOK, "LF", "tree.EdgeIndex.AddEdgeCount/new-entry", fi.Decl.Pos(), "new entry = (1, length)", "a split seen for the first time is not stored as (count 1, its length)").Clause = "carries that frequency as support and the mean of its lengths"
		c.Check(incOK && lenOK, "LF", "tree.EdgeIndex.AddEdgeCount/existing-entry", fi.Decl.Pos(), "existing entry: Count+1, Len+length", fmt.Sprintf("an existing split must get Count+1 (%v) and Len+length (%v)", incOK, lenOK)).Clause = "carries that frequency as support and the mean of its lengths"
	}
	fi := c.Func("tree", "", "Consensus")
	if fi == nil {
		return
	}
	info := fi.Pkg.TypesInfo
	env := c.newLFEnv(info, fi.Decl.Body)
	cutoff := paramObj(info, fi.Decl, 1)
	// range guard: first return with a constant error
	var firstRet *ast.ReturnStmt
	ast.Inspect(fi.Decl.Body, func(nd ast.Node) bool {
		if r, ok := nd.(*ast.ReturnStmt); ok && firstRet == nil {
			firstRet = r
		}
		return true
	})
	if firstRet != nil {
		conds, okc := c.pathConds(info, fi.Decl.Body, firstRet, false)
		code := c.condsToBexpr(info, conds, nil)
		spec := bOr(bCmp(cutoff.Name(), token.LSS, "0.5"), bCmp(cutoff.Name(), token.GTR, "1"))
		ok2, wit, _, err := gfEquiv(code, spec)
		isErr := len(firstRet.Results) == 2 && !isNilIdent(info, firstRet.Results[1])
		if !okc || err != nil {
			c.Undecided("GF", "tree.Consensus/threshold-range", firstRet.Pos(), "guard shape not understood")
		} else {
			c.Check(ok2 && isErr, "GF", "tree.Consensus/threshold-range", firstRet.Pos(), "rejected iff "+spec.String(), "threshold rejected under "+code.String()+"; property: outside [0.5,1], i.e. "+spec.String()+" ("+wit+")").Clause = "thresholds outside [0.5,1] are rejected with an error"
		}
	}
	// call of Edges
	nbtrees := ""
	for _, call := range callsIn(fi.Decl.Body, false) {
		g := calleeOf(info, call)
		if g == nil {
			continue
		}
		switch {
		case isRepoFunc(g, "tree", "EdgeIndex", "Edges") && len(call.Args) == 2:
			a0, e0 := env.fold(call.Args[0])
			a1, e1 := env.fold(call.Args[1])
			if e0 != nil || e1 != nil {
				c.Undecided("LF", "tree.Consensus/Edges-args", call.Pos(), "cannot fold the arguments")
				continue
			}
			n, _, ok := a1.singleAtom()
			nbtrees = n
			want := "int(" + pAtom(cutoff.Name()).mul(pAtom(n)).String() + ")"
			c.Check(ok && a0.String() == want, "LF", "tree.Consensus/Edges-args", call.Pos(), "selection window ]"+a0.String()+", "+a1.String()+"]", "selection window is ]"+a0.String()+", "+a1.String()+"], property requires ]int(cutoff·n), n]").Clause = clause
		case isRepoFunc(g, "tree", "Tree", "AddBipartition") && len(call.Args) == 4:
			l, e0 := env.fold(call.Args[2])
			s, e1 := env.fold(call.Args[3])
			if e0 != nil || e1 != nil {
				continue
			}
			lenOK := len(l.norm().terms) == 1 && strings.Contains(l.String(), ".Len") && strings.Contains(l.String(), ".Count^-1")
			supOK := len(s.norm().terms) == 1 && strings.Contains(s.String(), ".Count") && nbtrees != "" && strings.Contains(s.String(), nbtrees+"^-1") && !strings.Contains(s.String(), ".Count^")
			c.Check(lenOK, "LF", "tree.Consensus/branch-length", call.Pos(), "length = "+l.String(), "consensus branch length is "+l.String()+", property: mean of its lengths over the trees containing it (Len/Count)").Clause = "the mean of its lengths over the trees containing it"
			c.Check(supOK, "LF", "tree.Consensus/branch-support", call.Pos(), "support = "+s.String(), "consensus branch support is "+s.String()+", property: its frequency Count/n").Clause = "each such branch carries that frequency as support"
		}
	}
	for _, sc := range c.setterCalls(info, fi.Decl.Body, "length", env.o) {
		p, err := env.fold(sc.arg)
		if err != nil {
			continue
		}
		lenOK := len(p.norm().terms) == 1 && strings.Contains(p.String(), ".Len") && strings.Contains(p.String(), ".Count^-1")
		c.Check(lenOK, "LF", "tree.Consensus/tip-length", sc.call.Pos(), "tip length = "+p.String(), "tip branch length is "+p.String()+", property: its mean length (Len/Count)").Clause = "tip branches carry their mean length"
	}
	c.Decides("MAKE-APPEND (shared with C15): no slice of package tree (the name list Consensus builds for each kept split included) is created with a non-zero length and then filled with append")
	c.makeAppend("MAKE-APPEND", c.AllFuncs("tree"), "contains exactly the splits whose frequency exceeds the threshold")
	c.Floor("MAKE-APPEND", 10)
	c.Require("LF/tree.Consensus/branch-length", "LF/tree.Consensus/branch-support", "LF/tree.Consensus/tip-length", "LF/tree.Consensus/Edges-args")
	// the counter of trees is incremented once per tree, inside the loop over the channel
	// ERRFLOW
	sp := &errFlowSpec{info: info, body: fi.Decl.Body, ftype: fi.Decl.Type, sinkVars: map[types.Object]bool{}}
	for _, call := range callsIn(fi.Decl.Body, false) {
		g := calleeOf(info, call)
		if g == nil {
			continue
		}
		what := ""
		switch {
		case isRepoFunc(g, "tree", "Tree", "ReinitIndexes"):
			what = "ReinitIndexes"
		case isRepoFunc(g, "tree", "Tree", "ExistsTip"):
			what = "ExistsTip"
		default:
			continue
		}
		r := c.errFlow(sp, call)
		c.reportErrFlow("ERRFLOW", "tree.Consensus/"+what, r, what, "collections with differing taxa are rejected with an error")
	}
	// item.Err returned; size / name mismatch return constant errors
	var rs *ast.RangeStmt
	ast.Inspect(fi.Decl.Body, func(n ast.Node) bool {
		if r, ok := n.(*ast.RangeStmt); ok && rs == nil {
			if _, ok := info.TypeOf(r.X).Underlying().(*types.Chan); ok {
				rs = r
			}
		}
		return true
	})
	if rs != nil {
		item := identObj(info, rs.Key)
		fl := &ast.FuncLit{Type: fi.Decl.Type, Body: fi.Decl.Body}
		c.itemErrFlow(sp, fl, item, "tree.Consensus/item.Err", "collections ... are rejected with an error")
		sizeOK, nameOK := false, false
		// the loop body, and the unexported helpers of the package it calls (the check may be extracted)
		type scanUnit struct {
			body ast.Node
			info *types.Info
			o    *canonOpts
		}
		scanUnits := []scanUnit{{rs.Body, info, env.o}}
		for _, call := range callsIn(rs.Body, true) {
			g := calleeOf(info, call)
			if g == nil || g.Exported() || g.Pkg() != fi.Obj.Pkg() {
				continue
			}
			if gi := c.FuncOfObj(g); gi != nil && gi.Decl.Body != nil {
				scanUnits = append(scanUnits, scanUnit{gi.Decl.Body, gi.Pkg.TypesInfo, nil})
			}
		}
		for _, su := range scanUnits {
			rsBody, info := su.body, su.info
			ast.Inspect(rsBody, func(n ast.Node) bool {
				is, ok := n.(*ast.IfStmt)
				if !ok || len(is.Body.List) == 0 {
					return true
				}
				ret, ok := is.Body.List[len(is.Body.List)-1].(*ast.ReturnStmt)
				if !ok || len(ret.Results) == 0 || isNilIdent(info, ret.Results[len(ret.Results)-1]) {
					return true
				}
				k := c.canon(info, is.Cond, su.o)
				if strings.Contains(k, "len(") && strings.Contains(k, "!=") {
					sizeOK = true
				}
				if strings.HasPrefix(k, "!") {
					// !ok with ok from ExistsTip
					if id, ok := unparen(is.Cond).(*ast.UnaryExpr); ok {
						if o := identObj(info, id.X); o != nil {
							ast.Inspect(rsBody, func(m ast.Node) bool {
								if as, ok := m.(*ast.AssignStmt); ok && len(as.Rhs) == 1 && identObj(info, as.Lhs[0]) == o {
									if cl, ok := unparen(as.Rhs[0]).(*ast.CallExpr); ok {
										if g := calleeOf(info, cl); g != nil && isRepoFunc(g, "tree", "Tree", "ExistsTip") {
											nameOK = true
										}
									}
								}
								return true
							})
						}
					}
				}
				return true
			})
		}
		c.Check(sizeOK && nameOK, "ERRFLOW", "tree.Consensus/taxa-mismatch", rs.Pos(), "different size or unknown name returns an error", fmt.Sprintf("taxon check of later trees incomplete (size compared and refused: %v, each name looked up and refused: %v)", sizeOK, nameOK)).Clause = "collections with differing taxa are rejected with an error"
	}
	c.Decides("ADJ-PAIRS: every counting loop of package tree that reads two neighbouring elements of a slice and is bounded by its length visits all adjacent pairs (the duplicate-name checks behind UpdateTipIndex, which is what rejects an input tree with a repeated taxon, included)")
	nadj, _ := c.adjPairs("ADJ-PAIRS", c.AllFuncs("tree"), "trees on differing taxa are rejected")
	c.Extra["adjacent_pair_loops"] = nadj
	if fx := c.Fixture(); fx != nil {
		sub := c.subCtx(fx)
		nl, nv := sub.adjPairs("ADJ-PAIRS", sub.AllFuncs(), "")
		c.Control("ADJ-PAIRS", nl == 2 && nv == 1, "fixture.C09AdjPairs stops one pair short (and fixture.C09AdjPairsOK, which visits every pair, is accepted)")
	}
	c.Decides("FULL-LOOP: the loop of Consensus that adds the kept splits (and writes the mean length of tip branches, which come in the same list) visits every entry: no early exit once the tree is resolved")
	if fi := c.Func("tree", "", "Consensus"); fi != nil {
		c.fullLoop("FULL-LOOP", "tree.Consensus/assembly", fi, func(info *types.Info, call *ast.CallExpr) bool {
			return isRepoFunc(calleeOf(info, call), "tree", "Tree", "AddBipartition")
		}, "tip branches carry their mean length", "assembles the consensus from the kept splits")
	}
	c.Floor("FULL-LOOP", 1)
	c.Decides("EDGE-CACHE: inside the loop that calls AddBipartition (which re-creates the branch of every node it moves) no branch of the consensus tree remembered from before the loop is used")
	c.edgeCache("EDGE-CACHE", c.AllFuncs("tree"))
	c.Floor("EDGE-CACHE", 1)
	c.Floor("GF", 2)
	c.Floor("LF", 5)
	c.Floor("ERRFLOW", 3)
}

// ------------------------------------------------------------------------------------ C10

func checkC10(c *Ctx) {
	c.Decides("FRESH: the split index that FBP / TBE fill from a bootstrap tree is created anew for each bootstrap tree")
	c.Decides("UNCOND-PREP: FBP and TBE re-index every bootstrap tree and compare its taxa with the reference for every tree received without error (ReinitIndexes / CompareTipIndexes sit under tests of errors and cancellation only); SEND-KEY: what FBP's workers send to the collector is the position of the enclosing loop over the reference branches")
	c.uncondPrep("UNCOND-PREP", c.Func("support", "", "FBP"), []string{"ReinitIndexes", "CompareTipIndexes"}, "bootstrap trees on other taxa are rejected with an error")
	c.uncondPrep("UNCOND-PREP", c.Func("support", "", "TBE"), []string{"ReinitIndexes", "CompareTipIndexes"}, "bootstrap trees on other taxa are rejected with an error")
	c.uncondPrep("UNCOND-PREP", c.Func("support", "", "TBE"), []string{"SetId"}, "transfer support equals 1 - (average minimum transfer distance)/(p-1)")
	c.Floor("UNCOND-PREP", 5)
	c.sendKey("SEND-KEY", c.Func("support", "", "FBP"), "Felsenstein support equals the fraction of bootstrap trees containing the split")
	c.Floor("SEND-KEY", 1)
	c.Decides("MEMO-STORED: the transfer-distance recursion stores the light-side count of a bootstrap branch (`ones[...]`) before anything in that block can return: its caller reads the entry right after the call")
	c.memoStored("MEMO-STORED", c.Func("support", "", "minTransferDistRecur"), "transfer support equals 1 - (average minimum transfer distance)/(p-1)")
	c.Floor("MEMO-STORED", 1)
	for _, n := range []string{"FBP", "TBE"} {
		if fi := c.Func("support", "", n); fi != nil {
			c.freshPerItem("FRESH", fi, map[string]bool{"PutEdgeValue": true, "AddEdgeCount": true}, "NewEdgeIndex", "support equals the fraction of bootstrap trees containing the same split")
		}
	}
	c.Floor("FRESH", 2)
	// the split look-up these results rest on is orientation/rooting independent (shared with C04)
	c.Decides("SYM (shared with C04): the hash under which a split is looked up is invariant under exchanging the two sides of the branch, so the result does not depend on where either tree is rooted")
	c.edgeHashSym()
	c.Decides("REORIENT-REINDEX (shared with C04): every exported method of Tree that re-orients branches also recomputes bit sets, per-side hash codes / tip counts and depths: the transfer distance picks the light side of a reference branch from these counts, whatever the rooting")
	c.reorientReindex("REORIENT-REINDEX", "transfer supports do not depend on where the reference tree is rooted")
	c.Floor("REORIENT-REINDEX", 3)
	c.Decides("ERRFLOW: in FBP (workers) and TBE the errors of Trees.Err, ReinitIndexes and of the taxon-set check CompareTipIndexes reach the error the function returns on every path where they are non-nil (bootstrap trees on other taxa are rejected)")
	c.Decides("LF: Felsenstein support = found-count / number of accepted trees; transfer support = 1 − (Σdist/n)/(depth−1) with Σdist accumulated as +0 when the split is present and +minimum transfer distance otherwise; PATH/GF: supports are written on reference branches only when the branch is not a tip branch")
	c.DoesNotDecide("the transfer-distance recursion (MinTransferDist), ranges [0,1], TBE >= FBP, independence from tree order / rooting")
	clauseErr := "bootstrap trees on other taxa are rejected with an error"
	c.workerErrFlow("support", "FBP", nil, clauseErr)
	c.tbeErrFlow(clauseErr)
	// TBE: item.Err
	if fi := c.Func("support", "", "TBE"); fi != nil {
		info := fi.Pkg.TypesInfo
		sp := &errFlowSpec{info: info, body: fi.Decl.Body, ftype: fi.Decl.Type, sinkVars: map[types.Object]bool{}}
		if fi.Decl.Type.Results != nil {
			for _, f := range fi.Decl.Type.Results.List {
				for _, n := range f.Names {
					if o := info.Defs[n]; o != nil && isErrorType(o.Type()) {
						sp.sinkVars[o] = true
					}
				}
			}
		}
		var rs *ast.RangeStmt
		ast.Inspect(fi.Decl.Body, func(n ast.Node) bool {
			if r, ok := n.(*ast.RangeStmt); ok && rs == nil {
				if ch, ok := info.TypeOf(r.X).Underlying().(*types.Chan); ok && strings.HasSuffix(ch.Elem().String(), "tree.Trees") {
					rs = r
				}
			}
			return true
		})
		if rs != nil {
			c.itemErrFlow(sp, &ast.FuncLit{Type: fi.Decl.Type, Body: fi.Decl.Body}, identObj(info, rs.Key), "support.TBE/item.Err", clauseErr)
		}
		c.tbeAccumulation(fi)
	}
	c.fbpSupport()
	c.normalizeTransfer()
	c.compareTipIndexesRule()
	c.Decides("FULL-LOOP: the FBP worker looks every reference branch up in the index of the bootstrap tree (no early exit on a count of matches: the two root branches of a rooted reference are the same split)")
	if fi := c.Func("support", "", "FBP"); fi != nil {
		c.fullLoop("FULL-LOOP", "support.FBP/lookup", fi, func(info *types.Info, call *ast.CallExpr) bool {
			return isRepoFunc(calleeOf(info, call), "tree", "EdgeIndex", "Value")
		}, "Felsenstein support equals the fraction of bootstrap trees containing the split", "looks the reference branches up")
	}
	c.Floor("FULL-LOOP", 1)
	c.Decides("COUNT: the number of trees by which TBE divides (given to NormalizeTransferDistancesByDepth / ReformatAvgDistance) is a local counter of TBE starting at 0 and incremented exactly once per bootstrap tree taken from the channel")
	c.tbeCount("COUNT")
	c.Floor("COUNT", 2)
	c.Floor("ERRFLOW", 6)
	c.Floor("LF", 4)
}

func (c *Ctx) fbpSupport() {
	fi := c.Func("support", "", "FBP")
	if fi == nil {
		return
	}
	info := fi.Pkg.TypesInfo
	env := c.newLFEnv(info, fi.Decl.Body)
	// accepted-tree counter: atomic.AddInt32(&N, 1) in the worker
	ntrees := ""
	var addPos token.Pos
	for _, call := range callsIn(fi.Decl.Body, true) {
		if g := calleeOf(info, call); g != nil && g.Pkg() != nil && g.Pkg().Path() == "sync/atomic" && strings.HasPrefix(g.Name(), "Add") && len(call.Args) == 2 {
			if u, ok := unparen(call.Args[0]).(*ast.UnaryExpr); ok && u.Op == token.AND {
				if tv, ok := info.Types[call.Args[1]]; ok && tv.Value != nil && tv.Value.ExactString() == "1" {
					ntrees = c.canon(info, u.X, nil)
					addPos = call.Pos()
				}
			}
		}
	}
	// found counts: X[k]++ with k ranging over the channel of found edges
	counts := ""
	ast.Inspect(fi.Decl.Body, func(n ast.Node) bool {
		if inc, ok := n.(*ast.IncDecStmt); ok && inc.Tok == token.INC {
			if ix, ok := unparen(inc.X).(*ast.IndexExpr); ok {
				counts = c.canon(info, ix.X, nil)
			}
		}
		return true
	})
	sups := c.setterCalls(info, fi.Decl.Body, "support", env.o)
	if len(sups) == 0 || ntrees == "" || counts == "" {
		c.Undecided("LF", "support.FBP/support", fi.Decl.Pos(), fmt.Sprintf("cannot identify the pieces (SetSupport calls: %d, tree counter: %q, found counts: %q)", len(sups), ntrees, counts))
		return
	}
	for _, sc := range sups {
		p, err := env.fold(sc.arg)
		if err != nil {
			c.Undecided("LF", "support.FBP/support", sc.call.Pos(), err.Error())
			continue
		}
		// numerator: the range value over `counts`
		num := ""
		st := stackTo(fi.Decl.Body, sc.call)
		for _, n := range st {
			if rs, ok := n.(*ast.RangeStmt); ok && c.canon(info, rs.X, nil) == counts && rs.Value != nil {
				num = c.canon(info, rs.Value, nil)
			}
		}
		want := ""
		if num != "" {
			inv, _ := pAtom(ntrees).inv()
			want = pAtom(num).mul(inv).String()
		}
		c.Check(num != "" && p.String() == want, "LF", "support.FBP/support", sc.call.Pos(), "support = "+p.String(), "Felsenstein support is "+p.String()+", property: (number of bootstrap trees containing the split) / (number of trees) = "+want).Clause = "Felsenstein support equals the fraction of bootstrap trees containing the same split"
		// written only on inner branches
		conds, okc := c.pathConds(info, fi.Decl.Body, sc.call, true)
		if okc {
			code := c.inlineTip(c.condsToBexpr(info, conds, env.o))
			need := bNot(bCmp("len("+sc.recv+".right.neigh)", token.EQL, "1"))
			ok2, wit, _, err := gfImplies(code, need)
			if err == nil {
				c.Check(ok2, "PATH", "support.FBP/support-inner-only", sc.call.Pos(), "written only when the branch is not a tip branch", "support may be written on a tip branch: "+wit).Clause = "tip branches receive no support"
			}
		}
	}
	// the counter is incremented only after the taxon check passed: the Add comes after the CompareTipIndexes call in the worker
	var cmpPos token.Pos
	for _, call := range callsIn(fi.Decl.Body, true) {
		if g := calleeOf(info, call); g != nil && (isRepoFunc(g, "tree", "Tree", "CompareTipIndexes") || (inRepo(g) && !g.Exported() && g.Pkg() == fi.Pkg.Types && c.reaches(g, func(h *types.Func) bool { return isRepoFunc(h, "tree", "Tree", "CompareTipIndexes") }, 2, map[*types.Func]bool{}))) {
			cmpPos = call.Pos()
		}
	}
	c.Check(cmpPos.IsValid() && addPos > cmpPos, "PATH", "support.FBP/count-after-check", addPos, "a tree is counted after it passed the taxon check", "the tree counter is incremented before the taxon check").Clause = "fraction of bootstrap trees"
}

func (c *Ctx) normalizeTransfer() {
	fi := c.Func("support", "", "NormalizeTransferDistancesByDepth")
	if fi == nil {
		return
	}
	info := fi.Pkg.TypesInfo
	env := c.newLFEnv(info, fi.Decl.Body)
	nboot := paramObj(info, fi.Decl, 1)
	sups := c.setterCalls(info, fi.Decl.Body, "support", env.o)
	if len(sups) != 1 {
		c.Undecided("LF", "support.NormalizeTransferDistancesByDepth/formula", fi.Decl.Pos(), fmt.Sprintf("expected one SetSupport, found %d", len(sups)))
		return
	}
	sc := sups[0]
	// td: first LHS of `td, _ := e.TopoDepth()`
	td := ""
	ast.Inspect(fi.Decl.Body, func(n ast.Node) bool {
		if as, ok := n.(*ast.AssignStmt); ok && len(as.Rhs) == 1 {
			if call, ok := unparen(as.Rhs[0]).(*ast.CallExpr); ok {
				if g := calleeOf(info, call); g != nil && isRepoFunc(g, "tree", "Edge", "TopoDepth") {
					if sel, ok := unparen(call.Fun).(*ast.SelectorExpr); ok && c.canon(info, sel.X, env.o) == sc.recv {
						td = c.canon(info, as.Lhs[0], nil)
					}
				}
			}
		}
		return true
	})
	p, err := env.fold(sc.arg)
	if err != nil || td == "" {
		c.Undecided("LF", "support.NormalizeTransferDistancesByDepth/formula", sc.call.Pos(), "cannot fold the formula or find the depth")
		return
	}
	invN, _ := pAtom(nboot.Name()).inv()
	invD, _ := pAtom(td).sub(pInt(1)).inv()
	want := pInt(1).sub(pAtom(sc.recv + ".support").mul(invN).mul(invD))
	c.Check(p.equal(want), "LF", "support.NormalizeTransferDistancesByDepth/formula", sc.call.Pos(), "support = "+p.String(), "transfer support computed as "+p.String()+", property: 1 − (Σdist/n)/(depth−1) = "+want.String()).Clause = "one minus the mean ... divided by the size of the branch's light side minus one"
	// only branches that accumulated something (inner branches of depth > 1)
	conds, okc := c.pathConds(info, fi.Decl.Body, sc.call, true)
	if okc {
		code := c.condsToBexpr(info, conds, env.o)
		need := bCmp(sc.recv+".support", token.NEQ, "NIL_SUPPORT")
		ok2, wit, _, err := gfImplies(code, need)
		if err == nil {
			c.Check(ok2, "PATH", "support.NormalizeTransferDistancesByDepth/only-accumulated", sc.call.Pos(), "normalised only where a distance was accumulated", "normalisation applied to branches without accumulated distance (tip branches get a support): "+wit).Clause = "tip branches receive no support"
		}
	}
}

// tbeAccumulation: +0 when the reference split is in the bootstrap index, + min transfer distance otherwise,
// only for branches of depth > 1.
func (c *Ctx) tbeAccumulation(fi *FuncInfo) {
	info := fi.Pkg.TypesInfo
	// the sum of transfer distances starts from nothing: before the loop over the bootstrap trees
	// every branch of the reference tree has its support set to the 'absent' sentinel,
	// unconditionally (IncrementSupport starts from 0 only there); a reference tree that already
	// carries supports (aLRT, an earlier run) would otherwise have them added to the sum
	{
		okReset := false
		var at token.Pos = fi.Decl.Pos()
		var bootLoop *ast.RangeStmt
		ast.Inspect(fi.Decl.Body, func(n ast.Node) bool {
			if rs, ok := n.(*ast.RangeStmt); ok && bootLoop == nil {
				if _, isChan := info.TypeOf(rs.X).Underlying().(*types.Chan); isChan {
					bootLoop = rs
				}
			}
			return true
		})
		for _, sc := range c.setterCalls(info, fi.Decl.Body, "support", nil) {
			tv, isC := info.Types[sc.arg]
			if !isC || tv.Value == nil || bootLoop == nil || sc.call.Pos() > bootLoop.Pos() {
				continue
			}
			isSentinel := false
			switch a := unparen(sc.arg).(type) {
			case *ast.SelectorExpr:
				isSentinel = a.Sel.Name == "NIL_SUPPORT"
			case *ast.Ident:
				isSentinel = a.Name == "NIL_SUPPORT"
			}
			if !isSentinel {
				continue
			}
			// on the current element of a loop over the reference branches, unconditionally
			if sel, ok := unparen(sc.call.Fun).(*ast.SelectorExpr); ok {
				if _, isElem := c.loopElement(info, fi.Decl.Body, sc.call, sel.X, nil); isElem {
					if conds, okc := c.pathConds(info, fi.Decl.Body, sc.call, true); okc && len(conds) == 0 {
						okReset, at = true, sc.call.Pos()
					}
				}
			}
		}
		c.Check(okReset, "LF", "support.TBE/supports-reset-before-accumulating", at, "every reference branch's support is reset to 'absent' before the bootstrap loop", "TBE does not reset the support of every reference branch to the 'absent' value before it starts adding transfer distances: supports already present on the reference tree are added to the sum").Clause = "transfer support = 1 - (mean transfer distance)/(depth-1)"
	}
	// the accumulator itself: IncrementSupport adds its argument on every path (the first call, which
	// finds the support absent, counts too)
	if inc := c.Func("tree", "Edge", "IncrementSupport"); inc != nil {
		iinfo := inc.Pkg.TypesInfo
		r, p := recvObj(iinfo, inc.Decl), paramObj(iinfo, inc.Decl, 0)
		okInc := false
		var at token.Pos = inc.Decl.Pos()
		for _, st := range c.fieldStores(iinfo, inc.Decl.Body, nil) {
			if st.field.Name() != "support" || identObj(iinfo, st.recvE) != r || st.rhs == nil {
				continue
			}
			adds := false
			switch st.op {
			case token.ADD_ASSIGN:
				adds = identObj(iinfo, st.rhs) == p
			case token.ASSIGN:
				if be, ok := unparen(st.rhs).(*ast.BinaryExpr); ok && be.Op == token.ADD {
					l, rr := c.canon(iinfo, be.X, nil), c.canon(iinfo, be.Y, nil)
					adds = (identObj(iinfo, be.X) == p && rr == r.Name()+".support") || (identObj(iinfo, be.Y) == p && l == r.Name()+".support")
				}
			}
			if !adds {
				continue
			}
			at = st.pos
			if conds, okc := c.pathConds(iinfo, inc.Decl.Body, st.node, false); okc && len(conds) == 0 {
				okInc = true
			}
		}
		c.Check(okInc, "LF", "tree.Edge.IncrementSupport/adds-always", at, "support += argument on every path", "IncrementSupport does not add its argument on every path (the call that finds the support absent only initialises it): the first bootstrap tree's distance is dropped while the divisor still counts that tree").Clause = "transfer support = 1 - (mean transfer distance)/(depth-1)"
	}
	var incs []*ast.CallExpr
	for _, call := range callsIn(fi.Decl.Body, true) {
		if g := calleeOf(info, call); g != nil && isRepoFunc(g, "tree", "Edge", "IncrementSupport") {
			incs = append(incs, call)
		}
	}
	if len(incs) != 2 {
		c.Undecided("LF", "support.TBE/accumulation", fi.Decl.Pos(), fmt.Sprintf("expected two IncrementSupport calls (present / absent), found %d", len(incs)))
		return
	}
	// find enclosing closure body
	var body *ast.BlockStmt
	for _, fl := range funcLits(fi.Decl.Body) {
		if fl.Body.Pos() <= incs[0].Pos() && incs[0].End() <= fl.Body.End() {
			body = fl.Body
		}
	}
	if body == nil {
		body = fi.Decl.Body
	}
	env := c.newLFEnv(info, body)
	zeroSeen, distSeen := false, false
	for _, call := range incs {
		p, err := env.fold(call.Args[0])
		if err != nil {
			continue
		}
		conds, okc := c.pathConds(info, body, call, true)
		if !okc {
			continue
		}
		// is this the "present" branch? a condition `ok` positive where ok comes from X.Value(e)
		present := false
		for _, cd := range conds {
			if cd.Expr == nil {
				continue
			}
			if o := identObj(info, cd.Expr); o != nil && !cd.Neg {
				// defined by a call to EdgeIndex.Value
				ast.Inspect(body, func(n ast.Node) bool {
					if as, ok := n.(*ast.AssignStmt); ok && len(as.Rhs) == 1 && len(as.Lhs) == 2 && identObj(info, as.Lhs[1]) == o {
						if cl, ok := unparen(as.Rhs[0]).(*ast.CallExpr); ok {
							if g := calleeOf(info, cl); g != nil && isRepoFunc(g, "tree", "EdgeIndex", "Value") {
								present = true
							}
						}
					}
					return true
				})
			}
		}
		sel, _ := unparen(call.Fun).(*ast.SelectorExpr)
		recv := c.canon(info, sel.X, nil)
		if present {
			v, isC := p.isConst()
			zeroSeen = isC && v.Sign() == 0
			c.Check(zeroSeen, "LF", "support.TBE/accumulate-present", call.Pos(), "split present in the bootstrap tree: +0", "a reference split found in the bootstrap tree adds "+p.String()+" to the accumulated distance instead of 0").Clause = "transfer support is 1 exactly when the split is in every bootstrap tree"
		} else {
			// argument = first result of MinTransferDist(recv, ...)
			a, _, ok := p.singleAtom()
			good := false
			if ok {
				ast.Inspect(body, func(n ast.Node) bool {
					if as, ok := n.(*ast.AssignStmt); ok && len(as.Rhs) == 1 && len(as.Lhs) >= 1 && c.canon(info, as.Lhs[0], nil) == a {
						if cl, ok := unparen(as.Rhs[0]).(*ast.CallExpr); ok {
							if g := calleeOf(info, cl); g != nil && isRepoFunc(g, "support", "", "MinTransferDist") && len(cl.Args) > 0 && c.canon(info, cl.Args[0], nil) == recv {
								good = true
							}
						}
					}
					return true
				})
			}
			distSeen = good
			c.Check(good, "LF", "support.TBE/accumulate-absent", call.Pos(), "split absent: + minimum transfer distance of this branch", "a reference split absent from the bootstrap tree adds "+p.String()+", which is not the minimum transfer distance computed for that branch").Clause = "the mean over bootstrap trees of the minimum number of taxa to move"
		}
		// depth > 1 guard
		code := c.condsToBexpr(info, conds, env.o)
		terms, atoms := map[string]bool{}, map[string]bool{}
		code.collect(terms, atoms)
		depthGuard := false
		for t := range terms {
			_ = t
		}
		ast.Inspect(body, func(n ast.Node) bool {
			if is, ok := n.(*ast.IfStmt); ok && is.Init != nil && is.Body.Pos() <= call.Pos() && call.End() <= is.Body.End() {
				if as, ok := is.Init.(*ast.AssignStmt); ok && len(as.Rhs) == 1 {
					if cl, ok := unparen(as.Rhs[0]).(*ast.CallExpr); ok {
						if g := calleeOf(info, cl); g != nil && isRepoFunc(g, "tree", "Edge", "TopoDepth") {
							k := c.canon(info, is.Cond, nil)
							d := c.canon(info, as.Lhs[0], nil)
							if k == "(1 < "+d+")" || k == "(2 <= "+d+")" {
								depthGuard = true
							}
						}
					}
				}
			}
			return true
		})
		c.Check(depthGuard, "PATH", fmt.Sprintf("support.TBE/depth-guard@%s", map[bool]string{true: "present", false: "absent"}[present]), call.Pos(), "accumulated only for branches whose light side has more than one taxon", "distance accumulated without the depth > 1 guard: tip branches would receive a support").Clause = "tip branches receive no support"
	}
	_ = zeroSeen
	_ = distSeen
}
