package main

import (
	"fmt"
	"go/ast"
	"go/token"
	"go/types"
	"strings"

	"golang.org/x/tools/go/cfg"
)

// PAIR-VALID (go/cfg): the Newick parser reads a label `a/b` after a closing parenthesis as
// support/p-value only when BOTH parts are numbers; otherwise the whole label is the node name.
// Every strconv.ParseFloat over an element of one split slice belongs to one group; a setter of
// the tree that receives a value parsed by a member of the group (reaching definition) must be
// (1) dominated by every member of the group and (2) unreachable from the failure branch of the
// error test that follows each member without parsing again. Otherwise a label such as `0.9/x`
// leaves a support on the branch AND becomes the name: the written tree differs from the input.
func (c *Ctx) pairValid(rule string, fi *FuncInfo, clause string) int {
	if fi == nil || fi.Decl.Body == nil {
		return 0
	}
	info := fi.Pkg.TypesInfo
	type parse struct {
		as     *ast.AssignStmt
		v, err types.Object
	}
	groups := map[types.Object][]parse{}
	var order []types.Object
	ast.Inspect(fi.Decl.Body, func(nd ast.Node) bool {
		as, ok := nd.(*ast.AssignStmt)
		if !ok || len(as.Rhs) != 1 || len(as.Lhs) != 2 {
			return true
		}
		call, isCall := unparen(as.Rhs[0]).(*ast.CallExpr)
		if !isCall || !isFunc(calleeOf(info, call), "strconv", "", "ParseFloat") || len(call.Args) == 0 {
			return true
		}
		ix, isIx := unparen(call.Args[0]).(*ast.IndexExpr)
		if !isIx {
			return true
		}
		base := identObj(info, ix.X)
		v, e := identObj(info, as.Lhs[0]), identObj(info, as.Lhs[1])
		if base == nil || v == nil || e == nil {
			return true
		}
		if _, has := groups[base]; !has {
			order = append(order, base)
		}
		groups[base] = append(groups[base], parse{as, v, e})
		return true
	})
	n := 0
	var g *fcfg
	for _, base := range order {
		grp := groups[base]
		if len(grp) < 2 {
			continue
		}
		if g == nil {
			g = c.cfgOf(info, fi.Decl.Body)
		}
		isSetterOf := func(m ast.Node, v types.Object) bool {
			return containsCall(info, m, func(cl *ast.CallExpr, h *types.Func) bool {
				if h == nil || !inRepo(h) || !strings.HasPrefix(h.Name(), "Set") {
					return false
				}
				for _, a := range cl.Args {
					if identObj(info, a) == v {
						return true
					}
				}
				return false
			})
		}
		// setters reached by the value of each member (reaching definitions)
		type site struct {
			b *cfg.Block
			i int
		}
		var setters []site
		seenSite := map[site]bool{}
		for _, p := range grp {
			b0, i0 := locate(g.g, p.as.Pos())
			if b0 == nil {
				continue
			}
			seen := map[*cfg.Block]bool{}
			var walk func(b *cfg.Block, start int)
			walk = func(b *cfg.Block, start int) {
				for i := start; i < len(b.Nodes); i++ {
					m := b.Nodes[i]
					if isSetterOf(m, p.v) {
						if s := (site{b, i}); !seenSite[s] {
							seenSite[s] = true
							setters = append(setters, s)
						}
					}
					if as2, isAs := m.(*ast.AssignStmt); isAs {
						for _, l := range as2.Lhs {
							if identObj(info, l) == p.v {
								return
							}
						}
					}
				}
				for _, s := range b.Succs {
					if !seen[s] {
						seen[s] = true
						walk(s, 0)
					}
				}
			}
			walk(b0, i0+1)
		}
		// reach(from blocks, avoiding node `avoid`) -> set of sites reachable
		reaches := func(starts []site, avoid ast.Node, target site) bool {
			seen := map[*cfg.Block]bool{}
			var walk func(b *cfg.Block, start int) bool
			walk = func(b *cfg.Block, start int) bool {
				for i := start; i < len(b.Nodes); i++ {
					if b.Nodes[i] == avoid {
						return false
					}
					if b == target.b && i == target.i {
						return true
					}
				}
				for _, s := range b.Succs {
					if !seen[s] {
						seen[s] = true
						if walk(s, 0) {
							return true
						}
					}
				}
				return false
			}
			for _, st := range starts {
				if walk(st.b, st.i) {
					return true
				}
			}
			return false
		}
		for _, p := range grp {
			n++
			_, ln := c.pos(p.as.Pos())
			_ = ln
			key := fmt.Sprintf("%s/%s[%s]", funcName(fi.Obj), base.Name(), p.v.Name())
			// the failure branch of the error test that follows p
			b0, i0 := locate(g.g, p.as.Pos())
			var fail []site
			decided := b0 != nil
			if b0 != nil {
				seen := map[*cfg.Block]bool{}
				var find func(b *cfg.Block, start int)
				find = func(b *cfg.Block, start int) {
					for i := start; i < len(b.Nodes); i++ {
						m := b.Nodes[i]
						if as2, isAs := m.(*ast.AssignStmt); isAs {
							for _, l := range as2.Lhs {
								if identObj(info, l) == p.err {
									return // error overwritten before any test: ERR-DEAD's business
								}
							}
						}
						if ex, isEx := m.(ast.Expr); isEx && i == len(b.Nodes)-1 && len(b.Succs) == 2 {
							if be, isBe := unparen(ex).(*ast.BinaryExpr); isBe && (be.Op == token.EQL || be.Op == token.NEQ) {
								var other ast.Expr
								if identObj(info, be.X) == p.err {
									other = be.Y
								} else if identObj(info, be.Y) == p.err {
									other = be.X
								}
								if other != nil && isNilIdent(info, other) {
									if be.Op == token.EQL {
										fail = append(fail, site{b.Succs[1], 0})
									} else {
										fail = append(fail, site{b.Succs[0], 0})
									}
									return
								}
							}
						}
					}
					for _, s := range b.Succs {
						if !seen[s] {
							seen[s] = true
							find(s, 0)
						}
					}
				}
				find(b0, i0+1)
			}
			bad := ""
			for _, s := range setters {
				_, sl := c.pos(s.b.Nodes[s.i].Pos())
				if len(g.g.Blocks) > 0 && reaches([]site{{g.g.Blocks[0], 0}}, p.as, s) {
					bad = fmt.Sprintf("the setter at line %d can be reached without `%s` having been parsed from its part of `%s`", sl, p.v.Name(), base.Name())
					break
				}
				if len(fail) > 0 && reaches(fail, p.as, s) {
					bad = fmt.Sprintf("the setter at line %d can be reached after `%s` failed to parse as a number", sl, c.src(p.as.Rhs[0]))
					break
				}
			}
			if !decided || len(fail) == 0 {
				c.Undecided(rule, key, p.as.Pos(), "no test of the error of this ParseFloat found after it")
				continue
			}
			c.Check(bad == "", rule, key, p.as.Pos(),
				fmt.Sprintf("every setter fed from the parts of `%s` (%d) runs only after this part parsed as a number", base.Name(), len(setters)),
				bad+": a label of which only one part is numeric both leaves a value on the branch and becomes the node name, so the tree written back differs from the one read").Clause = clause
		}
	}
	return n
}

// CLOSER-NOT-READ (go/cfg): the Nexus parser's consumeComment hands back the token that closes the
// comment (`]`). A caller that stores it in its current-token variable must not look at that
// variable again (switch on it, compare it) before a scan has assigned it anew: dispatching on the
// closing bracket falls into the "unsupported command" arm, which swallows everything up to the next
// `;` - the command (a TREE line, a TRANSLATE table) that follows the comment is lost silently.
// Applies only while consumeComment has the shape "loop until the result token is CLOSEBRACK,
// nothing assigned to it afterwards".
func (c *Ctx) closerNotRead(rule string, fi *FuncInfo, clause string) int {
	if fi == nil || fi.Decl.Body == nil || fi.Decl.Type.Results == nil {
		return 0
	}
	cinfo := fi.Pkg.TypesInfo
	// shape of the callee
	var resTok types.Object
	for _, f := range fi.Decl.Type.Results.List {
		for _, nm := range f.Names {
			if resTok == nil {
				resTok = cinfo.Defs[nm]
			}
		}
	}
	shape := false
	if resTok != nil {
		var lastLoop *ast.ForStmt
		ast.Inspect(fi.Decl.Body, func(nd ast.Node) bool {
			if fs, ok := nd.(*ast.ForStmt); ok && fs.Cond != nil {
				if be, isBe := unparen(fs.Cond).(*ast.BinaryExpr); isBe && be.Op == token.NEQ && identObj(cinfo, be.X) == resTok {
					if id, isId := unparen(be.Y).(*ast.Ident); isId && id.Name == "CLOSEBRACK" {
						lastLoop = fs
					}
				}
			}
			return true
		})
		if lastLoop != nil {
			shape = true
			ast.Inspect(fi.Decl.Body, func(nd ast.Node) bool {
				if as, ok := nd.(*ast.AssignStmt); ok && as.Pos() > lastLoop.End() {
					for _, l := range as.Lhs {
						if identObj(cinfo, l) == resTok {
							shape = false
						}
					}
				}
				return true
			})
		}
	}
	if !shape {
		c.Note(rule, funcName(fi.Obj)+"/shape", fi.Decl.Pos(), "consumeComment no longer has the form `loop until the result token is CLOSEBRACK`: what its callers may do with the token it hands back is not decided by this rule")
		return 0
	}
	n := 0
	for _, s := range c.callSitesOf(fi.Obj) {
		var as *ast.AssignStmt
		var encl *ast.FuncDecl
		for i := len(s.stack) - 1; i >= 0; i-- {
			if a, ok := s.stack[i].(*ast.AssignStmt); ok && as == nil && len(a.Rhs) == 1 && unparen(a.Rhs[0]) == ast.Expr(s.call) {
				as = a
			}
			if fd, ok := s.stack[i].(*ast.FuncDecl); ok {
				encl = fd
			}
		}
		if as == nil || encl == nil || encl.Body == nil || len(as.Lhs) < 1 {
			continue
		}
		tokVar := identObj(s.info, as.Lhs[0])
		if tokVar == nil {
			continue
		}
		n++
		key := fmt.Sprintf("%s/%s#%d", encl.Name.Name, tokVar.Name(), n)
		g := c.cfgOf(s.info, encl.Body)
		b0, i0 := locate(g.g, as.Pos())
		if b0 == nil {
			c.Undecided(rule, key, as.Pos(), "call not found in the flow graph")
			continue
		}
		var readAt token.Pos
		seen := map[*cfg.Block]bool{}
		var walk func(b *cfg.Block, start int)
		walk = func(b *cfg.Block, start int) {
			for i := start; i < len(b.Nodes) && readAt == token.NoPos; i++ {
				m := b.Nodes[i]
				assigned := false
				var rhsRead bool
				switch x := m.(type) {
				case *ast.AssignStmt:
					for _, l := range x.Lhs {
						if identObj(s.info, l) == tokVar {
							assigned = true
						}
					}
					for _, r := range x.Rhs {
						if mentions(s.info, r, tokVar) {
							rhsRead = true
						}
					}
					if rhsRead {
						readAt = m.Pos()
						return
					}
					if assigned {
						return
					}
					continue
				}
				if mentions(s.info, m, tokVar) {
					readAt = m.Pos()
					return
				}
			}
			for _, sc := range b.Succs {
				if !seen[sc] && readAt == token.NoPos {
					seen[sc] = true
					walk(sc, 0)
				}
			}
		}
		walk(b0, i0+1)
		msg := ""
		if readAt != token.NoPos {
			_, ln := c.pos(readAt)
			msg = fmt.Sprintf("`%s` holds the closing bracket handed back by consumeComment and is looked at again at line %d before any scan assigns it: the dispatch takes the closing bracket for an unknown command and skips everything up to the next `;`, so the command that follows a comment is lost", tokVar.Name(), ln)
		}
		c.Check(readAt == token.NoPos, rule, key, as.Pos(), "the closing bracket handed back is not looked at before the next scan", msg).Clause = clause
	}
	return n
}

// NO-UNIQ-IN-READ: the property's trees may carry the same name on several tips; building the tip
// index (Tree.UpdateTipIndex) fails on such a tree. The Newick reader therefore must not reach it:
// a parse that builds the index and forwards its error refuses trees the writer has produced.
func (c *Ctx) noUniqInRead(rule string, roots []*FuncInfo, clause string) int {
	n := 0
	target := c.Func("tree", "Tree", "UpdateTipIndex")
	if target == nil {
		c.Undecided(rule, "anchor", token.NoPos, "tree.Tree.UpdateTipIndex not found")
		return 0
	}
	for _, fi := range roots {
		if fi == nil || fi.Decl.Body == nil {
			continue
		}
		n++
		key := funcName(fi.Obj) + "/no-tip-index"
		hit := c.reaches(fi.Obj, func(f *types.Func) bool { return f == target.Obj }, 8, map[*types.Func]bool{})
		c.Check(!hit, rule, key, fi.Decl.Pos(), "the reader does not build the tip index (which refuses repeated tip names)",
			"the reader reaches Tree.UpdateTipIndex, which fails when two tips carry the same name: a tree with a repeated tip name, which the writer produces without complaint, can no longer be read back").Clause = clause
	}
	return n
}

// TOKENS-ALIKE: token kinds that the Newick parser handles in ONE case clause of its token switch
// (`case IDENT, NUMERIC:` - a label, numeric-looking or not) are the same thing to the grammar. Any
// test of the package that enumerates token kinds of a variable (`x == A || x == B ...`, `x != A &&
// x != B`, `case A, B:` of a tagged switch outside the defining clause) and names one member of
// such a group names them all: a comment, a length or a sibling that is accepted after a label is
// accepted after a numeric-looking label too (tip names may look like numbers).
func (c *Ctx) tokensAlike(rule string, fi *FuncInfo, pkgFuncs []*FuncInfo, clause string) int {
	if fi == nil || fi.Decl.Body == nil {
		return 0
	}
	info := fi.Pkg.TypesInfo
	constOf := func(e ast.Expr) *types.Const {
		if id, ok := unparen(e).(*ast.Ident); ok {
			if k, isK := info.Uses[id].(*types.Const); isK {
				return k
			}
		}
		return nil
	}
	// groups: case clauses with >= 2 constants in the token switch of the parser
	var groups [][]*types.Const
	defining := map[*ast.CaseClause]bool{}
	ast.Inspect(fi.Decl.Body, func(nd ast.Node) bool {
		cc, ok := nd.(*ast.CaseClause)
		if !ok || len(cc.List) < 2 {
			return true
		}
		var g []*types.Const
		for _, e := range cc.List {
			if k := constOf(e); k != nil {
				g = append(g, k)
			}
		}
		if len(g) == len(cc.List) {
			groups = append(groups, g)
			defining[cc] = true
		}
		return true
	})
	if len(groups) == 0 {
		// the clause was split: fall back on the group confirmed by hand (a label is IDENT or NUMERIC)
		var g []*types.Const
		for _, nm := range []string{"IDENT", "NUMERIC"} {
			if k, ok := fi.Pkg.Types.Scope().Lookup(nm).(*types.Const); ok {
				g = append(g, k)
			}
		}
		if len(g) < 2 {
			c.Undecided(rule, funcName(fi.Obj)+"/groups", fi.Decl.Pos(), "token kinds IDENT and NUMERIC not found in the Newick reader")
			return 0
		}
		groups = append(groups, g)
	}
	n := 0
	judge := func(pos token.Pos, where string, named map[*types.Const]bool) {
		for _, g := range groups {
			var in, out []string
			for _, k := range g {
				if named[k] {
					in = append(in, k.Name())
				} else {
					out = append(out, k.Name())
				}
			}
			if len(in) == 0 {
				continue
			}
			n++
			_, ln := c.pos(pos)
			_ = ln
			key := fmt.Sprintf("%s/%s", where, strings.Join(in, "+"))
			c.Check(len(out) == 0, rule, key, pos, "the enumeration names every token kind of the label group",
				fmt.Sprintf("this enumeration of token kinds names %s but not %s, which the parser's token switch handles in the same clause: what is accepted after one kind of label is refused after the other (a tip or node label that looks like a number)", strings.Join(in, ", "), strings.Join(out, ", "))).Clause = clause
		}
	}
	for _, f := range pkgFuncs {
		if f == nil || f.Decl.Body == nil || f.Pkg != fi.Pkg {
			continue
		}
		fname := funcName(f.Obj)
		idx := 0
		var visit func(nd ast.Node) bool
		visit = func(nd ast.Node) bool {
			switch x := nd.(type) {
			case *ast.BinaryExpr:
				if x.Op != token.LOR && x.Op != token.LAND {
					return true
				}
				cmp := token.EQL
				if x.Op == token.LAND {
					cmp = token.NEQ
				}
				// flatten the maximal chain
				var leaves []ast.Expr
				var flat func(e ast.Expr)
				flat = func(e ast.Expr) {
					if b, ok := unparen(e).(*ast.BinaryExpr); ok && b.Op == x.Op {
						flat(b.X)
						flat(b.Y)
						return
					}
					leaves = append(leaves, unparen(e))
				}
				flat(x)
				byVar := map[types.Object]map[*types.Const]bool{}
				for _, l := range leaves {
					if b, ok := l.(*ast.BinaryExpr); ok && b.Op == cmp {
						v, k := identObj(info, b.X), constOf(b.Y)
						if v == nil || k == nil {
							v, k = identObj(info, b.Y), constOf(b.X)
						}
						if v != nil && k != nil {
							if byVar[v] == nil {
								byVar[v] = map[*types.Const]bool{}
							}
							byVar[v][k] = true
						} else {
							ast.Inspect(l, visit)
						}
					} else {
						ast.Inspect(l, visit)
					}
				}
				for v, named := range byVar {
					if len(named) >= 2 {
						idx++
						judge(x.Pos(), fmt.Sprintf("%s/%s#%d", fname, v.Name(), idx), named)
					}
				}
				return false
			case *ast.SwitchStmt:
				if x.Tag == nil {
					return true
				}
				for _, st := range x.Body.List {
					if cc, ok := st.(*ast.CaseClause); ok && !defining[cc] && len(cc.List) >= 2 {
						named := map[*types.Const]bool{}
						for _, e := range cc.List {
							if k := constOf(e); k != nil {
								named[k] = true
							}
						}
						idx++
						judge(cc.Pos(), fmt.Sprintf("%s/case#%d", fname, idx), named)
					}
				}
			}
			return true
		}
		ast.Inspect(f.Decl.Body, visit)
	}
	return n
}

// REORIENT-ALWAYS (go/cfg): the methods of Tree whose contract is "re-root the tree on the node /
// outgroup / branch given" re-orient the branches on every successful exit: the root pointer may
// already be the node asked for while the branches still point towards an older root (SetRoot is
// exported and says so), and every index computed afterwards follows the orientation. An "already
// rooted there, nothing to do" exit leaves bit sets, side counts and hashes describing other splits.
func (c *Ctx) reorientAlways(rule string, funcs []*FuncInfo, clause string) int {
	n := 0
	is := func(f *types.Func) bool { return isRepoFunc(f, "tree", "Tree", "ReorderEdges") }
	for _, fi := range funcs {
		if fi == nil || fi.Decl.Body == nil {
			continue
		}
		info := fi.Pkg.TypesInfo
		n++
		key := fi.Name() + "/reorients-on-success"
		g := c.cfgOf(info, fi.Decl.Body)
		res := mustPassFromEntryEx(g, func(m ast.Node) bool {
			return containsCall(info, m, func(cl *ast.CallExpr, h *types.Func) bool {
				return h != nil && inRepo(h) && c.reaches(h, is, 4, map[*types.Func]bool{})
			})
		}, func(ret *ast.ReturnStmt) bool { return c.succeedsOnPath(info, fi.Decl.Body, ret) })
		if res.ok {
			c.OK(rule, key, fi.Decl.Pos(), "every successful exit has re-oriented the branches").Clause = clause
		} else {
			_, ln := c.pos(res.escape)
			c.Violation(rule, key, fi.Decl.Pos(), fmt.Sprintf("%s can report success at line %d without having re-oriented the branches (no call reaching ReorderEdges on that path): when the root pointer was already there but the branches were not (SetRoot), the indexes computed afterwards describe other splits than the tree's", fi.Obj.Name(), ln)).Clause = clause
		}
	}
	return n
}

// FRESH-FRONTIER: a level-by-level walk keeps two slices, the level being read and the next one being
// appended to, and hands the second over to the first at the end of each round (`nodes = nextnodes`).
// The handed-over slice must be a fresh one in every round (declared, or assigned make/nil/a literal,
// inside the loop): re-using one buffer (`next = next[:0]`) makes both names share a backing array
// from the second round on, and appending the next level overwrites entries of the current level
// that have not been read yet - some nodes get a wrong depth, others none.
func (c *Ctx) freshFrontier(rule string, funcs []*FuncInfo, clause string) int {
	n := 0
	for _, fi := range funcs {
		if fi == nil || fi.Decl.Body == nil {
			continue
		}
		info := fi.Pkg.TypesInfo
		isSlice := func(o types.Object) bool {
			if o == nil {
				return false
			}
			_, ok := o.Type().Underlying().(*types.Slice)
			return ok
		}
		ast.Inspect(fi.Decl.Body, func(nd ast.Node) bool {
			var body *ast.BlockStmt
			switch l := nd.(type) {
			case *ast.ForStmt:
				body = l.Body
			case *ast.RangeStmt:
				body = l.Body
			}
			if body == nil {
				return true
			}
			// handovers directly in this loop's body (any depth, but not inside closures)
			ast.Inspect(body, func(m ast.Node) bool {
				if _, isLit := m.(*ast.FuncLit); isLit {
					return false
				}
				as, ok := m.(*ast.AssignStmt)
				if !ok || as.Tok != token.ASSIGN || len(as.Lhs) != 1 || len(as.Rhs) != 1 {
					return true
				}
				a, b := identObj(info, as.Lhs[0]), identObj(info, as.Rhs[0])
				if a == nil || b == nil || a == b || !isSlice(a) || !isSlice(b) {
					return true
				}
				if _, isId := unparen(as.Rhs[0]).(*ast.Ident); !isId {
					return true
				}
				// a lives across rounds (declared outside the loop) and is read in it; b is appended to in it
				if a.Pos() >= body.Pos() && a.Pos() < body.End() {
					return true
				}
				appended, fresh, reused := false, false, false
				if b.Pos() >= body.Pos() && b.Pos() < body.End() {
					fresh = true
				}
				ast.Inspect(body, func(q ast.Node) bool {
					as2, isAs := q.(*ast.AssignStmt)
					if !isAs || len(as2.Lhs) != 1 || len(as2.Rhs) != 1 || identObj(info, as2.Lhs[0]) != b {
						return true
					}
					switch r := unparen(as2.Rhs[0]).(type) {
					case *ast.CallExpr:
						if id, isId := r.Fun.(*ast.Ident); isId && id.Name == "append" && len(r.Args) > 0 && identObj(info, r.Args[0]) == b {
							appended = true
						} else if isId && id.Name == "make" {
							fresh = true
						}
					case *ast.CompositeLit:
						fresh = true
					case *ast.Ident:
						if r.Name == "nil" {
							fresh = true
						}
					case *ast.SliceExpr:
						if identObj(info, r.X) == b {
							reused = true
						}
					}
					return true
				})
				if !appended {
					return true
				}
				n++
				key := fmt.Sprintf("%s/%s=%s", funcName(fi.Obj), a.Name(), b.Name())
				c.Check(fresh && !reused, rule, key, as.Pos(),
					fmt.Sprintf("`%s` is a new slice in every round before it is handed over to `%s`", b.Name(), a.Name()),
					fmt.Sprintf("`%s` is appended to in this loop and handed over to `%s`, which the loop reads in the next round, but it is not a new slice in every round: after the first handover both names share one backing array, and appending the next level overwrites entries of the current one that have not been read yet", b.Name(), a.Name())).Clause = clause
				return true
			})
			return true
		})
	}
	return n
}

// APPEND-ALWAYS (go/cfg): the collector of the trees of a Nexus file (Nexus.AddTree) appends to each
// of its parallel lists on every path to its exit: a tree is never merged with, or replaced by,
// another one because of its name or content - every TREE statement of the file is one tree for the
// iterators, the samplers and the converters, in file order.
func (c *Ctx) appendAlways(rule string, fi *FuncInfo, fields []string, clause string) int {
	if fi == nil || fi.Decl.Body == nil {
		return 0
	}
	info := fi.Pkg.TypesInfo
	g := c.cfgOf(info, fi.Decl.Body)
	n := 0
	for _, fld := range fields {
		n++
		key := funcName(fi.Obj) + "/" + fld
		res := mustPassFromEntryEx(g, func(m ast.Node) bool {
			as, ok := m.(*ast.AssignStmt)
			if !ok || len(as.Lhs) != 1 || len(as.Rhs) != 1 {
				return false
			}
			sel, isSel := unparen(as.Lhs[0]).(*ast.SelectorExpr)
			if !isSel || sel.Sel.Name != fld {
				return false
			}
			call, isCall := unparen(as.Rhs[0]).(*ast.CallExpr)
			if !isCall || len(call.Args) < 2 {
				return false
			}
			id, isId := call.Fun.(*ast.Ident)
			if !isId || id.Name != "append" {
				return false
			}
			s2, isSel2 := unparen(call.Args[0]).(*ast.SelectorExpr)
			return isSel2 && s2.Sel.Name == fld
		}, func(ret *ast.ReturnStmt) bool { return true })
		if res.ok {
			c.OK(rule, key, fi.Decl.Pos(), "every path to the exit appends to `"+fld+"`").Clause = clause
		} else {
			_, ln := c.pos(res.escape)
			c.Violation(rule, key, fi.Decl.Pos(), fmt.Sprintf("%s can leave at line %d without having appended to `%s`: a tree handed to the collector is dropped or takes the place of another one, so the file's trees are no longer delivered one by one (a sampler never sees the dropped ones)", fi.Obj.Name(), ln, fld)).Clause = clause
		}
	}
	return n
}

// BREAK-IDENTICAL: the loops of Compare and CompareWeighted that look the branches of one tree up in
// the index of the other go through every branch; the only early exit is the identical-only mode,
// where the first difference decides. Every unlabelled `break` that leaves such a loop therefore
// sits under the (un-negated) identical-only parameter. A break under anything else ("nothing was
// missing the other way, so nothing can be missing this way" - true of binary trees only) makes a
// contraction of the reference look identical and empties the reference-only terms.
func (c *Ctx) breakIdentical(rule string, funcs []*FuncInfo, clause string) int {
	n := 0
	seen := map[*types.Func]bool{}
	var check func(fi *FuncInfo, ident types.Object, depth int)
	check = func(fi *FuncInfo, ident types.Object, depth int) {
		if fi == nil || fi.Decl.Body == nil || seen[fi.Obj] || depth > 3 {
			return
		}
		seen[fi.Obj] = true
		info := fi.Pkg.TypesInfo
		walkStack(fi.Decl.Body, func(nd ast.Node, stack []ast.Node) bool {
			// helpers that receive the identical-only flag carry part of the loops
			if call, isCall := nd.(*ast.CallExpr); isCall {
				if h := calleeOf(info, call); h != nil && inRepo(h) && h.Pkg() == fi.Obj.Pkg() {
					if hfi := c.FuncOfObj(h); hfi != nil && h != fi.Obj {
						idx := 0
						var hp types.Object
						for _, f := range hfi.Decl.Type.Params.List {
							for _, nm := range f.Names {
								if idx < len(call.Args) && identObj(info, call.Args[idx]) == ident {
									hp = hfi.Pkg.TypesInfo.Defs[nm]
								}
								idx++
							}
						}
						if hp != nil {
							check(hfi, hp, depth+1)
						}
					}
				}
				return true
			}
			br, ok := nd.(*ast.BranchStmt)
			if !ok || br.Tok != token.BREAK || br.Label != nil {
				return true
			}
			var loop ast.Node
			for i := len(stack) - 1; i >= 0 && loop == nil; i-- {
				switch stack[i].(type) {
				case *ast.SwitchStmt, *ast.TypeSwitchStmt, *ast.SelectStmt:
					return true
				case *ast.ForStmt, *ast.RangeStmt:
					loop = stack[i]
				}
			}
			if loop == nil {
				return true
			}
			n++
			key := fmt.Sprintf("%s/break#%d", fi.Name(), n)
			conds, okc := c.pathConds(info, fi.Decl.Body, br, true)
			under := false
			for _, cd := range conds {
				if cd.Expr != nil && !cd.Neg && identObj(info, cd.Expr) == ident {
					under = true
				}
			}
			if !okc {
				c.Undecided(rule, key, br.Pos(), "conditions of this break not understood")
				return true
			}
			c.Check(under, rule, key, br.Pos(), "the early exit is taken in identical-only mode only",
				fmt.Sprintf("this `break` leaves a loop over the branches of %s without being under `%s`: in full mode the branches after that point are never looked up, so the counts and the weighted terms miss them (a contraction of the reference then compares as identical)", fi.Obj.Name(), ident.Name())).Clause = clause
			return true
		})
	}
	for _, fi := range funcs {
		if fi == nil || fi.Decl.Body == nil {
			continue
		}
		info := fi.Pkg.TypesInfo
		// the identical-only parameter: the second bool parameter
		var ident types.Object
		nb := 0
		for _, f := range fi.Decl.Type.Params.List {
			for _, nm := range f.Names {
				if o := info.Defs[nm]; o != nil {
					if b, ok := o.Type().Underlying().(*types.Basic); ok && b.Kind() == types.Bool {
						nb++
						if nb == 2 {
							ident = o
						}
					}
				}
			}
		}
		if ident == nil {
			c.Undecided(rule, fi.Name()+"/param", fi.Decl.Pos(), "no second boolean parameter (identical-only mode) found")
			continue
		}
		check(fi, ident, 0)
	}
	return n
}

// NEW-BRANCH-ZERO (go/cfg): Resolve "only adds zero-length branches without support". Every branch
// that resolveRecur creates (a variable assigned from ConnectNodes) is given the constant length 0
// on every path that follows - not only when some other branch of the node happens to have a length.
func (c *Ctx) newBranchZero(rule string, fi *FuncInfo, clause string) int {
	if fi == nil || fi.Decl.Body == nil {
		return 0
	}
	info := fi.Pkg.TypesInfo
	g := c.cfgOf(info, fi.Decl.Body)
	n := 0
	ast.Inspect(fi.Decl.Body, func(nd ast.Node) bool {
		as, ok := nd.(*ast.AssignStmt)
		if !ok || len(as.Lhs) != 1 || len(as.Rhs) != 1 {
			return true
		}
		call, isCall := unparen(as.Rhs[0]).(*ast.CallExpr)
		if !isCall || !isRepoFunc(calleeOf(info, call), "tree", "Tree", "ConnectNodes") {
			return true
		}
		e := identObj(info, as.Lhs[0])
		if e == nil {
			return true
		}
		// the connecting branch is the one that gets a constant 0 somewhere (the re-created
		// branches get the length of the branch they replace: LF's subject)
		isZeroSet := func(cl *ast.CallExpr, h *types.Func) bool {
			if h == nil || h.Name() != "SetLength" || len(cl.Args) != 1 {
				return false
			}
			sel, isSel := cl.Fun.(*ast.SelectorExpr)
			if !isSel || identObj(info, sel.X) != e {
				return false
			}
			tv, has := info.Types[cl.Args[0]]
			return has && tv.Value != nil && constKey(tv.Value) == "0"
		}
		if !containsCall(info, fi.Decl.Body, isZeroSet) {
			return true
		}
		n++
		key := fmt.Sprintf("%s/%s#%d", funcName(fi.Obj), e.Name(), n)
		res := mustPass(g, as.Pos(), func(m ast.Node) bool {
			return containsCall(info, m, func(cl *ast.CallExpr, h *types.Func) bool {
				if h == nil || h.Name() != "SetLength" || len(cl.Args) != 1 {
					return false
				}
				sel, isSel := cl.Fun.(*ast.SelectorExpr)
				if !isSel || identObj(info, sel.X) != e {
					return false
				}
				tv, has := info.Types[cl.Args[0]]
				return has && tv.Value != nil && constKey(tv.Value) == "0"
			})
		}, func(ret *ast.ReturnStmt) bool { return true })
		if res.ok {
			c.OK(rule, key, as.Pos(), "the branch created here gets the constant length 0 on every path").Clause = clause
		} else {
			c.Violation(rule, key, as.Pos(), fmt.Sprintf("the branch `%s` created here can reach the end of the function without `%s.SetLength(0)`: a branch added by the resolution keeps an absent length, which is written without `:0` and is not a zero-length branch for the readers of the result", e.Name(), e.Name())).Clause = clause
		}
		return true
	})
	return n
}

// THRESHOLD-AS-GIVEN: a function that classifies branches against a numeric threshold it receives
// compares the lengths with the value given, not with an adjusted one: the threshold parameter is
// never assigned (=, +=, -=, ++, --) in the function. "All thresholds" includes those within any
// tolerance of a branch length.
func (c *Ctx) thresholdAsGiven(rule string, funcs []*FuncInfo, clause string) int {
	n := 0
	for _, fi := range funcs {
		if fi == nil || fi.Decl.Body == nil {
			continue
		}
		info := fi.Pkg.TypesInfo
		for _, f := range fi.Decl.Type.Params.List {
			for _, nm := range f.Names {
				o := info.Defs[nm]
				if o == nil {
					continue
				}
				if b, ok := o.Type().Underlying().(*types.Basic); !ok || b.Info()&types.IsFloat == 0 {
					continue
				}
				n++
				key := fi.Name() + "/" + o.Name()
				var at token.Pos
				ast.Inspect(fi.Decl.Body, func(m ast.Node) bool {
					switch x := m.(type) {
					case *ast.AssignStmt:
						for _, l := range x.Lhs {
							if identObj(info, l) == o && at == token.NoPos {
								at = x.Pos()
							}
						}
					case *ast.IncDecStmt:
						if identObj(info, x.X) == o && at == token.NoPos {
							at = x.Pos()
						}
					}
					return true
				})
				msg := ""
				if at != token.NoPos {
					_, ln := c.pos(at)
					msg = fmt.Sprintf("the threshold `%s` is changed at line %d before the lengths are compared with it: branches whose length lies between the adjusted and the given value fall on the other side of the cut", o.Name(), ln)
				}
				c.Check(at == token.NoPos, rule, key, fi.Decl.Pos(), "the threshold is used as given", msg).Clause = clause
			}
		}
	}
	return n
}

// PARENT-BY-IDENTITY: a recursive walk over the neighbours of a node that carries the node it came
// from (`prev`) skips the way back by comparing each neighbour with `prev`. The position of the
// parent in the neighbour list is not fixed: re-rooting re-orients the branches and leaves the lists
// as they were, so "the parent is the first neighbour" holds for freshly parsed trees only.
func (c *Ctx) parentByIdentity(rule string, funcs []*FuncInfo, clause string) int {
	n := 0
	for _, fi := range funcs {
		if fi == nil || fi.Decl.Body == nil {
			continue
		}
		info := fi.Pkg.TypesInfo
		params := map[types.Object]int{}
		var plist []types.Object
		for _, f := range fi.Decl.Type.Params.List {
			for _, nm := range f.Names {
				if o := info.Defs[nm]; o != nil {
					params[o] = len(plist)
					plist = append(plist, o)
				}
			}
		}
		walkStack(fi.Decl.Body, func(nd ast.Node, stack []ast.Node) bool {
			call, ok := nd.(*ast.CallExpr)
			if !ok || calleeOf(info, call) != fi.Obj || len(call.Args) != len(plist) {
				return true
			}
			// inside a range loop?
			var rng *ast.RangeStmt
			for i := len(stack) - 1; i >= 0 && rng == nil; i-- {
				if r, isR := stack[i].(*ast.RangeStmt); isR {
					rng = r
				}
			}
			if rng == nil {
				return true
			}
			// prev = the parameter at the position where the call passes another parameter (cur)
			var prev, elem types.Object
			for i, a := range call.Args {
				ao := identObj(info, a)
				if ao == nil {
					continue
				}
				if _, isParam := params[ao]; isParam && params[ao] != i && isNodePtr(ao.Type()) {
					prev = plist[i]
				}
				if rng.Value != nil && ao == identObj(info, rng.Value) && isNodePtr(ao.Type()) {
					elem = ao
				}
			}
			if prev == nil {
				return true
			}
			n++
			key := fmt.Sprintf("%s/recursion#%d", funcName(fi.Obj), n)
			okCond := false
			if elem != nil {
				conds, _ := c.pathConds(info, fi.Decl.Body, call, false)
				for _, cd := range conds {
					be, isBe := unparen(cd.Expr).(*ast.BinaryExpr)
					if cd.Expr == nil || !isBe {
						continue
					}
					x, y := identObj(info, be.X), identObj(info, be.Y)
					if (x == elem && y == prev) || (x == prev && y == elem) {
						if (be.Op == token.NEQ && !cd.Neg) || (be.Op == token.EQL && cd.Neg) {
							okCond = true
						}
					}
				}
			}
			c.Check(okCond, rule, key, call.Pos(), "the walk skips the way back by comparing the neighbour with `"+prev.Name()+"`",
				fmt.Sprintf("this recursive call of %s descends into neighbours without comparing each with `%s`: the way back is skipped by position (or not at all), which is right only while the parent is the first neighbour - after a re-rooting subtrees are lost or written twice", fi.Obj.Name(), prev.Name())).Clause = clause
			return true
		})
	}
	return n
}

// NO-NEIGHBOUR-TAIL: the neighbour and branch lists of a node have no fixed place for the parent
// (re-rooting, un-rooting, grafting and tip removal re-orient branches and leave the lists as they
// are). No walk therefore takes a positional tail of such a list (`n.br[1:]`, `n.Neigh()[1:]`,
// `n.Edges()[2:]`: a constant place) to "skip the branch we come from": after an edit it skips a child instead and
// walks back up through the parent. The way back is recognised by identity or by orientation.
func (c *Ctx) noNeighbourTail(rule string, funcs []*FuncInfo, clause string) int {
	loops := 0
	bad := 0
	for _, fi := range funcs {
		if fi == nil || fi.Decl.Body == nil {
			continue
		}
		info := fi.Pkg.TypesInfo
		isList := func(e ast.Expr) bool {
			switch x := unparen(e).(type) {
			case *ast.SelectorExpr:
				if (x.Sel.Name == "br" || x.Sel.Name == "neigh") && isNodePtr(info.TypeOf(x.X)) {
					return true
				}
			case *ast.CallExpr:
				if h := calleeOf(info, x); h != nil && (isRepoFunc(h, "tree", "Node", "Neigh") || isRepoFunc(h, "tree", "Node", "Edges")) {
					return true
				}
			}
			return false
		}
		ast.Inspect(fi.Decl.Body, func(nd ast.Node) bool {
			switch x := nd.(type) {
			case *ast.RangeStmt:
				if isList(x.X) {
					loops++
				}
			case *ast.SliceExpr:
				if !isList(x.X) || x.Low == nil {
					return true
				}
				// only a constant place counts (`[1:]`); `append(l[:i], l[i+1:]...)` removes the entry
				// found by identity at i
				if tv, has := info.Types[x.Low]; !has || tv.Value == nil || constKey(tv.Value) == "0" {
					return true
				}
				bad++
				c.Violation(rule, fmt.Sprintf("%s/tail#%d", funcName(fi.Obj), bad), x.Pos(), fmt.Sprintf("%s takes the positional tail `%s` of a node's neighbour/branch list: the parent is not at a fixed place in these lists once the tree has been re-rooted or edited, so a child is skipped and the walk goes back up through the parent (branches go missing from the enumeration, or are listed twice)", fi.Obj.Name(), c.src(x))).Clause = clause
			}
			return true
		})
	}
	if bad == 0 {
		c.OK(rule, "scan", token.NoPos, fmt.Sprintf("%d loops over neighbour/branch lists, no positional tail of such a list anywhere", loops)).Clause = clause
	}
	return loops
}

// DEFER-AFTER-CHECK: `x, ..., err := open(...)` hands back a nil x together with the error. A
// `defer x.Close()` (any deferred method call on an interface-typed x) written before the test of that error
// dereferences nil when the input cannot be opened (an empty or truncated .gz file fails while its
// header is read): the reader panics instead of reporting the error.
func (c *Ctx) deferAfterCheck(rule string, funcs []*FuncInfo, clause string) int {
	n := 0
	seenDefers := 0
	defer func() {
		c.OK(rule, "scan", token.NoPos, fmt.Sprintf("%d deferred method calls on variables examined, %d of them on an interface value that came with an error", seenDefers, n)).Clause = clause
	}()
	for _, fi := range funcs {
		if fi == nil || fi.Decl.Body == nil {
			continue
		}
		info := fi.Pkg.TypesInfo
		ast.Inspect(fi.Decl.Body, func(nd ast.Node) bool {
			blk, ok := nd.(*ast.BlockStmt)
			if !ok {
				return true
			}
			for j, st := range blk.List {
				df, isDf := st.(*ast.DeferStmt)
				if !isDf {
					continue
				}
				sel, isSel := df.Call.Fun.(*ast.SelectorExpr)
				if !isSel {
					continue
				}
				x := identObj(info, sel.X)
				if x == nil {
					continue
				}
				seenDefers++
				// a method call on a nil interface panics; (*os.File)(nil).Close() returns an error
				if _, isIface := x.Type().Underlying().(*types.Interface); !isIface {
					continue
				}
				// the assignment that produced x together with an error, earlier in this block
				for i := j - 1; i >= 0; i-- {
					as, isAs := blk.List[i].(*ast.AssignStmt)
					if !isAs || len(as.Lhs) < 2 || len(as.Rhs) != 1 {
						continue
					}
					var errObj types.Object
					hasX := false
					for _, l := range as.Lhs {
						o := identObj(info, l)
						if o == x {
							hasX = true
						} else if o != nil && isErrorType(o.Type()) {
							errObj = o
						}
					}
					if !hasX {
						continue
					}
					if errObj == nil {
						break
					}
					n++
					key := fmt.Sprintf("%s/defer %s.%s", funcName(fi.Obj), x.Name(), sel.Sel.Name)
					tested := false
					for k := i + 1; k < j; k++ {
						if ifs, isIf := blk.List[k].(*ast.IfStmt); isIf && mentions(info, ifs.Cond, errObj) {
							tested = true
						}
					}
					c.Check(tested, rule, key, df.Pos(), "the deferred call is registered after the error of the call that produced `"+x.Name()+"` has been tested",
						fmt.Sprintf("`defer %s.%s()` is registered before `%s` is tested: when the input cannot be opened `%s` is nil and the deferred call panics at return instead of the error being reported", x.Name(), sel.Sel.Name, errObj.Name(), x.Name())).Clause = clause
					break
				}
			}
			return true
		})
	}
	return n
}

// MEMO-STORED: a recursive function that reads an entry of a slice parameter right after calling
// itself (`curOnes += ones[nextEdge.Id()]`) relies on the callee having stored that entry. The store
// (`ones[curEdge.Id()] = curOnes`) is therefore the first thing its block does: no statement before
// it in that block can return. An early exit placed above it ("nothing to do for a tip branch")
// leaves a stale count from the previous reference branch in the slot, and every distance computed
// above that branch is wrong.
func (c *Ctx) memoStored(rule string, fi *FuncInfo, clause string) int {
	if fi == nil || fi.Decl.Body == nil {
		return 0
	}
	info := fi.Pkg.TypesInfo
	params := map[types.Object]bool{}
	for _, f := range fi.Decl.Type.Params.List {
		for _, nm := range f.Names {
			if o := info.Defs[nm]; o != nil {
				if _, isSl := o.Type().Underlying().(*types.Slice); isSl {
					params[o] = true
				}
			}
		}
	}
	// slice parameters read in the function and handed to the recursive call
	read := map[types.Object]bool{}
	ast.Inspect(fi.Decl.Body, func(nd ast.Node) bool {
		if as, ok := nd.(*ast.AssignStmt); ok {
			for _, r := range as.Rhs {
				ast.Inspect(r, func(q ast.Node) bool {
					if ix, isIx := q.(*ast.IndexExpr); isIx {
						if o := identObj(info, ix.X); o != nil && params[o] {
							read[o] = true
						}
					}
					return true
				})
			}
		}
		return true
	})
	n := 0
	walkStack(fi.Decl.Body, func(nd ast.Node, stack []ast.Node) bool {
		as, ok := nd.(*ast.AssignStmt)
		if !ok || len(as.Lhs) != 1 {
			return true
		}
		ix, isIx := unparen(as.Lhs[0]).(*ast.IndexExpr)
		if !isIx {
			return true
		}
		o := identObj(info, ix.X)
		if o == nil || !params[o] || !read[o] {
			return true
		}
		n++
		key := fmt.Sprintf("%s/%s#%d", funcName(fi.Obj), o.Name(), n)
		var early token.Pos
		// every enclosing block up to the function body: nothing before the store's ancestor returns,
		// except at the top level of the function (the `stop` short-cut precedes everything)
		for i := len(stack) - 1; i >= 1; i-- {
			blk, isBlk := stack[i].(*ast.BlockStmt)
			if !isBlk || blk == fi.Decl.Body {
				continue
			}
			var child ast.Node = as
			if i+1 < len(stack) {
				child = stack[i+1]
			}
			for _, st := range blk.List {
				if st == child || (st.Pos() <= as.Pos() && as.End() <= st.End()) {
					break
				}
				ast.Inspect(st, func(q ast.Node) bool {
					if _, isLit := q.(*ast.FuncLit); isLit {
						return false
					}
					if r, isRet := q.(*ast.ReturnStmt); isRet && early == token.NoPos {
						early = r.Pos()
					}
					return true
				})
			}
		}
		msg := ""
		if early != token.NoPos {
			_, ln := c.pos(early)
			msg = fmt.Sprintf("the function can return at line %d, inside the block of the store `%s`, before the store: the caller then reads `%s[...]` of this call and finds the value left by an earlier computation", ln, c.src(as), o.Name())
		}
		c.Check(early == token.NoPos, rule, key, as.Pos(), "nothing in the block of the store can return before it", msg).Clause = clause
		return true
	})
	return n
}

// LOCK-COVERS (go/cfg): a function that is handed a mutex by concurrent workers (a *sync.Mutex
// parameter) writes shared accumulators under it. Shared = an element of a slice parameter whose
// first index is not "the id of the branch this call is about" (`ref.Id()`, one worker per reference
// branch), or the target of a pointer parameter. Forward must-analysis over the flow graph: at each
// such write every path from the entry has passed `mux.Lock()` with no `mux.Unlock()` since.
func (c *Ctx) lockCovers(rule string, fi *FuncInfo, clause string) int {
	if fi == nil || fi.Decl.Body == nil {
		return 0
	}
	info := fi.Pkg.TypesInfo
	var mux types.Object
	sliceParam := map[types.Object]bool{}
	ptrParam := map[types.Object]bool{}
	edgeParam := map[types.Object]bool{}
	for _, f := range fi.Decl.Type.Params.List {
		for _, nm := range f.Names {
			o := info.Defs[nm]
			if o == nil {
				continue
			}
			switch t := o.Type().(type) {
			case *types.Pointer:
				if named, ok := t.Elem().(*types.Named); ok && named.Obj().Pkg() != nil && named.Obj().Pkg().Path() == "sync" && named.Obj().Name() == "Mutex" {
					mux = o
				} else if _, isBasic := t.Elem().Underlying().(*types.Basic); isBasic {
					ptrParam[o] = true
				} else if isEdgePtr(o.Type()) {
					edgeParam[o] = true
				}
			case *types.Slice:
				sliceParam[o] = true
			}
		}
	}
	if mux == nil {
		c.Undecided(rule, fi.Name()+"/mutex", fi.Decl.Pos(), "no *sync.Mutex parameter")
		return 0
	}
	isMux := func(m ast.Node, name string) bool {
		es, ok := m.(*ast.ExprStmt)
		if !ok {
			return false
		}
		call, isCall := es.X.(*ast.CallExpr)
		if !isCall {
			return false
		}
		sel, isSel := call.Fun.(*ast.SelectorExpr)
		return isSel && sel.Sel.Name == name && identObj(info, sel.X) == mux
	}
	// shared write target?
	shared := func(lhs ast.Expr) (string, bool) {
		e := unparen(lhs)
		if st, ok := e.(*ast.StarExpr); ok {
			if o := identObj(info, st.X); o != nil && ptrParam[o] {
				return "*" + o.Name(), true
			}
			return "", false
		}
		// outermost-to-innermost index chain
		var chain []*ast.IndexExpr
		for {
			ix, ok := e.(*ast.IndexExpr)
			if !ok {
				break
			}
			chain = append(chain, ix)
			e = unparen(ix.X)
		}
		if len(chain) == 0 {
			return "", false
		}
		base := identObj(info, e)
		if base == nil || !sliceParam[base] {
			return "", false
		}
		first := chain[len(chain)-1].Index
		if call, ok := unparen(first).(*ast.CallExpr); ok {
			if sel, isSel := call.Fun.(*ast.SelectorExpr); isSel && sel.Sel.Name == "Id" {
				if o := identObj(info, sel.X); o != nil && edgeParam[o] {
					return "", false // the slot of this call's own reference branch
				}
			}
		}
		return base.Name(), true
	}
	// closures bound to a local name: their shared writes happen where the name is used (called, or
	// handed to a helper that calls it)
	closureWrites := map[types.Object][]string{}
	closureDef := map[ast.Node]bool{}
	ast.Inspect(fi.Decl.Body, func(nd ast.Node) bool {
		as, ok := nd.(*ast.AssignStmt)
		if !ok || len(as.Lhs) != 1 || len(as.Rhs) != 1 {
			return true
		}
		lit, isLit := unparen(as.Rhs[0]).(*ast.FuncLit)
		o := identObj(info, as.Lhs[0])
		if !isLit || o == nil {
			return true
		}
		closureDef[as] = true
		ast.Inspect(lit.Body, func(q ast.Node) bool {
			var lhss []ast.Expr
			switch x := q.(type) {
			case *ast.AssignStmt:
				lhss = x.Lhs
			case *ast.IncDecStmt:
				lhss = []ast.Expr{x.X}
			}
			for _, l := range lhss {
				if nm, isSh := shared(l); isSh {
					closureWrites[o] = append(closureWrites[o], nm)
				}
			}
			return true
		})
		return true
	})
	g := c.cfgOf(info, fi.Decl.Body)
	const (
		top = iota
		locked
		unlocked
	)
	in := map[*cfg.Block]int{}
	if len(g.g.Blocks) == 0 {
		return 0
	}
	in[g.g.Blocks[0]] = unlocked
	type wr struct {
		pos  token.Pos
		name string
		st   int
	}
	var writes map[token.Pos]*wr
	for iter := 0; iter < 50; iter++ {
		changed := false
		writes = map[token.Pos]*wr{}
		for _, b := range g.g.Blocks {
			st := in[b]
			if st == top {
				continue
			}
			for _, m := range b.Nodes {
				switch {
				case isMux(m, "Lock"):
					st = locked
				case isMux(m, "Unlock"):
					st = unlocked
				}
				var lhss []ast.Expr
				switch x := m.(type) {
				case *ast.AssignStmt:
					lhss = x.Lhs
				case *ast.IncDecStmt:
					lhss = []ast.Expr{x.X}
				}
				for _, l := range lhss {
					if nm, isSh := shared(l); isSh {
						writes[l.Pos()] = &wr{l.Pos(), nm, st}
					}
				}
				// a function literal written in place (an argument of a call made here) runs here
				if !closureDef[m] {
					ast.Inspect(m, func(q ast.Node) bool {
						lit, isLit := q.(*ast.FuncLit)
						if !isLit {
							return true
						}
						ast.Inspect(lit.Body, func(w ast.Node) bool {
							var ls []ast.Expr
							switch x := w.(type) {
							case *ast.AssignStmt:
								ls = x.Lhs
							case *ast.IncDecStmt:
								ls = []ast.Expr{x.X}
							}
							for _, l := range ls {
								if nm, isSh := shared(l); isSh {
									writes[l.Pos()] = &wr{l.Pos(), nm, st}
								}
							}
							return true
						})
						return false
					})
				}
				if !closureDef[m] && len(closureWrites) > 0 {
					ast.Inspect(m, func(q ast.Node) bool {
						if _, isLit := q.(*ast.FuncLit); isLit {
							return false
						}
						if id, isId := q.(*ast.Ident); isId {
							if o := info.Uses[id]; o != nil {
								for _, nm := range closureWrites[o] {
									writes[id.Pos()] = &wr{id.Pos(), nm, st}
								}
							}
						}
						return true
					})
				}
			}
			for _, s := range b.Succs {
				ns := st
				if in[s] == unlocked {
					ns = unlocked
				}
				if in[s] != ns {
					in[s] = ns
					changed = true
				}
			}
		}
		if !changed {
			break
		}
	}
	var poss []token.Pos
	for p := range writes {
		poss = append(poss, p)
	}
	sortPos(poss)
	n := 0
	for _, p := range poss {
		w := writes[p]
		n++
		key := fmt.Sprintf("%s/%s#%d", fi.Name(), w.name, n)
		c.Check(w.st == locked, rule, key, w.pos, "written with the mutex held on every path",
			fmt.Sprintf("`%s` is shared between the workers (it is not the slot of this call's own reference branch) and is written here on a path where `%s` is not held: concurrent `+=` lose updates, and the moved-taxa table then depends on the schedule", w.name, mux.Name())).Clause = clause
	}
	return n
}

func sortPos(p []token.Pos) {
	for i := 1; i < len(p); i++ {
		for j := i; j > 0 && p[j] < p[j-1]; j-- {
			p[j], p[j-1] = p[j-1], p[j]
		}
	}
}

// BUILTIN-VALUES: FLAGDEF's argument ("the value in the storage when the option is omitted is the
// default the help documents, and passing that default explicitly stores the same value") rests on
// pflag's own typed registrars, whose Set parses the text DefValue prints back to the same value. An
// option registered through a hand-written pflag.Value (Var / VarP / VarPF) runs user code
// on an explicitly passed value: its Set may refuse or change the documented default, which no rule
// here evaluates. Such a registration is reported, not trusted.
func (c *Ctx) builtinValues(rule string, funcs []*FuncInfo, clause string) int {
	total, bad := 0, 0
	for _, fi := range funcs {
		if fi == nil || fi.Decl.Body == nil {
			continue
		}
		info := fi.Pkg.TypesInfo
		for _, call := range callsIn(fi.Decl.Body, true) {
			h := calleeOf(info, call)
			if h == nil || !isPflagSet(h) {
				continue
			}
			switch h.Name() {
			case "Var", "VarP", "VarPF": // AddFlag re-adds a Flag object that one of the typed registrars built
				bad++
				c.Violation(rule, fmt.Sprintf("%s/%s#%d", funcName(fi.Obj), h.Name(), bad), call.Pos(), fmt.Sprintf("an option is registered through %s with a hand-written value type: what its Set method does with the documented default when the user passes it explicitly (refuse it, change it) is user code that FLAGDEF's argument does not cover", h.Name())).Clause = clause
			default:
				if strings.Contains(h.Name(), "Var") {
					total++
				}
			}
		}
	}
	if bad == 0 {
		c.OK(rule, "scan", token.NoPos, fmt.Sprintf("%d registrations, all through pflag's typed registrars", total)).Clause = clause
	}
	return total
}

// withHelpers: fi and the unexported functions of its own package that it calls (statically
// resolved, closures included), transitively up to depth - the places a refactoring moves a
// loop body or a block to.
func (c *Ctx) withHelpers(fi *FuncInfo, depth int) []*FuncInfo {
	if fi == nil {
		return nil
	}
	out := []*FuncInfo{fi}
	seen := map[*types.Func]bool{fi.Obj: true}
	var walk func(f *FuncInfo, d int)
	walk = func(f *FuncInfo, d int) {
		if d <= 0 || f.Decl.Body == nil {
			return
		}
		for _, call := range callsIn(f.Decl.Body, true) {
			h := calleeOf(f.Pkg.TypesInfo, call)
			if h == nil || !inRepo(h) || h.Pkg() != fi.Obj.Pkg() || h.Exported() {
				continue
			}
			if hfi := c.FuncOfObj(h); hfi != nil && !seen[h] {
				seen[h] = true
				out = append(out, hfi)
				walk(hfi, d-1)
			}
		}
	}
	walk(fi, depth)
	return out
}
