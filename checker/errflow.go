package main

import (
	"fmt"
	"go/ast"
	"go/token"
	"go/types"

	"golang.org/x/tools/go/cfg"
)

// ERRFLOW — an error that a property says must reach the caller does.
//
// For a designated call whose error result is stored in a variable V: on every control-flow path
// on which V is non-nil, V reaches a sink (a return that mentions it — or a bare return when V is
// a named result —, a channel send that mentions it, an assignment of it to one of the consumer's
// designated error variables) before V is overwritten or the function ends. nil-tests of V prune
// the infeasible branch; a test of a *different* variable prunes nothing (and is reported as an
// ERRVAR note). Logging is not a sink.

type errFlowResult struct {
	call      *ast.CallExpr
	errVar    types.Object
	delivered bool
	lostAt    token.Pos // overwrite or exit where the non-nil error is lost
	lostWhy   string
	wrongVar  types.Object // the test right after the call looks at this variable instead
	dropped   bool         // result not stored at all
	steps     int
}

type errFlowSpec struct {
	info      *types.Info
	body      *ast.BlockStmt // body owning the CFG (function or closure)
	ftype     *ast.FuncType  // its type (named results)
	sinkVars  map[types.Object]bool
	extraSink func(n ast.Node, v types.Object) bool
}

func isNilIdent(info *types.Info, e ast.Expr) bool {
	id, ok := unparen(e).(*ast.Ident)
	return ok && id.Name == "nil" && info.Uses[id] == types.Universe.Lookup("nil")
}

// nilTest: cond is `V == nil` / `V != nil`; returns V and whether the TRUE branch means non-nil.
func nilTest(info *types.Info, e ast.Expr) (types.Object, bool, bool) {
	be, ok := unparen(e).(*ast.BinaryExpr)
	if !ok || (be.Op != token.EQL && be.Op != token.NEQ) {
		return nil, false, false
	}
	var v ast.Expr
	switch {
	case isNilIdent(info, be.Y):
		v = be.X
	case isNilIdent(info, be.X):
		v = be.Y
	default:
		return nil, false, false
	}
	o := identObj(info, v)
	if o == nil {
		return nil, false, false
	}
	return o, be.Op == token.NEQ, true
}

func (c *Ctx) errFlow(sp *errFlowSpec, call *ast.CallExpr) errFlowResult {
	info := sp.info
	res := errFlowResult{call: call}
	// the statement that stores the result
	st := stackTo(sp.body, call)
	var assign *ast.AssignStmt
	for i := len(st) - 1; i >= 0; i-- {
		if as, ok := st[i].(*ast.AssignStmt); ok {
			if len(as.Rhs) == 1 && unparen(as.Rhs[0]) == ast.Expr(call) {
				assign = as
			}
			break
		}
		if _, ok := st[i].(ast.Stmt); ok {
			if rs, ok := st[i].(*ast.ReturnStmt); ok {
				_ = rs
				res.delivered = true // `return f()` hands the error over directly
				return res
			}
			break
		}
	}
	if assign == nil {
		res.dropped = true
		res.lostAt = call.Pos()
		res.lostWhy = "the error result is not stored"
		return res
	}
	last := assign.Lhs[len(assign.Lhs)-1]
	if id, ok := last.(*ast.Ident); ok && id.Name == "_" {
		res.dropped = true
		res.lostAt = call.Pos()
		res.lostWhy = "the error result is assigned to _"
		return res
	}
	v := identObj(info, last)
	if v == nil || !isErrorType(v.Type()) {
		// field store such as rec.Err = f(): treat a store into a struct field as delivery
		if sel, ok := unparen(last).(*ast.SelectorExpr); ok && isErrorType(info.TypeOf(sel)) {
			res.delivered = true
			return res
		}
		res.dropped = true
		res.lostAt = call.Pos()
		res.lostWhy = "the error result is not stored in an error variable"
		return res
	}
	res.errVar = v
	if sp.sinkVars[v] {
		// stored directly in a designated error variable; it must still not be overwritten before an exit
	}
	named := map[types.Object]bool{}
	if sp.ftype != nil && sp.ftype.Results != nil {
		for _, f := range sp.ftype.Results.List {
			for _, n := range f.Names {
				if o := info.Defs[n]; o != nil {
					named[o] = true
				}
			}
		}
	}
	fg := c.cfgOf(info, sp.body)
	b0, i0 := locate(fg.g, assign.Pos())
	if b0 == nil {
		res.lostWhy = "assignment not found in the control-flow graph"
		res.lostAt = assign.Pos()
		return res
	}
	mentionsV := func(n ast.Node) bool { return mentions(info, n, v) }
	isSink := func(n ast.Node) bool {
		switch s := n.(type) {
		case *ast.ReturnStmt:
			if len(s.Results) == 0 {
				return named[v] || sp.sinkVarsReturned(info, named)
			}
			for _, r := range s.Results {
				if mentionsV(r) {
					return true
				}
			}
			// returning a designated variable that already holds it is handled through assignment
		case *ast.SendStmt:
			return mentionsV(s.Value)
		case *ast.AssignStmt:
			for i, l := range s.Lhs {
				o := identObj(info, l)
				var r ast.Expr
				if len(s.Rhs) == len(s.Lhs) {
					r = s.Rhs[i]
				} else if len(s.Rhs) == 1 {
					r = s.Rhs[0]
				}
				if r != nil && mentionsV(r) {
					if o != nil && o != v && (sp.sinkVars[o] || named[o]) {
						return true
					}
					if sel, ok := unparen(l).(*ast.SelectorExpr); ok && isErrorType(info.TypeOf(sel)) {
						return true // stored into a record field
					}
				}
			}
		}
		if sp.extraSink != nil && sp.extraSink(n, v) {
			return true
		}
		// a call handing the error to a local closure / helper that stores its parameter into a
		// designated error variable (`setErr(inerr)`)
		if es, ok := n.(*ast.ExprStmt); ok {
			if call, ok := es.X.(*ast.CallExpr); ok {
				for i, a := range call.Args {
					if !mentionsV(a) {
						continue
					}
					if c.storesParamIntoSink(info, call, i, sp.sinkVars, named) {
						return true
					}
					// or to a helper that sends a record carrying its parameter (`sendFailure(ch, id, err)`)
					if g := calleeOf(info, call); g != nil && inRepo(g) {
						if gi := c.FuncOfObj(g); gi != nil && gi.Decl.Body != nil {
							if p := paramObj(gi.Pkg.TypesInfo, gi.Decl, i); p != nil {
								sends := false
								ast.Inspect(gi.Decl.Body, func(m ast.Node) bool {
									if ss, isSend := m.(*ast.SendStmt); isSend && mentions(gi.Pkg.TypesInfo, ss.Value, p) {
										sends = true
									}
									return true
								})
								if sends {
									return true
								}
							}
						}
					}
				}
			}
		}
		return false
	}
	overwrites := func(n ast.Node) bool {
		switch s := n.(type) {
		case *ast.AssignStmt:
			if s == assign {
				return false
			}
			for _, l := range s.Lhs {
				if identObj(info, l) == v {
					return true
				}
			}
		}
		return false
	}
	// ERRVAR: the conditional that ends the block of the assignment tests another error variable
	if len(b0.Succs) == 2 && len(b0.Nodes) > 0 {
		if ce, ok := b0.Nodes[len(b0.Nodes)-1].(ast.Expr); ok {
			onlyBetween := true
			for _, n := range b0.Nodes[i0+1 : len(b0.Nodes)-1] {
				if mentionsV(n) {
					onlyBetween = false
				}
			}
			if tv, _, ok := nilTest(info, ce); ok && tv != v && isErrorType(tv.Type()) && onlyBetween && i0 == len(b0.Nodes)-2 {
				res.wrongVar = tv
			}
		}
	}
	type state struct {
		b *cfg.Block
		i int
	}
	seen := map[*cfg.Block]bool{}
	var walk func(b *cfg.Block, start int) bool
	walk = func(b *cfg.Block, start int) bool {
		for i := start; i < len(b.Nodes); i++ {
			res.steps++
			n := b.Nodes[i]
			if isSink(n) {
				return true
			}
			if overwrites(n) {
				res.lostAt = n.Pos()
				res.lostWhy = "the variable holding the error is overwritten"
				return false
			}
			if _, ok := n.(*ast.ReturnStmt); ok {
				res.lostAt = n.Pos()
				res.lostWhy = "the function returns without the error"
				return false
			}
		}
		if len(b.Succs) == 0 {
			if len(b.Nodes) > 0 {
				if es, ok := b.Nodes[len(b.Nodes)-1].(*ast.ExprStmt); ok {
					if cl, ok := es.X.(*ast.CallExpr); ok && fg.noRet(cl) {
						return true // process exit: nothing to deliver to
					}
				}
				res.lostAt = b.Nodes[len(b.Nodes)-1].End()
			} else {
				res.lostAt = sp.body.End()
			}
			// falling off the end of a function body: bare exit
			if named[v] {
				return true
			}
			res.lostWhy = "the function ends without the error"
			return false
		}
		succs := b.Succs
		if len(succs) == 2 && len(b.Nodes) > 0 {
			if ce, ok := b.Nodes[len(b.Nodes)-1].(ast.Expr); ok {
				if tv, trueIsNonNil, ok := nilTest(info, ce); ok && tv == v {
					if trueIsNonNil {
						succs = succs[:1]
					} else {
						succs = succs[1:]
					}
				}
			}
		}
		for _, s := range succs {
			if seen[s] {
				continue
			}
			seen[s] = true
			if !walk(s, 0) {
				return false
			}
		}
		return true
	}
	res.delivered = walk(b0, i0+1)
	return res
}

func (sp *errFlowSpec) sinkVarsReturned(info *types.Info, named map[types.Object]bool) bool {
	return false
}

// reportErrFlow turns a result into obligations. severityLost: violation when the error can be lost.
func (c *Ctx) reportErrFlow(rule, key string, r errFlowResult, what, clause string) {
	if r.wrongVar != nil {
		c.Note("ERRVAR", key, r.call.Pos(), fmt.Sprintf("the error of %s is stored in `%s` but the test that follows looks at `%s`", what, r.errVar.Name(), r.wrongVar.Name()))
	}
	if r.delivered {
		c.OK(rule, key, r.call.Pos(), "error of "+what+" reaches the caller on every path where it is non-nil")
		return
	}
	_, ln := c.pos(r.lostAt)
	cause := ""
	if r.wrongVar != nil {
		cause = fmt.Sprintf(" (cause: it is stored in `%s` but `%s` is tested)", r.errVar.Name(), r.wrongVar.Name())
	}
	o := c.Violation(rule, key, r.call.Pos(), fmt.Sprintf("the error of %s can be lost: %s at line %d%s", what, r.lostWhy, ln, cause))
	o.Clause = clause
}

// storesParamIntoSink: the callee (a function literal bound to a local, or a repository function)
// assigns its i-th parameter to one of the designated error variables.
func (c *Ctx) storesParamIntoSink(info *types.Info, call *ast.CallExpr, i int, sinks, named map[types.Object]bool) bool {
	var ftype *ast.FuncType
	var body *ast.BlockStmt
	if id, ok := unparen(call.Fun).(*ast.Ident); ok {
		if o := info.Uses[id]; o != nil {
			if _, isVar := o.(*types.Var); isVar {
				// find `o := func(...) {...}`
				for _, p := range c.All {
					if p.TypesInfo != info {
						continue
					}
					for _, f := range p.Syntax {
						if !(f.Pos() <= o.Pos() && o.Pos() < f.End()) {
							continue
						}
						ast.Inspect(f, func(n ast.Node) bool {
							if as, ok := n.(*ast.AssignStmt); ok {
								for k, l := range as.Lhs {
									if lid, ok := l.(*ast.Ident); ok && (info.Defs[lid] == o || info.Uses[lid] == o) && k < len(as.Rhs) {
										if fl, ok := unparen(as.Rhs[k]).(*ast.FuncLit); ok {
											ftype, body = fl.Type, fl.Body
										}
									}
								}
							}
							return true
						})
					}
				}
			}
		}
	}
	if body == nil {
		if fn := calleeOf(info, call); fn != nil && inRepo(fn) {
			if g := c.FuncOfObj(fn); g != nil && g.Pkg.TypesInfo == info {
				ftype, body = g.Decl.Type, g.Decl.Body
			}
		}
	}
	if body == nil || ftype == nil {
		return false
	}
	// the i-th parameter object
	var param types.Object
	k := 0
	for _, f := range ftype.Params.List {
		for _, nm := range f.Names {
			if k == i {
				param = info.Defs[nm]
			}
			k++
		}
	}
	if param == nil {
		return false
	}
	found := false
	ast.Inspect(body, func(n ast.Node) bool {
		if as, ok := n.(*ast.AssignStmt); ok && len(as.Lhs) == len(as.Rhs) {
			for j, l := range as.Lhs {
				if lo := identObj(info, l); lo != nil && (sinks[lo] || named[lo]) && identObj(info, as.Rhs[j]) == param {
					found = true
				}
			}
		}
		return true
	})
	return found
}
