package main

import (
	"fmt"
	"go/ast"
	"go/token"
	"go/types"
	"os"
	"strconv"
	"strings"

	"golang.org/x/tools/go/cfg"
	"golang.org/x/tools/go/packages"
)

// Rules written after the fifth round of seeded changes (see DESIGN.md, section 7quater).

// ---------------------------------------------------------------------------------------------
// ERR-DEAD: an error stored in a variable by a call is looked at before that variable is written
// again. Decided on the go/cfg graph of the function: from the assignment, on every path the first
// thing that happens to the variable is a read (a test, a return of it, an argument); a path on which
// another assignment comes first loses the error of the first call (the code then goes on with a
// result that the failed call did not produce).
//
// accept filters the calls whose error is tracked. Function literals are analysed as functions of
// their own; a variable captured by a literal is not tracked (the literal may read it at any time).
func (c *Ctx) errDead(rule string, funcs []*FuncInfo, accept func(info *types.Info, call *ast.CallExpr) bool, clause string) (sites, violations int) {
	for _, fi := range funcs {
		info := fi.Pkg.TypesInfo
		var bodies []*ast.BlockStmt
		bodies = append(bodies, fi.Decl.Body)
		ast.Inspect(fi.Decl.Body, func(n ast.Node) bool {
			if fl, ok := n.(*ast.FuncLit); ok {
				bodies = append(bodies, fl.Body)
			}
			return true
		})
		for bi, body := range bodies {
			var g *fcfg
			// variables mentioned inside nested literals of this body
			captured := map[types.Object]bool{}
			ast.Inspect(body, func(n ast.Node) bool {
				if fl, ok := n.(*ast.FuncLit); ok && fl.Body != body {
					ast.Inspect(fl.Body, func(m ast.Node) bool {
						if id, ok := m.(*ast.Ident); ok {
							if o := info.Uses[id]; o != nil {
								captured[o] = true
							}
						}
						return true
					})
					return false
				}
				return true
			})
			var named map[types.Object]bool
			if bi == 0 && fi.Decl.Type.Results != nil {
				named = map[types.Object]bool{}
				for _, f := range fi.Decl.Type.Results.List {
					for _, nm := range f.Names {
						named[info.Defs[nm]] = true
					}
				}
			}
			walkStack(body, func(n ast.Node, stack []ast.Node) bool {
				if fl, ok := n.(*ast.FuncLit); ok && fl.Body != body {
					return false
				}
				as, ok := n.(*ast.AssignStmt)
				if !ok || len(as.Rhs) != 1 {
					return true
				}
				call, ok := unparen(as.Rhs[0]).(*ast.CallExpr)
				if !ok || !accept(info, call) {
					return true
				}
				// the error result: last left-hand side, of type error
				last := as.Lhs[len(as.Lhs)-1]
				v := identObj(info, last)
				if v == nil || !isErrorType(v.Type()) || captured[v] {
					return true
				}
				if id, ok := last.(*ast.Ident); ok && id.Name == "_" {
					return true
				}
				if g == nil {
					g = c.cfgOf(info, body)
				}
				sites++
				fnName := "call"
				if fn := calleeOf(info, call); fn != nil {
					fnName = fn.Name()
				}
				key := fmt.Sprintf("%s/%s→%s", funcName(fi.Obj), fnName, v.Name())
				if bi > 0 {
					key += fmt.Sprintf("#lit%d", bi)
				}
				if w := firstEventIsWrite(g.g, info, as, v, named != nil && named[v]); w != nil {
					violations++
					c.Violation(rule, key, w.Pos(), fmt.Sprintf("the error that `%s` stores in `%s` is overwritten here before anything looks at it: when that call fails the code goes on as if it had succeeded", c.src(call), v.Name())).Clause = clause
				} else {
					c.OK(rule, key, as.Pos(), "the error is read before the variable is written again").Clause = clause
				}
				return true
			})
		}
	}
	return
}

// firstEventIsWrite: starting after assignment `from` (which defines v), is there a path on which v
// is assigned again before it is read? Returns that second assignment, else nil.
func firstEventIsWrite(g *cfg.CFG, info *types.Info, from *ast.AssignStmt, v types.Object, isNamedResult bool) ast.Node {
	blk, idx := locate(g, from.Pos())
	if blk == nil {
		return nil
	}
	// event of one CFG node: 'r' read, 'w' pure write, 0 none
	event := func(n ast.Node) (byte, ast.Node) {
		if n == ast.Node(from) {
			return 0, nil
		}
		reads, writes := false, false
		var wnode ast.Node
		lhs := map[*ast.Ident]bool{}
		ast.Inspect(n, func(m ast.Node) bool {
			switch x := m.(type) {
			case *ast.FuncLit:
				return false
			case *ast.AssignStmt:
				for _, l := range x.Lhs {
					if id, ok := unparen(l).(*ast.Ident); ok && (info.Uses[id] == v || info.Defs[id] == v) {
						lhs[id] = true
						if x.Tok == token.ASSIGN || x.Tok == token.DEFINE {
							writes = true
							wnode = x
						} else {
							reads = true // op-assign reads
						}
					}
				}
			case *ast.ReturnStmt:
				if len(x.Results) == 0 && isNamedResult {
					reads = true
				}
			}
			return true
		})
		ast.Inspect(n, func(m ast.Node) bool {
			if _, ok := m.(*ast.FuncLit); ok {
				return false
			}
			if id, ok := m.(*ast.Ident); ok && !lhs[id] && info.Uses[id] == v {
				reads = true
			}
			return true
		})
		switch {
		case reads:
			return 'r', nil
		case writes:
			return 'w', wnode
		}
		return 0, nil
	}
	seen := map[*cfg.Block]bool{}
	var found ast.Node
	var walk func(b *cfg.Block, start int)
	walk = func(b *cfg.Block, start int) {
		if found != nil {
			return
		}
		for i := start; i < len(b.Nodes); i++ {
			switch ev, w := event(b.Nodes[i]); ev {
			case 'r':
				return
			case 'w':
				found = w
				return
			}
		}
		for _, s := range b.Succs {
			if !seen[s] {
				seen[s] = true
				walk(s, 0)
			}
		}
	}
	walk(blk, idx+1)
	return found
}

// funcsInFiles: the declared functions and the package-level closures (cobra Run functions) whose
// source lies in one of the given files (paths relative to the repository root; a trailing "/"
// selects a whole directory).
func (c *Ctx) funcsInFiles(files ...string) []*FuncInfo {
	match := func(p token.Pos) bool {
		f, _ := c.pos(p)
		for _, w := range files {
			if f == w || (len(w) > 0 && w[len(w)-1] == '/' && len(f) > len(w) && f[:len(w)] == w && !containsSlash(f[len(w):])) {
				return true
			}
		}
		return false
	}
	var out []*FuncInfo
	for _, fi := range c.AllFuncs() {
		if match(fi.Decl.Pos()) {
			out = append(out, fi)
		}
	}
	for _, fi := range c.PkgLevelClosures() {
		if match(fi.Decl.Pos()) {
			out = append(out, fi)
		}
	}
	return out
}

func containsSlash(s string) bool {
	for i := 0; i < len(s); i++ {
		if s[i] == '/' {
			return true
		}
	}
	return false
}

// errDeadIn: ERR-DEAD over the functions of the given files, for every call of a function of the
// repository or of the standard library whose last result is an error.
func (c *Ctx) errDeadIn(clause string, floor int, files ...string) {
	if os.Getenv("GTVERIF_ERRDEAD_ALL") != "" {
		files = []string{"cmd/", "tree/", "io/", "io/newick/", "io/nexus/", "io/phyloxml/", "io/nextstrain/", "io/utils/", "io/fileutils/", "support/", "acr/", "asr/", "draw/", "hashmap/", "download/", "upload/", "mutils/"}
	}
	fs := c.funcsInFiles(files...)
	ns, _ := c.errDead("ERR-DEAD", fs, func(info *types.Info, call *ast.CallExpr) bool {
		fn := calleeOf(info, call)
		if fn == nil || fn.Pkg() == nil {
			return false
		}
		// error constructors do not fail: what becomes of the value they build is ERRFLOW's subject
		// (and a flag-controlled loop that stores one and leaves is no overwrite)
		if (fn.Pkg().Path() == "fmt" && fn.Name() == "Errorf") || (fn.Pkg().Path() == "errors" && fn.Name() == "New") {
			return false
		}
		return true
	}, clause)
	c.Extra["err_dead_sites"] = ns
	c.Floor("ERR-DEAD", floor)
	nw, _ := c.errSwallow("ERR-SWALLOW", fs, clause)
	c.Extra["err_swallow_sites"] = nw
	c.Floor("ERR-SWALLOW", floor/4)
}

// ---------------------------------------------------------------------------------------------
// ERR-SWALLOW: inside `if E != nil { ... }` (E of type error) a function that has an error result
// does not leave with a nil error: no `return nil`, and no bare return while the named error result
// is another variable than E that the block has not assigned. (The error was detected and logged, but
// the caller is told that everything went well.)
func (c *Ctx) errSwallow(rule string, funcs []*FuncInfo, clause string) (sites, violations int) {
	for _, fi := range funcs {
		info := fi.Pkg.TypesInfo
		type fn struct {
			ftype *ast.FuncType
			body  *ast.BlockStmt
			name  string
		}
		fns := []fn{{fi.Decl.Type, fi.Decl.Body, funcName(fi.Obj)}}
		k := 0
		ast.Inspect(fi.Decl.Body, func(n ast.Node) bool {
			if fl, ok := n.(*ast.FuncLit); ok {
				k++
				fns = append(fns, fn{fl.Type, fl.Body, fmt.Sprintf("%s#lit%d", funcName(fi.Obj), k)})
			}
			return true
		})
		for _, f := range fns {
			if f.ftype.Results == nil || len(f.ftype.Results.List) == 0 {
				continue
			}
			lastF := f.ftype.Results.List[len(f.ftype.Results.List)-1]
			if t := info.TypeOf(lastF.Type); t == nil || !isErrorType(t) {
				continue
			}
			var named types.Object
			if len(lastF.Names) > 0 {
				named = info.Defs[lastF.Names[len(lastF.Names)-1]]
			}
			nInF := 0
			ast.Inspect(f.body, func(n ast.Node) bool {
				if fl, ok := n.(*ast.FuncLit); ok && fl.Body != f.body {
					return false
				}
				is, ok := n.(*ast.IfStmt)
				if !ok {
					return true
				}
				be, ok := unparen(is.Cond).(*ast.BinaryExpr)
				if !ok || be.Op != token.NEQ {
					return true
				}
				e := be.X
				if !isNilIdent(info, be.Y) {
					if !isNilIdent(info, be.X) {
						return true
					}
					e = be.Y
				}
				if t := info.TypeOf(e); t == nil || !isErrorType(t) {
					return true
				}
				eObj := identObj(info, e)
				// returns of this block (not of nested literals, not of nested `if` on another error)
				assignedNamed := false
				var walk func(list []ast.Stmt)
				walk = func(list []ast.Stmt) {
					for _, st := range list {
						switch s := st.(type) {
						case *ast.AssignStmt:
							for _, l := range s.Lhs {
								if named != nil && identObj(info, l) == named {
									assignedNamed = true
								}
							}
						case *ast.BlockStmt:
							walk(s.List)
						case *ast.ReturnStmt:
							sites++
							nInF++
							key := fmt.Sprintf("%s/if %s != nil/return#%d", f.name, c.src(e), nInF)
							bad := ""
							switch {
							case len(s.Results) == 0:
								if named != nil && eObj != named && !assignedNamed {
									bad = fmt.Sprintf("a bare return leaves with the named result `%s`, which this block has not set, while the error tested is `%s`", named.Name(), c.src(e))
								}
							default:
								if isNilIdent(info, s.Results[len(s.Results)-1]) {
									bad = "`return ... nil` inside the branch that has just found `" + c.src(e) + "` non-nil"
								}
							}
							if bad != "" {
								violations++
								c.Violation(rule, key, s.Pos(), bad+": the error is detected but the caller is told that everything went well").Clause = clause
							} else {
								c.OK(rule, key, s.Pos(), "the failure branch leaves with a non-nil error").Clause = clause
							}
						}
					}
				}
				walk(is.Body.List)
				return true
			})
		}
	}
	return
}

// ---------------------------------------------------------------------------------------------
// NO-BREAK: a function whose loops must look at every element (the candidates of a contraction, the
// branches starting the flood fills, the names read from a list file) has no `break` that leaves
// one of its loops: a `break` written where `continue` was meant silently drops everything after
// the first skipped element. Labelled breaks and breaks of a switch/select are not loop exits; a
// break under a test of an error value (end of input) and the breaks of a `for { }` loop without a
// condition of its own (they are its condition) are the loop's regular end.
func (c *Ctx) noBreakLoops(rule string, fi *FuncInfo, clause, what string) {
	key := fi.Name() + "/every-element"
	nLoops := 0
	var bad *ast.BranchStmt
	walkStack(fi.Decl.Body, func(n ast.Node, stack []ast.Node) bool {
		switch x := n.(type) {
		case *ast.FuncLit:
			return false
		case *ast.ForStmt, *ast.RangeStmt:
			nLoops++
		case *ast.BranchStmt:
			if x.Tok != token.BREAK || x.Label != nil || bad != nil {
				return true
			}
			info := fi.Pkg.TypesInfo
			onError := false // `if err != nil { break }`: the input is exhausted or unreadable
			for i := len(stack) - 1; i >= 0; i-- {
				switch l := stack[i].(type) {
				case *ast.SwitchStmt, *ast.TypeSwitchStmt, *ast.SelectStmt:
					return true // leaves the switch, not a loop
				case *ast.IfStmt:
					if be, ok := unparen(l.Cond).(*ast.BinaryExpr); ok && (be.Op == token.NEQ || be.Op == token.EQL) {
						if t := info.TypeOf(be.X); t != nil && isErrorType(t) {
							onError = true
						}
					}
				case *ast.ForStmt:
					// a loop without a condition of its own ends by its breaks: they are its condition
					if l.Cond == nil || onError {
						return true
					}
					bad = x
					return true
				case *ast.RangeStmt:
					if onError {
						return true
					}
					bad = x
					return true
				}
			}
		}
		return true
	})
	if bad != nil {
		c.Violation(rule, key, bad.Pos(), "a `break` leaves a loop of "+fi.Obj.Name()+" that "+what+": the elements after that point are never looked at").Clause = clause
		return
	}
	c.OK(rule, key, fi.Decl.Pos(), fmt.Sprintf("%d loops, none left by a break", nLoops)).Clause = clause
}

// ---------------------------------------------------------------------------------------------
// LASTLINE: (*bufio.Reader).ReadString / ReadBytes hand back the last, unterminated line of a file
// TOGETHER with io.EOF. Every line loop of the repository has the form `for err == nil { use(line);
// line, err = read() }`, which never looks at data that arrives with an error: a list file whose
// last line has no newline would lose that line. The rule: these two methods are only called in a
// function that itself tests the error against io.EOF (i.e. handles "data and end of file").
func (c *Ctx) lastLine(rule string, funcs []*FuncInfo, clause string) (calls, violations int) {
	for _, fi := range funcs {
		info := fi.Pkg.TypesInfo
		handlesEOF := false
		ast.Inspect(fi.Decl.Body, func(n ast.Node) bool {
			if sel, ok := n.(*ast.SelectorExpr); ok && sel.Sel.Name == "EOF" {
				if v, ok := info.Uses[sel.Sel].(*types.Var); ok && v.Pkg() != nil && v.Pkg().Path() == "io" {
					handlesEOF = true
				}
			}
			return true
		})
		for _, call := range callsIn(fi.Decl.Body, true) {
			fn := calleeOf(info, call)
			if fn == nil || fn.Pkg() == nil || fn.Pkg().Path() != "bufio" || (fn.Name() != "ReadString" && fn.Name() != "ReadBytes") {
				continue
			}
			calls++
			key := funcName(fi.Obj) + "/" + fn.Name()
			// ReadLine strips "\r\n" as well as "\n"; ReadString keeps the delimiter and whatever
			// precedes it: a reader built on it must strip the carriage return itself
			stripsCR := false
			ast.Inspect(fi.Decl.Body, func(n ast.Node) bool {
				if lit, ok := n.(*ast.BasicLit); ok && lit.Kind == token.STRING && strings.Contains(lit.Value, `\r`) {
					stripsCR = true
				}
				if lit, ok := n.(*ast.BasicLit); ok && lit.Kind == token.CHAR && lit.Value == `'\r'` {
					stripsCR = true
				}
				return true
			})
			if cl, ok := n2TrimSpace(info, fi.Decl.Body); ok && cl {
				stripsCR = true
			}
			if handlesEOF && stripsCR {
				c.OK(rule, key, call.Pos(), "the function tests the error against io.EOF and strips the carriage return").Clause = clause
				continue
			}
			if handlesEOF {
				violations++
				c.Violation(rule, key, call.Pos(), "`"+c.src(call)+"` keeps the line terminator: with the line feed alone removed, every line of a file with Windows line endings keeps its carriage return (the ReadLine-based reader stripped both), so names read from such a file never match").Clause = clause
				continue
			}
			violations++
			c.Violation(rule, key, call.Pos(), "`"+c.src(call)+"` returns the last line of a file that does not end with a newline together with io.EOF, and nothing here looks at data that comes with an error: that line is dropped (the line loops of the repository stop at the first non-nil error)").Clause = clause
		}
	}
	return
}

// lastLineIn: LASTLINE over the line readers the commands share (cmd/root.go, io/fileutils,
// io/utils) plus the given files.
func (c *Ctx) lastLineIn(clause string, files ...string) {
	files = append(files, "cmd/root.go", "io/fileutils/", "io/utils/")
	fs := c.funcsInFiles(files...)
	n, _ := c.lastLine("LASTLINE", fs, clause)
	c.Extra["readstring_calls"] = n
	// the rule expects no call today: what shows that it still looks at something is the number of
	// functions scanned and the positive control
	if len(fs) < 20 {
		c.Undecided("LASTLINE", "scan", token.NoPos, fmt.Sprintf("only %d functions scanned in the shared line readers (at least 20 confirmed by hand)", len(fs)))
	} else {
		c.OK("LASTLINE", "scan", token.NoPos, fmt.Sprintf("%d functions of the shared line readers scanned, %d calls of ReadString/ReadBytes", len(fs), n)).Clause = clause
	}
	if fx := c.Fixture(); fx != nil {
		sub := c.subCtx(fx)
		_, nv := sub.lastLine("LASTLINE", sub.AllFuncs(), "")
		c.Control("LASTLINE", nv == 3, "fixture.C05ReadString reads lines with ReadString and never looks at io.EOF")
	}
}

// ---------------------------------------------------------------------------------------------
// FRESH-RESULT: the enumerations of a tree (Edges, InternalEdges, TipEdges, Nodes, Tips, SortedTips,
// AllTipNames) hand out a slice that belongs to the caller: the variable they return is created in
// the call (make, a literal, a nil declaration) and never set from storage kept in the tree. A buffer
// kept in the tree and re-used by the next call is rewritten under the feet of a caller that is
// still ranging over the previous result (the NNI enumeration ranges over Edges() while its callback
// lists the branches again).
func (c *Ctx) freshResult(rule string, fis []*FuncInfo, clause string) int {
	n := 0
	for _, fi := range fis {
		info := fi.Pkg.TypesInfo
		recv := recvObj(info, fi.Decl)
		sig := fi.Obj.Type().(*types.Signature)
		if sig.Results().Len() == 0 {
			continue
		}
		if _, isSlice := sig.Results().At(0).Type().Underlying().(*types.Slice); !isSlice {
			continue
		}
		n++
		key := fi.Name() + "/result-is-fresh"
		fromRecv := func(e ast.Expr) bool {
			found := false
			ast.Inspect(e, func(m ast.Node) bool {
				if cl, ok := m.(*ast.CallExpr); ok {
					// a call produces its own value (Edges() calling edgesRecur, sort helpers ...);
					// only the arguments of append/copy-like built-ins are looked into
					if id, ok := unparen(cl.Fun).(*ast.Ident); ok {
						if _, isB := info.Uses[id].(*types.Builtin); isB && id.Name == "append" {
							return true
						}
					}
					return false
				}
				if sel, ok := m.(*ast.SelectorExpr); ok && recv != nil && identObj(info, sel.X) == recv {
					if v, ok := info.Uses[sel.Sel].(*types.Var); ok && v.IsField() {
						switch v.Type().Underlying().(type) {
						case *types.Slice:
							found = true
						}
					}
				}
				return true
			})
			return found
		}
		var bad ast.Node
		why := ""
		returned := map[types.Object]bool{}
		if fi.Decl.Type.Results != nil {
			for _, f := range fi.Decl.Type.Results.List[:1] {
				for _, nm := range f.Names {
					returned[info.Defs[nm]] = true
				}
			}
		}
		ast.Inspect(fi.Decl.Body, func(m ast.Node) bool {
			if _, ok := m.(*ast.FuncLit); ok {
				return false
			}
			if r, ok := m.(*ast.ReturnStmt); ok && len(r.Results) >= 1 {
				if o := identObj(info, r.Results[0]); o != nil {
					returned[o] = true
				} else if fromRecv(r.Results[0]) && bad == nil {
					bad, why = r, "returns `"+c.src(r.Results[0])+"`, storage kept in the tree"
				}
			}
			return true
		})
		ast.Inspect(fi.Decl.Body, func(m ast.Node) bool {
			as, ok := m.(*ast.AssignStmt)
			if !ok || bad != nil {
				return true
			}
			for i, l := range as.Lhs {
				if o := identObj(info, l); o != nil && returned[o] && len(as.Lhs) == len(as.Rhs) && fromRecv(as.Rhs[i]) {
					bad, why = as, "the returned slice `"+o.Name()+"` is set from `"+c.src(as.Rhs[i])+"`, storage kept in the tree"
				}
			}
			return true
		})
		if bad != nil {
			c.Violation(rule, key, bad.Pos(), fi.Obj.Name()+" "+why+": the next call rewrites what the previous caller is still reading").Clause = clause
		} else {
			c.OK(rule, key, fi.Decl.Pos(), "the slice handed out is created in the call").Clause = clause
		}
	}
	return n
}

// ---------------------------------------------------------------------------------------------
// REORIENT-REINDEX: the left/right hash codes and tip counts of a branch describe "what is below" and
// "what is above" it, so they depend on the orientation. Every exported method of Tree that
// re-orients branches (reaches ReorderEdges through statically resolved calls) also reaches each part
// of the re-indexing: UpdateBitSet, ComputeEdgeHashes and ComputeDepths. (Flow-insensitive: that the
// re-indexing comes after the re-orientation is PATH's subject in C05.)
func (c *Ctx) reorientReindex(rule string, clause string) int {
	n := 0
	is := func(name string) func(*types.Func) bool {
		return func(f *types.Func) bool { return isRepoFunc(f, "tree", "Tree", name) }
	}
	for _, fi := range c.AllFuncs("tree") {
		if !fi.Obj.Exported() || fi.Decl.Recv == nil || fi.Obj.Name() == "ReorderEdges" {
			continue
		}
		if sig := fi.Obj.Type().(*types.Signature); sig.Recv() == nil || !isTreePtr(sig.Recv().Type()) {
			continue
		}
		if !c.reaches(fi.Obj, is("ReorderEdges"), 4, map[*types.Func]bool{}) {
			continue
		}
		n++
		var missing []string
		for _, part := range []string{"UpdateBitSet", "ComputeEdgeHashes", "ComputeDepths"} {
			if !c.reaches(fi.Obj, is(part), 5, map[*types.Func]bool{}) {
				missing = append(missing, part)
			}
		}
		key := fi.Name() + "/reindexes"
		if len(missing) > 0 {
			c.Violation(rule, key, fi.Decl.Pos(), fi.Obj.Name()+" re-orients branches (ReorderEdges) but never calls "+strings.Join(missing, ", ")+": the side data of the reversed branches (hash codes and tip counts of 'left' and 'right') keep describing the old orientation").Clause = clause
		} else {
			c.OK(rule, key, fi.Decl.Pos(), "re-orients and re-indexes (bit sets, hashes, depths)").Clause = clause
		}
	}
	return n
}

// ---------------------------------------------------------------------------------------------
// USE-AFTER-DEL: delNode(x) wipes both ends (and the bit set) of every branch of x. A branch variable
// that was obtained from x (x.br[i], x.Edges()[i], x.ParentEdge(), range over x.br) is therefore not
// used after t.delNode(x) in the same function: re-attaching it sets one end again and leaves the
// other nil, and the enumerations (which follow `left`) silently skip what hangs below.
// unconnectNode is the helper that forgets the node and keeps its branches.
func (c *Ctx) useAfterDel(rule string, funcs []*FuncInfo, clause string) (sites, violations int) {
	for _, fi := range funcs {
		info := fi.Pkg.TypesInfo
		for _, call := range callsIn(fi.Decl.Body, false) {
			if !isRepoFunc(calleeOf(info, call), "tree", "Tree", "delNode") || len(call.Args) != 1 {
				continue
			}
			x := identObj(info, call.Args[0])
			if x == nil {
				continue
			}
			sites++
			key := fmt.Sprintf("%s/delNode(%s)", funcName(fi.Obj), x.Name())
			// branch variables obtained from x
			fromX := func(e ast.Expr) bool {
				found := false
				ast.Inspect(e, func(m ast.Node) bool {
					switch q := m.(type) {
					case *ast.SelectorExpr:
						if identObj(info, q.X) == x && (q.Sel.Name == "br" || q.Sel.Name == "Edges" || q.Sel.Name == "ParentEdge") {
							found = true
						}
					}
					return true
				})
				return found
			}
			edges := map[types.Object]bool{}
			ast.Inspect(fi.Decl.Body, func(m ast.Node) bool {
				switch s := m.(type) {
				case *ast.AssignStmt:
					if len(s.Rhs) == 1 && fromX(s.Rhs[0]) {
						if o := identObj(info, s.Lhs[0]); o != nil && isEdgePtr(o.Type()) {
							edges[o] = true
						}
					}
				case *ast.RangeStmt:
					if fromX(s.X) && s.Value != nil {
						if o := identObj(info, s.Value); o != nil && isEdgePtr(o.Type()) {
							edges[o] = true
						}
					}
				}
				return true
			})
			var bad *ast.Ident
			ast.Inspect(fi.Decl.Body, func(m ast.Node) bool {
				if id, ok := m.(*ast.Ident); ok && bad == nil && id.Pos() > call.End() {
					if o := info.Uses[id]; o != nil && edges[o] {
						bad = id
					}
				}
				return true
			})
			if bad != nil {
				violations++
				c.Violation(rule, key, bad.Pos(), fmt.Sprintf("branch `%s` was obtained from node `%s` and is used after t.delNode(%s), which has set both of its ends to nil: whatever end is not set again stays nil and the branch enumerations skip everything below it", bad.Name, x.Name(), x.Name())).Clause = clause
			} else {
				c.OK(rule, key, call.Pos(), "no branch obtained from the deleted node is used afterwards").Clause = clause
			}
		}
	}
	return
}

func isEdgePtr(t types.Type) bool {
	p, ok := t.(*types.Pointer)
	if !ok {
		return false
	}
	nm, ok := p.Elem().(*types.Named)
	return ok && nm.Obj().Name() == "Edge" && nm.Obj().Pkg() != nil && strings.HasSuffix(nm.Obj().Pkg().Path(), "/tree")
}

// ---------------------------------------------------------------------------------------------
// CMD-APPLIES: in the run function of a command whose job is to apply one tree operation to every
// input tree, every write of a tree's Newick text inside the loop over the input trees comes after a
// call of that operation on the path to it: the operation call precedes the write and sits in a
// block that encloses it (a `continue`/early write in a branch that skips the operation hands the
// tree back untouched, with exit status 0).
func (c *Ctx) cmdApplies(rule string, file string, ops []string, clause string) {
	found := false
	for _, fi := range c.funcsInFiles(file) {
		info := fi.Pkg.TypesInfo
		isOp := func(call *ast.CallExpr) bool {
			fn := calleeOf(info, call)
			if fn == nil || !inRepo(fn) {
				return false
			}
			for _, o := range ops {
				if fn.Name() == o {
					return true
				}
			}
			// the operation applied through a helper of the command that takes the tree
			// (`collapseLength(t.Tree, threshold)`)
			if gi := c.FuncOfObj(fn); gi != nil && gi.Decl.Body != nil && gi.Pkg == fi.Pkg {
				takesTree := false
				for _, a := range call.Args {
					if t := info.TypeOf(a); t != nil && (isTreePtr(t) || strings.HasSuffix(t.String(), "tree.Trees")) {
						takesTree = true
					}
				}
				if takesTree {
					for _, inner := range callsIn(gi.Decl.Body, true) {
						if g := calleeOf(gi.Pkg.TypesInfo, inner); g != nil && inRepo(g) {
							for _, o := range ops {
								if g.Name() == o {
									return true
								}
							}
						}
					}
				}
			}
			return false
		}
		var opCalls []*ast.CallExpr
		for _, call := range callsIn(fi.Decl.Body, false) {
			if isOp(call) {
				opCalls = append(opCalls, call)
			}
		}
		if len(opCalls) == 0 {
			continue
		}
		found = true
		nw := 0
		walkStack(fi.Decl.Body, func(n ast.Node, stack []ast.Node) bool {
			call, ok := n.(*ast.CallExpr)
			if !ok {
				return true
			}
			fn := calleeOf(info, call)
			if fn == nil {
				return true
			}
			// a helper of the repository that takes a tree and writes its Newick text
			// (`writeNewickLine(f, t.Tree)`) is a write of that tree
			viaHelper := false
			if inRepo(fn) && fn.Name() != "Newick" {
				if gi := c.FuncOfObj(fn); gi != nil && gi.Decl.Body != nil {
					takesTree := false
					for _, a := range call.Args {
						if t := info.TypeOf(a); t != nil && (isTreePtr(t) || strings.HasSuffix(t.String(), "tree.Trees")) {
							takesTree = true
						}
					}
					if takesTree {
						for _, cl := range callsIn(gi.Decl.Body, true) {
							if g := calleeOf(gi.Pkg.TypesInfo, cl); g != nil && inRepo(g) && g.Name() == "Newick" {
								viaHelper = true
							}
						}
					}
				}
			}
			if !viaHelper && fn.Name() != "WriteString" && fn.Name() != "Write" && !strings.HasPrefix(fn.Name(), "Fprint") && !strings.HasPrefix(fn.Name(), "Print") {
				return true
			}
			// writes the Newick text of a tree
			writesTree := viaHelper
			for _, a := range call.Args {
				ast.Inspect(a, func(m ast.Node) bool {
					if cl, ok := m.(*ast.CallExpr); ok {
						if g := calleeOf(info, cl); g != nil && inRepo(g) && g.Name() == "Newick" {
							writesTree = true
						}
					}
					return true
				})
			}
			if !writesTree {
				return true
			}
			// inside a loop over the input
			var loopBody *ast.BlockStmt
			for _, a := range stack {
				switch l := a.(type) {
				case *ast.RangeStmt:
					loopBody = l.Body
				case *ast.ForStmt:
					loopBody = l.Body
				}
			}
			if loopBody == nil {
				return true
			}
			nw++
			key := fmt.Sprintf("%s/write#%d", funcName(fi.Obj), nw)
			good := false
			// the helper that writes is the helper that applies the operation (`collapseAndWrite(f, item)`):
			// inside it the operation comes before the Newick text is taken
			if viaHelper && isOp(call) {
				if gi := c.FuncOfObj(fn); gi != nil && gi.Decl.Body != nil {
					var opPos, nwPos token.Pos
					for _, inner := range callsIn(gi.Decl.Body, true) {
						g := calleeOf(gi.Pkg.TypesInfo, inner)
						if g == nil || !inRepo(g) {
							continue
						}
						for _, o := range ops {
							if g.Name() == o && !opPos.IsValid() {
								opPos = inner.Pos()
							}
						}
						if g.Name() == "Newick" && !nwPos.IsValid() {
							nwPos = inner.Pos()
						}
					}
					if opPos.IsValid() && nwPos.IsValid() && opPos < nwPos {
						good = true
					}
				}
			}
			for _, oc := range opCalls {
				if oc.Pos() >= call.Pos() || !nodeContains(loopBody, oc.Pos()) {
					continue
				}
				// innermost block of the operation call
				var ob *ast.BlockStmt
				for _, a := range stackTo(fi.Decl.Body, oc) {
					if b, ok := a.(*ast.BlockStmt); ok {
						ob = b
					}
				}
				// the operation may sit in the condition/init of an if whose body holds the write
				for _, a := range stack {
					if b, ok := a.(*ast.BlockStmt); ok && b == ob {
						good = true
					}
				}
			}
			if good {
				c.OK(rule, key, call.Pos(), "written after the operation was applied").Clause = clause
			} else {
				c.Violation(rule, key, call.Pos(), "the tree is written here on a path that has not applied "+strings.Join(ops, "/")+" to it: the input tree is handed back untouched").Clause = clause
			}
			return true
		})
	}
	if !found {
		c.Undecided(rule, file, token.NoPos, "no call of "+strings.Join(ops, "/")+" found in "+file)
	}
}

// ---------------------------------------------------------------------------------------------
// ADJ-PAIRS: a counting loop that reads two neighbouring elements of one slice (x[i] with x[i-1] or
// x[i+1]) and is bounded by the length of that slice visits every adjacent pair: the smallest index
// it reads is 0 on the first round and the largest is len(x)-1 on the last. A bound that is one
// short leaves the last pair unlooked at (two equal names at the end of a sorted list go unnoticed).
func (c *Ctx) adjPairs(rule string, funcs []*FuncInfo, clause string) (loops, violations int) {
	for _, fi := range funcs {
		info := fi.Pkg.TypesInfo
		nIn := 0
		ast.Inspect(fi.Decl.Body, func(n ast.Node) bool {
			fs, ok := n.(*ast.ForStmt)
			if !ok || !isIndexLoop(info, fs) {
				return true
			}
			init := fs.Init.(*ast.AssignStmt)
			iv := identObj(info, init.Lhs[0])
			k0, okK := intConstOf(info, init.Rhs[0])
			be, _ := unparen(fs.Cond).(*ast.BinaryExpr)
			if !okK || be == nil || identObj(info, be.X) != iv || (be.Op != token.LSS && be.Op != token.LEQ) {
				return true
			}
			if inc, ok := fs.Post.(*ast.IncDecStmt); !ok || inc.Tok != token.INC {
				return true
			}
			// bound: len(X) [- c]
			var lenArg ast.Expr
			bOff := int64(0)
			bound := unparen(be.Y)
			if b2, ok := bound.(*ast.BinaryExpr); ok && (b2.Op == token.SUB || b2.Op == token.ADD) {
				if cst, ok := intConstOf(info, b2.Y); ok {
					if b2.Op == token.SUB {
						bOff = -cst
					} else {
						bOff = cst
					}
					bound = unparen(b2.X)
				}
			}
			if cl, ok := bound.(*ast.CallExpr); ok && len(cl.Args) == 1 {
				if id, ok := unparen(cl.Fun).(*ast.Ident); ok && id.Name == "len" {
					lenArg = cl.Args[0]
				}
			}
			if lenArg == nil {
				return true
			}
			if be.Op == token.LEQ {
				bOff++
			}
			x := c.canon(info, lenArg, nil)
			offs := map[int64]bool{}
			ast.Inspect(fs.Body, func(m ast.Node) bool {
				ix, ok := m.(*ast.IndexExpr)
				if !ok || c.canon(info, ix.X, nil) != x {
					return true
				}
				switch e := unparen(ix.Index).(type) {
				case *ast.Ident:
					if info.Uses[e] == iv {
						offs[0] = true
					}
				case *ast.BinaryExpr:
					if identObj(info, e.X) == iv {
						if cst, ok := intConstOf(info, e.Y); ok {
							if e.Op == token.ADD {
								offs[cst] = true
							} else if e.Op == token.SUB {
								offs[-cst] = true
							}
						}
					}
				}
				return true
			})
			if len(offs) < 2 {
				return true
			}
			loops++
			nIn++
			minOff, maxOff := int64(1<<30), int64(-1<<30)
			for o := range offs {
				if o < minOff {
					minOff = o
				}
				if o > maxOff {
					maxOff = o
				}
			}
			key := fmt.Sprintf("%s/adjacent(%s)#%d", funcName(fi.Obj), x, nIn)
			first, lastRel := k0+minOff, bOff-1+maxOff // last index read, relative to len(x)
			switch {
			case first > 0:
				violations++
				c.Violation(rule, key, fs.Pos(), fmt.Sprintf("the loop starts at %d and reads %s[i%+d]: the first pair it looks at begins at index %d, the pairs before it are skipped", k0, x, minOff, first)).Clause = clause
			case lastRel < -1:
				violations++
				c.Violation(rule, key, fs.Pos(), fmt.Sprintf("the loop stops at `%s` while the largest index it reads is i%+d: the last element it reaches is len(%s)%+d, so the last adjacent pair is never compared", c.src(fs.Cond), maxOff, x, lastRel)).Clause = clause
			default:
				c.OK(rule, key, fs.Pos(), "every adjacent pair is visited").Clause = clause
			}
			return true
		})
	}
	return
}

// ---------------------------------------------------------------------------------------------
// Deeper forms for tree.Compare (found by running gotree's own tests on the single-edit variants no
// rule fired on): the three counters start at 0 and are changed only by ++, and the look-up of a
// compared branch in the reference index happens for every branch that is not a tip branch.
func (c *Ctx) compareDeep(fi *FuncInfo, fl *ast.FuncLit) {
	info := fi.Pkg.TypesInfo
	clause := "exactly the number of splits found only in the reference, in both, and only in the compared tree"
	// counters: integer variables incremented with ++ in the function
	counters := map[types.Object]bool{}
	ast.Inspect(fi.Decl.Body, func(n ast.Node) bool {
		if inc, ok := n.(*ast.IncDecStmt); ok && inc.Tok == token.INC {
			if o := identObj(info, inc.X); o != nil && isInteger(o.Type()) {
				counters[o] = true
			}
		}
		return true
	})
	var names []string
	byName := map[string]types.Object{}
	for o := range counters {
		names = append(names, o.Name())
		byName[o.Name()] = o
	}
	sortStrings(names)
	for _, nm := range names {
		o := byName[nm]
		inits, other := 0, 0
		zero := false
		ast.Inspect(fi.Decl.Body, func(n ast.Node) bool {
			switch s := n.(type) {
			case *ast.AssignStmt:
				for i, l := range s.Lhs {
					if identObj(info, l) != o {
						continue
					}
					if s.Tok == token.DEFINE && len(s.Lhs) == len(s.Rhs) {
						inits++
						if tv, ok := info.Types[s.Rhs[i]]; ok && tv.Value != nil && tv.Value.String() == "0" {
							zero = true
						}
					} else {
						other++
					}
				}
			case *ast.ValueSpec:
				for i, id := range s.Names {
					if info.Defs[id] == o {
						inits++
						if len(s.Values) == 0 {
							zero = true
						} else if i < len(s.Values) {
							if tv, ok := info.Types[s.Values[i]]; ok && tv.Value != nil && tv.Value.String() == "0" {
								zero = true
							}
						}
					}
				}
			}
			return true
		})
		// loop counters of `for i := 0; ...; i++` are not counts of branches
		if fs := enclosingForInit(fi.Decl.Body, o, info); fs {
			continue
		}
		c.Check(inits == 1 && zero && other == 0, "LF", "tree.Compare/counter-"+nm+"-from-0", o.Pos(), "starts at 0 and is changed only by ++", fmt.Sprintf("the counter `%s` does not start at 0 (or is assigned elsewhere): every count reported is off by that amount", nm)).Clause = clause
	}
	// look-up guard
	for _, call := range callsIn(fl.Body, false) {
		g := calleeOf(info, call)
		if g == nil || g.Name() != "Value" || !inRepo(g) || len(call.Args) != 1 {
			continue
		}
		eObj := identObj(info, call.Args[0])
		if eObj == nil {
			continue
		}
		conds, okc := c.pathConds(info, fl.Body, call, true)
		if !okc {
			c.Undecided("GF", "tree.Compare/look-up-guard", call.Pos(), "guard shape not understood")
			continue
		}
		o := &canonOpts{subst: map[types.Object]string{eObj: "$E"}}
		var rel []cond
		for _, cd := range conds {
			if cd.Expr != nil && strings.Contains(c.canon(info, cd.Expr, o), "$E") {
				rel = append(rel, cd)
			}
		}
		code := c.inlineTip(c.condsToBexpr(info, rel, o))
		notTip := bNot(bCmp("len($E.right.neigh)", token.EQL, "1"))
		// accepted: looked up always, or exactly for the branches that are not tip branches
		good := len(rel) == 0
		if !good {
			if eq, _, _, err := gfEquiv(code, notTip); err == nil && eq {
				good = true
			}
		}
		c.Check(good, "GF", "tree.Compare/look-up-guard", call.Pos(), "every branch that is not a tip branch is looked up in the reference index", "the compared branch is looked up in the reference index under "+code.String()+": inner branches that are not looked up count as found").Clause = clause
	}
}

func sortStrings(xs []string) {
	for i := 1; i < len(xs); i++ {
		for j := i; j > 0 && xs[j] < xs[j-1]; j-- {
			xs[j], xs[j-1] = xs[j-1], xs[j]
		}
	}
}

// enclosingForInit: o is the counter of a `for o := ...; ...; o++` loop.
func enclosingForInit(body ast.Node, o types.Object, info *types.Info) bool {
	found := false
	ast.Inspect(body, func(n ast.Node) bool {
		if fs, ok := n.(*ast.ForStmt); ok {
			if as, ok := fs.Init.(*ast.AssignStmt); ok {
				for _, l := range as.Lhs {
					if identObj(info, l) == o {
						found = true
					}
				}
			}
		}
		return true
	})
	return found
}

// ---------------------------------------------------------------------------------------------
// Forms of tree.CompareWeighted: with weights the reported terms are exactly the length differences
// of shared splits and the lengths of unshared ones.
//   - the record's Common / Tree2 / Tree1 fields are three slices filled only by append;
//   - Common gets (length recorded in the reference index for the compared branch) - (length of the
//     compared branch), exactly when the look-up of the compared branch in the reference index
//     succeeds; Tree2 gets the compared branch's length exactly when it fails;
//   - Tree1 gets the reference branch's length exactly when its look-up in the index of the compared
//     tree fails;
//   - both indexes are filled with every branch of their tree and that branch's length.
func (c *Ctx) compareWeightedTerms(fi *FuncInfo, fl *ast.FuncLit, fields map[string]ast.Expr) {
	info := fi.Pkg.TypesInfo
	name := "tree.CompareWeighted"
	clause := "with weights the reported terms are exactly the length differences of shared splits and the lengths of unshared ones"
	slot := map[types.Object]string{}
	for _, f := range []string{"Tree1", "Tree2", "Common"} {
		if e, ok := fields[f]; ok {
			if o := identObj(info, e); o != nil {
				slot[o] = f
			}
		}
	}
	if len(slot) != 3 {
		c.Undecided("LF", name+"/record", fl.Pos(), "the record's Tree1/Tree2/Common fields are not three distinct variables")
		return
	}
	lo := c.localExpansionsWith(info, fi.Decl.Body, nil)
	// indexes: variable -> canonical text of the branch list it was filled from
	idxOf := map[types.Object]string{}
	var refIdx types.Object
	for _, call := range callsIn(fi.Decl.Body, true) {
		if !isRepoFunc(calleeOf(info, call), "tree", "EdgeIndex", "PutEdgeValue") || len(call.Args) != 3 {
			continue
		}
		sel, _ := unparen(call.Fun).(*ast.SelectorExpr)
		if sel == nil {
			continue
		}
		ix := identObj(info, sel.X)
		// the branch stored is the current element of the enclosing loop (range value, x[i], or a
		// local naming one of these)
		src, isElem := c.loopElement(info, fi.Decl.Body, call, call.Args[0], lo)
		if !isElem {
			c.Violation("LF", name+"/index-fill", call.Pos(), "PutEdgeValue does not store the current element of a loop over a branch list").Clause = clause
			continue
		}
		key := name + "/index(" + src + ")"
		okFill := c.canon(info, call.Args[2], lo) == c.canon(info, call.Args[0], lo)+".length"
		// unconditional, at the top level of a loop over the whole list
		if conds, okc := c.pathConds(info, fi.Decl.Body, call, true); !okc || len(conds) != 0 {
			okFill = false
		}
		c.Check(okFill && ix != nil, "LF", key, call.Pos(), "filled with every branch of "+src+" and its length", "the index is not filled with (branch, branch length) for every branch of "+src+": the lengths compared later are not those of the splits").Clause = clause
		if ix != nil {
			idxOf[ix] = src
			// the reference side is indexed once, before the workers start; the compared side
			// inside the worker, per tree
			if !nodeContains(fl, call.Pos()) {
				refIdx = ix
			}
		}
	}
	// an index built by a helper: `ix := newIndex(list)` where the helper fills the index it returns
	// from its parameter with the same unconditional loop
	ast.Inspect(fi.Decl.Body, func(n ast.Node) bool {
		as, ok := n.(*ast.AssignStmt)
		if !ok || len(as.Lhs) != 1 || len(as.Rhs) != 1 {
			return true
		}
		call, ok := unparen(as.Rhs[0]).(*ast.CallExpr)
		if !ok || len(call.Args) < 1 {
			return true
		}
		g := calleeOf(info, call)
		gi := c.FuncOfObj(g)
		if g == nil || gi == nil || gi.Decl.Body == nil || g.Exported() || g.Pkg() != fi.Obj.Pkg() {
			return true
		}
		ginfo := gi.Pkg.TypesInfo
		argIdx := -1
		var filled types.Object
		okFill := false
		ast.Inspect(gi.Decl.Body, func(m ast.Node) bool {
			rs, ok := m.(*ast.RangeStmt)
			if !ok || rs.Value == nil {
				return true
			}
			pi := -1
			for k := range call.Args {
				if p := paramObj(ginfo, gi.Decl, k); p != nil && identObj(ginfo, rs.X) == p {
					pi = k
				}
			}
			if pi < 0 {
				return true
			}
			ev := identObj(ginfo, rs.Value)
			for _, st := range rs.Body.List {
				es, ok := st.(*ast.ExprStmt)
				if !ok {
					continue
				}
				pc, ok := es.X.(*ast.CallExpr)
				if !ok || !isRepoFunc(calleeOf(ginfo, pc), "tree", "EdgeIndex", "PutEdgeValue") || len(pc.Args) != 3 {
					continue
				}
				if sel, ok := unparen(pc.Fun).(*ast.SelectorExpr); ok {
					filled = identObj(ginfo, sel.X)
				}
				argIdx = pi
				okFill = identObj(ginfo, pc.Args[0]) == ev && c.canon(ginfo, pc.Args[2], &canonOpts{subst: map[types.Object]string{ev: "$E"}}) == "$E.length"
			}
			return true
		})
		if argIdx < 0 || filled == nil {
			return true
		}
		// the helper returns the index it filled
		returnsIt := false
		ast.Inspect(gi.Decl.Body, func(m ast.Node) bool {
			if r, ok := m.(*ast.ReturnStmt); ok && len(r.Results) == 1 && identObj(ginfo, r.Results[0]) == filled {
				returnsIt = true
			}
			return true
		})
		ix := identObj(info, as.Lhs[0])
		if ix == nil || !returnsIt {
			return true
		}
		src := c.canon(info, call.Args[argIdx], lo)
		c.Check(okFill, "LF", name+"/index("+src+")", call.Pos(), "built by "+g.Name()+" from every branch of "+src+" and its length", "the index built by "+g.Name()+" is not filled with (branch, branch length) for every branch of its argument").Clause = clause
		idxOf[ix] = src
		if !nodeContains(fl, call.Pos()) {
			refIdx = ix
		}
		return true
	})
	if len(idxOf) != 2 || refIdx == nil {
		c.Undecided("LF", name+"/indexes", fi.Decl.Pos(), fmt.Sprintf("expected two split indexes filled by PutEdgeValue loops (the reference one outside the worker), found %d", len(idxOf)))
		return
	}
	// appends: in the worker itself, and in the unexported helpers it hands an index to (their
	// parameters and results stand for the caller's arguments and assigned variables)
	seen := map[string]int{}
	var walkUnit func(ubody *ast.BlockStmt, slotOfVar func(types.Object) (string, bool), idxOfVar func(types.Object) types.Object, listOf func(ast.Expr) string)
	walkUnit = func(ubody *ast.BlockStmt, slotOfVar func(types.Object) (string, bool), idxOfVar func(types.Object) types.Object, listOf func(ast.Expr) string) {
		walkStack(ubody, func(n ast.Node, stack []ast.Node) bool {
			as, ok := n.(*ast.AssignStmt)
			if !ok || len(as.Lhs) != 1 || len(as.Rhs) != 1 {
				return true
			}
			v := identObj(info, as.Lhs[0])
			f, isSlot := slotOfVar(v)
			if !isSlot {
				return true
			}
			call, ok := unparen(as.Rhs[0]).(*ast.CallExpr)
			id, _ := func() (*ast.Ident, bool) {
				if !ok {
					return nil, false
				}
				i, k := unparen(call.Fun).(*ast.Ident)
				return i, k
			}()
			if id == nil || id.Name != "append" || len(call.Args) != 2 || identObj(info, call.Args[0]) != v {
				c.Violation("LF", name+"/"+f+"-only-appended", as.Pos(), "the slice reported as "+f+" is assigned otherwise than by appending one term to itself").Clause = clause
				return true
			}
			seen[f]++
			key := fmt.Sprintf("%s/%s-term#%d", name, f, seen[f])
			// the loop element
			var loop *ast.RangeStmt
			for _, a := range stack {
				if rs, ok := a.(*ast.RangeStmt); ok && rs.Value != nil {
					loop = rs
				}
			}
			if loop == nil {
				c.Undecided("LF", key, as.Pos(), "term appended outside a loop over branches")
				return true
			}
			ev := identObj(info, loop.Value)
			listSrc := listOf(loop.X)
			// the look-up that decides: `x, ok := IDX.Value(ev)` in the loop
			var okObj, hit, idx types.Object
			ast.Inspect(loop.Body, func(m ast.Node) bool {
				la, ok := m.(*ast.AssignStmt)
				if !ok || len(la.Lhs) != 2 || len(la.Rhs) != 1 {
					return true
				}
				lc, ok := unparen(la.Rhs[0]).(*ast.CallExpr)
				if !ok || !isRepoFunc(calleeOf(info, lc), "tree", "EdgeIndex", "Value") || len(lc.Args) != 1 || identObj(info, lc.Args[0]) != ev {
					return true
				}
				if sel, ok := unparen(lc.Fun).(*ast.SelectorExpr); ok {
					idx = idxOfVar(identObj(info, sel.X))
				}
				hit, okObj = identObj(info, la.Lhs[0]), identObj(info, la.Lhs[1])
				return true
			})
			if okObj == nil || idx == nil {
				c.Undecided("LF", key, as.Pos(), "no look-up of the loop's branch in a split index found in this loop")
				return true
			}
			conds, okc := c.pathConds(info, ubody, as, true)
			found, polarity := false, false
			if okc {
				for _, cd := range conds {
					if cd.Expr != nil && identObj(info, cd.Expr) == okObj {
						found, polarity = true, !cd.Neg
					}
				}
			}
			so := &canonOpts{subst: map[types.Object]string{ev: "$E"}}
			if hit != nil {
				so.subst[hit] = "$HIT"
			}
			for k, v2 := range c.localExpansionsWith(info, ubody, so).subst {
				if _, has := so.subst[k]; !has {
					so.subst[k] = v2
				}
			}
			env := &lfEnv{c: c, info: info, o: so, inits: map[types.Object]ast.Expr{}, vals: map[types.Object]*poly{}}
			term, err := env.fold(call.Args[1])
			termS := "?"
			if err == nil {
				termS = term.String()
			}
			var wantList, wantIdx, wantTerm string
			wantPol := false
			switch f {
			case "Common":
				wantPol, wantTerm = true, "$HIT.Len - $E.length"
			case "Tree2":
				wantTerm = "$E.length"
			case "Tree1":
				wantTerm = "$E.length"
			}
			// which list / which index: the compared side for Common and Tree2, the reference side for Tree1
			refList := idxOf[refIdx]
			if f == "Tree1" {
				wantList = refList
				for ix, src := range idxOf {
					if src != refList {
						wantIdx = ix.Name()
					}
				}
			} else {
				for ix, src := range idxOf {
					if src == refList {
						wantIdx = ix.Name()
					} else {
						wantList = src
					}
				}
			}
			termOK := err == nil && samePolyText(termS, wantTerm)
			// the comparison runs for trees without error: no condition on the way requires an error
			// value to be non-nil
			underError := ""
			if full, okf := c.pathConds(info, ubody, as, false); okf {
				for _, cd := range full {
					if cd.Expr == nil {
						continue
					}
					if be, ok := unparen(cd.Expr).(*ast.BinaryExpr); ok && (be.Op == token.NEQ || be.Op == token.EQL) && isNilIdent(info, be.Y) {
						if t := info.TypeOf(be.X); t != nil && isErrorType(t) && ((be.Op == token.NEQ) != cd.Neg) {
							underError = c.src(cd.Expr)
						}
					}
				}
			}
			if underError != "" {
				c.Violation("GF", key+"/reached-without-error", as.Pos(), "this term is only computed on a path that requires an error (`"+underError+"` taken as "+"true): for trees that read and index without error nothing is compared").Clause = clause
			}
			good := found && polarity == wantPol && termOK && listSrc == wantList && idx.Name() == wantIdx
			c.Check(good, "LF", key, as.Pos(), f+" gets "+termS+" for a branch of "+listSrc+" looked up in "+idx.Name(),
				fmt.Sprintf("%s gets `%s` for a branch of %s, looked up in %s, when the look-up %s; expected `%s` for a branch of %s, looked up in %s, when the look-up %s", f, termS, listSrc, idx.Name(), map[bool]string{true: "succeeds", false: "fails"}[polarity], wantTerm, wantList, wantIdx, map[bool]string{true: "succeeds", false: "fails"}[wantPol])).Clause = clause
			return true
		})
	}
	ident := func(o types.Object) types.Object { return o }
	walkUnit(fl.Body, func(v types.Object) (string, bool) { f, ok := slot[v]; return f, ok }, ident, func(e ast.Expr) string { return c.canon(info, e, lo) })
	ast.Inspect(fl.Body, func(n ast.Node) bool {
		as, ok := n.(*ast.AssignStmt)
		if !ok || len(as.Rhs) != 1 {
			return true
		}
		call, ok := unparen(as.Rhs[0]).(*ast.CallExpr)
		if !ok {
			return true
		}
		g := calleeOf(info, call)
		gi := c.FuncOfObj(g)
		if g == nil || gi == nil || gi.Decl.Body == nil || g.Exported() || g.Pkg() != fi.Obj.Pkg() {
			return true
		}
		takesIdx := false
		for _, a := range call.Args {
			if o := identObj(info, a); o != nil {
				if _, isIdx := idxOf[o]; isIdx {
					takesIdx = true
				}
			}
		}
		if !takesIdx {
			return true
		}
		ginfo := gi.Pkg.TypesInfo
		// result position of a helper variable: named result, or the identifier every return hands
		// back at that position
		resPos := map[types.Object]int{}
		k := 0
		if gi.Decl.Type.Results != nil {
			for _, f := range gi.Decl.Type.Results.List {
				if len(f.Names) == 0 {
					k++
				}
				for _, nm := range f.Names {
					resPos[ginfo.Defs[nm]] = k
					k++
				}
			}
		}
		ast.Inspect(gi.Decl.Body, func(m ast.Node) bool {
			if r, ok := m.(*ast.ReturnStmt); ok {
				for i, e := range r.Results {
					if o := identObj(ginfo, e); o != nil {
						if _, has := resPos[o]; !has {
							resPos[o] = i
						}
					}
				}
			}
			return true
		})
		paramArg := func(o types.Object) ast.Expr {
			for i := range call.Args {
				if paramObj(ginfo, gi.Decl, i) == o {
					return call.Args[i]
				}
			}
			return nil
		}
		walkUnit(gi.Decl.Body,
			func(v types.Object) (string, bool) {
				if r, ok := resPos[v]; ok && r < len(as.Lhs) {
					f, ok2 := slot[identObj(info, as.Lhs[r])]
					return f, ok2
				}
				return "", false
			},
			func(o types.Object) types.Object {
				if a := paramArg(o); a != nil {
					return identObj(info, a)
				}
				return o
			},
			func(e ast.Expr) string {
				if o := identObj(ginfo, e); o != nil {
					if a := paramArg(o); a != nil {
						return c.canon(info, a, lo)
					}
				}
				return c.canon(ginfo, e, nil)
			})
		return true
	})
	for _, f := range []string{"Tree1", "Tree2", "Common"} {
		c.Require(fmt.Sprintf("LF/%s/%s-term#1", name, f))
	}
	// the verdict: the variable sent as Sametree is set to false in the worker only where a look-up
	// has failed or where the two lengths of a shared split differ
	if sv := identObj(info, fields["Sametree"]); sv != nil {
		nset := 0
		walkStack(fl.Body, func(n ast.Node, stack []ast.Node) bool {
			as, ok := n.(*ast.AssignStmt)
			if !ok || len(as.Lhs) != 1 || len(as.Rhs) != 1 || identObj(info, as.Lhs[0]) != sv {
				return true
			}
			tv, isC := info.Types[as.Rhs[0]]
			if !isC || tv.Value == nil || tv.Value.String() != "false" {
				return true
			}
			var loop *ast.RangeStmt
			for _, a := range stack {
				if rs, ok := a.(*ast.RangeStmt); ok && rs.Value != nil {
					loop = rs
				}
			}
			if loop == nil {
				return true // the initial value
			}
			nset++
			key := fmt.Sprintf("%s/verdict-false#%d", name, nset)
			ev := identObj(info, loop.Value)
			var okObj, hit types.Object
			ast.Inspect(loop.Body, func(m ast.Node) bool {
				if la, ok := m.(*ast.AssignStmt); ok && len(la.Lhs) == 2 && len(la.Rhs) == 1 {
					if lc, ok := unparen(la.Rhs[0]).(*ast.CallExpr); ok && isRepoFunc(calleeOf(info, lc), "tree", "EdgeIndex", "Value") {
						hit, okObj = identObj(info, la.Lhs[0]), identObj(info, la.Lhs[1])
					}
				}
				return true
			})
			so := &canonOpts{subst: map[types.Object]string{ev: "$E"}}
			if hit != nil {
				so.subst[hit] = "$HIT"
			}
			for k, v2 := range c.localExpansionsWith(info, fl.Body, so).subst {
				if _, has := so.subst[k]; !has {
					so.subst[k] = v2
				}
			}
			good := false
			if conds, okc := c.pathConds(info, fl.Body, as, true); okc {
				for _, cd := range conds {
					if cd.Expr == nil {
						continue
					}
					if okObj != nil && identObj(info, cd.Expr) == okObj && cd.Neg {
						good = true // the look-up failed
					}
					if be, ok := unparen(cd.Expr).(*ast.BinaryExpr); ok {
						l, r := c.canon(info, be.X, so), c.canon(info, be.Y, so)
						differ := (be.Op == token.NEQ && !cd.Neg) || (be.Op == token.EQL && cd.Neg)
						if differ && ((l == "$HIT.Len" && r == "$E.length") || (l == "$E.length" && r == "$HIT.Len")) {
							good = true // shared split, different lengths
						}
					}
				}
			}
			c.Check(good, "GF", key, as.Pos(), "the verdict falls where a look-up failed or the lengths of a shared split differ", "the weighted comparison gives up the 'identical' verdict somewhere else than where a look-up failed or where the two lengths of a shared split differ").Clause = "reports the trees identical exactly when both 'only' counts are zero"
			return true
		})
	}
}

// samePolyText compares two polynomial texts up to the order of their terms.
func samePolyText(a, b string) bool {
	norm := func(s string) string {
		s = strings.ReplaceAll(s, " - ", " + -")
		parts := strings.Split(s, " + ")
		sortStrings(parts)
		return strings.Join(parts, " + ")
	}
	return norm(a) == norm(b)
}

// compareEntryGuards: in the launcher part of Compare / CompareWeighted (outside the worker) every
// error return sits under a positive test that the reference tree is nil or that an error value is
// non-nil, and the final return hands back the channel with a nil error.
func (c *Ctx) compareEntryGuards(fi *FuncInfo, fl *ast.FuncLit, name string) {
	info := fi.Pkg.TypesInfo
	clause := "trees on different taxa are rejected with an error"
	n := 0
	ast.Inspect(fi.Decl.Body, func(m ast.Node) bool {
		if m == ast.Node(fl) {
			return false
		}
		if _, ok := m.(*ast.FuncLit); ok {
			return false
		}
		r, ok := m.(*ast.ReturnStmt)
		if !ok || len(r.Results) != 2 {
			return true
		}
		n++
		key := fmt.Sprintf("tree.%s/entry-return#%d", name, n)
		conds, okc := c.pathConds(info, fi.Decl.Body, r, false)
		if !okc {
			c.Undecided("GF", key, r.Pos(), "guard shape not understood")
			return true
		}
		if isNilIdent(info, r.Results[1]) {
			// success: not under any failure test taken as true
			bad := ""
			for _, cd := range conds {
				if cd.Expr != nil && !cd.Neg {
					bad = c.src(cd.Expr)
				}
			}
			c.Check(bad == "" && !isNilIdent(info, r.Results[0]), "GF", key, r.Pos(), "the result channel is returned when no entry test failed", "the successful return of "+name+" sits under `"+bad+"` (or returns no channel)").Clause = clause
			return true
		}
		good := false
		for _, cd := range conds {
			if cd.Expr == nil || cd.Neg {
				continue
			}
			if o, nonNil, isNil := nilTest(info, cd.Expr); isNil && o != nil {
				if isErrorType(o.Type()) && nonNil {
					good = true
				}
				if isTreePtr(o.Type()) && !nonNil {
					good = true
				}
			}
		}
		c.Check(good && isNilIdent(info, r.Results[0]), "GF", key, r.Pos(), "error returned under a failed entry test", "an error return of "+name+" is not under a positive test `reference tree == nil` / `err != nil`: the function fails on valid input or goes on after a failure").Clause = clause
		return true
	})
}

// ---------------------------------------------------------------------------------------------
// ARGNAME: a command hands its option variables to the library by position. Where the callee's
// boolean parameter has a telling name (five letters or more) and the command owns an option variable of the
// same type whose name contains that parameter name, the argument is that variable: passing another
// option variable of the same type (the neighbouring bool) compiles and silently wires the wrong
// option. Only reported when the argument's own name does not contain the parameter name while
// another registered option variable of the command's file does.
func (c *Ctx) argName(rule string, funcs []*FuncInfo, clause string) (sites, violations int) {
	regs, _ := c.collectFlagRegs()
	optVar := map[types.Object]bool{}
	for _, r := range regs {
		if r.vobj != nil {
			optVar[r.vobj] = true
		}
	}
	norm := func(s string) string { return strings.ToLower(strings.ReplaceAll(s, "_", "")) }
	for _, fi := range funcs {
		info := fi.Pkg.TypesInfo
		for _, call := range callsIn(fi.Decl.Body, true) {
			g := calleeOf(info, call)
			if g == nil || !inRepo(g) || g.Pkg() == fi.Pkg.Types {
				continue
			}
			sig := g.Type().(*types.Signature)
			for i := 0; i < sig.Params().Len() && i < len(call.Args); i++ {
				p := sig.Params().At(i)
				pn := norm(p.Name())
				if len(pn) < 5 {
					continue
				}
				// switches only: two bool options of one command are interchangeable for the compiler
				// and their parameter names say what they switch (a string parameter called `output`
				// says little)
				if b, basic := p.Type().Underlying().(*types.Basic); !basic || b.Info()&types.IsBoolean == 0 {
					continue
				}
				a := identObj(info, call.Args[i])
				if a == nil || !optVar[a] {
					continue
				}
				sites++
				key := fmt.Sprintf("%s/%s(%s)", funcName(fi.Obj), g.Name(), p.Name())
				if strings.Contains(norm(a.Name()), pn) {
					c.OK(rule, key, call.Args[i].Pos(), "`"+a.Name()+"` passed for parameter "+p.Name()).Clause = clause
					continue
				}
				// another option variable of the same file and type named after the parameter?
				var better types.Object
				af, _ := c.pos(a.Pos())
				for v := range optVar {
					vf, _ := c.pos(v.Pos())
					if v != a && vf == af && types.Identical(v.Type(), a.Type()) && strings.Contains(norm(v.Name()), pn) {
						better = v
					}
				}
				if better != nil {
					violations++
					c.Violation(rule, key, call.Args[i].Pos(), fmt.Sprintf("`%s` is passed for parameter `%s` of %s although the command's option variable `%s` (same type) is the one named after that parameter: the option the user sets is not the one the library receives", a.Name(), p.Name(), g.Name(), better.Name())).Clause = clause
				} else {
					c.OK(rule, key, call.Args[i].Pos(), "`"+a.Name()+"` passed for parameter "+p.Name()+" (no option variable named after it)").Clause = clause
				}
			}
		}
	}
	return
}

// ---------------------------------------------------------------------------------------------
// TRUNC: an output file of a command is opened so that what it held before is gone: os.Create, or
// os.OpenFile whose flags include O_TRUNC (or O_APPEND/O_EXCL, which never leave stale bytes after
// the new ones). O_WRONLY|O_CREATE alone writes over the beginning of an existing longer file and
// leaves its tail: the output then holds the new trees followed by part of an old run.
func (c *Ctx) truncOutputs(rule string, funcs []*FuncInfo, clause string) (sites, violations int) {
	for _, fi := range funcs {
		info := fi.Pkg.TypesInfo
		k := 0
		for _, call := range callsIn(fi.Decl.Body, true) {
			g := calleeOf(info, call)
			if g == nil || g.Pkg() == nil || g.Pkg().Path() != "os" {
				continue
			}
			switch g.Name() {
			case "Create":
				sites++
				k++
				c.OK(rule, fmt.Sprintf("%s/os.Create#%d", funcName(fi.Obj), k), call.Pos(), "os.Create truncates").Clause = clause
			case "OpenFile":
				if len(call.Args) != 3 {
					continue
				}
				tv, ok := info.Types[call.Args[1]]
				if !ok || tv.Value == nil {
					continue
				}
				var flags int64
				fmt.Sscan(tv.Value.ExactString(), &flags)
				const oWRONLY, oRDWR, oAPPEND, oCREATE, oEXCL, oTRUNC = 0x1, 0x2, 0x400, 0x40, 0x80, 0x200
				if flags&(oWRONLY|oRDWR) == 0 {
					continue // read-only
				}
				sites++
				k++
				key := fmt.Sprintf("%s/os.OpenFile#%d", funcName(fi.Obj), k)
				if flags&(oTRUNC|oAPPEND|oEXCL) == 0 {
					violations++
					c.Violation(rule, key, call.Pos(), "`"+c.src(call)+"` opens an output file for writing without O_TRUNC: when the file exists and is longer than what is written now, the old tail stays behind the new content").Clause = clause
				} else {
					c.OK(rule, key, call.Pos(), "opened with O_TRUNC/O_APPEND/O_EXCL").Clause = clause
				}
			}
		}
	}
	return
}

// ---------------------------------------------------------------------------------------------
// DESCENT: a recursive walk of the tree that must reach every node descends into every neighbour
// other than the one it came from: the only condition on its recursive call that mentions the
// neighbour is `n != previous` (a further clause such as "only where something is left to do here"
// cuts off everything below a node where nothing is to do).
func (c *Ctx) descentEverywhere(rule string, fi *FuncInfo, clause string) {
	info := fi.Pkg.TypesInfo
	prev := paramObj(info, fi.Decl, 1)
	n := 0
	for _, call := range callsIn(fi.Decl.Body, false) {
		if calleeOf(info, call) != fi.Obj || len(call.Args) < 2 {
			continue
		}
		n++
		key := fmt.Sprintf("%s/descends-into-every-neighbour#%d", fi.Name(), n)
		child := identObj(info, call.Args[0])
		conds, okc := c.pathConds(info, fi.Decl.Body, call, true)
		if !okc || child == nil || prev == nil {
			c.Undecided(rule, key, call.Pos(), "guard shape not understood")
			continue
		}
		o := &canonOpts{subst: map[types.Object]string{child: "$N", prev: "$PREV"}}
		var rel []cond
		for _, cd := range conds {
			if cd.Expr != nil && strings.Contains(c.canon(info, cd.Expr, o), "$N") {
				rel = append(rel, cd)
			}
		}
		code := c.condsToBexpr(info, rel, o)
		spec := bCmp("$N", token.NEQ, "$PREV")
		eq, wit, _, err := gfEquiv(code, spec)
		if err != nil {
			c.Undecided(rule, key, call.Pos(), err.Error())
			continue
		}
		c.Check(eq, rule, key, call.Pos(), "descends into every neighbour except the one it came from", "the walk descends into a neighbour only under "+code.String()+": a node that does not satisfy the extra condition hides everything below it ("+wit+")").Clause = clause
	}
	if n == 0 {
		c.Undecided(rule, fi.Name()+"/descends-into-every-neighbour", fi.Decl.Pos(), "no recursive call found")
	}
}

// ---------------------------------------------------------------------------------------------
// TABLE (matrix command): the -m values documented for `gotree matrix` select the metric they name:
// in the switch over the option, the case that lists "brlen" stores DISTANCE_METRIC_BRLEN, the one
// that lists "boot" DISTANCE_METRIC_BOOTS and the one that lists "none" DISTANCE_METRIC_NONE.
func (c *Ctx) matrixMetricTable(rule string, clause string) {
	want := map[string]string{"brlen": "DISTANCE_METRIC_BRLEN", "boot": "DISTANCE_METRIC_BOOTS", "none": "DISTANCE_METRIC_NONE"}
	seen := map[string]bool{}
	for _, fi := range c.funcsInFiles("cmd/matrix.go") {
		info := fi.Pkg.TypesInfo
		ast.Inspect(fi.Decl.Body, func(n ast.Node) bool {
			sw, ok := n.(*ast.SwitchStmt)
			if !ok || sw.Tag == nil {
				return true
			}
			for _, st := range sw.Body.List {
				cc := st.(*ast.CaseClause)
				for _, v := range cc.List {
					tv, ok := info.Types[v]
					if !ok || tv.Value == nil {
						continue
					}
					val := strings.Trim(tv.Value.ExactString(), `"`)
					w, known := want[val]
					if !known {
						continue
					}
					seen[val] = true
					// the constant stored in this case
					got := ""
					for _, s2 := range cc.Body {
						ast.Inspect(s2, func(m ast.Node) bool {
							switch x := m.(type) {
							case *ast.SelectorExpr:
								if cn, ok := info.Uses[x.Sel].(*types.Const); ok && strings.HasPrefix(cn.Name(), "DISTANCE_METRIC_") {
									got = cn.Name()
								}
							}
							return true
						})
					}
					c.Check(got == w, rule, "cmd/matrix/-m "+val, cc.Pos(), "-m "+val+" selects "+w, "-m "+val+" selects "+got+" instead of "+w+": the matrix printed is the one of another metric").Clause = clause
				}
			}
			return true
		})
	}
	// the same table written as a map literal from option value to metric constant
	for _, fi := range c.funcsInFiles("cmd/matrix.go") {
		info := fi.Pkg.TypesInfo
		ast.Inspect(fi.Decl.Body, func(n ast.Node) bool {
			kv, ok := n.(*ast.KeyValueExpr)
			if !ok {
				return true
			}
			tv, ok := info.Types[kv.Key]
			if !ok || tv.Value == nil {
				return true
			}
			val := strings.Trim(tv.Value.ExactString(), `"`)
			w, known := want[val]
			if !known || seen[val] {
				return true
			}
			got := ""
			if sel, ok := unparen(kv.Value).(*ast.SelectorExpr); ok {
				if cn, ok := info.Uses[sel.Sel].(*types.Const); ok {
					got = cn.Name()
				}
			}
			if !strings.HasPrefix(got, "DISTANCE_METRIC_") {
				return true
			}
			seen[val] = true
			c.Check(got == w, rule, "cmd/matrix/-m "+val, kv.Pos(), "-m "+val+" selects "+w, "-m "+val+" selects "+got+" instead of "+w+": the matrix printed is the one of another metric").Clause = clause
			return true
		})
	}
	for v := range want {
		if !seen[v] {
			c.Undecided(rule, "cmd/matrix/-m "+v, token.NoPos, "no case for the documented value "+v+" found in the switch over the metric option")
		}
	}
}

// n2TrimSpace: body calls strings.TrimSpace (which removes a trailing carriage return too).
func n2TrimSpace(info *types.Info, body ast.Node) (bool, bool) {
	found := false
	for _, call := range callsIn(body, true) {
		if fn := calleeOf(info, call); fn != nil && fn.Pkg() != nil && fn.Pkg().Path() == "strings" && fn.Name() == "TrimSpace" {
			found = true
		}
	}
	return found, true
}

// ---------------------------------------------------------------------------------------------
// TRIM-WS: the Newick reader alters a label only by removing white space around it. In package
// io/newick every strings.Trim*/Replace* call either is TrimSpace or has a constant cut set / old
// text made of white space only: removing anything else (quotes, underscores) changes names that the
// writer wrote out unchanged, and the second write differs from the first.
func (c *Ctx) trimWhiteSpaceOnly(rule string, funcs []*FuncInfo, clause string) (calls, violations int) {
	for _, fi := range funcs {
		info := fi.Pkg.TypesInfo
		k := 0
		for _, call := range callsIn(fi.Decl.Body, true) {
			fn := calleeOf(info, call)
			if fn == nil || fn.Pkg() == nil || (fn.Pkg().Path() != "strings" && fn.Pkg().Path() != "bytes") {
				continue
			}
			argIdx := -1
			switch fn.Name() {
			case "TrimSpace":
				calls++
				k++
				c.OK(rule, fmt.Sprintf("%s/%s#%d", funcName(fi.Obj), fn.Name(), k), call.Pos(), "white space only").Clause = clause
				continue
			case "Trim", "TrimLeft", "TrimRight", "TrimPrefix", "TrimSuffix", "Replace", "ReplaceAll":
				argIdx = 1
			case "TrimFunc", "TrimLeftFunc", "TrimRightFunc", "Map":
				argIdx = -2
			default:
				continue
			}
			calls++
			k++
			key := fmt.Sprintf("%s/%s#%d", funcName(fi.Obj), fn.Name(), k)
			good := false
			if argIdx >= 0 && argIdx < len(call.Args) {
				if tv, ok := info.Types[call.Args[argIdx]]; ok && tv.Value != nil {
					s, err := strconvUnquote(tv.Value.ExactString())
					good = err == nil && strings.TrimSpace(s) == "" && s != ""
				}
			}
			if good {
				c.OK(rule, key, call.Pos(), "removes white space only").Clause = clause
			} else {
				violations++
				c.Violation(rule, key, call.Pos(), "`"+c.src(call)+"` removes or rewrites characters other than white space in a text read from the Newick input: a label that contains them is not read back as it was written").Clause = clause
			}
		}
	}
	return
}

func strconvUnquote(s string) (string, error) {
	if len(s) >= 2 && s[0] == '"' {
		return strconv.Unquote(s)
	}
	return s, nil
}

// ---------------------------------------------------------------------------------------------
// ALLOC-INPUT: in the reader packages no allocation is sized by a number parsed from the input
// (strconv.Atoi/ParseInt/ParseUint/ParseFloat): `make([]T, 0, ntax)` with NTAX read from the file
// panics ("cap out of range") or exhausts memory on a corrupted dimension, where the reader is
// expected to answer with an error. Sizes are constants, len(...) of something already read, or
// arithmetic over these.
func (c *Ctx) allocFromInput(rule string, funcs []*FuncInfo, clause string) (makes, violations int) {
	for _, fi := range funcs {
		info := fi.Pkg.TypesInfo
		tainted := map[types.Object]bool{}
		isParse := func(e ast.Expr) bool {
			cl, ok := unparen(e).(*ast.CallExpr)
			if !ok {
				return false
			}
			fn := calleeOf(info, cl)
			if fn != nil && fn.Pkg() != nil && fn.Pkg().Path() == "strconv" && (fn.Name() == "Atoi" || strings.HasPrefix(fn.Name(), "Parse")) {
				return true
			}
			return false
		}
		mentionsTainted := func(e ast.Expr) bool {
			found := false
			ast.Inspect(e, func(m ast.Node) bool {
				if id, ok := m.(*ast.Ident); ok {
					if o := info.Uses[id]; o != nil && tainted[o] {
						found = true
					}
				}
				return true
			})
			return found
		}
		for iter := 0; iter < 3; iter++ {
			ast.Inspect(fi.Decl.Body, func(n ast.Node) bool {
				as, ok := n.(*ast.AssignStmt)
				if !ok {
					return true
				}
				if len(as.Rhs) == 1 && isParse(as.Rhs[0]) {
					if o := identObj(info, as.Lhs[0]); o != nil {
						tainted[o] = true
					}
					return true
				}
				if len(as.Lhs) == len(as.Rhs) {
					for i, r := range as.Rhs {
						if mentionsTainted(r) {
							if o := identObj(info, as.Lhs[i]); o != nil && isNumeric(o.Type()) {
								tainted[o] = true
							}
						}
					}
				}
				return true
			})
		}
		k := 0
		for _, call := range callsIn(fi.Decl.Body, true) {
			id, ok := unparen(call.Fun).(*ast.Ident)
			if !ok || id.Name != "make" || len(call.Args) < 2 {
				continue
			}
			if _, isB := info.Uses[id].(*types.Builtin); !isB {
				continue
			}
			makes++
			k++
			key := fmt.Sprintf("%s/make#%d", funcName(fi.Obj), k)
			bad := false
			for _, a := range call.Args[1:] {
				if mentionsTainted(a) {
					bad = true
				}
			}
			if bad {
				violations++
				c.Violation(rule, key, call.Pos(), "`"+c.src(call)+"` is sized by a number parsed from the input: a corrupted dimension makes the reader panic or exhaust memory instead of reporting an error").Clause = clause
			} else {
				c.OK(rule, key, call.Pos(), "size does not come from a number parsed from the input").Clause = clause
			}
		}
	}
	return
}

// ---------------------------------------------------------------------------------------------
// ARRIVAL-ORDER: sync/atomic makes a shared counter safe, not deterministic: the number
// atomic.AddInt32(&n, 1) hands back to a goroutine depends on which goroutine got there first. Inside
// a `go` function the result of an atomic Add/Swap/CompareAndSwap is therefore not used (the call is
// a statement): an identifier, a file name or an index taken from it differs from run to run.
func (c *Ctx) arrivalOrder(rule string, pkgs []*packages.Package, clause string) (calls, violations int) {
	for _, p := range pkgs {
		info := p.TypesInfo
		for _, f := range p.Syntax {
			walkStack(f, func(n ast.Node, stack []ast.Node) bool {
				call, ok := n.(*ast.CallExpr)
				if !ok {
					return true
				}
				fn := calleeOf(info, call)
				if fn == nil || fn.Pkg() == nil || fn.Pkg().Path() != "sync/atomic" {
					return true
				}
				if !strings.HasPrefix(fn.Name(), "Add") && !strings.HasPrefix(fn.Name(), "Swap") && !strings.HasPrefix(fn.Name(), "CompareAndSwap") {
					return true
				}
				inGo := false
				for i, a := range stack {
					if _, ok := a.(*ast.GoStmt); ok && i+2 < len(stack) {
						inGo = true
					}
				}
				if !inGo {
					return true
				}
				calls++
				key := fmt.Sprintf("%s/atomic.%s#%d", c.enclosingFuncName(info, stack), fn.Name(), calls)
				if _, isStmt := stack[len(stack)-1].(*ast.ExprStmt); isStmt {
					c.OK(rule, key, call.Pos(), "the counter is only incremented").Clause = clause
				} else {
					violations++
					c.Violation(rule, key, call.Pos(), "the value returned by `"+c.src(call)+"` inside a goroutine is used: it is the rank in which this goroutine reached the counter, which changes from run to run").Clause = clause
				}
				return true
			})
		}
	}
	return
}

// ---------------------------------------------------------------------------------------------
// REDRAW: a uniform draw that is repeated until its result pleases (a `for cond { draw }` loop whose
// condition is not a plain counter) is rejection sampling: the outcomes that are rejected get
// probability 0 and the others share it. In the random commands and the library operations behind
// them no while-style loop contains a call that reaches math/rand.
func (c *Ctx) redraw(rule string, funcs []*FuncInfo, clause string) (loops, violations int) {
	isRand := func(f *types.Func) bool { return f.Pkg() != nil && f.Pkg().Path() == "math/rand" }
	for _, fi := range funcs {
		info := fi.Pkg.TypesInfo
		k := 0
		ast.Inspect(fi.Decl.Body, func(n ast.Node) bool {
			fs, ok := n.(*ast.ForStmt)
			if !ok || fs.Cond == nil || isIndexLoop(info, fs) {
				return true
			}
			loops++
			k++
			key := fmt.Sprintf("%s/while-loop#%d", funcName(fi.Obj), k)
			var bad *ast.CallExpr
			for _, call := range callsIn(fs.Body, false) {
				g := calleeOf(info, call)
				if g == nil {
					continue
				}
				if isRand(g) || (inRepo(g) && c.callsOutside(g, isRand, 3, map[*types.Func]bool{})) {
					bad = call
					break
				}
			}
			if bad != nil {
				violations++
				c.Violation(rule, key, bad.Pos(), "`"+c.src(bad)+"` draws at random inside a loop that repeats while `"+c.src(fs.Cond)+"`: the draw is repeated until its result is accepted, so the rejected outcomes never occur and the others are no longer equally likely").Clause = clause
			} else {
				c.OK(rule, key, fs.Pos(), "no random draw inside").Clause = clause
			}
			return true
		})
	}
	return
}

// callsOutside: fn (a repository function) calls, directly or through repository callees (bounded
// depth), a function outside the repository that satisfies target.
func (c *Ctx) callsOutside(fn *types.Func, target func(*types.Func) bool, depth int, seen map[*types.Func]bool) bool {
	if fn == nil || depth < 0 || seen[fn] {
		return false
	}
	seen[fn] = true
	fi := c.FuncOfObj(fn)
	if fi == nil || fi.Decl.Body == nil {
		return false
	}
	for _, call := range callsIn(fi.Decl.Body, true) {
		g := calleeOf(fi.Pkg.TypesInfo, call)
		if g == nil {
			continue
		}
		if !inRepo(g) {
			if target(g) {
				return true
			}
			continue
		}
		if c.callsOutside(g, target, depth-1, seen) {
			return true
		}
	}
	return false
}

// ---------------------------------------------------------------------------------------------
// INDEX-OWNER: `i, err := A.NodeIndex(B)` (or A.EdgeIndex(e)) is the position of B among A's
// neighbours. It is used to index A's own parallel slices (A.neigh[i], A.br[i]) and nobody else's:
// the position of A among B's neighbours is another number, and storing at it overwrites an
// unrelated neighbour while the call still returns without error.
func (c *Ctx) indexOwner(rule string, funcs []*FuncInfo, clause string) (uses, violations int) {
	for _, fi := range funcs {
		info := fi.Pkg.TypesInfo
		lo := c.localExpansions(info, fi.Decl.Body)
		type def struct {
			pos   token.Pos
			owner string
			call  *ast.CallExpr
		}
		defs := map[types.Object][]def{}
		ast.Inspect(fi.Decl.Body, func(n ast.Node) bool {
			as, ok := n.(*ast.AssignStmt)
			if !ok || len(as.Rhs) != 1 || len(as.Lhs) < 1 {
				return true
			}
			call, ok := unparen(as.Rhs[0]).(*ast.CallExpr)
			if !ok {
				if o := identObj(info, as.Lhs[0]); o != nil && len(as.Lhs) == 1 {
					defs[o] = append(defs[o], def{as.Pos(), "", nil}) // some other value
				}
				return true
			}
			g := calleeOf(info, call)
			o := identObj(info, as.Lhs[0])
			if o == nil {
				return true
			}
			if g != nil && (isRepoFunc(g, "tree", "Node", "NodeIndex") || isRepoFunc(g, "tree", "Node", "EdgeIndex")) {
				if sel, ok := unparen(call.Fun).(*ast.SelectorExpr); ok {
					defs[o] = append(defs[o], def{as.Pos(), c.canon(info, sel.X, lo), call})
					return true
				}
			}
			defs[o] = append(defs[o], def{as.Pos(), "", nil})
			return true
		})
		if len(defs) == 0 {
			continue
		}
		k := 0
		ast.Inspect(fi.Decl.Body, func(n ast.Node) bool {
			ix, ok := n.(*ast.IndexExpr)
			if !ok {
				return true
			}
			o := identObj(info, ix.Index)
			ds, tracked := defs[o]
			if o == nil || !tracked {
				return true
			}
			sel, ok := unparen(ix.X).(*ast.SelectorExpr)
			if !ok || (sel.Sel.Name != "neigh" && sel.Sel.Name != "br") {
				return true
			}
			// the definition in force: the last one before this use
			var cur *def
			for i := range ds {
				if ds[i].pos < ix.Pos() && (cur == nil || ds[i].pos > cur.pos) {
					cur = &ds[i]
				}
			}
			if cur == nil || cur.call == nil {
				return true
			}
			uses++
			k++
			key := fmt.Sprintf("%s/%s[%s]#%d", funcName(fi.Obj), c.src(ix.X), o.Name(), k)
			owner := c.canon(info, sel.X, lo)
			if owner == cur.owner {
				c.OK(rule, key, ix.Pos(), "index taken among "+cur.owner+"'s neighbours, used on "+owner).Clause = clause
			} else {
				violations++
				c.Violation(rule, key, ix.Pos(), fmt.Sprintf("`%s` is a position among the neighbours of `%s` (from `%s`) but indexes the slices of `%s`: the slot written or read belongs to an unrelated neighbour", o.Name(), cur.owner, c.src(cur.call), owner)).Clause = clause
			}
			return true
		})
	}
	return
}

// ---------------------------------------------------------------------------------------------
// C05, RerootOutGroup after the unique-branch test: the branch the new root is placed on is the branch
// of the LCA node that is NOT one of the outgroup's branches. In the search loop the flag is set
// exactly where the candidate equals one of the outgroup's branches, and the candidate is taken
// exactly where the flag stayed false; the two halves of the cut branch are stored exactly when the
// branch has a length; the tip index is refreshed whenever the outgroup was removed.
func (c *Ctx) rerootOutgroupDetails(fi *FuncInfo) {
	info := fi.Pkg.TypesInfo
	name := "tree.Tree.RerootOutGroup"
	clause := "that outgroup is exactly one of the two clades below the root, the separating branch being cut into two equal halves"
	var nObj, eObj types.Object
	ast.Inspect(fi.Decl.Body, func(n ast.Node) bool {
		if as, ok := n.(*ast.AssignStmt); ok && len(as.Rhs) == 1 && len(as.Lhs) == 4 {
			if call, ok := unparen(as.Rhs[0]).(*ast.CallExpr); ok && isRepoFunc(calleeOf(info, call), "tree", "Tree", "LeastCommonAncestorUnrooted") {
				nObj, eObj = identObj(info, as.Lhs[0]), identObj(info, as.Lhs[1])
			}
		}
		return true
	})
	if nObj == nil || eObj == nil {
		return
	}
	// (0) the node found by the LCA search stays what it is: the outgroup hangs below that node, and
	// which end of the separating branch becomes the root is decided by comparing an end with it
	{
		var re ast.Node
		ast.Inspect(fi.Decl.Body, func(n ast.Node) bool {
			if as, ok := n.(*ast.AssignStmt); ok && as.Tok == token.ASSIGN {
				for _, l := range as.Lhs {
					if identObj(info, l) == nObj && re == nil {
						if call, isCall := unparen(as.Rhs[0]).(*ast.CallExpr); !(isCall && isRepoFunc(calleeOf(info, call), "tree", "Tree", "LeastCommonAncestorUnrooted")) {
							re = as
						}
					}
				}
			}
			return true
		})
		compared := false
		ast.Inspect(fi.Decl.Body, func(n ast.Node) bool {
			if be, ok := n.(*ast.BinaryExpr); ok && (be.Op == token.EQL || be.Op == token.NEQ) {
				if (identObj(info, be.X) == nObj && isNodePtr(info.TypeOf(be.Y))) || (identObj(info, be.Y) == nObj && isNodePtr(info.TypeOf(be.X))) {
					compared = true
				}
			}
			return true
		})
		switch {
		case re != nil:
			c.Violation("GF", name+"/lca-kept", re.Pos(), fmt.Sprintf("`%s` re-assigns the node the LCA search returned: from here on the subtree removed (or kept) is the one below another node, whichever way the separating branch happens to point", c.src(re))).Clause = "or the outgroup is absent with everything else intact when its removal is requested"
		case !compared:
			c.Violation("GF", name+"/lca-kept", fi.Decl.Pos(), "no end of the separating branch is compared with the node the LCA search returned: which end becomes the root depends on the branch's orientation, which depends on where the tree hung before").Clause = "or the outgroup is absent with everything else intact when its removal is requested"
		default:
			c.OK("GF", name+"/lca-kept", fi.Decl.Pos(), "the LCA node is never re-assigned and the root is chosen by comparing an end of the separating branch with it")
		}
	}
	// (1) the search
	walkStack(fi.Decl.Body, func(n ast.Node, stack []ast.Node) bool {
		outer, ok := n.(*ast.RangeStmt)
		if !ok || outer.Value == nil || c.canon(info, outer.X, nil) != nObj.Name()+".br" {
			return true
		}
		cand := identObj(info, outer.Value)
		var inner *ast.RangeStmt
		ast.Inspect(outer.Body, func(m ast.Node) bool {
			if rs, ok := m.(*ast.RangeStmt); ok && rs.Value != nil && identObj(info, rs.X) == eObj {
				inner = rs
			}
			return true
		})
		if inner == nil {
			return true
		}
		member := identObj(info, inner.Value)
		// the flag: a bool set to true inside the inner loop
		var flag types.Object
		okSet := false
		ast.Inspect(inner.Body, func(m ast.Node) bool {
			as, ok := m.(*ast.AssignStmt)
			if !ok || len(as.Lhs) != 1 || len(as.Rhs) != 1 {
				return true
			}
			tv, isC := info.Types[as.Rhs[0]]
			if !isC || tv.Value == nil || tv.Value.String() != "true" {
				return true
			}
			flag = identObj(info, as.Lhs[0])
			if conds, okc := c.pathConds(info, fi.Decl.Body, as, true); okc && len(conds) == 1 && conds[0].Expr != nil && !conds[0].Neg {
				if be, ok := unparen(conds[0].Expr).(*ast.BinaryExpr); ok && be.Op == token.EQL {
					a, b := identObj(info, be.X), identObj(info, be.Y)
					okSet = (a == cand && b == member) || (a == member && b == cand)
				}
			}
			return true
		})
		if flag == nil {
			return true
		}
		c.Check(okSet, "GF", name+"/outgroup-branch-recognised", inner.Pos(), "the flag is set exactly where the candidate is one of the outgroup's branches", "the search for the root branch does not set its flag exactly where the candidate branch equals one of the outgroup's branches").Clause = clause
		// the candidate is taken where the flag stayed false
		okTake, seenTake := false, false
		ast.Inspect(outer.Body, func(m ast.Node) bool {
			as, ok := m.(*ast.AssignStmt)
			if !ok || len(as.Lhs) != 1 || len(as.Rhs) != 1 || identObj(info, as.Rhs[0]) != cand || nodeContains(inner, as.Pos()) {
				return true
			}
			seenTake = true
			if conds, okc := c.pathConds(info, fi.Decl.Body, as, true); okc && len(conds) == 1 && conds[0].Expr != nil {
				e := unparen(conds[0].Expr)
				neg := conds[0].Neg
				if u, ok := e.(*ast.UnaryExpr); ok && u.Op == token.NOT {
					e, neg = unparen(u.X), !neg
				}
				okTake = identObj(info, e) == flag && neg
			}
			return true
		})
		if seenTake {
			c.Check(okTake, "GF", name+"/root-branch-outside-outgroup", outer.Pos(), "the branch taken is the one that is not among the outgroup's", "the branch on which the root is placed is not taken exactly where the candidate is NOT one of the outgroup's branches").Clause = clause
		}
		return true
	})
	// (2) halves stored iff the branch has a length
	for _, sc := range c.setterCalls(info, fi.Decl.Body, "length", nil) {
		conds, okc := c.pathConds(info, fi.Decl.Body, sc.call, false)
		if !okc {
			continue
		}
		good := false
		for _, cd := range conds {
			if cd.Expr == nil {
				continue
			}
			if be, ok := unparen(cd.Expr).(*ast.BinaryExpr); ok && (be.Op == token.NEQ || be.Op == token.EQL) {
				if (strings.HasSuffix(c.src(be.Y), "NIL_LENGTH") || strings.HasSuffix(c.src(be.X), "NIL_LENGTH")) && ((be.Op == token.NEQ) != cd.Neg) {
					good = true
				}
			}
		}
		c.Check(good, "GF", fmt.Sprintf("%s/half-stored-iff-length@%s", name, c.src(sc.call.Fun)), sc.call.Pos(), "half of the length stored where the cut branch has a length", "a half of the cut branch's length is stored on a path that does not establish that the branch has a length (`!= NIL_LENGTH`): an absent length (-1) is halved into -0.5").Clause = clause
	}
	// (3) UpdateTipIndex whenever the outgroup was removed
	remove := paramObj(info, fi.Decl, 0)
	for _, call := range callsIn(fi.Decl.Body, false) {
		if !isRepoFunc(calleeOf(info, call), "tree", "Tree", "UpdateTipIndex") {
			continue
		}
		conds, okc := c.pathConds(info, fi.Decl.Body, call, false)
		good := okc
		for _, cd := range conds {
			if cd.Expr != nil && identObj(info, cd.Expr) == remove && cd.Neg {
				good = false
			}
			if u, ok := unparen(cd.Expr).(*ast.UnaryExpr); ok && cd.Expr != nil && u.Op == token.NOT && identObj(info, u.X) == remove && !cd.Neg {
				good = false
			}
		}
		c.Check(good, "GF", name+"/tip-index-after-removal", call.Pos(), "the tip index is refreshed when the outgroup was removed", "the tip index is refreshed only when the outgroup was NOT removed: after a removal the look-ups by name still see the removed tips").Clause = "the outgroup is absent with everything else intact when its removal is requested"
	}
}
