package main

import (
	"fmt"
	"go/ast"
	"go/token"
	"go/types"
	"strings"
)

func init() { props["C06"] = checkC06 }

func checkC06(c *Ctx) {
	c.Decides("GF: RemoveTips removes a tip exactly when (its name is listed) XOR revert, the listed-test being a look-up by the tip's name in a set built from the names argument")
	c.Decides("PATH: after any tip removal every successful return of RemoveTips passes a call that reaches UpdateTipIndex, so look-ups by name (ExistsTip/TipNode/TipIndex, bitset width) reflect the new tip set")
	c.Decides("LF/GF: the branch that replaces a suppressed degree-2 node gets pos(l1)+pos(l2), and max(s1,s2) as support only when both its ends are inner nodes; PAIR: removeTip's adjacency edits are two-sided")
	c.DoesNotDecide("that the result is the induced subtree (split restriction, path lengths), i.e. the semantics of the three cases of removeTip")
	fi := c.Func("tree", "Tree", "RemoveTips")
	rt := c.Func("tree", "Tree", "removeTip")
	if fi == nil || rt == nil {
		return
	}
	info := fi.Pkg.TypesInfo
	revert := paramObj(info, fi.Decl, 0)
	names := paramObj(info, fi.Decl, 1)
	// the call of removeTip
	var calls []*ast.CallExpr
	for _, call := range callsIn(fi.Decl.Body, false) {
		if fn := calleeOf(info, call); fn == rt.Obj {
			calls = append(calls, call)
		}
	}
	if len(calls) == 0 {
		c.Undecided("GF", "tree.Tree.RemoveTips/removal-predicate", fi.Decl.Pos(), "no call of removeTip found in RemoveTips")
		return
	}
	for i, call := range calls {
		key := fmt.Sprintf("tree.Tree.RemoveTips/removal-predicate#%d", i+1)
		tipArg := identObj(info, call.Args[0])
		conds, okc := c.pathConds(info, fi.Decl.Body, call, true)
		if !okc || tipArg == nil || revert == nil || names == nil {
			c.Undecided("GF", key, call.Pos(), "guard shape not understood")
			continue
		}
		// find the membership flag: `_, ok := M[tip.Name()]`
		var okObj types.Object
		var mapObj types.Object
		ast.Inspect(fi.Decl.Body, func(n ast.Node) bool {
			as, ok := n.(*ast.AssignStmt)
			if !ok || len(as.Lhs) != 2 || len(as.Rhs) != 1 {
				return true
			}
			ix, ok := unparen(as.Rhs[0]).(*ast.IndexExpr)
			if !ok {
				return true
			}
			if _, isMap := info.TypeOf(ix.X).Underlying().(*types.Map); !isMap {
				return true
			}
			if c.canon(info, ix.Index, nil) == tipArg.Name()+".name" {
				okObj = identObj(info, as.Lhs[1])
				mapObj = identObj(info, ix.X)
			}
			return true
		})
		if okObj == nil {
			c.Violation("GF", key, call.Pos(), "the removal decision does not look the tip's own name up in a set: cannot be 'listed XOR revert'").Clause = "removing a set of tips (or keeping only a given set)"
			continue
		}
		// the set is filled from the names parameter, keyed by the name: a store M[k] = ... inside a
		// loop where k is an element of names (range value, or names[i])
		filled := false
		ast.Inspect(fi.Decl.Body, func(n ast.Node) bool {
			as, ok := n.(*ast.AssignStmt)
			if !ok || len(as.Lhs) != 1 {
				return true
			}
			ix, ok := unparen(as.Lhs[0]).(*ast.IndexExpr)
			if !ok || identObj(info, ix.X) != mapObj {
				return true
			}
			// key is names[...]
			if kx, ok := unparen(ix.Index).(*ast.IndexExpr); ok && identObj(info, kx.X) == names {
				filled = true
			}
			// key is the value of a range over names
			if ko := identObj(info, ix.Index); ko != nil {
				for _, s := range stackTo(fi.Decl.Body, as) {
					if rs, ok := s.(*ast.RangeStmt); ok && identObj(info, rs.X) == names && rs.Value != nil && identObj(info, rs.Value) == ko {
						filled = true
					}
				}
			}
			return true
		})
		if !filled {
			c.Violation("GF", key+"/set", call.Pos(), "the name set consulted for the removal decision is not filled from the names argument").Clause = "its tip set is exactly the requested one"
		} else {
			c.OK("GF", key+"/set", call.Pos(), "name set built from the names argument, looked up by the tip's name")
		}
		var rel []cond
		for _, cd := range conds {
			if cd.Expr != nil && (mentions(info, cd.Expr, okObj) || mentions(info, cd.Expr, revert)) {
				rel = append(rel, cd)
			}
		}
		code := c.condsToBexpr(info, rel, nil)
		l, r := bAtom(okObj.Name()), bAtom(revert.Name())
		spec := bOr(bAnd(l, bNot(r)), bAnd(bNot(l), r))
		ok2, wit, _, err := gfEquiv(code, spec)
		if err != nil {
			c.Undecided("GF", key, call.Pos(), err.Error())
		} else if ok2 {
			c.OK("GF", key, call.Pos(), "removed iff listed XOR revert")
		} else {
			c.Violation("GF", key, call.Pos(), "tip removed under "+code.String()+"; property requires (listed XOR revert): "+wit).Clause = "removing a set of tips (or keeping only a given set)"
		}
		// PATH
		g := c.cfgOf(info, fi.Decl.Body)
		isUpd := func(fn *types.Func) bool { return isRepoFunc(fn, "tree", "Tree", "UpdateTipIndex") }
		res := mustPass(g, call.Pos(), func(m ast.Node) bool {
			return containsCall(info, m, func(cl *ast.CallExpr, fn *types.Func) bool {
				return fn != nil && inRepo(fn) && fn != rt.Obj && c.reaches(fn, isUpd, 4, map[*types.Func]bool{})
			})
		}, func(ret *ast.ReturnStmt) bool { return c.succeedsOnPath(info, fi.Decl.Body, ret) })
		pk := fmt.Sprintf("tree.Tree.RemoveTips/removeTip→UpdateTipIndex#%d", i+1)
		if res.ok {
			c.OK("PATH", pk, call.Pos(), "every successful exit after a removal refreshes the tip-name index")
		} else {
			_, ln := c.pos(res.escape)
			c.Violation("PATH", pk, call.Pos(), fmt.Sprintf("after removing tips, RemoveTips returns success (line %d) without any call that reaches UpdateTipIndex: ExistsTip/TipNode/TipIndex and the bitset width still describe the old tip set", ln)).Clause = "afterwards look-ups of tips by name reflect the new tip set"
		}
		// and the bitsets / hashes / depths of the branches (ReinitInternalIndexes or a function reaching it)
		isReinit := func(fn *types.Func) bool {
			return isRepoFunc(fn, "tree", "Tree", "ReinitInternalIndexes") || isRepoFunc(fn, "tree", "Tree", "ReinitIndexes")
		}
		res2 := mustPass(g, call.Pos(), func(m ast.Node) bool {
			return containsCall(info, m, func(cl *ast.CallExpr, fn *types.Func) bool {
				return fn != nil && inRepo(fn) && fn != rt.Obj && c.reaches(fn, isReinit, 4, map[*types.Func]bool{})
			})
		}, func(ret *ast.ReturnStmt) bool { return c.succeedsOnPath(info, fi.Decl.Body, ret) })
		pk2 := fmt.Sprintf("tree.Tree.RemoveTips/removeTip→ReinitInternalIndexes#%d", i+1)
		if res2.ok {
			c.OK("PATH", pk2, call.Pos(), "every successful exit after a removal recomputes the bitsets of the branches")
		} else {
			_, ln := c.pos(res2.escape)
			c.Violation("PATH", pk2, call.Pos(), fmt.Sprintf("after removing tips, RemoveTips can return success (line %d) without recomputing the bitsets, hashes and depths of the branches: the surviving branches keep bitsets of the old width and the branches created by the removal have none", ln)).Clause = "the splits of the result are exactly the restrictions of the original splits"
		}
	}
	// merge forms in removeTip
	c.mergeForms(rt, "tree.Tree.removeTip", false)
	// support only for inner branches
	rinfo := rt.Pkg.TypesInfo
	env := c.newLFEnv(rinfo, rt.Decl.Body)
	for _, sc := range c.setterCalls(rinfo, rt.Decl.Body, "support", env.o) {
		conds, okc := c.pathConds(rinfo, rt.Decl.Body, sc.call, false)
		if !okc {
			c.Undecided("GF", "tree.Tree.removeTip/support-inner-only", sc.call.Pos(), "guard shape not understood")
			continue
		}
		// the two ends of the new branch: arguments of ConnectNodes in this function
		ends := map[string]bool{}
		for _, call := range callsIn(rt.Decl.Body, false) {
			if fn := calleeOf(rinfo, call); fn != nil && isRepoFunc(fn, "tree", "Tree", "ConnectNodes") {
				for _, a := range call.Args {
					ends[c.canon(rinfo, a, env.o)] = true
				}
			}
		}
		// only the conjuncts that talk about the degree of those ends matter here
		var rel []cond
		for _, cd := range conds {
			if cd.Expr == nil {
				continue
			}
			k := c.canon(rinfo, cd.Expr, env.o)
			for e := range ends {
				if strings.Contains(k, "len("+e+".neigh)") || strings.Contains(k, e+".Tip()") {
					rel = append(rel, cd)
					break
				}
			}
		}
		code := c.inlineTip(c.condsToBexpr(rinfo, rel, env.o))
		var need []*bexpr
		for e := range ends {
			need = append(need, bCmp("len("+e+".neigh)", token.GEQ, "2"))
		}
		ok2, wit, _, err := gfImplies(code, bAnd(need...))
		if err != nil {
			c.Undecided("GF", "tree.Tree.removeTip/support-inner-only", sc.call.Pos(), err.Error())
		} else if ok2 && len(ends) == 2 {
			c.OK("GF", "tree.Tree.removeTip/support-inner-only", sc.call.Pos(), "support written only when both ends have >1 neighbours")
		} else {
			c.Violation("GF", "tree.Tree.removeTip/support-inner-only", sc.call.Pos(), "merged support may be written on a tip branch: "+wit).Clause = "support only on inner branches"
		}
	}
	// no successful return skips the removal loop, except when no name is given in remove mode
	c.noEarlySuccess("PATH", fi, "removeTip", func(info *types.Info, conds []cond) bool {
		code := c.condsToBexpr(info, conds, nil)
		spec := bAnd(bNot(bAtom(revert.Name())), intCmp("len("+names.Name()+")", token.EQL, 0))
		imp, _, _, err := gfImplies(code, spec)
		return err == nil && imp
	}, "its tip set is exactly the requested one ... Names not present in the tree are ignored")
	// STALE: Tip() is not asked of a node between its detachment and its re-attachment
	c.Decides("STALE: in package tree no node is asked Tip() (exactly one neighbour) after delNeighbor was applied to it and before it is attached again; PATH: no successful return of RemoveTips skips the removal loop, except in remove mode with no name given")
	_, _ = c.staleTip("STALE", c.AllFuncs("tree"), "yields the tree induced on the remaining tips")
	if fx := c.Fixture(); fx != nil {
		sub := c.subCtx(fx)
		_, h := sub.staleTip("STALE", sub.AllFuncs(), "")
		c.Control("STALE", h > 0, "fixture.C06StaleTip asks Tip() of a node it has just detached")
	}
	c.Decides("PATH: UpdateTipIndex empties the name index unconditionally before refilling it; STALE-MEMO: the prune command recomputes per input tree what it derives from that tree")
	c.tipIndexReset("PATH")
	c.memoStale("STALE-MEMO", "cmd", "cmd/prune.go", "its tip set is exactly the requested one")
	c.Decides("SCANNER-ERR: no function of the repository (the tip-file reader of prune -f included) loops on a bufio.Scanner without looking at its Err(): a line longer than the scanner's buffer would silently truncate the list of requested tips")
	ns, _ := c.scannerErr("SCANNER-ERR", append(c.AllFuncs(), c.PkgLevelClosures()...), "its tip set is exactly the requested one")
	c.Trivial("SCANNER-ERR", "scan", 0, fmt.Sprintf("%d bufio.Scanner loops in the repository", ns))
	if fx := c.Fixture(); fx != nil {
		sub := c.subCtx(fx)
		_, nv := sub.scannerErr("SCANNER-ERR", sub.AllFuncs(), "")
		c.Control("SCANNER-ERR", nv == 1, "fixture.C06ScanNoErr loops on Scan() without Err() (and C06ScanErr, which checks it, is accepted)")
	}
	c.checkPair("PAIR", map[string]bool{"removeTip": true})
	c.Decides("ROOT-REPLACED (go/cfg): where removeTip has established that the node it is about to delete is the root, every successful path installs another root first")
	c.rootReplaced("ROOT-REPLACED", []*FuncInfo{rt}, "yields the tree induced on the remaining tips")
	c.Floor("ROOT-REPLACED", 1)
	c.Decides("ARG-INPLACE (shared with C05): no function of package tree or of the commands filters a slice parameter in place: the tip list read once from the tip file is the same for every input tree")
	{
		sites, _ := c.argInplace("ARG-INPLACE", append(c.AllFuncs("tree"), c.AllFuncs("cmd")...), "Names not present in the tree are ignored")
		c.Trivial("ARG-INPLACE", "scan", 0, fmt.Sprintf("%d functions with a slice parameter", sites))
	}
	c.Decides("REVISIT: after removeTip has moved up a chain of emptied single-child nodes, every successful path tests the node it stopped at for having exactly two neighbours left (the suppression of the degree-2 node applies to that node too)")
	if c.revisitAfterMove("REVISIT", rt, "no inner node of degree two left behind") == 0 {
		c.Undecided("REVISIT", "tree.Tree.removeTip", rt.Decl.Pos(), "no re-assignment of a node local inside a loop found in removeTip (the walk up the emptied chain was the instance confirmed by hand)")
	}
	c.Decides("NO-BREAK: the list-file readers behind `prune -f` (parseTipsFile, parseStringFile, Readln) have no loop that is left by a break: every name of the file is kept")
	for _, n := range []string{"parseTipsFile", "parseStringFile"} {
		if fi := c.Func("cmd", "", n); fi != nil {
			c.noBreakLoops("NO-BREAK", fi, "its tip set is exactly the requested one", "reads the requested names")
		}
	}
	c.Floor("NO-BREAK", 2)
	c.Decides("LASTLINE: the list-file readers shared by the commands (cmd/root.go, io/fileutils, io/utils) do not read lines with bufio ReadString/ReadBytes unless they handle io.EOF themselves: these return the last unterminated line together with io.EOF, which the `for err == nil` line loops never look at")
	c.lastLineIn("its tip set is exactly the requested one", "cmd/prune.go")
	c.Floor("PAIR", 4)
	c.Decides("CMD-REACHES: in the prune command nothing between the head of the loop over the input trees and the first call of RemoveTips leaves the iteration except under an error test")
	c.cmdReaches("CMD-REACHES", "cmd/prune.go", []string{"RemoveTips"}, "removes exactly the requested tips")
	c.Floor("CMD-REACHES", 1)
	c.Floor("REVISIT", 1)
	c.Floor("GF", 2)
	c.Floor("PATH", 1)
	c.Floor("LF", 2)
}
