package main

import (
	"go/ast"
	"go/token"
	"go/types"
	"strings"

	"golang.org/x/tools/go/cfg"
)

// cfgOf builds the control-flow graph of a function body (go/cfg). Calls that never return
// (panic, os.Exit, log.Fatal*, io.ExitWithMessage) end their block.
type fcfg struct {
	g     *cfg.CFG
	noRet func(call *ast.CallExpr) bool
}

func (c *Ctx) cfgOf(info *types.Info, body *ast.BlockStmt) *fcfg {
	mayReturn := func(call *ast.CallExpr) bool {
		if id, ok := call.Fun.(*ast.Ident); ok && id.Name == "panic" {
			return false
		}
		if fn := calleeOf(info, call); fn != nil {
			if isFunc(fn, "os", "", "Exit") || isRepoFunc(fn, "io", "", "ExitWithMessage") {
				return false
			}
			if fn.Pkg() != nil && fn.Pkg().Path() == "log" && (strings.HasPrefix(fn.Name(), "Fatal") || strings.HasPrefix(fn.Name(), "Panic")) {
				return false
			}
		}
		return true
	}
	return &fcfg{g: cfg.New(body, mayReturn), noRet: func(call *ast.CallExpr) bool { return !mayReturn(call) }}
}

func nodeContains(outer ast.Node, pos token.Pos) bool {
	return outer.Pos() <= pos && pos < outer.End()
}

// locate finds the block and node index of the CFG node containing pos (innermost = last match).
func locate(g *cfg.CFG, pos token.Pos) (*cfg.Block, int) {
	var rb *cfg.Block
	ri := -1
	var best ast.Node
	for _, b := range g.Blocks {
		for i, n := range b.Nodes {
			if nodeContains(n, pos) {
				if best == nil || (n.End()-n.Pos()) < (best.End()-best.Pos()) {
					best, rb, ri = n, b, i
				}
			}
		}
	}
	return rb, ri
}

// pathResult of a must-pass-through query.
type pathResult struct {
	ok      bool
	escape  token.Pos // an exit reached without passing
	visited int
}

// mustPass: every path from just after the node containing `from` to a function exit that
// satisfies exitMatters passes a node satisfying pass. exitMatters(nil) is asked for the
// fall-off-the-end exit.
func mustPass(fg *fcfg, from token.Pos, pass func(n ast.Node) bool, exitMatters func(ret *ast.ReturnStmt) bool) pathResult {
	b0, i0 := locate(fg.g, from)
	res := pathResult{ok: true}
	if b0 == nil {
		res.ok = false
		return res
	}
	seen := map[*cfg.Block]bool{}
	var walk func(b *cfg.Block, start int) bool
	walk = func(b *cfg.Block, start int) bool {
		for i := start; i < len(b.Nodes); i++ {
			n := b.Nodes[i]
			if pass(n) {
				return true
			}
			if ret, ok := n.(*ast.ReturnStmt); ok {
				if exitMatters == nil || exitMatters(ret) {
					res.escape = ret.Pos()
					return false
				}
				return true
			}
		}
		if len(b.Succs) == 0 {
			// end of function without return statement, or a no-return call
			if len(b.Nodes) > 0 {
				if es, ok := b.Nodes[len(b.Nodes)-1].(*ast.ExprStmt); ok {
					if call, isCall := es.X.(*ast.CallExpr); isCall && fg.noRet(call) {
						return true
					}
				}
			}
			if exitMatters == nil || exitMatters(nil) {
				if len(b.Nodes) > 0 {
					res.escape = b.Nodes[len(b.Nodes)-1].Pos()
				}
				return false
			}
			return true
		}
		for _, s := range b.Succs {
			if seen[s] {
				continue
			}
			seen[s] = true
			res.visited++
			if !walk(s, 0) {
				return false
			}
		}
		return true
	}
	res.ok = walk(b0, i0+1)
	return res
}

// containsCall: n contains (outside function literals) a call satisfying pred.
func containsCall(info *types.Info, n ast.Node, pred func(call *ast.CallExpr, fn *types.Func) bool) bool {
	found := false
	ast.Inspect(n, func(m ast.Node) bool {
		if found {
			return false
		}
		if _, ok := m.(*ast.FuncLit); ok {
			return false
		}
		if call, ok := m.(*ast.CallExpr); ok {
			if pred(call, calleeOf(info, call)) {
				found = true
			}
		}
		return !found
	})
	return found
}

// reaches: fn transitively calls (statically resolved calls inside the repository, depth-bounded)
// a function satisfying target.
func (c *Ctx) reaches(fn *types.Func, target func(*types.Func) bool, depth int, seen map[*types.Func]bool) bool {
	if fn == nil {
		return false
	}
	if target(fn) {
		return true
	}
	if depth <= 0 || seen[fn] {
		return false
	}
	seen[fn] = true
	fi := c.FuncOfObj(fn)
	if fi == nil {
		return false
	}
	for _, call := range callsIn(fi.Decl.Body, true) {
		if g := calleeOf(fi.Pkg.TypesInfo, call); g != nil && inRepo(g) {
			if c.reaches(g, target, depth-1, seen) {
				return true
			}
		}
	}
	return false
}

// returnsNilError: the return statement's last result is the nil literal (or the function has no results).
func returnsNilError(info *types.Info, ret *ast.ReturnStmt) bool {
	if ret == nil || len(ret.Results) == 0 {
		return true // bare return / fall-through: cannot tell, treated as success exit
	}
	last := unparen(ret.Results[len(ret.Results)-1])
	if id, ok := last.(*ast.Ident); ok && id.Name == "nil" {
		return true
	}
	if tv, ok := info.Types[last]; ok && isErrorType(tv.Type) {
		return false
	}
	return true
}

// reachesNode: some path from just after the node containing `from` reaches a node satisfying pred.
func reachesNode(fg *fcfg, from token.Pos, pred func(n ast.Node) bool) bool {
	b0, i0 := locate(fg.g, from)
	if b0 == nil {
		return false
	}
	seen := map[*cfg.Block]bool{}
	var walk func(b *cfg.Block, start int) bool
	walk = func(b *cfg.Block, start int) bool {
		for i := start; i < len(b.Nodes); i++ {
			if pred(b.Nodes[i]) {
				return true
			}
			if _, ok := b.Nodes[i].(*ast.ReturnStmt); ok {
				return false
			}
		}
		for _, s := range b.Succs {
			if seen[s] {
				continue
			}
			seen[s] = true
			if walk(s, 0) {
				return true
			}
		}
		return false
	}
	return walk(b0, i0+1)
}

// succeedsOnPath: the return hands back a nil error: `return .., nil`; `return err` / a bare return
// with a named error result where the closest test of that error on the path says it is nil (for a
// bare return: or where there is no such test and no error was raised just before).
func (c *Ctx) succeedsOnPath(info *types.Info, body *ast.BlockStmt, ret *ast.ReturnStmt) bool {
	if ret == nil {
		return true
	}
	var o types.Object
	def := false
	if len(ret.Results) == 0 {
		// the named error result of the enclosing function
		def = true
		if errorJustRaised(info, body, ret) {
			return false
		}
	} else {
		last := unparen(ret.Results[len(ret.Results)-1])
		if id, ok := last.(*ast.Ident); ok && id.Name == "nil" {
			return true
		}
		if tv, ok := info.Types[last]; !ok || !isErrorType(tv.Type) {
			return true
		}
		o = identObj(info, last)
		if o == nil {
			return false
		}
	}
	conds, ok := c.pathConds(info, body, ret, false)
	if !ok {
		return def
	}
	verdict := def
	for _, cd := range flattenConds(conds) {
		be, isBin := unparen0(cd.Expr).(*ast.BinaryExpr)
		if !isBin || (be.Op != token.EQL && be.Op != token.NEQ) {
			continue
		}
		isNil := func(x ast.Expr) bool { id, isId := unparen(x).(*ast.Ident); return isId && id.Name == "nil" }
		var ev ast.Expr
		switch {
		case isNil(be.Y):
			ev = be.X
		case isNil(be.X):
			ev = be.Y
		default:
			continue
		}
		if o != nil && identObj(info, ev) != o {
			continue
		}
		if o == nil && !isErrorType(info.TypeOf(ev)) {
			continue
		}
		// err == nil taken, or err != nil not taken; the variable is usually re-assigned between
		// tests, so the test closest to the return decides
		verdict = (be.Op == token.EQL) != cd.Neg
	}
	return verdict
}
