package main

import (
	"fmt"
	"go/ast"
	"go/token"
	"go/types"
	"strings"

	"golang.org/x/tools/go/cfg"
	"golang.org/x/tools/go/packages"
)

// Goroutine model (GO-WG, GO-CLOSE, GO-NILCHAN, GO-WRITE) over `go` statements.

type goSite struct {
	pkg      *packages.Package
	fnName   string
	launcher *ast.BlockStmt // innermost function body containing the go statement
	ltype    *ast.FuncType
	stmt     *ast.GoStmt
	lit      *ast.FuncLit
	inLoop   bool
	ord      int
}

func (c *Ctx) goSites(pkgs []*packages.Package) []*goSite {
	var out []*goSite
	for _, p := range pkgs {
		info := p.TypesInfo
		for _, f := range p.Syntax {
			perFn := map[string]int{}
			walkStack(f, func(n ast.Node, stack []ast.Node) bool {
				gs, ok := n.(*ast.GoStmt)
				if !ok {
					return true
				}
				s := &goSite{pkg: p, stmt: gs, fnName: c.enclosingFuncName(info, stack)}
				for _, m := range stack {
					switch x := m.(type) {
					case *ast.FuncDecl:
						s.launcher, s.ltype, s.inLoop = x.Body, x.Type, false
					case *ast.FuncLit:
						s.launcher, s.ltype, s.inLoop = x.Body, x.Type, false
					case *ast.ForStmt, *ast.RangeStmt:
						s.inLoop = true
					}
				}
				if fl, ok := unparen(gs.Call.Fun).(*ast.FuncLit); ok {
					s.lit = fl
				} else if id, isId := unparen(gs.Call.Fun).(*ast.Ident); isId && s.launcher != nil {
					// `worker := func(..) {..}; go worker(..)`: the goroutine runs that literal
					if v, isVar := info.Uses[id].(*types.Var); isVar {
						if defs := localDefs(info, s.launcher, v); len(defs) == 1 {
							if fl, isLit := unparen(defs[0]).(*ast.FuncLit); isLit {
								s.lit = fl
							}
						}
					}
				}
				perFn[s.fnName]++
				s.ord = perFn[s.fnName]
				out = append(out, s)
				return true
			})
		}
	}
	return out
}

func (s *goSite) key() string { return fmt.Sprintf("%s/go#%d", s.fnName, s.ord) }

// isMethodCallOn: call is X.name() with X an identifier bound to obj (or any obj if nil).
func methodCallOn(info *types.Info, call *ast.CallExpr, name string) types.Object {
	sel, ok := unparen(call.Fun).(*ast.SelectorExpr)
	if !ok || sel.Sel.Name != name {
		return nil
	}
	return identObj(info, sel.X)
}

func isWaitGroup(t types.Type) bool {
	if p, ok := t.(*types.Pointer); ok {
		t = p.Elem()
	}
	n, ok := t.(*types.Named)
	return ok && n.Obj().Name() == "WaitGroup" && n.Obj().Pkg() != nil && n.Obj().Pkg().Path() == "sync"
}

func isMutex(t types.Type) bool {
	if p, ok := t.(*types.Pointer); ok {
		t = p.Elem()
	}
	n, ok := t.(*types.Named)
	return ok && (n.Obj().Name() == "Mutex" || n.Obj().Name() == "RWMutex") && n.Obj().Pkg() != nil && n.Obj().Pkg().Path() == "sync"
}

// mustPassFromEntry: every path from the entry of the body to an exit passes a node satisfying pass.
func mustPassFromEntry(fg *fcfg, pass func(n ast.Node) bool) pathResult {
	res := pathResult{ok: true}
	if len(fg.g.Blocks) == 0 {
		res.ok = false
		return res
	}
	seen := map[*cfg.Block]bool{}
	var walk func(b *cfg.Block) bool
	walk = func(b *cfg.Block) bool {
		if seen[b] {
			return true
		}
		seen[b] = true
		for _, n := range b.Nodes {
			if pass(n) {
				return true
			}
			if ret, ok := n.(*ast.ReturnStmt); ok {
				res.escape = ret.Pos()
				return false
			}
		}
		if len(b.Succs) == 0 {
			if len(b.Nodes) > 0 {
				if es, ok := b.Nodes[len(b.Nodes)-1].(*ast.ExprStmt); ok {
					if cl, ok := es.X.(*ast.CallExpr); ok && fg.noRet(cl) {
						return true
					}
				}
				res.escape = b.Nodes[len(b.Nodes)-1].End()
			}
			return false
		}
		for _, s := range b.Succs {
			if !walk(s) {
				return false
			}
		}
		return true
	}
	res.ok = walk(fg.g.Blocks[0])
	return res
}

// goWG: a worker whose launcher does W.Add signals W.Done on every exit.
func (c *Ctx) goWG(rule string, s *goSite, clause string) {
	if s.lit == nil {
		return
	}
	info := s.pkg.TypesInfo
	// WaitGroups with Add in the launcher (outside this closure)
	adds := map[types.Object]bool{}
	ast.Inspect(s.launcher, func(n ast.Node) bool {
		if n == ast.Node(s.lit) {
			return false
		}
		if call, ok := n.(*ast.CallExpr); ok {
			if o := methodCallOn(info, call, "Add"); o != nil && isWaitGroup(o.Type()) {
				adds[o] = true
			}
		}
		return true
	})
	for w := range adds {
		// does this closure take part (mentions w.Done)?
		mentionsDone := false
		for _, call := range callsIn(s.lit.Body, true) {
			if methodCallOn(info, call, "Done") == w {
				mentionsDone = true
			}
		}
		if !mentionsDone {
			// a goroutine launched right after w.Add (same block, or a loop in that block) that does
			// not itself wait on w is a worker of w even when it says nothing about w: it is the
			// missing Done that has to be reported
			waits, addNear := false, false
			for _, call := range callsIn(s.lit.Body, true) {
				if methodCallOn(info, call, "Wait") == w {
					waits = true
				}
			}
			// Add(1) sits in the same statement list as the `go` statement (typically a loop body);
			// Add(n) sits in the statement list that holds the loop launching the n goroutines
			ast.Inspect(s.launcher, func(n ast.Node) bool {
				blk, ok := n.(*ast.BlockStmt)
				if !ok || n == ast.Node(s.lit.Body) {
					return n != ast.Node(s.lit)
				}
				for _, st := range blk.List {
					es, ok := st.(*ast.ExprStmt)
					if !ok {
						continue
					}
					call, ok := es.X.(*ast.CallExpr)
					if !ok || methodCallOn(info, call, "Add") != w || es.Pos() >= s.stmt.Pos() || len(call.Args) != 1 {
						continue
					}
					one := false
					if tv, ok := info.Types[call.Args[0]]; ok && tv.Value != nil && tv.Value.String() == "1" {
						one = true
					}
					for _, st2 := range blk.List {
						if st2.Pos() <= es.Pos() || !nodeContains(st2, s.stmt.Pos()) {
							continue
						}
						switch st2.(type) {
						case *ast.GoStmt:
							if one && st2 == ast.Stmt(s.stmt) {
								addNear = true
							}
						case *ast.ForStmt, *ast.RangeStmt:
							if !one {
								addNear = true
							}
						}
					}
				}
				return true
			})
			if waits || !addNear {
				continue
			}
		}
		fg := c.cfgOf(info, s.lit.Body)
		res := mustPassFromEntry(fg, func(n ast.Node) bool {
			// w.Done() as a statement, or defer w.Done()
			switch x := n.(type) {
			case *ast.ExprStmt:
				if call, ok := x.X.(*ast.CallExpr); ok && methodCallOn(info, call, "Done") == w {
					return true
				}
			case *ast.DeferStmt:
				if methodCallOn(info, x.Call, "Done") == w {
					return true
				}
			}
			return false
		})
		key := s.key() + "/" + w.Name() + ".Done"
		if res.ok {
			c.OK(rule, key, s.stmt.Pos(), "every exit of the worker passes "+w.Name()+".Done()")
		} else {
			_, ln := c.pos(res.escape)
			o := c.Violation(rule, key, s.stmt.Pos(), fmt.Sprintf("the worker launched here can exit at line %d without %s.Done(): %s.Wait() never returns, the result channel is never closed and the caller blocks for ever", ln, w.Name(), w.Name()))
			o.Clause = clause
		}
	}
}

// goClose: a channel made in the launcher that the launcher ranges over or returns is closed by
// one of its goroutines on all of that goroutine's paths, after Wait when workers send on it.
func (c *Ctx) goClose(rule string, launcher *ast.BlockStmt, ltype *ast.FuncType, pkg *packages.Package, fnName string, sites []*goSite, clause string) {
	info := pkg.TypesInfo
	// channels made here
	chans := map[types.Object]token.Pos{}
	isMakeChan := func(r ast.Expr) bool {
		if call, ok := unparen(r).(*ast.CallExpr); ok {
			if id, ok := call.Fun.(*ast.Ident); ok && id.Name == "make" && len(call.Args) >= 1 {
				if _, isChan := info.TypeOf(call.Args[0]).Underlying().(*types.Chan); isChan {
					return true
				}
			}
		}
		return false
	}
	ast.Inspect(launcher, func(n ast.Node) bool {
		switch as := n.(type) {
		case *ast.AssignStmt:
			if len(as.Lhs) != len(as.Rhs) {
				return true
			}
			for i, r := range as.Rhs {
				if isMakeChan(r) {
					if o := identObj(info, as.Lhs[i]); o != nil {
						chans[o] = as.Pos()
					}
				}
			}
		case *ast.ValueSpec: // var ch chan T = make(chan T, n)
			if len(as.Names) != len(as.Values) {
				return true
			}
			for i, r := range as.Values {
				if isMakeChan(r) {
					if o := info.Defs[as.Names[i]]; o != nil {
						chans[o] = as.Pos()
					}
				}
			}
		}
		return true
	})
	for ch, pos := range chans {
		// consumed: ranged over in the launcher (outside closures), or returned
		consumed := false
		ast.Inspect(launcher, func(n ast.Node) bool {
			if _, ok := n.(*ast.FuncLit); ok {
				return false
			}
			switch x := n.(type) {
			case *ast.RangeStmt:
				if identObj(info, x.X) == ch {
					consumed = true
				}
			case *ast.ReturnStmt:
				for _, r := range x.Results {
					if identObj(info, r) == ch {
						consumed = true
					}
				}
			}
			return true
		})
		if !consumed {
			continue
		}
		key := fnName + "/close(" + ch.Name() + ")"
		var closer *goSite
		for _, s := range sites {
			if s.launcher != launcher || s.lit == nil {
				continue
			}
			for _, call := range callsIn(s.lit.Body, true) {
				if id, ok := call.Fun.(*ast.Ident); ok && id.Name == "close" && len(call.Args) == 1 && identObj(info, call.Args[0]) == ch {
					closer = s
				}
			}
		}
		if closer == nil {
			// the closing goroutine written as a named function: `go closeWhenDone(&wg, ch)` whose
			// body waits on its WaitGroup parameter and then closes its channel parameter on every path
			named := false
			for _, s := range sites {
				if s.launcher != launcher || s.lit != nil {
					continue
				}
				g := calleeOf(info, s.stmt.Call)
				gi := c.FuncOfObj(g)
				if g == nil || gi == nil || gi.Decl.Body == nil {
					continue
				}
				ginfo := gi.Pkg.TypesInfo
				var chParam types.Object
				for i, a := range s.stmt.Call.Args {
					if identObj(info, a) == ch {
						chParam = paramObj(ginfo, gi.Decl, i)
					}
				}
				// or the closing handed over as a callback: `go waitThenClose(&wg, func() { close(ch) })`
				var cbParam types.Object
				if chParam == nil {
					for i, a := range s.stmt.Call.Args {
						fl, isLit := unparen(a).(*ast.FuncLit)
						if !isLit {
							continue
						}
						closes := false
						for _, cl := range callsIn(fl.Body, true) {
							if id, ok := cl.Fun.(*ast.Ident); ok && id.Name == "close" && len(cl.Args) == 1 && identObj(info, cl.Args[0]) == ch {
								closes = true
							}
						}
						if closes && len(fl.Body.List) == 1 {
							cbParam = paramObj(ginfo, gi.Decl, i)
						}
					}
				}
				if chParam == nil && cbParam == nil {
					continue
				}
				isCloseP := func(n ast.Node) bool {
					if cbParam != nil {
						var call *ast.CallExpr
						switch x := n.(type) {
						case *ast.ExprStmt:
							call, _ = x.X.(*ast.CallExpr)
						case *ast.DeferStmt:
							call = x.Call
						}
						return call != nil && identObj(ginfo, call.Fun) == cbParam
					}
					var call *ast.CallExpr
					switch x := n.(type) {
					case *ast.ExprStmt:
						call, _ = x.X.(*ast.CallExpr)
					case *ast.DeferStmt:
						call = x.Call
					}
					if call == nil {
						return false
					}
					id, ok := call.Fun.(*ast.Ident)
					return ok && id.Name == "close" && len(call.Args) == 1 && identObj(ginfo, call.Args[0]) == chParam
				}
				res := mustPassFromEntry(c.cfgOf(ginfo, gi.Decl.Body), isCloseP)
				if !res.ok {
					continue
				}
				// waits before closing (first Wait precedes the first close)
				waited, closePos := false, token.NoPos
				ast.Inspect(gi.Decl.Body, func(n ast.Node) bool {
					if call, ok := n.(*ast.CallExpr); ok {
						if o := methodCallOn(ginfo, call, "Wait"); o != nil && isWaitGroup(o.Type()) && closePos == token.NoPos {
							waited = true
						}
						if id, ok := call.Fun.(*ast.Ident); ok && (id.Name == "close" || (cbParam != nil && identObj(ginfo, id) == cbParam)) && closePos == token.NoPos {
							closePos = call.Pos()
						}
					}
					return true
				})
				workers := false
				for _, s2 := range sites {
					if s2.launcher != launcher || s2.lit == nil {
						continue
					}
					ast.Inspect(s2.lit.Body, func(n ast.Node) bool {
						if snd, ok := n.(*ast.SendStmt); ok && identObj(info, snd.Chan) == ch {
							workers = true
						}
						return true
					})
				}
				if workers && !waited {
					c.Violation(rule, key, s.stmt.Pos(), "channel "+ch.Name()+" is closed by "+g.Name()+" without waiting for the workers that send on it: send on closed channel").Clause = clause
				} else {
					c.OK(rule, key, s.stmt.Pos(), "closed on every path of "+g.Name()+", launched as a goroutine"+map[bool]string{true: ", after Wait()", false: ""}[workers])
				}
				named = true
				break
			}
			if named {
				continue
			}
			c.Violation(rule, key, pos, "channel "+ch.Name()+" is consumed by a range but no goroutine of "+fnName+" closes it: the consumer never terminates").Clause = clause
			continue
		}
		fg := c.cfgOf(info, closer.lit.Body)
		isClose := func(n ast.Node) bool {
			var call *ast.CallExpr
			switch x := n.(type) {
			case *ast.ExprStmt:
				call, _ = x.X.(*ast.CallExpr)
			case *ast.DeferStmt:
				call = x.Call
			}
			if call == nil {
				return false
			}
			id, ok := call.Fun.(*ast.Ident)
			return ok && id.Name == "close" && len(call.Args) == 1 && identObj(info, call.Args[0]) == ch
		}
		res := mustPassFromEntry(fg, isClose)
		if !res.ok {
			_, ln := c.pos(res.escape)
			c.Violation(rule, key, closer.stmt.Pos(), fmt.Sprintf("the goroutine that closes %s can exit at line %d without closing it: the consumer never terminates", ch.Name(), ln)).Clause = clause
			continue
		}
		// workers sending on ch ?
		workers := false
		for _, s := range sites {
			if s.launcher != launcher || s.lit == nil || s == closer {
				continue
			}
			ast.Inspect(s.lit.Body, func(n ast.Node) bool {
				if snd, ok := n.(*ast.SendStmt); ok && identObj(info, snd.Chan) == ch {
					workers = true
				}
				return true
			})
		}
		if workers {
			// close must come after a Wait() in the closer
			waited := false
			var closePos token.Pos
			ast.Inspect(closer.lit.Body, func(n ast.Node) bool {
				if call, ok := n.(*ast.CallExpr); ok {
					if o := methodCallOn(info, call, "Wait"); o != nil && isWaitGroup(o.Type()) && (closePos == token.NoPos) {
						waited = true
					}
					if id, ok := call.Fun.(*ast.Ident); ok && id.Name == "close" && closePos == token.NoPos {
						closePos = call.Pos()
					}
				}
				return true
			})
			if !waited {
				c.Violation(rule, key, closer.stmt.Pos(), "channel "+ch.Name()+" is closed without waiting for the workers that send on it: send on closed channel").Clause = clause
				continue
			}
		}
		c.OK(rule, key, closer.stmt.Pos(), "closed on every path of its closing goroutine"+map[bool]string{true: ", after wg.Wait()", false: ""}[workers])
	}
}

// goNilChan: no receive / range on a local channel variable that may still hold its zero value.
func (c *Ctx) goNilChan(rule string, pkg *packages.Package, fnName string, body *ast.BlockStmt, clause string) int {
	info := pkg.TypesInfo
	n := 0
	// local channel variables declared without a value
	decls := map[types.Object]token.Pos{}
	ast.Inspect(body, func(nd ast.Node) bool {
		if _, ok := nd.(*ast.FuncLit); ok {
			return false
		}
		ds, ok := nd.(*ast.DeclStmt)
		if !ok {
			return true
		}
		gd, ok := ds.Decl.(*ast.GenDecl)
		if !ok || gd.Tok != token.VAR {
			return true
		}
		for _, sp := range gd.Specs {
			vs := sp.(*ast.ValueSpec)
			if len(vs.Values) != 0 {
				continue
			}
			for _, nm := range vs.Names {
				if o := info.Defs[nm]; o != nil {
					if _, isChan := o.Type().Underlying().(*types.Chan); isChan {
						decls[o] = nm.Pos()
					}
				}
			}
		}
		return true
	})
	if len(decls) == 0 {
		return 0
	}
	fg := c.cfgOf(info, body)
	for ch, dpos := range decls {
		// uses: range ch / <-ch
		var uses []token.Pos
		ast.Inspect(body, func(nd ast.Node) bool {
			if _, ok := nd.(*ast.FuncLit); ok {
				return false
			}
			switch x := nd.(type) {
			case *ast.RangeStmt:
				if identObj(info, x.X) == ch {
					uses = append(uses, x.X.Pos())
				}
			case *ast.UnaryExpr:
				if x.Op == token.ARROW && identObj(info, x.X) == ch {
					uses = append(uses, x.X.Pos())
				}
			}
			return true
		})
		if len(uses) == 0 {
			continue
		}
		// forward reachability from the declaration avoiding assignments to ch
		b0, i0 := locate(fg.g, dpos)
		if b0 == nil {
			continue
		}
		assigns := func(nd ast.Node) bool {
			found := false
			ast.Inspect(nd, func(m ast.Node) bool {
				if _, ok := m.(*ast.FuncLit); ok {
					return false
				}
				if as, ok := m.(*ast.AssignStmt); ok {
					for _, l := range as.Lhs {
						if identObj(info, l) == ch {
							found = true
						}
					}
				}
				return true
			})
			return found
		}
		nilAt := map[token.Pos]bool{}
		seen := map[*cfg.Block]bool{}
		var walk func(b *cfg.Block, start int)
		walk = func(b *cfg.Block, start int) {
			for i := start; i < len(b.Nodes); i++ {
				nd := b.Nodes[i]
				for _, u := range uses {
					if nodeContains(nd, u) && !assigns(nd) {
						nilAt[u] = true
					}
				}
				if assigns(nd) {
					return
				}
			}
			succs := b.Succs
			if len(succs) == 2 && len(b.Nodes) > 0 {
				// the variable is nil on this path: a nil-test of it decides the branch
				if ce, ok := b.Nodes[len(b.Nodes)-1].(ast.Expr); ok {
					if tv, trueIsNonNil, ok := nilTest(info, ce); ok && tv == ch {
						if trueIsNonNil {
							succs = succs[1:]
						} else {
							succs = succs[:1]
						}
					}
				}
			}
			for _, s := range succs {
				if !seen[s] {
					seen[s] = true
					walk(s, 0)
				}
			}
		}
		walk(b0, i0+1)
		for k, u := range uses {
			n++
			key := fmt.Sprintf("%s/recv(%s)#%d", fnName, ch.Name(), k+1)
			if nilAt[u] {
				_, dl := c.pos(dpos)
				c.Violation(rule, key, u, fmt.Sprintf("receive from channel variable `%s` which is still nil on a path from its declaration (line %d) to here: a receive from a nil channel blocks for ever", ch.Name(), dl)).Clause = clause
			} else {
				c.OK(rule, key, u, "channel assigned on every path before this receive")
			}
		}
	}
	return n
}

// ---------------------------------------------------------------------------------------
// GO-WRITE

type writeFinding struct {
	pos  token.Pos
	what string
	why  string
}

// lockRegions returns the position intervals inside body that are between M.Lock() and M.Unlock()
// statements of the same block, or after `M.Lock(); defer M.Unlock()` to the end of the body.
func lockRegions(info *types.Info, body ast.Node) [][2]token.Pos {
	var out [][2]token.Pos
	lockRecv := func(call *ast.CallExpr, names ...string) string {
		sel, ok := unparen(call.Fun).(*ast.SelectorExpr)
		if !ok {
			return ""
		}
		for _, n := range names {
			if sel.Sel.Name == n && isMutexLike(info, call) {
				return types.ExprString(sel.X)
			}
		}
		return ""
	}
	ast.Inspect(body, func(n ast.Node) bool {
		bl, ok := n.(*ast.BlockStmt)
		if !ok {
			return true
		}
		var open token.Pos
		mu := ""
		for _, s := range bl.List {
			switch x := s.(type) {
			case *ast.ExprStmt:
				if call, ok := x.X.(*ast.CallExpr); ok {
					if o := lockRecv(call, "Lock", "RLock"); o != "" {
						open, mu = x.End(), o
					} else if o := lockRecv(call, "Unlock", "RUnlock"); o != "" && o == mu && open.IsValid() {
						out = append(out, [2]token.Pos{open, x.Pos()})
						open = token.NoPos
					}
				}
			case *ast.DeferStmt:
				if o := lockRecv(x.Call, "Unlock", "RUnlock"); o != "" && o == mu && open.IsValid() {
					out = append(out, [2]token.Pos{open, bl.End()})
					open = token.NoPos
				}
			}
		}
		return true
	})
	return out
}

func lockCallOn(info *types.Info, call *ast.CallExpr, names ...string) types.Object {
	for _, n := range names {
		if o := methodCallOn(info, call, n); o != nil {
			return o
		}
	}
	return nil
}

func isMutexLike(info *types.Info, call *ast.CallExpr) bool {
	sel, ok := unparen(call.Fun).(*ast.SelectorExpr)
	if !ok {
		return false
	}
	t := info.TypeOf(sel.X)
	if t == nil {
		return false
	}
	if isMutex(t) {
		return true
	}
	// embedded mutex (hashmap.HashMap embeds sync.RWMutex)
	if fn := calleeOf(info, call); fn != nil && fn.Pkg() != nil && fn.Pkg().Path() == "sync" {
		return true
	}
	return false
}

func inRegions(p token.Pos, rs [][2]token.Pos) bool {
	for _, r := range rs {
		if r[0] <= p && p < r[1] {
			return true
		}
	}
	return false
}

// goWrite: unsynchronised stores to state shared between instances of a closure.
func (c *Ctx) goWrite(s *goSite) []writeFinding {
	if s.lit == nil {
		return nil
	}
	info := s.pkg.TypesInfo
	owned := declaredIn(info, s.lit) // params, locals, range vars of the closure
	regions := lockRegions(info, s.lit.Body)
	var out []writeFinding
	isOwnedExpr := func(e ast.Expr) bool {
		id := baseIdent(e)
		if id == nil {
			return false
		}
		o := info.Uses[id]
		if o == nil {
			o = info.Defs[id]
		}
		return o != nil && owned[o]
	}
	mentionsOwned := func(e ast.Expr) bool {
		f := false
		ast.Inspect(e, func(n ast.Node) bool {
			if id, ok := n.(*ast.Ident); ok {
				if o := info.Uses[id]; o != nil && owned[o] {
					if _, isVar := o.(*types.Var); isVar {
						f = true
					}
				}
			}
			return !f
		})
		return f
	}
	checkStore := func(lhs ast.Expr, pos token.Pos) {
		lhs = unparen(lhs)
		if id, ok := lhs.(*ast.Ident); ok && id.Name == "_" {
			return
		}
		if isOwnedExpr(lhs) {
			return
		}
		if inRegions(pos, regions) {
			return
		}
		// partition idiom: shared[<expr derived from an owned object>] (possibly nested)
		if ix, ok := lhs.(*ast.IndexExpr); ok {
			e := ast.Expr(ix)
			for {
				x, ok := unparen(e).(*ast.IndexExpr)
				if !ok {
					break
				}
				if mentionsOwned(x.Index) {
					return
				}
				e = x.X
			}
		}
		id := baseIdent(lhs)
		name := types.ExprString(lhs)
		if id != nil {
			name = id.Name
		}
		out = append(out, writeFinding{pos, types.ExprString(lhs), "`" + name + "` is declared outside the goroutine and every instance stores to it without a lock or atomic operation"})
	}
	ast.Inspect(s.lit.Body, func(n ast.Node) bool {
		switch x := n.(type) {
		case *ast.AssignStmt:
			if x.Tok == token.DEFINE {
				return true
			}
			for _, l := range x.Lhs {
				checkStore(l, x.Pos())
			}
		case *ast.IncDecStmt:
			checkStore(x.X, x.Pos())
		case *ast.CallExpr:
			// callee summaries: writes through receiver / pointer parameters
			fn := calleeOf(info, x)
			if fn == nil || !inRepo(fn) {
				return true
			}
			if inRegions(x.Pos(), regions) {
				return true
			}
			ws := c.writesThrough(fn, 0, map[*types.Func]bool{})
			if len(ws) == 0 {
				return true
			}
			sel, _ := unparen(x.Fun).(*ast.SelectorExpr)
			for _, w := range ws {
				var actual ast.Expr
				if w.param < 0 {
					if sel == nil {
						continue
					}
					actual = sel.X
				} else if w.param < len(x.Args) {
					actual = x.Args[w.param]
				} else {
					continue
				}
				if u, ok := unparen(actual).(*ast.UnaryExpr); ok && u.Op == token.AND {
					actual = u.X
				}
				if isOwnedExpr(actual) {
					continue
				}
				if w.partitioned {
					continue
				}
				out = append(out, writeFinding{x.Pos(), types.ExprString(x.Fun) + "(…)", fmt.Sprintf("%s stores to %s of `%s`, which is shared by all instances of the goroutine, without a lock or atomic operation", funcName(fn), w.what, types.ExprString(actual))})
			}
		}
		return true
	})
	return out
}

type writeSummary struct {
	param       int // -1 receiver
	what        string
	partitioned bool
}

var writeSummaries = map[*types.Func][]writeSummary{}

// writesThrough: which of fn's receiver / parameters are written through without holding a lock
// (bottom-up, depth-bounded, repository functions only).
func (c *Ctx) writesThrough(fn *types.Func, depth int, busy map[*types.Func]bool) []writeSummary {
	if ws, ok := writeSummaries[fn]; ok {
		return ws
	}
	if busy[fn] || depth > 4 {
		return nil
	}
	busy[fn] = true
	defer delete(busy, fn)
	fi := c.FuncOfObj(fn)
	if fi == nil {
		return nil
	}
	info := fi.Pkg.TypesInfo
	params := map[types.Object]int{}
	if r := recvObj(info, fi.Decl); r != nil {
		params[r] = -1
	}
	k := 0
	for _, f := range fi.Decl.Type.Params.List {
		for _, nm := range f.Names {
			if o := info.Defs[nm]; o != nil {
				params[o] = k
			}
			k++
		}
	}
	regions := lockRegions(info, fi.Decl.Body)
	locals := declaredIn(info, fi.Decl.Body)
	var out []writeSummary
	seen := map[string]bool{}
	add := func(p int, what string, part bool) {
		key := fmt.Sprintf("%d/%s/%v", p, what, part)
		if !seen[key] {
			seen[key] = true
			out = append(out, writeSummary{p, what, part})
		}
	}
	store := func(lhs ast.Expr, pos token.Pos) {
		lhs = unparen(lhs)
		id := baseIdent(lhs)
		if id == nil {
			return
		}
		o := info.Uses[id]
		p, isParam := params[o]
		if !isParam {
			return
		}
		if _, plain := lhs.(*ast.Ident); plain {
			return // assigning the parameter variable itself is local
		}
		if inRegions(pos, regions) {
			return
		}
		// value-typed parameter: writes do not escape unless through slice/map/pointer
		t := o.Type().Underlying()
		switch t.(type) {
		case *types.Pointer, *types.Slice, *types.Map:
		default:
			return
		}
		// partitioned by another parameter's / local's id
		part := false
		if ix, ok := lhs.(*ast.IndexExpr); ok {
			e := ast.Expr(ix)
			for {
				x, ok := unparen(e).(*ast.IndexExpr)
				if !ok {
					break
				}
				if bi := baseIdent(x.Index); bi != nil {
					if io := info.Uses[bi]; io != nil && (locals[io] || io != o) {
						if _, isP := params[io]; isP || locals[io] {
							part = true
						}
					}
				}
				e = x.X
			}
		}
		add(p, strings.TrimPrefix(types.ExprString(lhs), id.Name), part)
	}
	ast.Inspect(fi.Decl.Body, func(n ast.Node) bool {
		switch x := n.(type) {
		case *ast.FuncLit:
			return false
		case *ast.AssignStmt:
			if x.Tok != token.DEFINE {
				for _, l := range x.Lhs {
					store(l, x.Pos())
				}
			}
		case *ast.IncDecStmt:
			store(x.X, x.Pos())
		case *ast.CallExpr:
			g := calleeOf(info, x)
			if g == nil || !inRepo(g) || g == fn || inRegions(x.Pos(), regions) {
				return true
			}
			sel, _ := unparen(x.Fun).(*ast.SelectorExpr)
			for _, w := range c.writesThrough(g, depth+1, busy) {
				var actual ast.Expr
				if w.param < 0 {
					if sel == nil {
						continue
					}
					actual = sel.X
				} else if w.param < len(x.Args) {
					actual = x.Args[w.param]
				}
				if actual == nil {
					continue
				}
				if id := baseIdent(actual); id != nil {
					if p, ok := params[info.Uses[id]]; ok {
						add(p, "(via "+g.Name()+")"+w.what, w.partitioned)
					}
				}
			}
		}
		return true
	})
	writeSummaries[fn] = out
	return out
}

// goWGCount: the number announced with W.Add equals the number of goroutines launched that call
// W.Done: either Add(1) inside the launching loop, or Add(N) outside a loop `for i := 0; i < N; i++`.
func (c *Ctx) goWGCount(rule string, s *goSite, clause string) {
	if s.lit == nil {
		return
	}
	info := s.pkg.TypesInfo
	// wait groups whose Done the closure calls
	dones := map[types.Object]bool{}
	for _, call := range callsIn(s.lit.Body, true) {
		if w := methodCallOn(info, call, "Done"); w != nil && isWaitGroup(w.Type()) {
			dones[w] = true
		}
	}
	if len(dones) == 0 {
		return
	}
	// the launching loop (innermost loop of the launcher containing the go statement)
	var loop ast.Stmt
	for _, n := range stackTo(s.launcher, s.stmt) {
		switch n.(type) {
		case *ast.ForStmt, *ast.RangeStmt:
			loop = n.(ast.Stmt)
		}
	}
	for w := range dones {
		key := s.key() + "/" + w.Name() + ".Add-count"
		var adds []*ast.CallExpr
		for _, call := range callsIn(s.launcher, false) {
			if methodCallOn(info, call, "Add") == w {
				adds = append(adds, call)
			}
		}
		if len(adds) != 1 {
			c.Undecided(rule, key, s.stmt.Pos(), fmt.Sprintf("expected exactly one %s.Add in the launcher, found %d", w.Name(), len(adds)))
			continue
		}
		add := adds[0]
		argK := c.canon(info, add.Args[0], nil)
		if loop != nil && nodeContains(loop, add.Pos()) {
			c.Check(argK == "1", rule, key, add.Pos(), "Add(1) per launched goroutine", fmt.Sprintf("%s.Add(%s) inside the launching loop: each goroutine calls Done once, so Wait returns too early or never", w.Name(), argK)).Clause = clause
			continue
		}
		if loop == nil {
			c.Check(argK == "1", rule, key, add.Pos(), "Add(1) for the single goroutine", fmt.Sprintf("%s.Add(%s) for a single goroutine that calls Done once: Wait never returns", w.Name(), argK)).Clause = clause
			continue
		}
		f, ok := loop.(*ast.ForStmt)
		bound := ""
		if ok && f.Cond != nil && f.Init != nil && f.Post != nil {
			if be, ok := unparen(f.Cond).(*ast.BinaryExpr); ok && be.Op == token.LSS {
				if as, ok := f.Init.(*ast.AssignStmt); ok && len(as.Rhs) == 1 {
					if v, ok := intConstOf(info, as.Rhs[0]); ok && v == 0 && identObj(info, as.Lhs[0]) == identObj(info, be.X) {
						if inc, ok := f.Post.(*ast.IncDecStmt); ok && inc.Tok == token.INC && identObj(info, inc.X) == identObj(info, be.X) {
							bound = c.canon(info, be.Y, nil)
						}
					}
				}
			}
		}
		if bound == "" {
			c.Undecided(rule, key, add.Pos(), "launching loop is not of the form `for i := 0; i < N; i++`: cannot compare the number of goroutines with "+w.Name()+".Add("+argK+")")
			continue
		}
		// `for i := 0; i < n; i++` runs max(n, 0) times: Add(max(n, 0)) is the exact count
		if cl, ok := unparen(add.Args[0]).(*ast.CallExpr); ok && len(cl.Args) == 2 {
			if id, ok := unparen(cl.Fun).(*ast.Ident); ok && id.Name == "max" {
				a0, a1 := c.canon(info, cl.Args[0], nil), c.canon(info, cl.Args[1], nil)
				if a1 == "0" && a0 == bound || a0 == "0" && a1 == bound {
					argK = bound
				}
			}
		}
		c.Check(bound == argK, rule, key, add.Pos(), fmt.Sprintf("Add(%s) matches the %s goroutines launched", argK, bound), fmt.Sprintf("%s.Add(%s) but the loop launches %s goroutines that each call Done once: when the two differ %s.Wait() never returns (or returns early)", w.Name(), argK, bound, w.Name())).Clause = clause
	}
}

// sendAliases: a record sent on a channel from inside a loop must not contain a slice/map variable
// that outlives the iteration and is written in the loop (the consumer would see it change).
func (c *Ctx) sendAliases(rule string, s *goSite, clause string) {
	if s.lit == nil {
		return
	}
	info := s.pkg.TypesInfo
	n := 0
	walkStack(s.lit.Body, func(m ast.Node, stack []ast.Node) bool {
		snd, ok := m.(*ast.SendStmt)
		if !ok {
			return true
		}
		var loop ast.Stmt
		for _, a := range stack {
			switch a.(type) {
			case *ast.ForStmt, *ast.RangeStmt:
				loop = a.(ast.Stmt)
			}
		}
		if loop == nil {
			return true
		}
		var body *ast.BlockStmt
		switch l := loop.(type) {
		case *ast.ForStmt:
			body = l.Body
		case *ast.RangeStmt:
			body = l.Body
		}
		inLoop := declaredIn(info, body)
		written := assignedObjs(info, body)
		n++
		key := fmt.Sprintf("%s/send#%d", s.key(), n)
		bad := ""
		ast.Inspect(snd.Value, func(q ast.Node) bool {
			id, ok := q.(*ast.Ident)
			if !ok {
				return true
			}
			o := info.Uses[id]
			v, isVar := o.(*types.Var)
			if !isVar || inLoop[o] {
				return true
			}
			switch v.Type().Underlying().(type) {
			case *types.Slice, *types.Map:
				if written[o] {
					bad = v.Name()
				}
			}
			return true
		})
		if bad != "" {
			c.Violation(rule, key, snd.Pos(), fmt.Sprintf("the record sent here contains `%s`, a slice/map declared outside the loop and written again on the next iteration: records already sent share its storage and change under the consumer (data race / wrong values for earlier trees)", bad)).Clause = clause
		} else {
			c.OK(rule, key, snd.Pos(), "every slice/map in the record is created inside the iteration that sends it")
		}
		return true
	})
}
