package main

import (
	"fmt"
	"go/ast"
	"go/token"
	"go/types"
	"strings"
)

// Rules added after the second round of independent seeded changes. Each is a structural
// necessary condition of the clause quoted in its report.

// ---- C04: bitset width
// clearBitSetsRecur gives every branch a bitset of the current tip count, unconditionally.
func (c *Ctx) freshBitsets(rule string) {
	fi := c.Func("tree", "Tree", "clearBitSetsRecur")
	if fi == nil {
		return
	}
	info := fi.Pkg.TypesInfo
	ntip := paramObj(info, fi.Decl, 2)
	key := "tree.Tree.clearBitSetsRecur/fresh-bitset"
	clause := "every branch's recorded split (tip bitset ...) equals the split obtained by cutting that branch ... after any edit"
	good, found := false, false
	for _, st := range c.fieldStores(info, fi.Decl.Body, nil) {
		if st.field.Name() != "bitset" || st.elem {
			continue
		}
		call, ok := unparen(st.rhs).(*ast.CallExpr)
		if !ok {
			continue // e.bitset = nil
		}
		fn := calleeOf(info, call)
		if fn == nil || fn.Name() != "New" || len(call.Args) != 1 || identObj(info, call.Args[0]) != ntip {
			continue
		}
		found = true
		conds, okc := c.pathConds(info, fi.Decl.Body, st.node, true)
		good = okc
		for _, cd := range conds {
			if cd.Expr != nil && strings.Contains(c.canon(info, cd.Expr, nil), "bitset") {
				good = false
			}
		}
	}
	if !found {
		c.Violation(rule, key, fi.Decl.Pos(), "no `e.bitset = bitset.New(<tip count>)`: bitsets are not re-created with the width of the current tip set").Clause = clause
		return
	}
	c.Check(good, rule, key, fi.Decl.Pos(), "every branch gets a new bitset of the current tip count, unconditionally", "the new bitset of the current tip count is only allocated under a condition on the old bitset: after the tip set shrinks, branches keep bitsets of the old width and no longer compare equal to the same split of another tree").Clause = clause
}

// ---- C06: the name index is emptied before it is refilled
func (c *Ctx) tipIndexReset(rule string) {
	fi := c.Func("tree", "Tree", "UpdateTipIndex")
	if fi == nil {
		return
	}
	info := fi.Pkg.TypesInfo
	r := recvObj(info, fi.Decl)
	key := "tree.Tree.UpdateTipIndex/emptied-before-refill"
	clause := "afterwards look-ups of tips by name reflect the new tip set"
	idx := r.Name() + ".tipIndex"
	var firstStore token.Pos
	for _, st := range c.fieldStores(info, fi.Decl.Body, nil) {
		if st.field.Name() == "tipIndex" && st.elem && !firstStore.IsValid() {
			firstStore = st.pos
		}
	}
	if !firstStore.IsValid() {
		c.Violation(rule, key, fi.Decl.Pos(), "UpdateTipIndex stores nothing into the tip index").Clause = clause
		return
	}
	reset := false
	for _, s := range fi.Decl.Body.List { // top level = unconditional
		if s.Pos() > firstStore {
			break
		}
		switch x := s.(type) {
		case *ast.RangeStmt:
			if c.canon(info, x.X, nil) == idx && len(x.Body.List) == 1 && x.Key != nil {
				if es, ok := x.Body.List[0].(*ast.ExprStmt); ok {
					if call, ok := es.X.(*ast.CallExpr); ok && len(call.Args) == 2 {
						if id, ok := call.Fun.(*ast.Ident); ok && id.Name == "delete" && c.canon(info, call.Args[0], nil) == idx && identObj(info, call.Args[1]) == identObj(info, x.Key) {
							reset = true
						}
					}
				}
			}
		case *ast.AssignStmt:
			if len(x.Lhs) == 1 && c.canon(info, x.Lhs[0], nil) == idx {
				if call, ok := unparen(x.Rhs[0]).(*ast.CallExpr); ok {
					if id, ok := call.Fun.(*ast.Ident); ok && id.Name == "make" {
						reset = true
					}
				}
			}
		}
	}
	c.Check(reset, rule, key, firstStore, "every entry is deleted (or the map re-made) unconditionally before the index is refilled", "the tip index is refilled without first being emptied unconditionally: names of tips that were removed stay in it (ExistsTip/TipNode/NbTips describe the old tip set)").Clause = clause
}

// ---- C08: Compare
func (c *Ctx) compareRules() {
	fi := c.Func("tree", "", "Compare")
	if fi == nil {
		return
	}
	info := fi.Pkg.TypesInfo
	ref := paramObj(info, fi.Decl, 0)
	// (1) the reference is fully re-indexed, unconditionally, before the workers start
	key := "tree.Compare/reference-reindexed"
	clause := "reports exactly the number of splits found only in the reference, in both, and only in the compared tree"
	ok1 := false
	for _, call := range callsIn(fi.Decl.Body, false) {
		if !isRepoFunc(calleeOf(info, call), "tree", "Tree", "ReinitIndexes") {
			continue
		}
		sel, ok := unparen(call.Fun).(*ast.SelectorExpr)
		if !ok || identObj(info, sel.X) != ref {
			continue
		}
		// the call sits in a top-level statement of the function: a plain statement, or the
		// initialiser of a top-level `if err = f(); err != nil` (never an else branch)
		for _, s := range fi.Decl.Body.List {
			if !nodeContains(s, call.Pos()) {
				continue
			}
			switch x := s.(type) {
			case *ast.ExprStmt, *ast.AssignStmt:
				ok1 = true
			case *ast.IfStmt:
				if x.Init != nil && nodeContains(x.Init, call.Pos()) {
					ok1 = true
				}
			}
		}
	}
	c.Check(ok1, "PATH", key, fi.Decl.Pos(), "refTree.ReinitIndexes() runs unconditionally before any comparison", "the reference tree is not unconditionally re-indexed with ReinitIndexes before the comparison: a reference whose tips changed since it was last indexed is compared with stale tip ranks (wrong counts, same-taxa trees rejected)").Clause = clause
	// (2) inside the worker, the loop over the compared tree's branches is only left early once the verdict is already false
	fl, _ := c.workerOf(fi)
	if fl == nil {
		return
	}
	var same types.Object
	ast.Inspect(fl.Body, func(n ast.Node) bool {
		if lit, ok := n.(*ast.CompositeLit); ok {
			if t := info.TypeOf(lit); t != nil && strings.HasSuffix(t.String(), "tree.BipartitionStats") {
				f := c.litFields(info, lit)
				if e, ok := f["Sametree"]; ok {
					same = identObj(info, e)
				}
			}
		}
		return true
	})
	if same == nil {
		c.Undecided("PATH", "tree.Compare#worker/early-exit", fl.Pos(), "verdict variable (Sametree field of the record) not found")
		return
	}
	nb := 0
	walkStack(fl.Body, func(n ast.Node, stack []ast.Node) bool {
		br, ok := n.(*ast.BranchStmt)
		if !ok || br.Tok != token.BREAK {
			return true
		}
		// inside a range over a slice of edges (not the channel loop)
		var loop *ast.RangeStmt
		for _, s := range stack {
			if rs, ok := s.(*ast.RangeStmt); ok {
				if _, isChan := info.TypeOf(rs.X).Underlying().(*types.Chan); !isChan {
					loop = rs
				}
			}
		}
		if loop == nil {
			return true
		}
		nb++
		// walking outwards, some enclosing list has `same = false` before the child on the way
		found := false
		for i := len(stack) - 1; i >= 0 && !found; i-- {
			var list []ast.Stmt
			switch b := stack[i].(type) {
			case *ast.BlockStmt:
				list = b.List
			case *ast.CaseClause:
				list = b.Body
			}
			for _, s := range list {
				if s.Pos() >= br.Pos() {
					break
				}
				if as, ok := s.(*ast.AssignStmt); ok && len(as.Lhs) == 1 && identObj(info, as.Lhs[0]) == same {
					if tv, ok := info.Types[as.Rhs[0]]; ok && tv.Value != nil && tv.Value.String() == "false" {
						found = true
					}
				}
			}
			if stack[i] == ast.Node(loop) {
				break
			}
		}
		k := fmt.Sprintf("tree.Compare#worker/early-exit#%d", nb)
		c.Check(found, "PATH", k, br.Pos(), "the branch loop is only left early after the verdict was set to false", "the loop over the compared tree's branches is left early although the 'identical' verdict has not been set to false: branches found only in the compared tree after that point are never examined and the trees are reported identical").Clause = "reports the trees identical exactly when both 'only' counts are zero"
		return true
	})
}

// ---- C12
func (c *Ctx) parsimonyInit() {
	clause := "a number of steps equal to the true minimum ... for any tree ... tip states are never altered"
	for _, e := range [][2]string{{"acr", "ParsimonyAcr"}, {"asr", "ParsimonyAsr"}} {
		fi := c.Func(e[0], "", e[1])
		if fi == nil {
			continue
		}
		info := fi.Pkg.TypesInfo
		key := e[0] + "." + e[1] + "/ids-renumbered"
		good := false
		ast.Inspect(fi.Decl.Body, func(n ast.Node) bool {
			rs, ok := n.(*ast.RangeStmt)
			if !ok || rs.Key == nil || rs.Value == nil {
				return true
			}
			for _, s := range rs.Body.List { // top level: unconditional
				es, ok := s.(*ast.ExprStmt)
				if !ok {
					continue
				}
				call, ok := es.X.(*ast.CallExpr)
				if !ok || !isRepoFunc(calleeOf(info, call), "tree", "Node", "SetId") || len(call.Args) != 1 {
					continue
				}
				sel, _ := unparen(call.Fun).(*ast.SelectorExpr)
				if sel != nil && identObj(info, sel.X) == identObj(info, rs.Value) && identObj(info, call.Args[0]) == identObj(info, rs.Key) {
					if cl, ok := unparen(rs.X).(*ast.CallExpr); ok && isRepoFunc(calleeOf(info, cl), "tree", "Tree", "Nodes") {
						good = true
					} else if o := identObj(info, rs.X); o != nil {
						good = true
					}
				}
			}
			return true
		})
		c.Check(good, "PATH", key, fi.Decl.Pos(), "every node gets its rank in the node list as id, unconditionally, before the passes", "the nodes are not unconditionally renumbered (n.SetId(i) for every node of the list) before the passes: the state vectors are indexed by Id(), so nodes that share or lack an id share a vector (trees that were pruned or grafted)").Clause = clause
	}
	// tips are initialised with the constant 1 for each of their possible states
	for _, pk := range []string{"acr", "asr"} {
		fi := c.Func(pk, "", "parsimonyUPPASS")
		if fi == nil {
			continue
		}
		info := fi.Pkg.TypesInfo
		cur := paramObj(info, fi.Decl, 0)
		key := pk + ".parsimonyUPPASS/tip-state=1"
		var tipBlock *ast.BlockStmt
		for _, s := range fi.Decl.Body.List {
			if is, ok := s.(*ast.IfStmt); ok && c.canon(info, is.Cond, nil) == cur.Name()+".Tip()" {
				tipBlock = is.Body
			}
		}
		if tipBlock == nil {
			c.Undecided("GF", key, fi.Decl.Pos(), "tip branch (`if cur.Tip()`) not found")
			continue
		}
		n, bad := 0, ""
		ast.Inspect(tipBlock, func(m ast.Node) bool {
			as, ok := m.(*ast.AssignStmt)
			if !ok || len(as.Lhs) != 1 {
				return true
			}
			if _, isIdx := unparen(as.Lhs[0]).(*ast.IndexExpr); !isIdx || !isFloat(info.TypeOf(as.Lhs[0])) {
				return true
			}
			n++
			tv, has := info.Types[as.Rhs[0]]
			if as.Tok != token.ASSIGN || !has || tv.Value == nil || constKey(tv.Value) != "1" {
				bad = c.src(as.Lhs[0]) + " " + as.Tok.String() + " " + c.src(as.Rhs[0])
			}
			return true
		})
		if n == 0 {
			c.Undecided("GF", key, tipBlock.Pos(), "no store into the tip's state vector found")
			continue
		}
		c.Check(bad == "", "GF", key, tipBlock.Pos(), "each possible state of a tip is set to the constant 1", "a tip state is initialised with `"+bad+"` instead of the constant 1: counts are compared with integer thresholds and maxima over children, a fractional or accumulated tip count changes which states are kept and the number of steps").Clause = clause
	}
}

// ---- C14
func (c *Ctx) avgMetricUnchanged() {
	fi := c.Func("tree", "", "AvgDistanceMatrix")
	if fi == nil {
		return
	}
	info := fi.Pkg.TypesInfo
	metric := paramObj(info, fi.Decl, 0)
	clause := "the average matrix over several trees is the entrywise mean (for the chosen metric)"
	good, n := !assignedObjs(info, fi.Decl.Body)[metric], 0
	for _, call := range callsIn(fi.Decl.Body, true) {
		if isRepoFunc(calleeOf(info, call), "tree", "Tree", "ToDistanceMatrix") && len(call.Args) == 1 {
			n++
			if identObj(info, call.Args[0]) != metric {
				good = false
			}
		}
	}
	c.Check(good && n > 0, "LF", "tree.AvgDistanceMatrix/metric-passed-on", fi.Decl.Pos(), "every tree's matrix is computed with the caller's metric, which is never reassigned", "the metric given by the caller is reassigned or not passed unchanged to every ToDistanceMatrix call: the average is taken over matrices of another metric").Clause = clause
}

func (c *Ctx) cutIdsBeforeFill() {
	fi := c.Func("tree", "Tree", "CutEdgesMaxLength")
	rec := c.Func("tree", "Tree", "cutEdgesMaxLengthRecur")
	if fi == nil || rec == nil {
		return
	}
	info := fi.Pkg.TypesInfo
	clause := "partitions the tips exactly into the groups connected by branches shorter than the threshold"
	var idLoop, fillLoop ast.Stmt
	for _, s := range fi.Decl.Body.List {
		hasSet, hasFill := false, false
		for _, call := range callsIn(s, false) {
			fn := calleeOf(info, call)
			if isRepoFunc(fn, "tree", "Edge", "SetId") {
				hasSet = true
			}
			if fn == rec.Obj {
				hasFill = true
			}
		}
		if hasSet && idLoop == nil {
			idLoop = s
		}
		if hasFill && fillLoop == nil {
			fillLoop = s
		}
	}
	good := idLoop != nil && fillLoop != nil && idLoop != fillLoop && idLoop.Pos() < fillLoop.Pos()
	p := fi.Decl.Pos()
	if fillLoop != nil {
		p = fillLoop.Pos()
	}
	c.Check(good, "ORDER", "tree.Tree.CutEdgesMaxLength/ids-before-fill", p, "all branches are numbered in a loop of their own before the first flood fill", "branches are numbered (SetId) in the same loop that starts the flood fills: a fill marks branches not yet renumbered under their stale ids, so groups are reported twice or tips are skipped on a tree whose branch ids do not follow the traversal order (e.g. after a re-rooting)").Clause = clause
}

// ---- C15
func (c *Ctx) graftIndexAfterEdit() {
	fi := c.Func("tree", "Tree", "GraftTreeOnTip")
	if fi == nil {
		return
	}
	info := fi.Pkg.TypesInfo
	clause := "add exactly the requested tips"
	var last ast.Node
	for _, call := range callsIn(fi.Decl.Body, false) {
		fn := calleeOf(info, call)
		isEdit := func(g *types.Func) bool {
			return g != nil && inRepo(g) && (g.Name() == "addChild" || g.Name() == "setRight" || g.Name() == "setLeft" || g.Name() == "ConnectNodes")
		}
		if isEdit(fn) {
			last = call
		} else if fn != nil && inRepo(fn) && fn != fi.Obj && !c.reaches(fn, func(g *types.Func) bool { return isRepoFunc(g, "tree", "Tree", "UpdateTipIndex") }, 3, map[*types.Func]bool{}) && c.reaches(fn, isEdit, 2, map[*types.Func]bool{}) {
			// the splice done by a helper (`replaceChildAt(parent, edge, idx, node)`)
			last = call
		}
	}
	ast.Inspect(fi.Decl.Body, func(n ast.Node) bool {
		if as, ok := n.(*ast.AssignStmt); ok {
			for _, l := range as.Lhs {
				if ix, ok := unparen(l).(*ast.IndexExpr); ok {
					if fv, _ := fieldOfSel(info, ix.X); fv != nil && (fv.Name() == "neigh" || fv.Name() == "br") {
						if last == nil || as.Pos() > last.Pos() {
							last = as
						}
					}
				}
			}
		}
		return true
	})
	if last == nil {
		c.Undecided("PATH", "tree.Tree.GraftTreeOnTip/index-after-edit", fi.Decl.Pos(), "no adjacency edit found")
		return
	}
	fg := c.cfgOf(info, fi.Decl.Body)
	res := mustPass(fg, last.Pos(), func(n ast.Node) bool {
		return containsCall(info, n, func(cl *ast.CallExpr, fn *types.Func) bool {
			return fn != nil && inRepo(fn) && c.reaches(fn, func(g *types.Func) bool { return isRepoFunc(g, "tree", "Tree", "UpdateTipIndex") }, 3, map[*types.Func]bool{})
		})
	}, nil)
	c.Check(res.ok, "PATH", "tree.Tree.GraftTreeOnTip/index-after-edit", last.Pos(), "the tip-name index is rebuilt after the last adjacency edit", "no call reaching UpdateTipIndex follows the last adjacency edit: the name index still describes the tree before the graft (the replaced tip 'exists', the grafted tips are unknown, a later Merge refuses disjoint trees)").Clause = clause
}

// ---- C19
func (c *Ctx) flagPresenceLints() {
	clause := "leaving an option out has the same effect as passing the default value shown in its help text"
	p := c.Pkg("cmd")
	if p == nil {
		return
	}
	info := p.TypesInfo
	nch := 0
	for _, f := range p.Syntax {
		walkStack(f, func(n ast.Node, stack []ast.Node) bool {
			switch x := n.(type) {
			case *ast.CallExpr:
				fn := calleeOf(info, x)
				if fn != nil && fn.Pkg() != nil && strings.HasSuffix(fn.Pkg().Path(), "spf13/cobra") {
					switch fn.Name() {
					case "MarkFlagsMutuallyExclusive", "MarkFlagsRequiredTogether", "MarkFlagsOneRequired", "MarkFlagRequired", "MarkPersistentFlagRequired":
						var names []string
						for _, a := range x.Args {
							if tv, ok := info.Types[a]; ok && tv.Value != nil {
								names = append(names, "--"+strings.Trim(tv.Value.ExactString(), `"`))
							}
						}
						nch++
						c.Violation("PRESENCE", c.enclosingFuncName(info, stack)+"/"+fn.Name()+"("+strings.Join(names, ",")+")", x.Pos(), "cobra's "+fn.Name()+" tests whether the options were given on the command line, not their values: passing the documented default of "+strings.Join(names, "/")+" explicitly does not behave like leaving it out").Clause = clause
						return true
					}
				}
				if fn != nil && fn.Pkg() != nil && strings.HasSuffix(fn.Pkg().Path(), "spf13/pflag") && isPflagSet(fn) {
					switch fn.Name() {
					case "NFlag", "Visit":
						nch++
						c.Violation("PRESENCE", c.enclosingFuncName(info, stack)+"/"+fn.Name(), x.Pos(), "the command looks at which options were set on the command line (FlagSet."+fn.Name()+"): passing an option with its documented default then behaves differently from leaving it out").Clause = clause
						return true
					}
				}
				if fn == nil || fn.Name() != "Changed" || fn.Pkg() == nil || !strings.HasSuffix(fn.Pkg().Path(), "spf13/pflag") || len(x.Args) != 1 {
					return true
				}
				name := "?"
				if tv, ok := info.Types[x.Args[0]]; ok && tv.Value != nil {
					name = strings.Trim(tv.Value.ExactString(), `"`)
				}
				nch++
				where := c.enclosingFuncName(info, stack)
				c.Violation("PRESENCE", where+"/Changed(--"+name+")", x.Pos(), "the command asks whether --"+name+" was given (Flags().Changed) instead of looking at its value: passing the documented default explicitly does not behave like leaving the option out").Clause = clause
			case *ast.AssignStmt:
				for _, l := range x.Lhs {
					if sel, ok := unparen(l).(*ast.SelectorExpr); ok && sel.Sel.Name == "NoOptDefVal" {
						if t := info.TypeOf(sel.X); t != nil && strings.HasSuffix(t.String(), "pflag.Flag") {
							nch++
							c.Violation("PRESENCE", c.enclosingFuncName(info, stack)+"/NoOptDefVal", x.Pos(), "a flag is given a NoOptDefVal: it no longer consumes the following argument, so `--flag value` (its documented default included) is parsed as the no-value form plus a stray argument").Clause = clause
						}
					}
				}
			}
			return true
		})
	}
	c.Extra["flag_presence_tests"] = nch
	c.Trivial("PRESENCE", "scan", token.NoPos, fmt.Sprintf("package cmd scanned for option-presence tests (Flags().Changed, NoOptDefVal, cobra flag groups / required flags): %d found", nch))
}

// ---- C20 / C16: each `generate` command calls the generator its name and help announce
func (c *Ctx) generatorCommands(rule string) {
	clause := "drawing a 'uniform' tree give[s] every ... labelled topology the same probability"
	want := map[string]string{"uniformtree": "RandomUniformBinaryTree", "yuletree": "RandomYuleBinaryTree", "caterpillartree": "RandomCaterpillarBinaryTree", "balancedtree": "RandomBalancedBinaryTree", "startree": "StarTree"}
	p := c.Pkg("cmd")
	if p == nil {
		return
	}
	info := p.TypesInfo
	found := 0
	for _, f := range p.Syntax {
		base := strings.TrimSuffix(filepathBase(c.Fset.Position(f.Pos()).Filename), ".go")
		// the command declared in this file: Use: "<name>"
		use := ""
		ast.Inspect(f, func(n ast.Node) bool {
			if kv, ok := n.(*ast.KeyValueExpr); ok {
				if id, ok := kv.Key.(*ast.Ident); ok && id.Name == "Use" {
					if tv, ok := info.Types[kv.Value]; ok && tv.Value != nil {
						use = strings.Fields(strings.Trim(tv.Value.ExactString(), `"`))[0]
					}
				}
			}
			return true
		})
		gen, ok := want[use]
		if !ok {
			continue
		}
		found++
		calls := map[string]bool{}
		ast.Inspect(f, func(n ast.Node) bool {
			if call, ok := n.(*ast.CallExpr); ok {
				if fn := calleeOf(info, call); fn != nil && fn.Pkg() != nil && fn.Pkg().Path() == modPath+"/tree" {
					for _, g := range want {
						if fn.Name() == g {
							calls[g] = true
						}
					}
				}
			}
			return true
		})
		good := calls[gen] && len(calls) == 1
		c.Check(good, rule, "cmd/"+base+"/generate "+use, f.Pos(), "calls tree."+gen, fmt.Sprintf("the command `generate %s` calls %v instead of tree.%s: the trees it draws do not follow the announced distribution / shape", use, sortedKeys(calls), gen)).Clause = clause
	}
	if found < 5 {
		c.Undecided(rule, "cmd/generate-commands", token.NoPos, fmt.Sprintf("expected the five generate commands, found %d", found))
	}
}

func filepathBase(p string) string {
	if i := strings.LastIndex(p, "/"); i >= 0 {
		return p[i+1:]
	}
	return p
}
