package main

import (
	"fmt"
	"go/ast"
	"go/types"
	"strings"
)

func init() { props["C02"] = checkC02 }

func checkC02(c *Ctx) {
	c.Decides("EOFLOOP: every loop of the reader packages either ranges over a finite collection, is a counter loop, or (a) consumes input on every path to its back edge, leaving nothing pushed back, and (b) has no executable back edge once every input source returns its end-of-input value (greatest fixpoint of an abstract interpretation started from arbitrary loop-carried values, callees inlined) - so it terminates on every finite input")
	c.Decides("RECUR: recursion in the readers only descends into an element obtained by ranging over a field of the argument (depth bounded by the decoded document); EXIT: no statically resolved call path from a reader entry point to os.Exit, log.Fatal*, io.ExitWithMessage or a panic() in repository code")
	c.Decides("CONTRA-IDX: no constant index on a value follows a length test on that value whose failing branch does not leave; no index is used after being decremented past the loop guard that bounded it; CONTRA-NIL: in the readers and in the cone of the operations applied to a delivered tree (ReinitIndexes, Newick, Nodes, Edges, Tips and callees) no pointer that the function itself compares with nil is dereferenced where no successful nil test protects it")
	c.Decides("GO-CLOSE/ERRFLOW: the reader goroutine closes its channel on every path, and every parse error reaches a record's Err before that (shared with C13/C11)")
	c.DoesNotDecide("absence of all runtime panics (only those contradicting the function's own guard are decided; index sites the compiler cannot prove are not reported), stack exhaustion on deeply nested input, memory; encoding/xml, encoding/json, bufio and strconv are trusted not to panic or hang")
	c.Decides("ID-GIVEN: every node (NewNode) and branch (ConnectNodes) a reader creates receives SetId in the statement list that creates it (the ids index per-node and per-branch tables of the library)")
	c.idGiven("ID-GIVEN", c.AllFuncs("io/newick", "io/phyloxml", "io/nextstrain"), "Every delivered tree can be traversed, indexed and written back without crashing")
	c.Floor("ID-GIVEN", 6)
	c.Decides("IDX-IMPLIED: in the readers, where a constant index x[k] sits on a path that tests len(x), the tests taken imply len(x) > k; ERR-FALLTHROUGH: in the readers and in package tree, when a repository call hands back (pointer/map/interface, error) and the `if err != nil` that follows does not leave, the value is not used afterwards")
	{
		readers := c.AllFuncs(readerPkgs...)
		sites, _ := c.idxImplied("IDX-IMPLIED", readers, "never panics")
		c.Trivial("IDX-IMPLIED", "scan", 0, fmt.Sprintf("%d constant indexes under a length test in the readers", sites))
		s2, _ := c.errFallthrough("ERR-FALLTHROUGH", append(append([]*FuncInfo{}, readers...), c.AllFuncs("tree")...), "never panics")
		if s2 < 3 {
			c.Undecided("ERR-FALLTHROUGH", "scan", 0, fmt.Sprintf("only %d `v, err := f(); if err != nil` sites seen", s2))
		} else {
			c.Trivial("ERR-FALLTHROUGH", "scan", 0, fmt.Sprintf("%d `v, err := f(); if err != nil` sites, every error branch leaves or the value is not used after it", s2))
		}
	}
	c.Decides("NIL-NIL: no function of the readers and reader entry points returns `nil, err` where the closest test of err says it is nil (an inverted error test hands the caller neither a tree nor an error)")
	{
		sites, _ := c.nilNil("NIL-NIL", c.AllFuncs(append([]string{"io/utils"}, readerPkgs...)...), "reading terminates and either reports an error or delivers trees")
		if sites < 5 {
			c.Undecided("NIL-NIL", "scan", 0, fmt.Sprintf("only %d `return nil, err` sites seen in the readers", sites))
		} else {
			c.Trivial("NIL-NIL", "scan", 0, fmt.Sprintf("%d `return nil, err` sites, all under a failed call", sites))
		}
	}
	c.Decides("TREE-ON-SUCCESS (go/cfg): the Parse function of a reader with a named tree result never returns with a nil error before that result is assigned (the caller always receives a tree or an error)")
	for _, pk := range []string{"io/newick", "io/nexus", "io/phyloxml", "io/nextstrain"} {
		c.treeOnSuccess("TREE-ON-SUCCESS", c.Func(pk, "Parser", "Parse"), "reading terminates and either reports an error or delivers trees")
	}
	c.Floor("TREE-ON-SUCCESS", 1)
	c.Decides("FIRST (shared with C13): PhyloXML/Nextstrain FirstTree returns the object the converter filled together with the converter's error, and creates that tree only where a source element exists (an empty document gives nil, which the entry points test)")
	c.firstTreeConv("io/phyloxml", "PhyloXML")
	c.firstTreeConv("io/nextstrain", "Nextstrain")
	c.Floor("FIRST", 6)
	c.Decides("ALLOC-INPUT: in the reader packages no make() is sized by a number parsed from the input with strconv (a corrupted NTAX would panic or exhaust memory instead of giving an error)")
	if nm, _ := c.allocFromInput("ALLOC-INPUT", c.funcsInFiles("io/newick/", "io/nexus/", "io/phyloxml/", "io/nextstrain/", "io/utils/", "io/fileutils/"), "it never panics, kills the process or loops forever"); nm < 3 {
		c.Undecided("ALLOC-INPUT", "scan", 0, fmt.Sprintf("only %d make() calls with a size seen in the reader packages", nm))
	}
	c.Decides("ERR-DEAD: in the reader packages the error a call stores in a variable is read before that variable is assigned again on every path (a failed read cannot be overwritten by the next one)")
	c.Decides("ERR-SWALLOW: in the reader packages, a branch entered because an error value is non-nil does not leave the function with a nil error (no `return nil`, no bare return with an unset named result)")
	c.errDeadIn("returns either a tree ... or an error", 40, "io/newick/", "io/nexus/", "io/phyloxml/", "io/nextstrain/", "io/utils/", "io/fileutils/")
	clauseP := "it never panics, kills the process or loops forever"
	c.checkEOFLoops("EOFLOOP")
	// CONTRA-IDX over the reader packages
	nidx := 0
	readers := c.AllFuncs(readerPkgs...)
	for _, fi := range readers {
		nidx += c.contraIdx1("CONTRA-IDX", fi.Pkg.TypesInfo, funcName(fi.Obj), fi.Decl.Body, clauseP)
		nidx += c.contraIdx2("CONTRA-IDX", fi.Pkg.TypesInfo, funcName(fi.Obj), fi.Decl.Body, clauseP)
	}
	c.Trivial("CONTRA-IDX", "scope", 0, fmt.Sprintf("%d functions of %s scanned, %d contradictions", len(readers), strings.Join(readerPkgs, ","), nidx))
	// CONTRA-NIL: readers + cone of the operations on a delivered tree
	var roots []*FuncInfo
	for _, n := range []string{"ReinitIndexes", "Newick", "Nodes", "Edges", "Tips", "InternalEdges", "TipEdges", "AllTipNames"} {
		if fi := c.Func("tree", "Tree", n); fi != nil {
			roots = append(roots, fi)
		}
	}
	cone := c.cone(roots, 5)
	nnil := 0
	scanned := map[*types.Func]bool{}
	for _, fi := range append(append([]*FuncInfo{}, readers...), cone...) {
		if scanned[fi.Obj] {
			continue
		}
		scanned[fi.Obj] = true
		nnil += c.contraNil("CONTRA-NIL", fi, "Every delivered tree can be traversed, indexed and written back without crashing")
	}
	c.Trivial("CONTRA-NIL", "scope", 0, fmt.Sprintf("%d functions scanned (readers + cone of ReinitIndexes/Newick/Nodes/Edges/Tips), %d contradictions", len(scanned), nnil))
	c.Extra["contra_nil_functions"] = len(scanned)
	// reader entry points
	var entries []*FuncInfo
	for _, e := range [][3]string{{"io/newick", "Parser", "Parse"}, {"io/nexus", "Parser", "Parse"}, {"io/phyloxml", "Parser", "Parse"}, {"io/nextstrain", "Parser", "Parse"},
		{"io/utils", "", "ReadTreeReader"}, {"io/utils", "", "ReadMultiTrees"}, {"io/fileutils", "", "ReadUntilSemiColon"}, {"io/fileutils", "", "Readln"},
		{"io/phyloxml", "PhyloXML", "FirstTree"}, {"io/phyloxml", "PhyloXML", "IterateTrees"}, {"io/nextstrain", "Nextstrain", "FirstTree"}, {"io/nextstrain", "Nextstrain", "IterateTrees"},
		{"io/nexus", "Nexus", "FirstTree"}, {"io/nexus", "Nexus", "IterateTrees"}} {
		if fi := c.Func(e[0], e[1], e[2]); fi != nil {
			entries = append(entries, fi)
		}
	}
	// NIL-DECODE
	c.Decides("NIL-DECODE: pointers filled by encoding/xml / encoding/json (nil when the element is absent or null) are dereferenced, and elements of decoded slices of pointers are used, only under a successful nil test")
	np := c.nilDecode("NIL-DECODE", []string{"io/phyloxml", "io/nextstrain"}, clauseP)
	c.Extra["decoded_pointer_uses"] = np
	// RECUR
	nrec := 0
	inReader := map[string]bool{}
	for _, r := range readerPkgs {
		inReader[modPath+"/"+r] = true
	}
	for _, fi := range c.cone(entries, 8) {
		if !inReader[fi.Pkg.PkgPath] {
			continue // traversals of a finished tree are bounded by the tree
		}
		info := fi.Pkg.TypesInfo
		for _, call := range callsIn(fi.Decl.Body, true) {
			if calleeOf(info, call) != fi.Obj {
				continue
			}
			nrec++
			key := funcName(fi.Obj) + "/recursion"
			p0 := paramObj(info, fi.Decl, 0)
			good := false
			if len(call.Args) > 0 && p0 != nil {
				arg := unparen(call.Args[0])
				if u, ok := arg.(*ast.UnaryExpr); ok {
					arg = u.X
				}
				// &p.Field[i] / p.Field[i]: an element of a field of the argument, whatever the loop form
				if ie, ok := unparen(arg).(*ast.IndexExpr); ok {
					if fv, x := fieldOfSel(info, ie.X); fv != nil && identObj(info, x) == p0 {
						good = true
					}
				}
				if o := identObj(info, arg); o != nil && !good {
					for _, s := range stackTo(fi.Decl.Body, call) {
						if rs, ok := s.(*ast.RangeStmt); ok && rs.Value != nil && identObj(info, rs.Value) == o {
							if fv, x := fieldOfSel(info, rs.X); fv != nil && identObj(info, x) == p0 {
								good = true
							}
						}
					}
				}
			}
			c.Check(good, "RECUR", key, call.Pos(), "recurses on an element of a field of its argument: depth bounded by the decoded document", "the recursion does not descend into an element obtained by ranging over a field of its first argument: termination is not structural").Clause = "reading terminates"
		}
	}
	if nrec == 0 {
		c.Undecided("RECUR", "readers/recursion", 0, "no recursive reader function found (the PhyloXML / Nextstrain converters are expected to be)")
	}
	// EXIT
	paths := c.exitPaths(entries)
	if len(paths) == 0 {
		c.OK("EXIT", "readers/no-process-exit", 0, fmt.Sprintf("no call path from the %d reader entry points to os.Exit / log.Fatal / ExitWithMessage / panic in repository code", len(entries)))
	}
	for i, p := range paths {
		c.Violation("EXIT", fmt.Sprintf("readers/%s", p[len(p)-2]), entries[0].Decl.Pos(), fmt.Sprintf("a reader can end the process: %s (#%d)", strings.Join(p, " -> "), i+1)).Clause = clauseP
	}
	// GO-CLOSE + ERRFLOW on the reader goroutine
	sites := c.goSites(c.All)
	for _, s := range sites {
		if strings.HasSuffix(s.pkg.PkgPath, "/io/utils") {
			c.goClose("GO-CLOSE", s.launcher, s.ltype, s.pkg, s.fnName, sites, "reading terminates and either reports an error or delivers trees")
		}
	}
	c.multiTreeErrFlow()
	// positive controls on the fixture
	if fx := c.Fixture(); fx != nil {
		sub := c.subCtx(fx)
		hits := map[string]bool{}
		for _, fi := range sub.AllFuncs() {
			if sub.contraIdx1("CONTRA-IDX", fi.Pkg.TypesInfo, fi.Obj.Name(), fi.Decl.Body, "") > 0 {
				hits["IDX1"] = true
			}
			if sub.contraIdx2("CONTRA-IDX", fi.Pkg.TypesInfo, fi.Obj.Name(), fi.Decl.Body, "") > 0 {
				hits["IDX2"] = true
			}
			if sub.contraNil("CONTRA-NIL", fi, "") > 0 {
				hits["NIL"] = true
			}
			if fi.Obj.Name() == "C02ExitDeep" && len(sub.exitPaths([]*FuncInfo{fi})) > 0 {
				hits["EXIT"] = true
			}
		}
		if _, nv := sub.rootOnceWith("ROOT-ONCE", sub.AllFuncs(), func(g *types.Func) bool { return g.Name() == "SetRoot" }); nv == 1 {
			hits["ROOT"] = true
		}
		c.Control("ROOT-ONCE", hits["ROOT"], "fixture.C02RootTwice sets the root under a nil test of a variable refilled from a stack (and C02RootLatched, guarded by a counter, is accepted)")
		c.Control("CONTRA-IDX-1", hits["IDX1"], "fixture.C02IdxAfterLenTest indexes after a non-leaving length test")
		c.Control("CONTRA-IDX-2", hits["IDX2"], "fixture.C02IdxAfterDecrement indexes after decrementing past its guard")
		c.Control("CONTRA-NIL", hits["NIL"], "fixture.C02NilBelief dereferences a pointer it compares with nil")
		c.Control("EXIT", hits["EXIT"], "fixture.C02ExitDeep reaches os.Exit through a helper")
	}
	c.Decides("ROOT-ONCE: a reader sets the root of the tree it builds at most once per call: the guard of SetRoot inside the token loop is a latch (nil test of a variable only ever assigned freshly created nodes, zero test of a pure increment counter, or a flag only ever set), and the recursive builders pass a node just created to every inner call - otherwise nodes are orphaned and the delivered tree's node ids are not 0..n-1, which id-indexed traversals index with")
	c.Extra["setroot_sites"] = c.rootOnce("ROOT-ONCE", readerPkgs...)
	c.Floor("ROOT-ONCE", 3)
	c.Decides("ENTRY-NONNIL: ReadTreeReader turns a document without a tree into an error for every format (FirstTree taken under HasTrees or followed by a nil test); PEEK-IDX: bytes obtained with bufio Peek are indexed only where the error is nil or the length was tested")
	c.entryNonNil("ENTRY-NONNIL")
	c.Floor("ENTRY-NONNIL", 3)
	c.peekIdx("PEEK-IDX", c.All)
	if fx := c.Fixture(); fx != nil {
		sub := c.subCtx(fx)
		_, nv := sub.peekIdx("PEEK-IDX", fx)
		c.Control("PEEK-IDX", nv == 1, "fixture.C02PeekIndex indexes peeked bytes while tolerating io.EOF")
	}
	c.Floor("EOFLOOP", 40)
	c.Floor("RECUR", 2)
	c.Floor("NIL-DECODE", 2)
	c.Floor("GO-CLOSE", 1)
	c.Decides("DEFER-AFTER-CHECK: in the input layer and the commands a deferred method call on a value that a call handed back together with an error is registered after that error has been tested (the value is nil when the call failed)")
	c.deferAfterCheck("DEFER-AFTER-CHECK", c.AllFuncs("io/utils", "io/fileutils", "cmd", "io/newick", "io/nexus", "io/phyloxml", "io/nextstrain"), "reports an error, never panics")
	c.Floor("ERRFLOW", 5)
	c.Floor("CONTROL", 6)
}
