package main

func init() { props["C02"] = checkC02 }

func checkC02(c *Ctx) {
	c.Decides("EOFLOOP: every loop of the reader packages either ranges over a finite collection, is a counter loop, or (a) consumes input on every path to its back edge and (b) has no executable back edge once every input source returns its end-of-input value (greatest fixpoint of an abstract interpretation started from arbitrary loop-carried values) - so it terminates on every finite input")
	c.checkEOFLoops("EOFLOOP")
	c.Floor("EOFLOOP", 40)
}
